import RockitModel.Proofs.Inf
import RockitModel.Generated.InfCert
import Mathlib.Tactic.NormNum
import Mathlib.Tactic.IntervalCases
import Mathlib.Algebra.Order.BigOperators.Group.Finset
/-!
# C15 — `grid='inf'` constraints guarantee satisfaction between grid points
-/
set_option linter.unusedSectionVars false
namespace Rockit.C15
open Rockit Finset

/-! ### the Bernstein certificate, every degree -/
section certificate
variable {K : Type} [Field K] [LinearOrder K] [IsStrictOrderedRing K]

/-- Bernstein basis functions are non-negative on `[0,1]` … -/
theorem basis_nonneg (n i : Nat) (s : K) (h0 : 0 ≤ s) (h1 : s ≤ 1) : 0 ≤ bw n i s := bw_nonneg n i s h0 h1

/-- … and sum to one -/
theorem basis_partition (n : Nat) (s : K) : ∑ i ∈ range (n + 1), bw n i s = 1 := bw_sum n s

/-- **sufficiency**: if every Bernstein coefficient is `≤ ub`, the polynomial is `≤ ub` on `[0,1]` -/
theorem coefficients_le (b : List K) (hb : b ≠ []) (ub s : K) (h0 : 0 ≤ s) (h1 : s ≤ 1)
    (h : ∀ x ∈ b, x ≤ ub) : bernsteinEval b s ≤ ub := by
  rw [bernsteinEval_eq_sum]
  obtain ⟨n, hn⟩ : ∃ n, b.length = n + 1 := ⟨b.length - 1, by
    have := List.length_pos_iff.mpr hb; omega⟩
  rw [hn, Nat.add_sub_cancel]
  apply bernstein_le (fun i => b.getD i 0) n ub s h0 h1
  intro i hi
  have : i < b.length := by omega
  rw [List.getD_eq_getElem?_getD, List.getElem?_eq_getElem this]
  exact h _ (List.getElem_mem this)

theorem coefficients_ge (b : List K) (hb : b ≠ []) (lb s : K) (h0 : 0 ≤ s) (h1 : s ≤ 1)
    (h : ∀ x ∈ b, lb ≤ x) : lb ≤ bernsteinEval b s := by
  rw [bernsteinEval_eq_sum]
  obtain ⟨n, hn⟩ : ∃ n, b.length = n + 1 := ⟨b.length - 1, by
    have := List.length_pos_iff.mpr hb; omega⟩
  rw [hn, Nat.add_sub_cancel]
  apply bernstein_ge (fun i => b.getD i 0) n lb s h0 h1
  intro i hi
  have : i < b.length := by omega
  rw [List.getD_eq_getElem?_getD, List.getElem?_eq_getElem this]
  exact h _ (List.getElem_mem this)

/-! #### how conservative the certificate is (tightness, partial): the first and the last coefficient ARE the polynomial's values at
the two ends of the step, so those two rows are necessary as well as sufficient; for a constraint that is affine along the step the
certificate is equivalent to the constraint on the whole step. (That the gap closes as `M` grows for curved constraints is measured
by the check, not proved.) -/

theorem bw_zero (n i : Nat) : bw n i (0 : K) = if i = 0 then 1 else 0 := by
  unfold bw
  cases i with
  | zero => simp
  | succ i => simp

theorem bw_one (n i : Nat) (hi : i ≤ n) : bw n i (1 : K) = if i = n then 1 else 0 := by
  unfold bw
  by_cases h : i = n
  · subst h; simp
  · have : n - i ≠ 0 := by omega
    simp [h, this]

/-- the first Bernstein coefficient is the value at the start of the step … -/
theorem first_coefficient_is_start_value (b : List K) (hb : b ≠ []) : bernsteinEval b 0 = b.getD 0 0 := by
  rw [bernsteinEval_eq_sum]
  have hpos : 0 < b.length := List.length_pos_iff.mpr hb
  rw [Finset.sum_eq_single 0]
  · simp [bw_zero]
  · intro i _ hi; simp [bw_zero, hi]
  · intro h; exact absurd (Finset.mem_range.mpr hpos) h

/-- … and the last one the value at its end -/
theorem last_coefficient_is_end_value (b : List K) (hb : b ≠ []) : bernsteinEval b 1 = b.getD (b.length - 1) 0 := by
  rw [bernsteinEval_eq_sum]
  have hpos : 0 < b.length := List.length_pos_iff.mpr hb
  rw [Finset.sum_eq_single (b.length - 1)]
  · simp [bw_one]
  · intro i hi hne
    have hi' : i < b.length := by simpa using hi
    rw [bw_one (b.length - 1) i (by omega)]
    simp [hne]
  · intro h; exact absurd (Finset.mem_range.mpr (by omega)) h

/-- **for a constraint that is affine along the step the certificate is exact**: both coefficients non-negative iff the
polynomial is non-negative on the whole step -/
theorem affine_certificate_iff (b0 b1 : K) :
    (0 ≤ b0 ∧ 0 ≤ b1) ↔ ∀ s, 0 ≤ s → s ≤ 1 → 0 ≤ bernsteinEval [b0, b1] s := by
  constructor
  · rintro ⟨h0, h1⟩ s hs0 hs1
    exact coefficients_ge [b0, b1] (by simp) 0 s hs0 hs1 (by intro x hx; simp at hx; rcases hx with rfl | rfl <;> assumption)
  · intro h
    have a := h 0 (le_refl _) zero_le_one
    have b := h 1 zero_le_one (le_refl _)
    rw [first_coefficient_is_start_value _ (by simp)] at a
    rw [last_coefficient_is_end_value _ (by simp)] at b
    simpa using And.intro a b

end certificate

/-! #### the conservatism of the certificate vanishes quadratically with the step length

On a step of (normalised) length `h ≤ 1` the polynomial is `s ↦ p(h·s)`. Its `i`-th Bernstein coefficient differs from its value at the
`i`-th of the `n+1` equidistant points by at most `h²·Σ_{j≥2}|p_j|`: the constant and the linear part are reproduced exactly. So a
trajectory that satisfies the constraint at those points with a margin `h²·Σ_{j≥2}|p_j|` passes the certificate, and the margin goes to
zero like `h²` as `M` grows (`h = T/N/M`). -/
section tightness
variable {K : Type} [Field K] [LinearOrder K] [IsStrictOrderedRing K]

/-- weight of `|p_j|` in the bound: only the curved part counts -/
def curvedPart (a : List K) : K := ∑ j ∈ range a.length, if 2 ≤ j then |a.getD j 0| else 0

theorem choose_ratio_mem (i n j : Nat) (hi : i ≤ n) (hj : j ≤ n) :
    0 ≤ (Nat.choose i j : K) / (Nat.choose n j : K) ∧ (Nat.choose i j : K) / (Nat.choose n j : K) ≤ 1 := by
  have hpos : (0 : K) < (Nat.choose n j : K) := by exact_mod_cast Nat.choose_pos hj
  constructor
  · positivity
  · rw [div_le_one hpos]
    exact_mod_cast Nat.choose_le_choose j hi

theorem certificate_gap [CharZero K] (a : List K) (h : K) (h0 : 0 ≤ h) (h1 : h ≤ 1) (i : Nat) (hi : i < a.length) (hn : 2 ≤ a.length) :
    |(toBernstein (LP.scaleArg h a)).getD i 0 - LP.eval a (h * ((i : K) / ((a.length - 1 : Nat) : K)))| ≤ h ^ 2 * curvedPart a := by
  set n := a.length - 1 with hn'
  have hlen : (LP.scaleArg h a).length = a.length := scaleArg_length h a
  have hnpos : (0 : K) < (n : K) := by
    have : 0 < n := by omega
    exact_mod_cast this
  have hin : i ≤ n := by omega
  -- both quantities as sums over all coefficients
  have hB : (toBernstein (LP.scaleArg h a)).getD i 0 =
      ∑ j ∈ range a.length, (Nat.choose i j : K) / (Nat.choose n j : K) * (a.getD j 0 * h ^ j) := by
    rw [toBernstein_getD _ i (by rw [hlen]; exact hi), hlen]
    have hsub : range (i + 1) ⊆ range a.length := by
      intro x hx; simp only [mem_range] at hx ⊢; omega
    rw [← sum_subset hsub]
    · apply sum_congr rfl
      intro j _
      rw [scaleArg_getD]
    · intro j _ hj
      have : i < j := by simp only [mem_range] at hj; omega
      rw [Nat.choose_eq_zero_of_lt this]
      simp
  have hE : LP.eval a (h * ((i : K) / (n : K))) = ∑ j ∈ range a.length, ((i : K) / (n : K)) ^ j * (a.getD j 0 * h ^ j) := by
    rw [LP.eval_eq_sum]
    apply sum_congr rfl
    intro j _
    rw [mul_pow]; ring
  rw [hB, hE, ← sum_sub_distrib]
  have hq0 : 0 ≤ (i : K) / (n : K) := by positivity
  have hq1 : (i : K) / (n : K) ≤ 1 := by
    rw [div_le_one hnpos]; exact_mod_cast hin
  calc |∑ j ∈ range a.length, ((Nat.choose i j : K) / (Nat.choose n j : K) * (a.getD j 0 * h ^ j) - ((i : K) / (n : K)) ^ j * (a.getD j 0 * h ^ j))|
      ≤ ∑ j ∈ range a.length, |(Nat.choose i j : K) / (Nat.choose n j : K) * (a.getD j 0 * h ^ j) - ((i : K) / (n : K)) ^ j * (a.getD j 0 * h ^ j)| :=
        abs_sum_le_sum_abs _ _
    _ ≤ ∑ j ∈ range a.length, h ^ 2 * (if 2 ≤ j then |a.getD j 0| else 0) := by
        apply sum_le_sum
        intro j hj
        have hjn : j ≤ n := by simp only [mem_range] at hj; omega
        obtain ⟨r0, r1⟩ := choose_ratio_mem (K := K) i n j hin hjn
        have e : (Nat.choose i j : K) / (Nat.choose n j : K) * (a.getD j 0 * h ^ j) - ((i : K) / (n : K)) ^ j * (a.getD j 0 * h ^ j) =
            ((Nat.choose i j : K) / (Nat.choose n j : K) - ((i : K) / (n : K)) ^ j) * (a.getD j 0 * h ^ j) := by ring
        rw [e]
        rcases Nat.lt_or_ge j 2 with hj2 | hj2
        · -- the constant and the linear part are reproduced exactly
          have : (Nat.choose i j : K) / (Nat.choose n j : K) - ((i : K) / (n : K)) ^ j = 0 := by
            interval_cases j
            · simp
            · simp
          rw [this]
          simp [show ¬ (2 ≤ j) by omega]
        · rw [if_pos hj2, abs_mul, abs_mul]
          have q0 : 0 ≤ ((i : K) / (n : K)) ^ j := pow_nonneg hq0 j
          have q1 : ((i : K) / (n : K)) ^ j ≤ 1 := pow_le_one₀ hq0 hq1
          have d1 : |(Nat.choose i j : K) / (Nat.choose n j : K) - ((i : K) / (n : K)) ^ j| ≤ 1 := by
            rw [abs_le]; constructor <;> linarith
          have hp : |h ^ j| ≤ h ^ 2 := by
            rw [abs_of_nonneg (pow_nonneg h0 j)]
            exact pow_le_pow_of_le_one h0 h1 hj2
          calc |(Nat.choose i j : K) / (Nat.choose n j : K) - ((i : K) / (n : K)) ^ j| * (|a.getD j 0| * |h ^ j|)
              ≤ 1 * (|a.getD j 0| * h ^ 2) := by
                apply mul_le_mul d1 _ (by positivity) (by norm_num)
                exact mul_le_mul_of_nonneg_left hp (abs_nonneg _)
            _ = h ^ 2 * |a.getD j 0| := by ring
    _ = h ^ 2 * curvedPart a := by rw [curvedPart, mul_sum]

/-- **tightness**: a polynomial that is at least `h²·Σ_{j≥2}|p_j|` at the `n+1` equidistant points of the step passes the certificate
(every Bernstein coefficient of `s ↦ p(h·s)` is non-negative) — the certificate rejects nothing but a margin that vanishes like `h²` -/
theorem certificate_accepts_with_margin [CharZero K] (a : List K) (h : K) (h0 : 0 ≤ h) (h1 : h ≤ 1) (hn : 2 ≤ a.length)
    (hm : ∀ i, i < a.length → h ^ 2 * curvedPart a ≤ LP.eval a (h * ((i : K) / ((a.length - 1 : Nat) : K)))) :
    ∀ b ∈ toBernstein (LP.scaleArg h a), 0 ≤ b := by
  intro b hb
  obtain ⟨i, hi, rfl⟩ := List.getElem_of_mem hb
  have hi' : i < a.length := by simpa [toBernstein_length, scaleArg_length] using hi
  have g := certificate_gap a h h0 h1 i hi' hn
  have m := hm i hi'
  rw [abs_le] at g
  have e : (toBernstein (LP.scaleArg h a))[i] = (toBernstein (LP.scaleArg h a)).getD i 0 := by
    rw [List.getD_eq_getElem?_getD, List.getElem?_eq_getElem hi]; rfl
  rw [e]
  linarith [g.1]

/-- non-vacuity: `p(s) = 1 + 2s + 3s² − 4s³` has curved part `|3| + |−4| = 7` -/
example : curvedPart ([1, 2, 3, -4] : List ℚ) = 7 := by
  simp [curvedPart, Finset.sum_range_succ]
  norm_num

end tightness

/-! ### the conversion the code performs -/
section conversion
variable {K : Type} [Field K] [CharZero K]

/-- the model's power → Bernstein conversion represents the same polynomial (every degree) -/
theorem conversion_represents (a : List K) (s : K) : bernsteinEval (toBernstein a) s = LP.eval a s :=
  toBernstein_repr a s

/-- one row of `mtimes(Poly_to_Bernstein_matrix_4, coeff.T)` -/
def rowDot (row : List (Int × Nat)) (a : List K) : K :=
  (List.zipWith (fun (m : Int × Nat) x => (intCast m.1 : K) / (m.2 : K) * x) row a).foldl (· + ·) 0

/-- **the literal matrix of `add_inf_constraints` (regenerated from the source on every run) is the
power → Bernstein conversion of degree 4** -/
theorem matrix4_is_conversion (a0 a1 a2 a3 a4 : K) :
    Generated.polyToBernstein4.map (fun row => rowDot row [a0, a1, a2, a3, a4]) = toBernstein [a0, a1, a2, a3, a4] := by
  simp only [Generated.polyToBernstein4, List.map_cons, List.map_nil, rowDot, List.zipWith_cons_cons, List.zipWith_nil_right,
    List.foldl_cons, List.foldl_nil, intCast, toBernstein, List.length_cons, List.length_nil, List.range_succ, List.range_zero,
    List.nil_append, List.cons_append, List.foldl_cons, List.foldl_nil, binom, List.getD_cons_zero, List.getD_cons_succ, nat_eq]
  norm_num

/-- the time scale the coefficients are multiplied with, and the scale an `inf_der` operand is
divided by, are the length of the integrator step the polynomial lives on, and every step of
`add_inf_constraints` that uses them has the expected shape (regenerated from the source) -/
theorem scales_are_step_length :
    Generated.infTscale = .perStep ∧ Generated.infDerDt = .perStep ∧ Generated.infTpowerUsesTscale = true ∧
    Generated.infCoeffScaledByTpower = true ∧ Generated.infDerDividedByDt = true ∧
    Generated.infMatrixAppliedToCoeff = true ∧ Generated.infPlacedAtControlK = true := by decide

end conversion

/-! ### the re-evaluated constraint is the constraint along the step polynomial -/
section semantics
variable {K : Type} [Field K]

/-- what an interval value means: a function of normalised time `s` that it represents exactly -/
def Sem (v : IVal K) (f : K → K) : Prop :=
  match v with
  | .scalar c => ∀ s, f s = c
  | .poly p => ∀ s, f s = LP.eval p s
  | .unsupported => True

theorem sem_add {a b : IVal K} {f g : K → K} (ha : Sem a f) (hb : Sem b g) : Sem (IVal.add a b) (fun s => f s + g s) := by
  cases a <;> cases b <;> simp only [IVal.add, Sem] at * <;> try trivial
  · intro s; rw [ha, hb]
  · intro s; rw [ha, hb, LP.eval_add]; simp
  · intro s; rw [ha, hb, LP.eval_add]; simp
  · intro s; rw [ha, hb, LP.eval_add, LP.eval_padTo, LP.eval_padTo]

theorem sem_neg {a : IVal K} {f : K → K} (ha : Sem a f) : Sem (IVal.neg a) (fun s => - f s) := by
  cases a <;> simp only [IVal.neg, Sem] at * <;> try trivial
  · intro s; rw [ha]
  · intro s; rw [ha, LP.eval_neg]

theorem sem_sub {a b : IVal K} {f g : K → K} (ha : Sem a f) (hb : Sem b g) : Sem (IVal.sub a b) (fun s => f s - g s) := by
  have := sem_add ha (sem_neg hb)
  simpa [IVal.sub, sub_eq_add_neg] using this

theorem sem_mul {a b : IVal K} {f g : K → K} (ha : Sem a f) (hb : Sem b g) : Sem (IVal.mul a b) (fun s => f s * g s) := by
  cases a <;> cases b <;> simp only [IVal.mul, Sem] at * <;> try trivial
  · intro s; rw [ha, hb]
  · intro s; rw [ha, hb, LP.eval_smul]
  · intro s; rw [ha, hb, LP.eval_smul]; ring
  · intro s; rw [ha, hb, LP.eval_mul]

theorem sem_pow {a : IVal K} {f : K → K} (ha : Sem a f) (n : Nat) : Sem (IVal.pow a n) (fun s => npow (f s) n) := by
  cases a with
  | scalar c => simp only [IVal.pow, Sem] at *; intro s; rw [ha]
  | unsupported => trivial
  | poly p =>
    simp only [IVal.pow]
    by_cases h0 : n = 0
    · simp [h0, Sem]
    · simp only [h0, if_false]
      obtain ⟨m, rfl⟩ : ∃ m, n = m + 1 := ⟨n - 1, by omega⟩
      simp only [Nat.add_sub_cancel]
      induction m with
      | zero =>
        simp only [List.range_zero, List.foldl_nil]
        simpa [Sem, npow] using ha
      | succ m ih =>
        rw [List.range_succ, List.foldl_append]
        simp only [List.foldl_cons, List.foldl_nil]
        have := sem_mul (ih (by omega)) ha
        simpa [npow] using this

/-- **re-evaluation is exact**: if the state objects and the special operands represent the functions
`xs i`, `os i` of normalised time and every other symbol is frozen at its value in `env`, then the
interval value of `e` represents `s ↦ e` evaluated with those ingredients -/
theorem ival_sem (e : Expr) (st ops : Nat → IVal K) (env : Env K) (envs : K → Env K)
    (hx : ∀ i, Sem (st i) (fun s => (envs s).get (.x i)))
    (ho : ∀ i, Sem (ops i) (fun s => (envs s).get (.off i)))
    (hfrozen : ∀ sym s, (∀ i, sym ≠ .x i) → (∀ i, sym ≠ .off i) → (envs s).get sym = env.get sym) :
    Sem (e.ival st ops env) (fun s => e.eval (envs s)) := by
  induction e with
  | const n d => simp [Expr.ival, Sem, Expr.eval]
  | sym sy =>
    cases sy <;> simp only [Expr.ival, Expr.eval] <;>
      first
        | exact hx _
        | exact ho _
        | (simp only [Sem]; intro s; exact hfrozen _ s (by intro i; simp) (by intro i; simp))
  | add a b iha ihb => simpa [Expr.ival, Expr.eval] using sem_add iha ihb
  | sub a b iha ihb => simpa [Expr.ival, Expr.eval] using sem_sub iha ihb
  | mul a b iha ihb => simpa [Expr.ival, Expr.eval] using sem_mul iha ihb
  | div a b _ _ => simp [Expr.ival, Sem]
  | neg a iha => simpa [Expr.ival, Expr.eval] using sem_neg iha
  | pow a n iha => simpa [Expr.ival, Expr.eval] using sem_pow iha n

end semantics


/-! ### the rows are sufficient -/
section sufficiency
variable {K : Type} [Field K] [LinearOrder K] [IsStrictOrderedRing K]

theorem bernstein_mono (bp bq : List K) (hlen : bp.length = bq.length)
    (h : ∀ i, i < bp.length → bp.getD i 0 ≤ bq.getD i 0) (s : K) (h0 : 0 ≤ s) (h1 : s ≤ 1) :
    bernsteinEval bp s ≤ bernsteinEval bq s := by
  rw [bernsteinEval_eq_sum, bernsteinEval_eq_sum, ← hlen]
  apply sum_le_sum
  intro i hi
  exact mul_le_mul_of_nonneg_right (h i (by simpa using hi)) (bw_nonneg _ i s h0 h1)

theorem padTo_length (n : Nat) (p : List K) : (LP.padTo n p).length = max n p.length := by
  simp [LP.padTo]; omega

/-- **non-negative certificate rows imply the relation on the whole of `[0,1]`**, for any two
interval values and the functions they represent -/
theorem rows_imply_le [CharZero K] {a b : IVal K} {f g : K → K} (ha : Sem a f) (hb : Sem b g) (scale : K) (hs : 0 < scale)
    (atoms : List K) (h : infAtomsLe a b scale = some atoms) (hne : atoms ≠ []) (hpos : ∀ x ∈ atoms, 0 ≤ x) :
    ∀ s, 0 ≤ s → s ≤ 1 → f s ≤ g s := by
  intro s h0 h1
  cases a with
  | unsupported => simp [infAtomsLe] at h
  | scalar x =>
    cases b with
    | unsupported => simp [infAtomsLe] at h
    | scalar y =>
      simp only [infAtomsLe, Option.some.injEq] at h
      subst h
      have := hpos _ (List.mem_singleton.mpr rfl)
      have hxy : 0 ≤ y - x := by
        have := mul_nonneg this hs.le
        rwa [div_mul_cancel₀ _ hs.ne'] at this
      simp only [Sem] at ha hb
      rw [ha, hb]; linarith
    | poly q =>
      simp only [infAtomsLe, Option.some.injEq] at h
      subst h
      simp only [Sem] at ha hb
      rw [ha, hb, ← toBernstein_repr q s]
      have hq : toBernstein q ≠ [] := by
        intro hq; apply hne; simp [hq]
      apply C15.coefficients_ge _ hq x s h0 h1
      intro bi hbi
      have := hpos ((bi - x) / scale) (List.mem_map.mpr ⟨bi, hbi, rfl⟩)
      have := mul_nonneg this hs.le
      rw [div_mul_cancel₀ _ hs.ne'] at this
      linarith
  | poly p =>
    cases b with
    | unsupported => simp [infAtomsLe] at h
    | scalar y =>
      simp only [infAtomsLe, Option.some.injEq] at h
      subst h
      simp only [Sem] at ha hb
      rw [ha, hb, ← toBernstein_repr p s]
      have hp : toBernstein p ≠ [] := by
        intro hp; apply hne; simp [hp]
      apply C15.coefficients_le _ hp y s h0 h1
      intro ai hai
      have := hpos ((y - ai) / scale) (List.mem_map.mpr ⟨ai, hai, rfl⟩)
      have := mul_nonneg this hs.le
      rw [div_mul_cancel₀ _ hs.ne'] at this
      linarith
    | poly q =>
      simp only [infAtomsLe, Option.some.injEq] at h
      subst h
      simp only [Sem] at ha hb
      rw [ha, hb, ← LP.eval_padTo (max p.length q.length) p, ← LP.eval_padTo (max p.length q.length) q,
        ← toBernstein_repr, ← toBernstein_repr]
      have hl : (toBernstein (LP.padTo (max p.length q.length) p)).length =
          (toBernstein (LP.padTo (max p.length q.length) q)).length := by
        rw [toBernstein_length, toBernstein_length, padTo_length, padTo_length]; omega
      apply bernstein_mono _ _ hl _ s h0 h1
      intro i hi
      have hi2 : i < (toBernstein (LP.padTo (max p.length q.length) q)).length := hl ▸ hi
      rw [List.getD_eq_getElem?_getD, List.getD_eq_getElem?_getD, List.getElem?_eq_getElem hi, List.getElem?_eq_getElem hi2]
      simp only [Option.getD_some]
      have hmem : ((toBernstein (LP.padTo (max p.length q.length) q))[i] - (toBernstein (LP.padTo (max p.length q.length) p))[i]) / scale ∈
          List.zipWith (fun ai bi => (bi - ai) / scale) (toBernstein (LP.padTo (max p.length q.length) p))
            (toBernstein (LP.padTo (max p.length q.length) q)) := by
        rw [List.mem_iff_getElem]
        refine ⟨i, by simp [List.length_zipWith]; exact ⟨hi, hi2⟩, by simp⟩
      have := mul_nonneg (hpos _ hmem) hs.le
      rw [div_mul_cancel₀ _ hs.ne'] at this
      linarith

/-- **sufficiency of the generated rows for `a ≤ b`**: whatever the state objects and operands are,
as long as they represent the functions the environments `envs s` hold (`ival_sem`), non-negative rows
imply the declared relation at every normalised time of the step -/
theorem inf_sufficient [CharZero K] (a b : Expr) (st ops : Nat → IVal K) (env : Env K) (envs : K → Env K)
    (hx : ∀ i, Sem (st i) (fun s => (envs s).get (.x i)))
    (ho : ∀ i, Sem (ops i) (fun s => (envs s).get (.off i)))
    (hfrozen : ∀ sym s, (∀ i, sym ≠ .x i) → (∀ i, sym ≠ .off i) → (envs s).get sym = env.get sym)
    (scale : K) (hs : 0 < scale) (atoms : List K)
    (h : infAtomsLe (a.ival st ops env) (b.ival st ops env) scale = some atoms) (hne : atoms ≠ [])
    (hpos : ∀ x ∈ atoms, 0 ≤ x) :
    ∀ s, 0 ≤ s → s ≤ 1 → a.eval (envs s) ≤ b.eval (envs s) :=
  rows_imply_le (ival_sem a st ops env envs hx ho hfrozen) (ival_sem b st ops env envs hx ho hfrozen) scale hs atoms h hne hpos

/-- **the whole step is covered**: with the coefficients multiplied by powers of the step length `h`
(`infScale = hStep`, `scales_are_step_length`), normalised time `τ/h ∈ [0,1]` is local physical time
`τ ∈ [0,h]` of the step polynomial -/
theorem covers_step (coeffs : List K) (h τ : K) (hh : 0 < h) (h0 : 0 ≤ τ) (h1 : τ ≤ h) :
    LP.eval (LP.scaleArg h coeffs) (τ / h) = LP.eval coeffs τ ∧ 0 ≤ τ / h ∧ τ / h ≤ 1 := by
  refine ⟨?_, div_nonneg h0 hh.le, (div_le_one hh).mpr h1⟩
  rw [LP.eval_scaleArg, mul_div_cancel₀ _ hh.ne']

/-- the derivative operand: the derivative in normalised time divided by the step length is the
derivative in physical time of the step polynomial (chain rule, formal derivative) -/
theorem inf_der_is_time_derivative (coeffs : List K) (h s : K) (hh : h ≠ 0) :
    LP.eval (LP.smul (1 / h) (LP.deriv (LP.scaleArg h coeffs))) s = LP.eval (LP.deriv coeffs) (h * s) := by
  rw [LP.eval_smul]
  have key : ∀ (n : Nat) (w : K) (p : List K),
      LP.eval (LP.derivAux n (LP.scaleArgAux h w p)) s = w * LP.eval (LP.derivAux n p) (h * s) := by
    intro n w p
    induction p generalizing n w with
    | nil => simp [LP.derivAux, LP.scaleArgAux]
    | cons a p ih => simp only [LP.scaleArgAux, LP.derivAux, LP.eval_cons, ih]; ring
  cases coeffs with
  | nil => simp [LP.deriv, LP.scaleArg, LP.scaleArgAux]
  | cons a p =>
    simp only [LP.scaleArg, LP.scaleArgAux, LP.deriv, key, nat_eq, Nat.cast_one]
    field_simp

end sufficiency

/-! ### non-vacuity -/
section examples

/-- `x(s) = 1 + 2s` squared against the bound 10: nine Bernstein rows, all positive, hypotheses met -/
example : infAtomsLe (IVal.mul (.poly [1, 2, 0, 0, 0]) (.poly [1, 2, 0, 0, (0:ℚ)])) (.scalar 10) 1 =
    some [9, 17/2, 55/7, 99/14, 43/7, 71/14, 27/7, 5/2, 1] := by
  simp only [IVal.mul, infAtomsLe, LP.mul, LP.smul, LP.add, toBernstein, List.map, List.length_cons, List.length_nil, List.range_succ,
    List.range_zero, List.nil_append, List.cons_append, List.foldl_cons, List.foldl_nil, binom, List.getD_cons_zero, List.getD_cons_succ, nat_eq]
  norm_num

end examples

end Rockit.C15
