import RockitModel.Proofs.Bridge
import RockitModel.Model.BSpline
import Mathlib.Algebra.BigOperators.Ring.Finset
import Mathlib.Algebra.Order.BigOperators.Ring.Finset
import Mathlib.Algebra.Order.Field.Basic
import Mathlib.Tactic.Ring
import Mathlib.Tactic.FieldSimp
import Mathlib.Tactic.Linarith
import Mathlib.Tactic.Positivity
import Mathlib.Tactic.IntervalCases
import Mathlib.Tactic.NormNum
import Mathlib.Algebra.BigOperators.Group.List.Basic
/-!
# C17 — B-spline signals and SplineMethod trajectories are exact splines of the model (partial)

Proved here: the Cox–de Boor basis the model evaluates (and `eval_on_knots` is compared with) is
non-negative, locally supported and sums to one at every point of the grid, for every degree — so a
signal is a convex combination of its coefficients, and bounds on the coefficients (SplineMethod's
`grid='inf'` rows) bound the signal at EVERY time. Not proved (differentially tested, exact
arithmetic): the derivative-coefficient formula for general degree, linear precision at the Greville
points, equality of optimal trajectories between SplineMethod and shooting.
-/
set_option linter.unusedSectionVars false
namespace Rockit.C17
open Rockit Finset

section basis
variable {K : Type} [Field K] [LinearOrder K] [IsStrictOrderedRing K]

/-- the knot vector is non-decreasing and the span `j` that contains `x` is non-empty -/
structure SpanOK (t : List K) (j : Nat) (x : K) : Prop where
  mono : ∀ a b, a ≤ b → b < t.length → t.getD a 0 ≤ t.getD b 0
  strict : t.getD j 0 < t.getD (j + 1) 0
  lo : t.getD j 0 ≤ x
  hi : x ≤ t.getD (j + 1) 0

/-- **local support**: the basis function `i` of degree `e` vanishes unless `i ≤ j ≤ i + e` -/
theorem local_support (t : List K) (j : Nat) (x : K) (e i : Nat) (h : i + e < j ∨ j < i) :
    coxDeBoor t j x e i = 0 := by
  cases e with
  | zero =>
    simp only [coxDeBoor, nat_eq]
    have : i ≠ j := by omega
    simp [this]
  | succ e =>
    simp only [coxDeBoor]
    have h1 : i + e < j ∨ j < i := by omega
    have h2 : i + 1 + e < j ∨ j < i + 1 := by omega
    simp [h1, h2]

/-- under the guard `i ≤ j ≤ i + e` the Cox–de Boor denominator `t_{i+e+1} − t_i` is positive -/
theorem denom_pos (t : List K) (j : Nat) (x : K) (hs : SpanOK t j x) (e i : Nat) (h1 : i ≤ j) (h2 : j ≤ i + e)
    (hlen : i + e + 1 < t.length) : 0 < t.getD (i + e + 1) 0 - t.getD i 0 := by
  have a1 : t.getD i 0 ≤ t.getD j 0 := hs.mono i j h1 (by omega)
  have a2 : t.getD (j + 1) 0 ≤ t.getD (i + e + 1) 0 := hs.mono (j + 1) (i + e + 1) (by omega) hlen
  have := hs.strict
  linarith

/-- **non-negativity** of every basis function, every degree -/
theorem basis_nonneg (t : List K) (j : Nat) (x : K) (hs : SpanOK t j x) (e : Nat) :
    ∀ i, i + e + 1 < t.length ∨ (i + e < j ∨ j < i) → 0 ≤ coxDeBoor t j x e i := by
  induction e with
  | zero => intro i _; simp only [coxDeBoor, nat_eq]; split <;> simp
  | succ e ih =>
    intro i hi
    simp only [coxDeBoor, nat_eq, Nat.cast_zero]
    apply add_nonneg
    · split
      · exact le_refl _
      · rename_i hg
        have g1 : j ≤ i + e := by omega
        have g2 : i ≤ j := by omega
        have hl : i + e + 1 < t.length := by
          rcases hi with h | h
          · omega
          · omega
        apply mul_nonneg
        · apply div_nonneg
          · have := hs.mono i j g2 (by omega); have := hs.lo; linarith
          · exact (denom_pos t j x hs e i g2 g1 hl).le
        · exact ih i (Or.inl hl)
    · split
      · exact le_refl _
      · rename_i hg
        have g1 : j ≤ i + 1 + e := by omega
        have g2 : i + 1 ≤ j := by omega
        have hl : i + 1 + e + 1 < t.length := by
          rcases hi with h | h
          · omega
          · omega
        apply mul_nonneg
        · apply div_nonneg
          · have := hs.mono (j + 1) (i + e + 2) (by omega) (by omega); have := hs.hi; linarith
          · have := denom_pos t j x hs e (i + 1) g2 g1 hl
            have e1 : i + 1 + e + 1 = i + e + 2 := by omega
            rw [e1] at this
            exact this.le
        · exact ih (i + 1) (Or.inl hl)

/-- the two halves of the recursion, indexed by the lower-degree function they multiply -/
def Aterm (t : List K) (j : Nat) (x : K) (e i : Nat) : K :=
  if i + e < j ∨ j < i then 0 else (x - t.getD i 0) / (t.getD (i + e + 1) 0 - t.getD i 0) * coxDeBoor t j x e i

def Bterm (t : List K) (j : Nat) (x : K) (e i : Nat) : K :=
  if i + e < j ∨ j < i then 0 else (t.getD (i + e + 1) 0 - x) / (t.getD (i + e + 1) 0 - t.getD i 0) * coxDeBoor t j x e i

theorem cdb_succ (t : List K) (j : Nat) (x : K) (e i : Nat) :
    coxDeBoor t j x (e + 1) i = Aterm t j x e i + Bterm t j x e (i + 1) := by
  simp only [coxDeBoor, Aterm, Bterm, nat_eq, Nat.cast_zero]
  have e1 : i + 1 + e + 1 = i + e + 2 := by omega
  rw [e1]

theorem A_add_B (t : List K) (j : Nat) (x : K) (hs : SpanOK t j x) (e i : Nat) (hlen : j + e + 1 < t.length) :
    Aterm t j x e i + Bterm t j x e i = coxDeBoor t j x e i := by
  unfold Aterm Bterm
  by_cases hg : i + e < j ∨ j < i
  · simp [hg, local_support t j x e i hg]
  · simp only [hg, if_false]
    have g1 : j ≤ i + e := by omega
    have g2 : i ≤ j := by omega
    have hd := denom_pos t j x hs e i g2 g1 (by omega)
    field_simp
    ring

/-- **partition of unity**: at every point of a non-empty span `j ≥ e` the basis functions of degree
`e` sum to one -/
theorem partition_of_unity (t : List K) (j : Nat) (x : K) (hs : SpanOK t j x) (M : Nat) (hM : j < M) :
    ∀ e, e ≤ j → j + e < t.length → ∑ i ∈ range M, coxDeBoor t j x e i = 1 := by
  intro e
  induction e with
  | zero =>
    intro _ _
    simp only [coxDeBoor, nat_eq, Nat.cast_one, Nat.cast_zero]
    rw [Finset.sum_ite_eq' (range M) j]
    simp [hM]
  | succ e ih =>
    intro he hlen
    have hS : ∑ i ∈ range M, coxDeBoor t j x (e + 1) i =
        ∑ i ∈ range M, Aterm t j x e i + ∑ i ∈ range M, Bterm t j x e (i + 1) := by
      rw [← sum_add_distrib]
      exact sum_congr rfl (fun i _ => cdb_succ t j x e i)
    have hshift : ∑ i ∈ range M, Bterm t j x e (i + 1) = ∑ i ∈ range M, Bterm t j x e i := by
      have h1 := sum_range_succ' (fun i => Bterm t j x e i) M
      have h2 := sum_range_succ (fun i => Bterm t j x e i) M
      have b0 : Bterm t j x e 0 = 0 := by
        unfold Bterm
        rw [if_pos (by omega : 0 + e < j ∨ j < 0)]
      have bM : Bterm t j x e M = 0 := by
        unfold Bterm
        rw [if_pos (by omega : M + e < j ∨ j < M)]
      rw [b0, add_zero] at h1
      rw [bM, add_zero] at h2
      rw [← h1, h2]
    rw [hS, hshift, ← sum_add_distrib]
    rw [sum_congr rfl (fun i _ => A_add_B t j x hs e i (by omega))]
    exact ih (by omega) (by omega)

/-- **a spline value is a convex combination of its coefficients**: if every coefficient is `≤ ub`
the spline is `≤ ub` at every point of the grid (this is why bounding the coefficients — what
SplineMethod's `grid='inf'` does — bounds the signal for all times), and likewise from below -/
theorem convex_upper (t : List K) (j : Nat) (x : K) (hs : SpanOK t j x) (d M : Nat) (hd : d ≤ j) (hM : j < M)
    (hlen : M + d < t.length) (c : Nat → K) (ub : K) (hc : ∀ i, i < M → c i ≤ ub) :
    ∑ i ∈ range M, c i * coxDeBoor t j x d i ≤ ub := by
  calc ∑ i ∈ range M, c i * coxDeBoor t j x d i ≤ ∑ i ∈ range M, ub * coxDeBoor t j x d i := by
        apply sum_le_sum
        intro i hi
        have hi' : i < M := by simpa using hi
        exact mul_le_mul_of_nonneg_right (hc i hi') (basis_nonneg t j x hs d i (Or.inl (by omega)))
    _ = ub := by rw [← mul_sum, partition_of_unity t j x hs M hM d hd (by omega), mul_one]

theorem convex_lower (t : List K) (j : Nat) (x : K) (hs : SpanOK t j x) (d M : Nat) (hd : d ≤ j) (hM : j < M)
    (hlen : M + d < t.length) (c : Nat → K) (lb : K) (hc : ∀ i, i < M → lb ≤ c i) :
    lb ≤ ∑ i ∈ range M, c i * coxDeBoor t j x d i := by
  calc lb = ∑ i ∈ range M, lb * coxDeBoor t j x d i := by
        rw [← mul_sum, partition_of_unity t j x hs M hM d hd (by omega), mul_one]
    _ ≤ ∑ i ∈ range M, c i * coxDeBoor t j x d i := by
        apply sum_le_sum
        intro i hi
        have hi' : i < M := by simpa using hi
        exact mul_le_mul_of_nonneg_right (hc i hi') (basis_nonneg t j x hs d i (Or.inl (by omega)))

end basis


/-! ### the executable evaluation is the convex combination the theorems talk about -/
section executable
variable {K : Type} [Field K] [LinearOrder K] [IsStrictOrderedRing K]

theorem sum_map_range (g : Nat → K) (n : Nat) : ((List.range n).map g).sum = ∑ i ∈ range n, g i := by
  induction n with
  | zero => simp
  | succ n ih => rw [List.range_succ, List.map_append, List.sum_append, ih, sum_range_succ]; simp

theorem foldl_add_eq_sum (l : List K) (z : K) : l.foldl (· + ·) z = z + l.sum := by
  induction l generalizing z with
  | nil => simp
  | cons a l ih => simp [List.foldl_cons, ih, add_assoc]

/-- `splineEval` (what the driver runs and what `sample` is compared with) is `Σ cᵢ·N_{i,d}(x)` -/
theorem splineEval_eq_sum (xi : List K) (d : Nat) (c : List K) (x : K) (hc : c.length = nBasis xi d) :
    splineEval xi d c x =
      ∑ i ∈ range (nBasis xi d), c.getD i 0 * coxDeBoor (clampedKnots xi d) (spanIdx xi d x) x d i := by
  unfold splineEval basisAt
  simp only [nat_eq, Nat.cast_zero]
  rw [foldl_add_eq_sum, zero_add, ← sum_map_range]
  congr 1
  apply List.ext_getElem
  · simp [hc]
  · intro i h1 h2
    simp only [List.getElem_zipWith, List.getElem_map, List.getElem_range]
    have hi : i < c.length := by simpa using (by simpa using h1 : i < min c.length (nBasis xi d)) |> fun h => lt_of_lt_of_le h (min_le_left _ _)
    rw [List.getD_eq_getElem?_getD, List.getElem?_eq_getElem hi]
    rfl

theorem spanIdx_ge (xi : List K) (d : Nat) (x : K) : d ≤ spanIdx xi d x := by
  unfold spanIdx; omega

theorem foldl_idx_lt (p : Nat → Bool) (m : Nat) (hm : 0 < m) :
    (List.range m).foldl (fun acc k => if p k then k else acc) 0 < m := by
  suffices H : ∀ (n : Nat) (a : Nat), a < m → n ≤ m → (List.range n).foldl (fun acc k => if p k then k else acc) a < m by
    exact H m 0 hm (le_refl m)
  intro n
  induction n with
  | zero => intro a ha _; simpa using ha
  | succ n ih =>
    intro a ha hn
    rw [List.range_succ, List.foldl_append]
    simp only [List.foldl_cons, List.foldl_nil]
    split
    · omega
    · exact ih a ha (by omega)

theorem spanIdx_lt (xi : List K) (d : Nat) (x : K) (h : 2 ≤ xi.length) : spanIdx xi d x < nBasis xi d := by
  unfold spanIdx nBasis
  have := foldl_idx_lt (fun k => decide (xi.getD k (nat 0) ≤ x)) (xi.length - 1) (by omega)
  simp only [decide_eq_true_eq] at this
  omega

/-- **bounds on the coefficients bound the signal** — for the executable spline evaluation, at every
point of the grid, every degree: what makes SplineMethod's `grid='inf'` (bounds imposed on the
coefficients) sufficient for all times -/
theorem signal_le_of_coeffs_le (xi : List K) (d : Nat) (c : List K) (x ub : K) (hxi : 2 ≤ xi.length)
    (hc : c.length = nBasis xi d) (hs : SpanOK (clampedKnots xi d) (spanIdx xi d x) x)
    (h : ∀ v ∈ c, v ≤ ub) : splineEval xi d c x ≤ ub := by
  rw [splineEval_eq_sum xi d c x hc]
  apply convex_upper (clampedKnots xi d) (spanIdx xi d x) x hs d (nBasis xi d) (spanIdx_ge xi d x) (spanIdx_lt xi d x hxi)
  · simp [clampedKnots, nBasis]; omega
  · intro i hi
    have hi' : i < c.length := by omega
    rw [List.getD_eq_getElem?_getD, List.getElem?_eq_getElem hi']
    exact h _ (List.getElem_mem hi')

theorem signal_ge_of_coeffs_ge (xi : List K) (d : Nat) (c : List K) (x lb : K) (hxi : 2 ≤ xi.length)
    (hc : c.length = nBasis xi d) (hs : SpanOK (clampedKnots xi d) (spanIdx xi d x) x)
    (h : ∀ v ∈ c, lb ≤ v) : lb ≤ splineEval xi d c x := by
  rw [splineEval_eq_sum xi d c x hc]
  apply convex_lower (clampedKnots xi d) (spanIdx xi d x) x hs d (nBasis xi d) (spanIdx_ge xi d x) (spanIdx_lt xi d x hxi)
  · simp [clampedKnots, nBasis]; omega
  · intro i hi
    have hi' : i < c.length := by omega
    rw [List.getD_eq_getElem?_getD, List.getElem?_eq_getElem hi']
    exact h _ (List.getElem_mem hi')

end executable

section structure_
variable {K : Type} [Field K]

/-- a degree-`d` signal on a grid with `N+1` points has `N + d` coefficients, on `N + 1 + 2d` clamped knots -/
theorem sizes (xi : List K) (d : Nat) (h : xi ≠ []) :
    nBasis xi d = xi.length - 1 + d ∧ (clampedKnots xi d).length = xi.length + 2 * d := by
  constructor
  · rfl
  · simp [clampedKnots]; omega

/-- each derivative lowers the degree by one, shortens the coefficient list by one and divides by the
horizon: `m` derivatives divide by `T^m` (the clause the seeded changes C16_1/C17_1 break) -/
theorem der_length (xi : List K) (d : Nat) (T : K) (c : List K) :
    (signalDerCoeffs xi d T c).length = c.length - 1 := by
  simp [signalDerCoeffs, bsplineDerivCoeffs]

theorem der_horizon_scaling (xi : List K) (d : Nat) (T : K) (c : List K) :
    signalDerCoeffs xi d T c = (bsplineDerivCoeffs xi d c).map (fun v => v / T) := rfl

theorem der_twice (xi : List K) (d : Nat) (T : K) (c : List K) :
    signalDerIter xi T d 2 c = signalDerCoeffs xi (d - 1) T (signalDerCoeffs xi d T c) := rfl

end structure_

/-! non-vacuity: the clamped quadratic knots of the grid `0,1,3,4`, the point `x = 2` in span 3 -/
example : SpanOK ([0, 0, 0, 1, 3, 4, 4, 4] : List ℚ) 3 2 where
  mono := by
    intro a b hab hb
    simp only [List.length_cons, List.length_nil] at hb
    interval_cases b <;> interval_cases a <;> norm_num [List.getD]
  strict := by norm_num [List.getD]
  lo := by norm_num [List.getD]
  hi := by norm_num [List.getD]

end Rockit.C17
