import RockitModel.Proofs.Bridge
import RockitModel.Model.BSpline
import Mathlib.Algebra.BigOperators.Ring.Finset
import Mathlib.Algebra.Order.BigOperators.Ring.Finset
import Mathlib.Algebra.Order.Field.Basic
import Mathlib.Tactic.Ring
import Mathlib.Tactic.FieldSimp
import Mathlib.Tactic.Linarith
import Mathlib.Tactic.Positivity
import Mathlib.Tactic.IntervalCases
import Mathlib.Tactic.NormNum
import Mathlib.Algebra.BigOperators.Group.List.Basic
import Mathlib.Analysis.Calculus.Deriv.Mul
import Mathlib.Analysis.Calculus.Deriv.Add
import Mathlib.Analysis.Calculus.Deriv.Comp
import Mathlib.Tactic.LinearCombination
/-!
# C17 — B-spline signals and SplineMethod trajectories are exact splines of the model (partial)

Proved here: the Cox–de Boor basis the model evaluates (and `eval_on_knots` is compared with) is
non-negative, locally supported and sums to one at every point of the grid, for every degree — so a
signal is a convex combination of its coefficients, and bounds on the coefficients (SplineMethod's
`grid='inf'` rows) bound the signal at EVERY time. Linear precision at the
Greville points (a coefficient vector sampled from an affine function at the Greville points IS that
function) is proved for every degree as well. Not proved (differentially tested, exact arithmetic): the
derivative-coefficient formula for general degree, equality of optimal trajectories between SplineMethod
and shooting.
-/
set_option linter.unusedSectionVars false
namespace Rockit.C17
open Rockit Finset

section basis
variable {K : Type} [Field K] [LinearOrder K] [IsStrictOrderedRing K]

/-- the knot vector is non-decreasing and the span `j` that contains `x` is non-empty -/
structure SpanOK (t : List K) (j : Nat) (x : K) : Prop where
  mono : ∀ a b, a ≤ b → b < t.length → t.getD a 0 ≤ t.getD b 0
  strict : t.getD j 0 < t.getD (j + 1) 0
  lo : t.getD j 0 ≤ x
  hi : x ≤ t.getD (j + 1) 0

/-- **local support**: the basis function `i` of degree `e` vanishes unless `i ≤ j ≤ i + e` -/
theorem local_support (t : List K) (j : Nat) (x : K) (e i : Nat) (h : i + e < j ∨ j < i) :
    coxDeBoor t j x e i = 0 := by
  cases e with
  | zero =>
    simp only [coxDeBoor, nat_eq]
    have : i ≠ j := by omega
    simp [this]
  | succ e =>
    simp only [coxDeBoor]
    have h1 : i + e < j ∨ j < i := by omega
    have h2 : i + 1 + e < j ∨ j < i + 1 := by omega
    rw [if_pos h1, if_pos h2]
    simp

/-- under the guard `i ≤ j ≤ i + e` the Cox–de Boor denominator `t_{i+e+1} − t_i` is positive -/
theorem denom_pos (t : List K) (j : Nat) (x : K) (hs : SpanOK t j x) (e i : Nat) (h1 : i ≤ j) (h2 : j ≤ i + e)
    (hlen : i + e + 1 < t.length) : 0 < t.getD (i + e + 1) 0 - t.getD i 0 := by
  have a1 : t.getD i 0 ≤ t.getD j 0 := hs.mono i j h1 (by omega)
  have a2 : t.getD (j + 1) 0 ≤ t.getD (i + e + 1) 0 := hs.mono (j + 1) (i + e + 1) (by omega) hlen
  have := hs.strict
  linarith

/-- **non-negativity** of every basis function, every degree -/
theorem basis_nonneg (t : List K) (j : Nat) (x : K) (hs : SpanOK t j x) (e : Nat) :
    ∀ i, i + e + 1 < t.length ∨ (i + e < j ∨ j < i) → 0 ≤ coxDeBoor t j x e i := by
  induction e with
  | zero => intro i _; simp only [coxDeBoor, nat_eq]; split <;> simp
  | succ e ih =>
    intro i hi
    simp only [coxDeBoor, nat_eq, Nat.cast_zero]
    apply add_nonneg
    · split
      · exact le_refl _
      · rename_i hg
        have g1 : j ≤ i + e := by omega
        have g2 : i ≤ j := by omega
        have hl : i + e + 1 < t.length := by
          rcases hi with h | h
          · omega
          · omega
        apply mul_nonneg
        · apply div_nonneg
          · have := hs.mono i j g2 (by omega); have := hs.lo; linarith
          · exact (denom_pos t j x hs e i g2 g1 hl).le
        · exact ih i (Or.inl hl)
    · split
      · exact le_refl _
      · rename_i hg
        have g1 : j ≤ i + 1 + e := by omega
        have g2 : i + 1 ≤ j := by omega
        have hl : i + 1 + e + 1 < t.length := by
          rcases hi with h | h
          · omega
          · omega
        apply mul_nonneg
        · apply div_nonneg
          · have := hs.mono (j + 1) (i + e + 2) (by omega) (by omega); have := hs.hi; linarith
          · have := denom_pos t j x hs e (i + 1) g2 g1 hl
            have e1 : i + 1 + e + 1 = i + e + 2 := by omega
            rw [e1] at this
            exact this.le
        · exact ih (i + 1) (Or.inl hl)

/-- the two halves of the recursion, indexed by the lower-degree function they multiply -/
def Aterm (t : List K) (j : Nat) (x : K) (e i : Nat) : K :=
  if i + e < j ∨ j < i then 0 else (x - t.getD i 0) / (t.getD (i + e + 1) 0 - t.getD i 0) * coxDeBoor t j x e i

def Bterm (t : List K) (j : Nat) (x : K) (e i : Nat) : K :=
  if i + e < j ∨ j < i then 0 else (t.getD (i + e + 1) 0 - x) / (t.getD (i + e + 1) 0 - t.getD i 0) * coxDeBoor t j x e i

theorem cdb_succ (t : List K) (j : Nat) (x : K) (e i : Nat) :
    coxDeBoor t j x (e + 1) i = Aterm t j x e i + Bterm t j x e (i + 1) := by
  simp only [coxDeBoor, Aterm, Bterm, nat_eq, Nat.cast_zero]
  have e1 : i + 1 + e + 1 = i + e + 2 := by omega
  rw [e1]

theorem A_add_B (t : List K) (j : Nat) (x : K) (hs : SpanOK t j x) (e i : Nat) (hlen : j + e + 1 < t.length) :
    Aterm t j x e i + Bterm t j x e i = coxDeBoor t j x e i := by
  unfold Aterm Bterm
  by_cases hg : i + e < j ∨ j < i
  · simp [hg, local_support t j x e i hg]
  · simp only [hg, if_false]
    have g1 : j ≤ i + e := by omega
    have g2 : i ≤ j := by omega
    have hd := denom_pos t j x hs e i g2 g1 (by omega)
    field_simp
    ring

/-- **partition of unity**: at every point of a non-empty span `j ≥ e` the basis functions of degree
`e` sum to one -/
theorem partition_of_unity (t : List K) (j : Nat) (x : K) (hs : SpanOK t j x) (M : Nat) (hM : j < M) :
    ∀ e, e ≤ j → j + e < t.length → ∑ i ∈ range M, coxDeBoor t j x e i = 1 := by
  intro e
  induction e with
  | zero =>
    intro _ _
    simp only [coxDeBoor, nat_eq, Nat.cast_one, Nat.cast_zero]
    rw [Finset.sum_ite_eq' (range M) j]
    simp [hM]
  | succ e ih =>
    intro he hlen
    have hS : ∑ i ∈ range M, coxDeBoor t j x (e + 1) i =
        ∑ i ∈ range M, Aterm t j x e i + ∑ i ∈ range M, Bterm t j x e (i + 1) := by
      rw [← sum_add_distrib]
      exact sum_congr rfl (fun i _ => cdb_succ t j x e i)
    have hshift : ∑ i ∈ range M, Bterm t j x e (i + 1) = ∑ i ∈ range M, Bterm t j x e i := by
      have h1 := sum_range_succ' (fun i => Bterm t j x e i) M
      have h2 := sum_range_succ (fun i => Bterm t j x e i) M
      have b0 : Bterm t j x e 0 = 0 := by
        unfold Bterm
        rw [if_pos (by omega : 0 + e < j ∨ j < 0)]
      have bM : Bterm t j x e M = 0 := by
        unfold Bterm
        rw [if_pos (by omega : M + e < j ∨ j < M)]
      rw [b0, add_zero] at h1
      rw [bM, add_zero] at h2
      rw [← h1, h2]
    rw [hS, hshift, ← sum_add_distrib]
    rw [sum_congr rfl (fun i _ => A_add_B t j x hs e i (by omega))]
    exact ih (by omega) (by omega)

/-- **a spline value is a convex combination of its coefficients**: if every coefficient is `≤ ub`
the spline is `≤ ub` at every point of the grid (this is why bounding the coefficients — what
SplineMethod's `grid='inf'` does — bounds the signal for all times), and likewise from below -/
theorem convex_upper (t : List K) (j : Nat) (x : K) (hs : SpanOK t j x) (d M : Nat) (hd : d ≤ j) (hM : j < M)
    (hlen : M + d < t.length) (c : Nat → K) (ub : K) (hc : ∀ i, i < M → c i ≤ ub) :
    ∑ i ∈ range M, c i * coxDeBoor t j x d i ≤ ub := by
  calc ∑ i ∈ range M, c i * coxDeBoor t j x d i ≤ ∑ i ∈ range M, ub * coxDeBoor t j x d i := by
        apply sum_le_sum
        intro i hi
        have hi' : i < M := by simpa using hi
        exact mul_le_mul_of_nonneg_right (hc i hi') (basis_nonneg t j x hs d i (Or.inl (by omega)))
    _ = ub := by rw [← mul_sum, partition_of_unity t j x hs M hM d hd (by omega), mul_one]

theorem convex_lower (t : List K) (j : Nat) (x : K) (hs : SpanOK t j x) (d M : Nat) (hd : d ≤ j) (hM : j < M)
    (hlen : M + d < t.length) (c : Nat → K) (lb : K) (hc : ∀ i, i < M → lb ≤ c i) :
    lb ≤ ∑ i ∈ range M, c i * coxDeBoor t j x d i := by
  calc lb = ∑ i ∈ range M, lb * coxDeBoor t j x d i := by
        rw [← mul_sum, partition_of_unity t j x hs M hM d hd (by omega), mul_one]
    _ ≤ ∑ i ∈ range M, c i * coxDeBoor t j x d i := by
        apply sum_le_sum
        intro i hi
        have hi' : i < M := by simpa using hi
        exact mul_le_mul_of_nonneg_right (hc i hi') (basis_nonneg t j x hs d i (Or.inl (by omega)))

/-! ### linear precision at the Greville points (Marsden's identity in degree one), every degree -/

/-- sum of the `e` knots `t_{i+1}, …, t_{i+e}` (`e` times the Greville abscissa of basis function `i` of degree `e`) -/
def gsum (t : List K) (i e : Nat) : K := ∑ r ∈ range e, t.getD (i + 1 + r) 0

theorem gsum_succ (t : List K) (i e : Nat) : gsum t i (e + 1) = gsum t i e + t.getD (i + e + 1) 0 := by
  unfold gsum
  rw [sum_range_succ]
  have : i + 1 + e = i + e + 1 := by omega
  rw [this]

/-- the sum of the `e+1` knots `t_i, …, t_{i+e}` -/
theorem gsum_prev (t : List K) (i e : Nat) : ∑ r ∈ range (e + 1), t.getD (i + r) 0 = t.getD i 0 + gsum t i e := by
  unfold gsum
  rw [sum_range_succ']
  simp only [Nat.add_zero]
  rw [add_comm]
  congr 1
  apply sum_congr rfl
  intro r _
  have : i + (r + 1) = i + 1 + r := by omega
  rw [this]

/-- one step of de Boor's algorithm on the Greville sums: the two halves of the recursion recombine to `(x + Σ knots)·N_{i,e}` -/
theorem greville_step (t : List K) (j : Nat) (x : K) (hs : SpanOK t j x) (e i : Nat) (hlen : j + e + 1 < t.length) :
    gsum t i (e + 1) * Aterm t j x e i + (t.getD i 0 + gsum t i e) * Bterm t j x e i = (x + gsum t i e) * coxDeBoor t j x e i := by
  unfold Aterm Bterm
  by_cases hg : i + e < j ∨ j < i
  · simp [hg, local_support t j x e i hg]
  · simp only [hg, if_false]
    have g1 : j ≤ i + e := by omega
    have g2 : i ≤ j := by omega
    have hd := denom_pos t j x hs e i g2 g1 (by omega)
    rw [gsum_succ]
    field_simp
    ring

/-- **`Σ_i (t_{i+1} + … + t_{i+e})·N_{i,e}(x) = e·x`** at every point of a non-empty span, for every degree `e` -/
theorem greville_sum (t : List K) (j : Nat) (x : K) (hs : SpanOK t j x) (M : Nat) (hM : j < M) :
    ∀ e, e ≤ j → j + e < t.length → ∑ i ∈ range M, gsum t i e * coxDeBoor t j x e i = (e : K) * x := by
  intro e
  induction e with
  | zero => intro _ _; simp [gsum]
  | succ e ih =>
    intro he hlen
    have hS : ∑ i ∈ range M, gsum t i (e + 1) * coxDeBoor t j x (e + 1) i =
        ∑ i ∈ range M, gsum t i (e + 1) * Aterm t j x e i + ∑ i ∈ range M, gsum t i (e + 1) * Bterm t j x e (i + 1) := by
      rw [← sum_add_distrib]
      exact sum_congr rfl (fun i _ => by rw [cdb_succ, mul_add])
    -- the second sum, re-indexed: basis function `i+1` carries the knots `t_{i+1} … t_{i+e+1}`, i.e. `t_k + gsum k e` for `k = i+1`
    have hre : ∀ i, gsum t i (e + 1) = t.getD (i + 1) 0 + gsum t (i + 1) e := by
      intro i
      rw [← gsum_prev]
      unfold gsum
      apply sum_congr rfl
      intro r _
      rfl
    have hshift : ∑ i ∈ range M, gsum t i (e + 1) * Bterm t j x e (i + 1) =
        ∑ i ∈ range M, (t.getD i 0 + gsum t i e) * Bterm t j x e i := by
      have h1 := sum_range_succ' (fun i => (t.getD i 0 + gsum t i e) * Bterm t j x e i) M
      have h2 := sum_range_succ (fun i => (t.getD i 0 + gsum t i e) * Bterm t j x e i) M
      have b0 : Bterm t j x e 0 = 0 := by
        unfold Bterm
        rw [if_pos (by omega : 0 + e < j ∨ j < 0)]
      have bM : Bterm t j x e M = 0 := by
        unfold Bterm
        rw [if_pos (by omega : M + e < j ∨ j < M)]
      rw [b0, mul_zero, add_zero] at h1
      rw [bM, mul_zero, add_zero] at h2
      rw [← h2, h1]
      exact sum_congr rfl (fun i _ => by rw [hre])
    rw [hS, hshift, ← sum_add_distrib]
    rw [sum_congr rfl (fun i _ => greville_step t j x hs e i (by omega))]
    simp only [add_mul, sum_add_distrib, ← mul_sum]
    rw [partition_of_unity t j x hs M hM e (by omega) (by omega), ih (by omega) (by omega)]
    push_cast
    ring

/-- **linear precision**: the spline whose coefficients are the Greville abscissae `(t_{i+1}+…+t_{i+d})/d` is the identity, so a
coefficient vector sampled from an affine function of time at the Greville points reproduces that function at every time -/
theorem linear_precision (t : List K) (j : Nat) (x : K) (hs : SpanOK t j x) (d M : Nat) (hd : d ≤ j) (hd1 : 1 ≤ d) (hM : j < M)
    (hlen : j + d < t.length) (a b : K) :
    ∑ i ∈ range M, (a * (gsum t i d / (d : K)) + b) * coxDeBoor t j x d i = a * x + b := by
  have hdne : (d : K) ≠ 0 := by
    have : (0 : K) < (d : K) := by exact_mod_cast hd1
    exact this.ne'
  have h1 := greville_sum t j x hs M hM d hd hlen
  have h0 := partition_of_unity t j x hs M hM d hd hlen
  calc ∑ i ∈ range M, (a * (gsum t i d / (d : K)) + b) * coxDeBoor t j x d i
      = a / (d : K) * ∑ i ∈ range M, gsum t i d * coxDeBoor t j x d i + b * ∑ i ∈ range M, coxDeBoor t j x d i := by
        rw [mul_sum, mul_sum, ← sum_add_distrib]
        apply sum_congr rfl
        intro i _
        field_simp
    _ = a * x + b := by
        rw [h1, h0]
        field_simp

end basis


/-! ### the derivative of the basis functions and of a spline (over ℝ), every degree

Inside a span every basis function is a polynomial in `x`. With `Q_{i,e} = N_{i,e}/(t_{i+e+1} − t_i)` (zero outside the support):
`N_{i,e+1}' = (e+1)·(Q_{i,e} − Q_{i+1,e})`, hence `(Σ cᵢ N_{i,e+1})' = Σ (e+1)(cᵢ − c_{i−1})·Q_{i,e}` — the coefficients
`bspline_derivative` computes. -/
section derivative

/-- `N_{i,e}/(t_{i+e+1} − t_i)`, zero outside the support -/
def Qv {K : Type} [Field K] (t : List K) (j : Nat) (x : K) (e i : Nat) : K :=
  if i + e < j ∨ j < i then 0 else coxDeBoor t j x e i / (t.getD (i + e + 1) 0 - t.getD i 0)

variable {K : Type} [Field K] [LinearOrder K] [IsStrictOrderedRing K]

/-- what the derivative theorems need of the knots: non-decreasing, span `j` non-empty (nothing about where `x` is) -/
structure KnotsOK (t : List K) (j : Nat) : Prop where
  mono : ∀ a b, a ≤ b → b < t.length → t.getD a 0 ≤ t.getD b 0
  strict : t.getD j 0 < t.getD (j + 1) 0

theorem SpanOK.knots {t : List K} {j : Nat} {x : K} (h : SpanOK t j x) : KnotsOK t j := ⟨h.mono, h.strict⟩

theorem denom_ne (t : List K) (j : Nat) (hk : KnotsOK t j) (e i : Nat) (h1 : i ≤ j) (h2 : j ≤ i + e)
    (hlen : i + e + 1 < t.length) : t.getD (i + e + 1) 0 - t.getD i 0 ≠ 0 := by
  have a1 : t.getD i 0 ≤ t.getD j 0 := hk.mono i j h1 (by omega)
  have a2 : t.getD (j + 1) 0 ≤ t.getD (i + e + 1) 0 := hk.mono (j + 1) (i + e + 1) (by omega) hlen
  have := hk.strict
  intro h
  linarith

theorem cdb_succ_Q (t : List K) (j : Nat) (x : K) (e i : Nat) :
    coxDeBoor t j x (e + 1) i = (x - t.getD i 0) * Qv t j x e i + (t.getD (i + e + 2) 0 - x) * Qv t j x e (i + 1) := by
  simp only [coxDeBoor, Qv, nat_eq, Nat.cast_zero]
  have e1 : i + 1 + e + 1 = i + e + 2 := by omega
  rw [e1]
  congr 1
  · split <;> ring
  · split <;> ring

/-- the claimed derivative of `Q_{i,e+1}` -/
def Qd (t : List K) (j : Nat) (x : K) (e i : Nat) : K :=
  if i + (e + 1) < j ∨ j < i then 0
  else ((e : K) + 1) * (Qv t j x e i - Qv t j x e (i + 1)) / (t.getD (i + e + 2) 0 - t.getD i 0)

theorem G1 (t : List K) (j : Nat) (x : K) (hk : KnotsOK t j) (e i : Nat) (hlen : j + e + 2 < t.length) :
    ((e : K) + 1) * Qv t j x (e + 1) i - (x - t.getD i 0) * Qd t j x e i = ((e : K) + 1) * Qv t j x e (i + 1) := by
  by_cases hg : i + (e + 1) < j ∨ j < i
  · have hg' : i + 1 + e < j ∨ j < i + 1 := by omega
    have q1 : Qv t j x (e + 1) i = 0 := by unfold Qv; rw [if_pos hg]
    have q2 : Qv t j x e (i + 1) = 0 := by unfold Qv; rw [if_pos hg']
    have q3 : Qd t j x e i = 0 := by unfold Qd; rw [if_pos hg]
    rw [q1, q2, q3]; ring
  · have hd := denom_ne t j hk (e + 1) i (by omega) (by omega) (by omega)
    have e2 : i + (e + 1) + 1 = i + e + 2 := by omega
    rw [e2] at hd
    have q1 : Qv t j x (e + 1) i = coxDeBoor t j x (e + 1) i / (t.getD (i + e + 2) 0 - t.getD i 0) := by
      unfold Qv; rw [if_neg hg, e2]
    have q3 : Qd t j x e i = ((e : K) + 1) * (Qv t j x e i - Qv t j x e (i + 1)) / (t.getD (i + e + 2) 0 - t.getD i 0) := by
      unfold Qd; rw [if_neg hg]
    rw [q1, q3, cdb_succ_Q]
    field_simp
    ring

theorem G2 (t : List K) (j : Nat) (x : K) (hk : KnotsOK t j) (e i : Nat) (hlen : j + e + 2 < t.length) :
    ((e : K) + 1) * Qv t j x (e + 1) i + (t.getD (i + e + 2) 0 - x) * Qd t j x e i = ((e : K) + 1) * Qv t j x e i := by
  by_cases hg : i + (e + 1) < j ∨ j < i
  · by_cases hj : j < i
    · have q1 : Qv t j x (e + 1) i = 0 := by unfold Qv; rw [if_pos hg]
      have q2 : Qv t j x e i = 0 := by unfold Qv; rw [if_pos (Or.inr hj)]
      have q3 : Qd t j x e i = 0 := by unfold Qd; rw [if_pos hg]
      rw [q1, q2, q3]; ring
    · have hg' : i + e < j ∨ j < i := by omega
      have q1 : Qv t j x (e + 1) i = 0 := by unfold Qv; rw [if_pos hg]
      have q2 : Qv t j x e i = 0 := by unfold Qv; rw [if_pos hg']
      have q3 : Qd t j x e i = 0 := by unfold Qd; rw [if_pos hg]
      rw [q1, q2, q3]; ring
  · have hd := denom_ne t j hk (e + 1) i (by omega) (by omega) (by omega)
    have e2 : i + (e + 1) + 1 = i + e + 2 := by omega
    rw [e2] at hd
    have q1 : Qv t j x (e + 1) i = coxDeBoor t j x (e + 1) i / (t.getD (i + e + 2) 0 - t.getD i 0) := by
      unfold Qv; rw [if_neg hg, e2]
    have q3 : Qd t j x e i = ((e : K) + 1) * (Qv t j x e i - Qv t j x e (i + 1)) / (t.getD (i + e + 2) 0 - t.getD i 0) := by
      unfold Qd; rw [if_neg hg]
    rw [q1, q3, cdb_succ_Q]
    field_simp
    ring

theorem Qv_zero_const (t : List K) (j : Nat) (x y : K) (i : Nat) : Qv t j y 0 i = Qv t j x 0 i := by
  simp [Qv, coxDeBoor]

/-- product rule for one step of the recursion, given the derivatives of the two normalised lower-degree functions -/
theorem step_hasDerivAt (t : List ℝ) (j : Nat) (x : ℝ) (e i : Nat) (d0 d1 : ℝ)
    (h0 : HasDerivAt (fun y => Qv t j y e i) d0 x) (h1 : HasDerivAt (fun y => Qv t j y e (i + 1)) d1 x) :
    HasDerivAt (fun y => coxDeBoor t j y (e + 1) i)
      (Qv t j x e i - Qv t j x e (i + 1) + (x - t.getD i 0) * d0 + (t.getD (i + e + 2) 0 - x) * d1) x := by
  have hf : (fun y => coxDeBoor t j y (e + 1) i) =
      fun y => (y - t.getD i 0) * Qv t j y e i + (t.getD (i + e + 2) 0 - y) * Qv t j y e (i + 1) := by
    funext y; exact cdb_succ_Q t j y e i
  rw [hf]
  have a : HasDerivAt (fun y => (y - t.getD i 0) * Qv t j y e i) (1 * Qv t j x e i + (x - t.getD i 0) * d0) x :=
    ((hasDerivAt_id' x).sub_const (t.getD i 0)).mul h0
  have b : HasDerivAt (fun y => (t.getD (i + e + 2) 0 - y) * Qv t j y e (i + 1))
      (-1 * Qv t j x e (i + 1) + (t.getD (i + e + 2) 0 - x) * d1) x :=
    ((hasDerivAt_id' x).const_sub (t.getD (i + e + 2) 0)).mul h1
  have c : HasDerivAt (fun y => (y - t.getD i 0) * Qv t j y e i + (t.getD (i + e + 2) 0 - y) * Qv t j y e (i + 1))
      (1 * Qv t j x e i + (x - t.getD i 0) * d0 + (-1 * Qv t j x e (i + 1) + (t.getD (i + e + 2) 0 - x) * d1)) x := a.add b
  have e : Qv t j x e i - Qv t j x e (i + 1) + (x - t.getD i 0) * d0 + (t.getD (i + e + 2) 0 - x) * d1 =
      1 * Qv t j x e i + (x - t.getD i 0) * d0 + (-1 * Qv t j x e (i + 1) + (t.getD (i + e + 2) 0 - x) * d1) := by ring
  rw [e]
  exact c

/-- **the derivative of a basis function, every degree**: `N_{i,e+1}'(x) = (e+1)·(Q_{i,e}(x) − Q_{i+1,e}(x))`, as a function of `x`
with the span held fixed (inside a span the basis functions are polynomials) -/
theorem basis_hasDerivAt (t : List ℝ) (j : Nat) (hk : KnotsOK t j) (x : ℝ) :
    ∀ e, j + e + 1 < t.length → ∀ i,
      HasDerivAt (fun y => coxDeBoor t j y (e + 1) i) (((e : ℝ) + 1) * (Qv t j x e i - Qv t j x e (i + 1))) x := by
  intro e
  induction e with
  | zero =>
    intro _ i
    have hQ : ∀ i, HasDerivAt (fun y => Qv t j y 0 i) 0 x := by
      intro i
      have : (fun y => Qv t j y 0 i) = fun _ => Qv t j x 0 i := by funext y; exact Qv_zero_const t j x y i
      rw [this]; exact hasDerivAt_const x _
    convert step_hasDerivAt t j x 0 i 0 0 (hQ i) (hQ (i + 1)) using 1
    simp
  | succ e ih =>
    intro hlen i
    have ih' := ih (by omega)
    have hQ : ∀ i, HasDerivAt (fun y => Qv t j y (e + 1) i) (Qd t j x e i) x := by
      intro i
      by_cases hg : i + (e + 1) < j ∨ j < i
      · have : (fun y => Qv t j y (e + 1) i) = fun _ => (0 : ℝ) := by funext y; unfold Qv; rw [if_pos hg]
        rw [this]
        have : Qd t j x e i = 0 := by unfold Qd; rw [if_pos hg]
        rw [this]; exact hasDerivAt_const x _
      · have : (fun y => Qv t j y (e + 1) i) = fun y => coxDeBoor t j y (e + 1) i / (t.getD (i + (e + 1) + 1) 0 - t.getD i 0) := by
          funext y; unfold Qv; rw [if_neg hg]
        rw [this]
        have hd : Qd t j x e i = ((e : ℝ) + 1) * (Qv t j x e i - Qv t j x e (i + 1)) / (t.getD (i + (e + 1) + 1) 0 - t.getD i 0) := by
          have e2 : i + (e + 1) + 1 = i + e + 2 := by omega
          unfold Qd; rw [if_neg hg, e2]
        rw [hd]
        exact (ih' i).div_const _
    convert step_hasDerivAt t j x (e + 1) i _ _ (hQ i) (hQ (i + 1)) using 1
    have g1 := G1 t j x hk e i (by omega)
    have g2 := G2 t j x hk e (i + 1) (by omega)
    have e3 : i + 1 + e + 2 = i + (e + 1) + 2 := by omega
    rw [e3] at g2
    simp only [Nat.cast_add, Nat.cast_one]
    linear_combination g1 - g2

/-- the derivative coefficients on a knot vector `t`, degree `e+1 → e`: `c'_i = (e+1)(c_{i+1} − c_i)/(t_{i+e+2} − t_{i+1})` -/
def derivCoeff (t : List K) (e : Nat) (c : Nat → K) (i : Nat) : K :=
  ((e : K) + 1) / (t.getD (i + e + 2) 0 - t.getD (i + 1) 0) * (c (i + 1) - c i)

/-- summation by parts: `Σ_i c_i (e+1)(Q_{i,e} − Q_{i+1,e}) = Σ_i c'_i N_{i+1,e}` -/
theorem deriv_sum_by_parts (t : List K) (j : Nat) (x : K) (e M : Nat) (he : e < j) (hM : j < M + 1) (c : Nat → K) :
    ∑ i ∈ range (M + 1), c i * (((e : K) + 1) * (Qv t j x e i - Qv t j x e (i + 1))) =
      ∑ i ∈ range M, derivCoeff t e c i * coxDeBoor t j x e (i + 1) := by
  have q0 : Qv t j x e 0 = 0 := by unfold Qv; rw [if_pos (by omega : 0 + e < j ∨ j < 0)]
  have qM : Qv t j x e (M + 1) = 0 := by unfold Qv; rw [if_pos (by omega : M + 1 + e < j ∨ j < M + 1)]
  have h1 : ∑ i ∈ range (M + 1), c i * (((e : K) + 1) * (Qv t j x e i - Qv t j x e (i + 1))) =
      ((e : K) + 1) * (∑ i ∈ range (M + 1), c i * Qv t j x e i - ∑ i ∈ range (M + 1), c i * Qv t j x e (i + 1)) := by
    rw [← sum_sub_distrib, mul_sum]
    apply sum_congr rfl
    intro i _
    ring
  have h2 : ∑ i ∈ range (M + 1), c i * Qv t j x e i = ∑ i ∈ range M, c (i + 1) * Qv t j x e (i + 1) := by
    rw [sum_range_succ']
    rw [q0]; ring
  have h3 : ∑ i ∈ range (M + 1), c i * Qv t j x e (i + 1) = ∑ i ∈ range M, c i * Qv t j x e (i + 1) := by
    rw [sum_range_succ, qM]; ring
  rw [h1, h2, h3, ← sum_sub_distrib, mul_sum]
  apply sum_congr rfl
  intro i _
  unfold derivCoeff Qv
  by_cases hg : i + 1 + e < j ∨ j < i + 1
  · rw [if_pos hg, local_support t j x e (i + 1) hg]; ring
  · rw [if_neg hg]
    have e2 : i + 1 + e + 1 = i + e + 2 := by omega
    rw [e2]
    ring

/-- **the derivative of a spline piece is the spline piece of the derivative coefficients**, every degree: with the span held fixed,
`(Σ_i c_i N_{i,e+1})' = Σ_i c'_i N_{i+1,e}`, `c'_i = (e+1)(c_{i+1} − c_i)/(t_{i+e+2} − t_{i+1})` — the formula of `bspline_derivative` -/
theorem spline_piece_hasDerivAt (t : List ℝ) (j : Nat) (hk : KnotsOK t j) (x : ℝ) (e M : Nat) (he : e < j) (hM : j < M + 1)
    (hlen : j + e + 1 < t.length) (c : Nat → ℝ) :
    HasDerivAt (fun y => ∑ i ∈ range (M + 1), c i * coxDeBoor t j y (e + 1) i)
      (∑ i ∈ range M, derivCoeff t e c i * coxDeBoor t j x e (i + 1)) x := by
  rw [← deriv_sum_by_parts t j x e M he hM c]
  have h : HasDerivAt (fun y => ∑ i ∈ range (M + 1), c i * coxDeBoor t j y (e + 1) i)
      (∑ i ∈ range (M + 1), c i * (((e : ℝ) + 1) * (Qv t j x e i - Qv t j x e (i + 1)))) x :=
    HasDerivAt.fun_sum (fun i _ => (basis_hasDerivAt t j hk x e hlen i).const_mul (c i))
  exact h

end derivative

/-! ### the executable evaluation is the convex combination the theorems talk about -/
section executable
variable {K : Type} [Field K] [LinearOrder K] [IsStrictOrderedRing K]

theorem sum_map_range (g : Nat → K) (n : Nat) : ((List.range n).map g).sum = ∑ i ∈ range n, g i := by
  induction n with
  | zero => simp
  | succ n ih => rw [List.range_succ, List.map_append, List.sum_append, ih, sum_range_succ]; simp

theorem foldl_add_eq_sum (l : List K) (z : K) : l.foldl (· + ·) z = z + l.sum := by
  induction l generalizing z with
  | nil => simp
  | cons a l ih => simp [List.foldl_cons, ih, add_assoc]

/-- `splineEval` (what the driver runs and what `sample` is compared with) is `Σ cᵢ·N_{i,d}(x)` -/
theorem splineEval_eq_sum (xi : List K) (d : Nat) (c : List K) (x : K) (hc : c.length = nBasis xi d) :
    splineEval xi d c x =
      ∑ i ∈ range (nBasis xi d), c.getD i 0 * coxDeBoor (clampedKnots xi d) (spanIdx xi d x) x d i := by
  unfold splineEval basisAt
  simp only [nat_eq, Nat.cast_zero]
  rw [foldl_add_eq_sum, zero_add, ← sum_map_range]
  congr 1
  apply List.ext_getElem
  · simp [hc]
  · intro i h1 h2
    simp only [List.getElem_zipWith, List.getElem_map, List.getElem_range]
    have hi : i < c.length := by simpa using (by simpa using h1 : i < min c.length (nBasis xi d)) |> fun h => lt_of_lt_of_le h (min_le_left _ _)
    rw [List.getD_eq_getElem?_getD, List.getElem?_eq_getElem hi]
    rfl

theorem spanIdx_ge (xi : List K) (d : Nat) (x : K) : d ≤ spanIdx xi d x := by
  unfold spanIdx; omega

theorem foldl_idx_lt (p : Nat → Bool) (m : Nat) (hm : 0 < m) :
    (List.range m).foldl (fun acc k => if p k then k else acc) 0 < m := by
  suffices H : ∀ (n : Nat) (a : Nat), a < m → n ≤ m → (List.range n).foldl (fun acc k => if p k then k else acc) a < m by
    exact H m 0 hm (le_refl m)
  intro n
  induction n with
  | zero => intro a ha _; simpa using ha
  | succ n ih =>
    intro a ha hn
    rw [List.range_succ, List.foldl_append]
    simp only [List.foldl_cons, List.foldl_nil]
    split
    · omega
    · exact ih a ha (by omega)

theorem spanIdx_lt (xi : List K) (d : Nat) (x : K) (h : 2 ≤ xi.length) : spanIdx xi d x < nBasis xi d := by
  unfold spanIdx nBasis
  have := foldl_idx_lt (fun k => decide (xi.getD k (nat 0) ≤ x)) (xi.length - 1) (by omega)
  simp only [decide_eq_true_eq] at this
  omega

/-! ### every time of the horizon lies in a non-empty span of the clamped knots: `SpanOK` holds for every valid grid -/

/-- a control grid: at least one interval, strictly increasing node times -/
structure GridOK (xi : List K) : Prop where
  two : 2 ≤ xi.length
  strict : ∀ a b, a < b → b < xi.length → xi.getD a 0 < xi.getD b 0

theorem GridOK.mono {xi : List K} (h : GridOK xi) (a b : Nat) (hab : a ≤ b) (hb : b < xi.length) : xi.getD a 0 ≤ xi.getD b 0 := by
  rcases Nat.lt_or_eq_of_le hab with h1 | h1
  · exact (h.strict a b h1 hb).le
  · subst h1; exact le_refl _

/-- entry `i` of the clamped knot vector is the grid time with the index clamped into the grid -/
theorem clampedKnots_getD (xi : List K) (d i : Nat) (hx : xi ≠ []) (hi : i < (clampedKnots xi d).length) :
    (clampedKnots xi d).getD i 0 = xi.getD (min (i - d) (xi.length - 1)) 0 := by
  have hpos : 0 < xi.length := List.length_pos_iff.mpr hx
  have hlen : (clampedKnots xi d).length = xi.length + 2 * d := by simp [clampedKnots]; omega
  unfold clampedKnots
  simp only [nat_eq, Nat.cast_zero, List.getD_eq_getElem?_getD]
  by_cases h1 : i < d
  · rw [List.append_assoc, List.getElem?_append_left (by simpa using h1)]
    have : min (i - d) (xi.length - 1) = 0 := by omega
    rw [this]
    simp [List.getElem?_replicate, h1, List.headD_eq_head?_getD, List.head?_eq_getElem?]
  · by_cases h2 : i < d + xi.length
    · rw [List.append_assoc, List.getElem?_append_right (by simpa using (by omega : d ≤ i))]
      simp only [List.length_replicate]
      rw [List.getElem?_append_left (by omega)]
      have : min (i - d) (xi.length - 1) = i - d := by omega
      rw [this]
    · rw [List.getElem?_append_right (by simp; omega)]
      simp only [List.length_append, List.length_replicate]
      have : min (i - d) (xi.length - 1) = xi.length - 1 := by omega
      rw [this]
      have hi2 : i - (d + xi.length) < d := by omega
      simp [List.getElem?_replicate, hi2, List.getLastD_eq_getLast?, List.getLast?_eq_getElem?]

theorem foldl_last (p : Nat → Prop) [DecidablePred p] (n : Nat) :
    let r := (List.range n).foldl (fun acc k => if p k then k else acc) 0
    (r = 0 ∨ p r) ∧ ∀ k, r < k → k < n → ¬ p k := by
  induction n with
  | zero => simp
  | succ n ih =>
    simp only [List.range_succ, List.foldl_append, List.foldl_cons, List.foldl_nil]
    by_cases hp : p n
    · rw [if_pos hp]
      exact ⟨Or.inr hp, fun k h1 h2 => by omega⟩
    · rw [if_neg hp]
      refine ⟨ih.1, fun k h1 h2 => ?_⟩
      rcases Nat.lt_or_eq_of_le (Nat.lt_succ_iff.mp h2) with h3 | h3
      · exact ih.2 k h1 h3
      · subst h3; exact hp

/-- **for every valid grid and every time between its first and last node the span the evaluation picks is non-empty and contains
the time** — the hypothesis of all the theorems above is met by every grid rockit can build -/
theorem spanOK_of_grid (xi : List K) (d : Nat) (x : K) (hg : GridOK xi) (hlo : xi.getD 0 0 ≤ x) (hhi : x ≤ xi.getD (xi.length - 1) 0) :
    SpanOK (clampedKnots xi d) (spanIdx xi d x) x := by
  have hx : xi ≠ [] := by intro h; have := hg.two; simp [h] at this
  have h2 := hg.two
  have hlen : (clampedKnots xi d).length = xi.length + 2 * d := by simp [clampedKnots]; omega
  have hfold := foldl_last (fun k => xi.getD k 0 ≤ x) (xi.length - 1)
  have hlt := foldl_idx_lt (fun k => decide (xi.getD k (nat 0) ≤ x)) (xi.length - 1) (by omega)
  simp only [decide_eq_true_eq, nat_eq, Nat.cast_zero] at hlt
  set r := (List.range (xi.length - 1)).foldl (fun acc k => if xi.getD k 0 ≤ x then k else acc) 0 with hr
  have hj : spanIdx xi d x = d + r := by simp [spanIdx, hr]
  have kj : (clampedKnots xi d).getD (d + r) 0 = xi.getD r 0 := by
    rw [clampedKnots_getD xi d (d + r) hx (by omega)]
    congr 1; omega
  have kj1 : (clampedKnots xi d).getD (d + r + 1) 0 = xi.getD (r + 1) 0 := by
    rw [clampedKnots_getD xi d (d + r + 1) hx (by omega)]
    congr 1; omega
  refine ⟨?_, ?_, ?_, ?_⟩
  · intro a b hab hb
    rw [clampedKnots_getD xi d a hx (by omega), clampedKnots_getD xi d b hx hb]
    exact hg.mono _ _ (by omega) (by omega)
  · rw [hj, kj, kj1]
    exact hg.strict r (r + 1) (by omega) (by omega)
  · rw [hj, kj]
    rcases hfold.1 with h0 | h0
    · rw [h0]; exact hlo
    · exact h0
  · rw [hj, kj1]
    by_cases hlast : r + 1 = xi.length - 1
    · rw [hlast]; exact hhi
    · have := hfold.2 (r + 1) (by omega) (by omega)
      exact (not_le.mp this).le

/-- **bounds on the coefficients bound the signal** — for the executable spline evaluation, at every
point of the grid, every degree: what makes SplineMethod's `grid='inf'` (bounds imposed on the
coefficients) sufficient for all times -/
theorem signal_le_of_coeffs_le (xi : List K) (d : Nat) (c : List K) (x ub : K) (hxi : 2 ≤ xi.length)
    (hc : c.length = nBasis xi d) (hs : SpanOK (clampedKnots xi d) (spanIdx xi d x) x)
    (h : ∀ v ∈ c, v ≤ ub) : splineEval xi d c x ≤ ub := by
  rw [splineEval_eq_sum xi d c x hc]
  apply convex_upper (clampedKnots xi d) (spanIdx xi d x) x hs d (nBasis xi d) (spanIdx_ge xi d x) (spanIdx_lt xi d x hxi)
  · simp [clampedKnots, nBasis]; omega
  · intro i hi
    have hi' : i < c.length := by omega
    rw [List.getD_eq_getElem?_getD, List.getElem?_eq_getElem hi']
    exact h _ (List.getElem_mem hi')

theorem signal_ge_of_coeffs_ge (xi : List K) (d : Nat) (c : List K) (x lb : K) (hxi : 2 ≤ xi.length)
    (hc : c.length = nBasis xi d) (hs : SpanOK (clampedKnots xi d) (spanIdx xi d x) x)
    (h : ∀ v ∈ c, lb ≤ v) : lb ≤ splineEval xi d c x := by
  rw [splineEval_eq_sum xi d c x hc]
  apply convex_lower (clampedKnots xi d) (spanIdx xi d x) x hs d (nBasis xi d) (spanIdx_ge xi d x) (spanIdx_lt xi d x hxi)
  · simp [clampedKnots, nBasis]; omega
  · intro i hi
    have hi' : i < c.length := by omega
    rw [List.getD_eq_getElem?_getD, List.getElem?_eq_getElem hi']
    exact h _ (List.getElem_mem hi')

theorem foldl_range_add2 (f : Nat → K) (m : Nat) (z : K) :
    (List.range m).foldl (fun acc i => acc + f i) z = z + ∑ i ∈ range m, f i := by
  induction m with
  | zero => simp
  | succ m ih => rw [List.range_succ, List.foldl_append, ih, sum_range_succ]; simp [add_assoc]

/-- the model's Greville points are the knot averages the linear-precision theorem is about -/
theorem greville_getD (xi : List K) (d i : Nat) (hi : i < nBasis xi (d + 1)) :
    (greville xi (d + 1)).getD i 0 = gsum (clampedKnots xi (d + 1)) i (d + 1) / ((d + 1 : Nat) : K) := by
  unfold greville
  simp only [List.getD_eq_getElem?_getD, List.getElem?_map, List.getElem?_range hi, Option.map_some, Option.getD_some, nat_eq, Nat.cast_zero]
  rw [foldl_range_add2, zero_add]
  rfl

/-- **a guess that is an affine function of time, sampled at the Greville points, is reproduced at every time** — the executable
spline evaluation, every degree `≥ 1` (what SplineMethod's `set_initial` relies on; the C10/C17 checks compare rockit with it) -/
theorem signal_affine_of_greville (xi : List K) (d : Nat) (a b x : K) (hxi : 2 ≤ xi.length)
    (hs : SpanOK (clampedKnots xi (d + 1)) (spanIdx xi (d + 1) x) x) :
    splineEval xi (d + 1) ((greville xi (d + 1)).map (fun g => a * g + b)) x = a * x + b := by
  have hc : ((greville xi (d + 1)).map (fun g => a * g + b)).length = nBasis xi (d + 1) := by simp [greville]
  rw [splineEval_eq_sum xi (d + 1) _ x hc]
  have hlen : spanIdx xi (d + 1) x + (d + 1) < (clampedKnots xi (d + 1)).length := by
    have := spanIdx_lt xi (d + 1) x hxi
    simp [clampedKnots, nBasis] at this ⊢
    omega
  rw [← linear_precision (clampedKnots xi (d + 1)) (spanIdx xi (d + 1) x) x hs (d + 1) (nBasis xi (d + 1))
    (spanIdx_ge xi (d + 1) x) (by omega) (spanIdx_lt xi (d + 1) x hxi) hlen a b]
  apply sum_congr rfl
  intro i hi
  have hi' : i < nBasis xi (d + 1) := by simpa using hi
  congr 1
  have hg : i < (greville xi (d + 1)).length := by simpa [greville] using hi'
  rw [List.getD_eq_getElem?_getD, List.getElem?_map, List.getElem?_eq_getElem hg]
  simp only [Option.map_some, Option.getD_some]
  have := greville_getD xi d i hi'
  rw [List.getD_eq_getElem?_getD, List.getElem?_eq_getElem hg] at this
  simp only [Option.getD_some] at this
  rw [this]

/-! ### the derivative formula for the executable model: `bsplineDerivCoeffs` on the clamped knots of one degree less -/

/-- dropping the first knot shifts every index by one -/
theorem cdb_shift (t t' : List K) (j' : Nat) (x : K) (B : Nat) (hsh : ∀ m, m ≤ B → t'.getD m 0 = t.getD (m + 1) 0) :
    ∀ e, j' + e + 1 ≤ B → ∀ i, coxDeBoor t' j' x e i = coxDeBoor t (j' + 1) x e (i + 1) := by
  intro e
  induction e with
  | zero =>
    intro _ i
    simp only [coxDeBoor]
    by_cases h : i = j'
    · simp [h]
    · have : i + 1 ≠ j' + 1 := by omega
      simp [h, this]
  | succ e ih =>
    intro hB i
    have ih' := ih (by omega)
    simp only [coxDeBoor, nat_eq, Nat.cast_zero]
    congr 1
    · by_cases hg : i + e < j' ∨ j' < i
      · have hg' : i + 1 + e < j' + 1 ∨ j' + 1 < i + 1 := by omega
        rw [if_pos hg, if_pos hg']
      · have hg' : ¬ (i + 1 + e < j' + 1 ∨ j' + 1 < i + 1) := by omega
        rw [if_neg hg, if_neg hg', ih' i, hsh i (by omega), hsh (i + e + 1) (by omega)]
        have e1 : i + e + 1 + 1 = i + 1 + e + 1 := by omega
        rw [e1]
    · by_cases hg : i + 1 + e < j' ∨ j' < i + 1
      · have hg' : i + 1 + 1 + e < j' + 1 ∨ j' + 1 < i + 1 + 1 := by omega
        rw [if_pos hg, if_pos hg']
      · have hg' : ¬ (i + 1 + 1 + e < j' + 1 ∨ j' + 1 < i + 1 + 1) := by omega
        rw [if_neg hg, if_neg hg', ih' (i + 1), hsh (i + 1) (by omega), hsh (i + e + 2) (by omega)]
        have e1 : i + e + 2 + 1 = i + 1 + e + 2 := by omega
        rw [e1]

/-- the clamped knots of degree `e` are those of degree `e+1` without the first (and last) one -/
theorem clampedKnots_shift (xi : List K) (e m : Nat) (hx : xi ≠ []) (hm : m < xi.length + 2 * e) :
    (clampedKnots xi e).getD m 0 = (clampedKnots xi (e + 1)).getD (m + 1) 0 := by
  have l1 : (clampedKnots xi e).length = xi.length + 2 * e := by simp [clampedKnots]; omega
  have l2 : (clampedKnots xi (e + 1)).length = xi.length + 2 * (e + 1) := by simp [clampedKnots]; omega
  rw [clampedKnots_getD xi e m hx (by omega), clampedKnots_getD xi (e + 1) (m + 1) hx (by omega)]
  congr 1
  omega

theorem spanIdx_succ (xi : List K) (e : Nat) (x : K) : spanIdx xi (e + 1) x = spanIdx xi e x + 1 := by
  unfold spanIdx; omega

theorem bsplineDerivCoeffs_getD (xi : List K) (e : Nat) (c : List K) (i : Nat) (hi : i < c.length - 1) :
    (bsplineDerivCoeffs xi (e + 1) c).getD i 0 = derivCoeff (clampedKnots xi (e + 1)) e (fun k => c.getD k 0) i := by
  unfold bsplineDerivCoeffs derivCoeff
  simp only [List.getD_eq_getElem?_getD, List.getElem?_map, List.getElem?_range hi, Option.map_some, Option.getD_some, nat_eq,
    Nat.cast_zero, Nat.cast_add, Nat.cast_one]
  have e1 : i + (e + 1) + 1 = i + e + 2 := by omega
  rw [e1]

/-- a valid grid gives knots the derivative theorems accept, for the span of any time of the horizon -/
theorem knotsOK_of_grid (xi : List K) (d : Nat) (x0 : K) (hg : GridOK xi) (hlo : xi.getD 0 0 ≤ x0)
    (hhi : x0 ≤ xi.getD (xi.length - 1) 0) : KnotsOK (clampedKnots xi d) (spanIdx xi d x0) :=
  (spanOK_of_grid xi d x0 hg hlo hhi).knots

/-- the same two statements with the span hypothesis DISCHARGED: any strictly increasing grid, any time of the horizon -/
theorem signal_bounds_on_grid (xi : List K) (d : Nat) (c : List K) (x lb ub : K) (hg : GridOK xi)
    (hlo : xi.getD 0 0 ≤ x) (hhi : x ≤ xi.getD (xi.length - 1) 0) (hc : c.length = nBasis xi d)
    (h : ∀ v ∈ c, lb ≤ v ∧ v ≤ ub) : lb ≤ splineEval xi d c x ∧ splineEval xi d c x ≤ ub :=
  ⟨signal_ge_of_coeffs_ge xi d c x lb hg.two hc (spanOK_of_grid xi d x hg hlo hhi) (fun v hv => (h v hv).1),
   signal_le_of_coeffs_le xi d c x ub hg.two hc (spanOK_of_grid xi d x hg hlo hhi) (fun v hv => (h v hv).2)⟩

theorem affine_guess_reproduced (xi : List K) (d : Nat) (a b x : K) (hg : GridOK xi)
    (hlo : xi.getD 0 0 ≤ x) (hhi : x ≤ xi.getD (xi.length - 1) 0) :
    splineEval xi (d + 1) ((greville xi (d + 1)).map (fun g => a * g + b)) x = a * x + b :=
  signal_affine_of_greville xi d a b x hg.two (spanOK_of_grid xi (d + 1) x hg hlo hhi)

end executable

section executable_derivative
/-- **`bspline_derivative` is the derivative** (every degree, every valid grid): on the span of any time `x0` of the horizon, the polynomial
piece of the degree-`(e+1)` spline with coefficients `c` has, at every `x`, the derivative given by the polynomial piece (same span) of
the degree-`e` spline on the same grid whose coefficients are `bsplineDerivCoeffs xi (e+1) c` -/
theorem spline_derivative_piece (xi : List ℝ) (e : Nat) (c : List ℝ) (x0 x : ℝ) (hg : GridOK xi)
    (hlo : xi.getD 0 0 ≤ x0) (hhi : x0 ≤ xi.getD (xi.length - 1) 0) (hc : c.length = nBasis xi (e + 1)) :
    HasDerivAt
      (fun y => ∑ i ∈ range (nBasis xi (e + 1)), c.getD i 0 * coxDeBoor (clampedKnots xi (e + 1)) (spanIdx xi (e + 1) x0) y (e + 1) i)
      (∑ i ∈ range (nBasis xi e), (bsplineDerivCoeffs xi (e + 1) c).getD i 0 * coxDeBoor (clampedKnots xi e) (spanIdx xi e x0) x e i) x := by
  have hx : xi ≠ [] := by intro h; have := hg.two; simp [h] at this
  have h2 := hg.two
  have hk := knotsOK_of_grid xi (e + 1) x0 hg hlo hhi
  have hjlt := spanIdx_lt xi (e + 1) x0 hg.two
  have hjge := spanIdx_ge xi (e + 1) x0
  have hjlt' := spanIdx_lt xi e x0 hg.two
  have l2 : (clampedKnots xi (e + 1)).length = xi.length + 2 * (e + 1) := by simp [clampedKnots]; omega
  have hn : nBasis xi (e + 1) = nBasis xi e + 1 := by unfold nBasis; omega
  have hne : nBasis xi e = xi.length - 1 + e := rfl
  rw [hn]
  have main := spline_piece_hasDerivAt (clampedKnots xi (e + 1)) (spanIdx xi (e + 1) x0) hk x e (nBasis xi e)
    (by omega) (by omega) (by omega) (fun k => c.getD k 0)
  convert main using 1
  apply sum_congr rfl
  intro i hi
  have hi' : i < nBasis xi e := by simpa using hi
  rw [bsplineDerivCoeffs_getD xi e c i (by omega), spanIdx_succ xi e x0]
  congr 1
  exact cdb_shift (clampedKnots xi (e + 1)) (clampedKnots xi e) (spanIdx xi e x0) x (xi.length + 2 * e - 1)
    (fun m hm => clampedKnots_shift xi e m hx (by omega)) e (by omega) i

/-- at the time itself these pieces are the executable spline evaluations: the value of the derivative spline `splineEval xi e c'` -/
theorem spline_derivative_value (xi : List ℝ) (e : Nat) (c : List ℝ) (x0 : ℝ) (hc : c.length = nBasis xi (e + 1)) :
    (∑ i ∈ range (nBasis xi e), (bsplineDerivCoeffs xi (e + 1) c).getD i 0 * coxDeBoor (clampedKnots xi e) (spanIdx xi e x0) x0 e i) =
      splineEval xi e (bsplineDerivCoeffs xi (e + 1) c) x0 := by
  rw [splineEval_eq_sum]
  simp [bsplineDerivCoeffs, hc, nBasis]

/-- **`der()` of a B-spline signal is its derivative in PHYSICAL time**: the signal lives on the normalised grid, physical time is
`t = t0 + T·τ`, and `get_der` divides the derivative coefficients by the horizon — so `t ↦ S((t − t0)/T)` has derivative
`Σ (c'_i/T)·N_{i,e}((t − t0)/T)`, the spline of `signalDerCoeffs` (the factor `1/T` at EVERY derivative: what the seeded changes
C16_1/C17_1 drop) -/
theorem signal_der_physical_time (xi : List ℝ) (e : Nat) (c : List ℝ) (tau0 t0 T t : ℝ) (hT : T ≠ 0) (hg : GridOK xi)
    (hlo : xi.getD 0 0 ≤ tau0) (hhi : tau0 ≤ xi.getD (xi.length - 1) 0) (hc : c.length = nBasis xi (e + 1)) :
    HasDerivAt
      (fun s => ∑ i ∈ range (nBasis xi (e + 1)),
        c.getD i 0 * coxDeBoor (clampedKnots xi (e + 1)) (spanIdx xi (e + 1) tau0) ((s - t0) / T) (e + 1) i)
      (∑ i ∈ range (nBasis xi e),
        (signalDerCoeffs xi (e + 1) T c).getD i 0 * coxDeBoor (clampedKnots xi e) (spanIdx xi e tau0) ((t - t0) / T) e i) t := by
  have inner : HasDerivAt (fun s : ℝ => (s - t0) / T) (1 / T) t := ((hasDerivAt_id' t).sub_const t0).div_const T
  have outer := spline_derivative_piece xi e c tau0 ((t - t0) / T) hg hlo hhi hc
  have comp := HasDerivAt.comp t outer inner
  have hval : (∑ i ∈ range (nBasis xi e),
        (signalDerCoeffs xi (e + 1) T c).getD i 0 * coxDeBoor (clampedKnots xi e) (spanIdx xi e tau0) ((t - t0) / T) e i) =
      (∑ i ∈ range (nBasis xi e), (bsplineDerivCoeffs xi (e + 1) c).getD i 0 *
        coxDeBoor (clampedKnots xi e) (spanIdx xi e tau0) ((t - t0) / T) e i) * (1 / T) := by
    rw [sum_mul]
    apply sum_congr rfl
    intro i hi
    have hi' : i < (bsplineDerivCoeffs xi (e + 1) c).length := by
      have : i < nBasis xi e := by simpa using hi
      simp [bsplineDerivCoeffs, hc, nBasis] at this ⊢
      omega
    simp only [signalDerCoeffs, List.getD_eq_getElem?_getD, List.getElem?_map, List.getElem?_eq_getElem hi', Option.map_some,
      Option.getD_some]
    ring
  rw [hval]
  exact comp

/-! ### under SplineMethod the integrator-chain dynamics hold identically in time

A chain `x_0' = x_1, x_1' = x_2, …` of length `d` is ONE spline of degree `d` (the head) and its iterated derivative splines: member `m`
has the coefficients `signalDerIter xi T d m c`. Each link of the chain then holds at every time, not only at grid points. -/

/-- the polynomial piece (span of `tau0`) of the degree-`e` spline with coefficients `c`, at normalised time `y` -/
noncomputable def piece (xi : List ℝ) (e : Nat) (c : List ℝ) (tau0 y : ℝ) : ℝ :=
  ∑ i ∈ range (nBasis xi e), c.getD i 0 * coxDeBoor (clampedKnots xi e) (spanIdx xi e tau0) y e i

/-- at the time that selects the span, the piece is the executable spline evaluation -/
theorem piece_eq_splineEval (xi : List ℝ) (e : Nat) (c : List ℝ) (tau0 : ℝ) (hc : c.length = nBasis xi e) :
    piece xi e c tau0 tau0 = splineEval xi e c tau0 := by
  rw [splineEval_eq_sum xi e c tau0 hc]; rfl

theorem signalDerIter_length (xi : List ℝ) (T : ℝ) : ∀ (m d : Nat) (c : List ℝ), (signalDerIter xi T d m c).length = c.length - m := by
  intro m
  induction m with
  | zero => intro d c; rfl
  | succ m ih =>
    intro d c
    simp only [signalDerIter]
    rw [ih]
    simp only [signalDerCoeffs, bsplineDerivCoeffs, List.length_map, List.length_range]
    omega

/-- one more derivative at the END of the iteration -/
theorem signalDerIter_succ_end (xi : List ℝ) (T : ℝ) : ∀ (m d : Nat) (c : List ℝ),
    signalDerIter xi T d (m + 1) c = signalDerCoeffs xi (d - m) T (signalDerIter xi T d m c) := by
  intro m
  induction m with
  | zero => intro d c; rfl
  | succ m ih =>
    intro d c
    have h1 : signalDerIter xi T d (m + 1 + 1) c = signalDerIter xi T (d - 1) (m + 1) (signalDerCoeffs xi d T c) := rfl
    have h2 : signalDerIter xi T d (m + 1) c = signalDerIter xi T (d - 1) m (signalDerCoeffs xi d T c) := rfl
    rw [h1, ih (d - 1) (signalDerCoeffs xi d T c), h2]
    have : d - 1 - m = d - (m + 1) := by omega
    rw [this]

/-- **every link of an integrator chain holds identically in time**: member `m+1` of the chain is the time derivative of member `m`, in
physical time `t = t0 + T·τ`, at every time of every span of every valid grid, for every chain length `d` and every `m < d` -/
theorem chain_dynamics_hold (xi : List ℝ) (d m : Nat) (hm : m < d) (c : List ℝ) (tau0 t0 T t : ℝ) (hT : T ≠ 0) (hg : GridOK xi)
    (hlo : xi.getD 0 0 ≤ tau0) (hhi : tau0 ≤ xi.getD (xi.length - 1) 0) (hc : c.length = nBasis xi d) :
    HasDerivAt (fun s => piece xi (d - m) (signalDerIter xi T d m c) tau0 ((s - t0) / T))
      (piece xi (d - (m + 1)) (signalDerIter xi T d (m + 1) c) tau0 ((t - t0) / T)) t := by
  obtain ⟨e, he⟩ : ∃ e, d - m = e + 1 := ⟨d - m - 1, by omega⟩
  have he' : d - (m + 1) = e := by omega
  have hlen : (signalDerIter xi T d m c).length = nBasis xi (e + 1) := by
    rw [signalDerIter_length, hc]
    unfold nBasis
    omega
  have := signal_der_physical_time xi e (signalDerIter xi T d m c) tau0 t0 T t hT hg hlo hhi hlen
  rw [signalDerIter_succ_end, he, he']
  exact this

end executable_derivative

section structure_
variable {K : Type} [Field K]

/-- a degree-`d` signal on a grid with `N+1` points has `N + d` coefficients, on `N + 1 + 2d` clamped knots -/
theorem sizes (xi : List K) (d : Nat) (h : xi ≠ []) :
    nBasis xi d = xi.length - 1 + d ∧ (clampedKnots xi d).length = xi.length + 2 * d := by
  constructor
  · rfl
  · simp [clampedKnots]; omega

/-- each derivative lowers the degree by one, shortens the coefficient list by one and divides by the
horizon: `m` derivatives divide by `T^m` (the clause the seeded changes C16_1/C17_1 break) -/
theorem der_length (xi : List K) (d : Nat) (T : K) (c : List K) :
    (signalDerCoeffs xi d T c).length = c.length - 1 := by
  simp [signalDerCoeffs, bsplineDerivCoeffs]

theorem der_horizon_scaling (xi : List K) (d : Nat) (T : K) (c : List K) :
    signalDerCoeffs xi d T c = (bsplineDerivCoeffs xi d c).map (fun v => v / T) := rfl

theorem der_twice (xi : List K) (d : Nat) (T : K) (c : List K) :
    signalDerIter xi T d 2 c = signalDerCoeffs xi (d - 1) T (signalDerCoeffs xi d T c) := rfl

end structure_

/-! non-vacuity: the clamped quadratic knots of the grid `0,1,3,4`, the point `x = 2` in span 3 -/
example : SpanOK ([0, 0, 0, 1, 3, 4, 4, 4] : List ℚ) 3 2 where
  mono := by
    intro a b hab hb
    simp only [List.length_cons, List.length_nil] at hb
    interval_cases b <;> interval_cases a <;> norm_num [List.getD]
  strict := by norm_num [List.getD]
  lo := by norm_num [List.getD]
  hi := by norm_num [List.getD]

/-- the grid `0,1,3,4` is a valid grid -/
example : GridOK ([0, 1, 3, 4] : List ℚ) where
  two := by simp
  strict := by
    intro a b hab hb
    simp only [List.length_cons, List.length_nil] at hb
    interval_cases b <;> interval_cases a <;> norm_num [List.getD]

end Rockit.C17
