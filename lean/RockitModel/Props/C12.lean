import RockitModel.Proofs.Bridge
import RockitModel.Model.Stages
import RockitModel.Generated.Clone
import Mathlib.Data.List.Basic
/-!
# C12 — stages compose without interference; clones equal their template
-/
set_option linter.unusedSectionVars false
namespace Rockit.C12
open Rockit
variable {K : Type} [Field K]

/-- **disjoint union**: the rows of a stage tree are the rows of its children, one child after the
other, followed by the parent's own rows — nothing else -/
theorem rows_disjoint_union (m : Multi K) :
    m.nlp.rows = m.stages.flatMap Multi.stageRows ++ m.parentRows := rfl

/-- a row of the tree belongs to exactly one source: some child, or the parent -/
theorem row_source (m : Multi K) (r : Row K) :
    r ∈ m.nlp.rows ↔ (∃ c ∈ m.stages, r ∈ Multi.stageRows c) ∨ r ∈ m.parentRows := by
  simp [rows_disjoint_union, List.mem_flatMap]

theorem foldl_add_objective (l : List (Ctx K)) (z : K) :
    l.foldl (fun acc c => acc + c.objective) z = z + (l.map (·.objective)).sum := by
  induction l generalizing z with
  | nil => simp
  | cons c l ih => simp [List.foldl_cons, ih, add_assoc]

/-- **the total objective is the parent's own expression plus the sum of the children's objectives** -/
theorem objective_sum (m : Multi K) :
    m.nlp.f = m.objective.eval m.env + (m.stages.map (·.objective)).sum := by
  simp [Multi.nlp, foldl_add_objective]

/-- **frame**: a child's rows depend on that child only — replacing any OTHER child (its model,
method, grid, decision values, parameters) leaves them untouched -/
theorem frame (m : Multi K) (i j : Nat) (c' : Ctx K) (hij : i ≠ j) :
    ({ m with stages := m.stages.set j c' }.stages[i]?).map Multi.stageRows = (m.stages[i]?).map Multi.stageRows := by
  simp [List.getElem?_set_ne (Ne.symm hij)]

/-- **placeholders are local**: `at_t0/at_tf/integral/T/t0/tf` of child `i`, as seen by the parent,
are computed from child `i` alone -/
theorem ref_local (m : Multi K) (i j : Nat) (c' : Ctx K) (hij : i ≠ j) (r : StageRef)
    (hr : r = .ph i k ∨ r = .T i ∨ r = .t0 i ∨ r = .tf i) :
    ({ m with stages := m.stages.set j c' } : Multi K).refVal r = m.refVal r := by
  rcases hr with h | h | h | h <;> subst h <;> simp [Multi.refVal, List.getElem?_set_ne (Ne.symm hij)]

/-- the parent's rows see the children only through the reference values -/
theorem parent_rows_through_refs (m m' : Multi K) (hV : m.V = m'.V) (hP : m.P = m'.P) (hc : m.cons = m'.cons)
    (hr : m.refs.map m.refVal = m'.refs.map m'.refVal) : m.parentRows = m'.parentRows := by
  simp [Multi.parentRows, Multi.env, hV, hP, hc, hr]

/-- **a clone is the directly declared stage with the same content and the overridden horizon** -/
theorem clone_eq_direct (t : StageDesc K) (ov : Overrides K) : t.clone ov = t.direct ov := by
  cases hT : ov.T <;> cases ht : ov.t0 <;> simp [StageDesc.clone, StageDesc.direct, hT, ht]

/-- cloning without overrides keeps the template's horizon; with overrides, takes them -/
theorem clone_horizon (t : StageDesc K) (T t0 : K) :
    (t.clone { T := some T, t0 := some t0 }).T = some T ∧ (t.clone { T := some T, t0 := some t0 }).t0 = some t0 ∧
    (t.clone {}).T = t.T ∧ (t.clone {}).t0 = t.t0 := by
  simp [StageDesc.clone]

/-! ### the table of `Stage.clone`, regenerated from the source on every run -/

def entryOK (e : String × Generated.CloneKind × Bool) : Bool :=
  e.2.1 != .missing &&
  (!(Generated.cloneMustSubstitute.contains e.1) || e.2.2) &&
  (!(Generated.cloneMustDeepcopy.contains e.1) || e.2.1 == .deepcopy) &&
  (!(Generated.cloneMustNotShare.contains e.1) || e.2.1 != .shared)

/-- **every container of the template reaches the clone** (nothing is dropped), **nested containers
are deep-copied** (clones and template share no mutable list), **no table an instance writes to — parameter values, derivative scales,
guesses, right-hand sides, constraints — is shared by reference** and **every container whose expressions
can mention the template's `t`, `T`, `t0` or other placeholders goes through the substitution that
renews them** — decided over the table extracted from `Stage.clone` as it is now -/
theorem clone_table_ok : Generated.cloneTable.all entryOK = true := by decide

/-- the substitution that renews the template's time placeholders in an instance maps each of `T`, `t0`, `t`, `DT`, `DT_control` to the
instance's symbol OF THE SAME NAME (the chain of `Stage.clone` as it is now, regenerated on every run): an instance sees its own integrator
step where the template wrote `DT` and its own control-interval length where the template wrote `DT_control` -/
theorem clone_time_symbols_map_to_their_own :
    Generated.cloneTimeSymbols.all (fun p => p.1 == p.2) = true ∧
    ["T", "t0", "t", "DT", "DT_control"].all (fun n => Generated.cloneTimeSymbols.any (fun p => p.1 == n)) = true := by decide

end Rockit.C12
