import RockitModel.Proofs.Bridge
import RockitModel.Model.Transcribe
import Mathlib.Tactic.NormNum
import RockitModel.Proofs.Glue
import RockitModel.Generated.Glue
import RockitModel.Generated.Clone
/-!
# C09 — a parametric OCP is the family of OCPs with the values written in
-/
set_option linter.unusedSectionVars false
namespace Rockit.C09
open Rockit
variable {K : Type} [Field K]

/-- Substitution lemma: evaluating `e[σ]` in `env` equals evaluating `e` in any environment `env'`
that gives every substituted symbol the value of its replacement and agrees with `env` elsewhere. -/
theorem eval_subst (e : Expr) (σ : Sym → Option Expr) (env env' : Env K)
    (h : ∀ s, match σ s with
              | some r => r.eval env = env'.get s
              | none => env.get s = env'.get s) :
    (e.subst σ).eval env = e.eval env' := by
  induction e with
  | const n d => rfl
  | sym s =>
    have := h s
    simp only [Expr.subst, Expr.eval]
    cases hs : σ s <;> simp_all [Expr.eval]
  | add a b iha ihb => simp only [Expr.subst, Expr.eval, iha, ihb]
  | sub a b iha ihb => simp only [Expr.subst, Expr.eval, iha, ihb]
  | mul a b iha ihb => simp only [Expr.subst, Expr.eval, iha, ihb]
  | div a b iha ihb => simp only [Expr.subst, Expr.eval, iha, ihb]
  | neg a iha => simp only [Expr.subst, Expr.eval, iha]
  | pow a n iha => simp only [Expr.subst, Expr.eval, iha]

/-- writing the numbers `vals` in place of the global parameters -/
def constP (vals : Array (Int × Nat)) : Sym → Option Expr
  | .p i => (vals[i]?).map (fun v => Expr.const v.1 v.2)
  | _ => none

/-- the parametric expression at parameter value `vals` is the expression with the constants written in
(for every expression of the OCP: right-hand sides, constraint bodies and bounds, objective integrands) -/
theorem constants_written_in (e : Expr) (vals : Array (Int × Nat)) (env : Env K)
    (hp : env.p = vals.map (fun v => (intCast v.1 : K) / (v.2 : K))) :
    (e.subst (constP vals)).eval { env with p := #[] } = e.eval env := by
  apply eval_subst
  intro s
  cases s <;> simp only [constP] <;> try rfl
  next i =>
    cases hv : vals[i]? with
    | none =>
      have hi : vals.size ≤ i := by simpa using (Array.getElem?_eq_none_iff.mp hv)
      simp [Env.get, hp, Array.getD_eq_getD_getElem?, hv]
    | some v =>
      simp only [Option.map, Expr.eval, Env.get, hp]
      have hi : i < vals.size := by
        by_contra hc; simp [Array.getElem?_eq_none (by omega : vals.size ≤ i)] at hv
      simp [Array.getD_eq_getD_getElem?, Array.getElem?_map, hv]

section layout
variable (c : Ctx K)

/-- every environment the transcription evaluates an expression in sees the SAME global parameter
vector, and column `k` of each per-interval parameter on interval `k` -/
theorem env_params (k i j : Nat) (x : Vector K c.o.nx) (z : Array K) (t DT DTc : K) (ph off : Array K) :
    (c.rhsEnv k x z t DT DTc).p = c.pt.P ∧ (c.envNode (.at k) off).p = c.pt.P ∧ (c.envNode .final off).p = c.pt.P ∧
    (c.envStep k i).p = c.pt.P ∧ (c.envRoot k i j).p = c.pt.P ∧ (c.envGlobal ph).p = c.pt.P ∧
    (c.rhsEnv k x z t DT DTc).pc = c.pt.Pc.getD k #[] ∧ (c.envNode (.at k) off).pc = c.pt.Pc.getD k #[] ∧
    (c.envStep k i).pc = c.pt.Pc.getD k #[] ∧ (c.envRoot k i j).pc = c.pt.Pc.getD k #[] ∧
    (c.rhsEnv k x z t DT DTc).pcp = c.pt.Pcp.getD k #[] ∧ (c.envNode (.at k) off).pcp = c.pt.Pcp.getD k #[] ∧
    (c.envStep k i).pcp = c.pt.Pcp.getD k #[] :=
  ⟨rfl, rfl, rfl, rfl, rfl, rfl, rfl, rfl, rfl, rfl, rfl, rfl, rfl⟩

/-- with `include_last` the extra column `N` applies at the final node; without it the final node
sees the last interval's column -/
theorem final_columns (off : Array K) :
    (c.envNode .final off).pcp = c.pt.Pcp.getD c.N #[] ∧ (c.envNode .final off).pc = c.pt.Pc.getD (c.N - 1) #[] :=
  ⟨rfl, rfl⟩

/-- a horizon given by a parameter behaves like that number: the grid only sees the value -/
theorem horizon_value (k : Nat) :
    c.tau k = c.o.method.grid.tau c.N c.pt.t0 c.pt.T (fun k => c.pt.t0l.getD k (nat 0)) (fun k => c.pt.Tl.getD k (nat 0)) k := rfl

end layout

/-- parameter store as a history: the value in effect is the last one assigned, and assigning one
parameter leaves every other untouched -/
def store (ops : List (Nat × K)) (init : Nat → Option K) : Nat → Option K :=
  ops.foldl (fun s op => fun i => if i = op.1 then some op.2 else s i) init

theorem store_last (ops : List (Nat × K)) (init : Nat → Option K) (p : Nat) (v : K) :
    store (ops ++ [(p, v)]) init p = some v := by
  simp [store, List.foldl_append]

theorem store_frame (ops : List (Nat × K)) (init : Nat → Option K) (p q : Nat) (v : K) (h : q ≠ p) :
    store (ops ++ [(p, v)]) init q = store ops init q := by
  simp [store, List.foldl_append, h]

/-! non-vacuity -/
example : ((Expr.mul (.sym (.p 0)) (.sym (.x 0))).subst (constP #[(3, 2)])).eval
    ({ x := #[(4:ℚ)], t := 0, T := 1, t0 := 0, DT := 0, DTc := 0 } : Env ℚ) = 6 := by
  simp [Expr.subst, constP, Expr.eval, Env.get, intCast]; norm_num


/-! ### matrix-valued parameters keep their element layout; one call on a concatenation gives every symbol its own values -/
section concatenations

/-- `set_value(vertcat/horzcat/veccat(p_1, …, p_n), values)`: walking the symbols with a running offset that advances by each symbol's
number of entries hands every symbol exactly its own entries of the flattened value — whatever the shapes (a matrix in the middle
included) -/
theorem concatenation_gives_each_its_own (parts : List (List K)) :
    splitBy (parts.map List.length) parts.flatten = parts := splitBy_flatten parts

/-- the loop as written in `casadi_helpers.for_all_primitives` (regenerated from the source on every run): both the slice handed to a
symbol and the advance of the offset use the symbol's number of entries -/
theorem source_set_value_glue_as_expected :
    Rockit.Generated.glueSizes.filter (fun r => r.1 == "for_all_primitives") =
      [("for_all_primitives", "stride", "nnz"), ("for_all_primitives", "slice", "nnz")] := by decide

/-- what a stride by the number of ROWS does after a 2×2 matrix: the next symbol reads an entry of the matrix -/
theorem wrong_stride_breaks_it :
    splitByStride [(4, 2), (1, 1)] [11, 21, 12, 22, (7 : Nat)] ≠ splitBy [4, 1] [11, 21, 12, 22, 7] := by decide

end concatenations


/-! ### a later set_value replaces that parameter's value only — also among the instances of one template -/
theorem parameter_values_are_per_stage :
    (Rockit.Generated.cloneTable.filter (fun e => e.1 == "_param_vals")).all (fun e => e.2.1 == .copy || e.2.1 == .deepcopy) = true ∧
    (Rockit.Generated.cloneTable.filter (fun e => e.1 == "_param_vals")).length = 1 := by decide

end Rockit.C09
