import RockitModel.Proofs.Bridge
import RockitModel.Model.Initial
import Mathlib.Data.List.Basic
import Mathlib.Tactic.Ring
import RockitModel.Proofs.Glue
import RockitModel.Generated.Glue
/-!
# C10 — the solver starts from exactly the user's initial guess
-/
set_option linter.unusedSectionVars false
namespace Rockit.C10
open Rockit
variable {K : Type} [Field K]

/-- the last call for a symbol wins … -/
theorem last_call_wins {β : Type} (calls : List (Nat × β)) (i : Nat) (g : β) :
    guessOf (calls ++ [(i, g)]) i = some g := by
  simp [guessOf]

/-- … and a call for one symbol leaves the guesses of every other symbol untouched -/
theorem frame {β : Type} (calls : List (Nat × β)) (i j : Nat) (g : β) (h : j ≠ i) :
    guessOf (calls ++ [(i, g)]) j = guessOf calls j := by
  simp [guessOf, List.find?_cons, h.symm]

/-- anything never given starts at zero -/
theorem unset_is_zero (c : Ctx K) (col : Nat) (t : K) : c.guessVal none col t = 0 := by
  simp [Ctx.guessVal]

/-- a constant guess applies everywhere, whatever the point -/
theorem const_everywhere (c : Ctx K) (v : K) (col : Nat) (t : K) : c.guessVal (some (.const v)) col t = v := rfl

/-- expressions of time are evaluated at the given time with the guessed horizon -/
theorem expr_at_time (c : Ctx K) (e : Expr) (col : Nat) (t : K) :
    c.guessVal (some (.expr e)) col t = e.eval (c.envHat t) ∧ (c.envHat t).t = t ∧
    (c.envHat t).T = c.pt.T ∧ (c.envHat t).t0 = c.pt.t0 := ⟨rfl, rfl, rfl, rfl⟩

/-- column-wise arrays: column `k` for node / interval `k` -/
theorem array_column (c : Ctx K) (cs : List K) (k : Nat) (t : K) (hk : k < cs.length) :
    c.guessVal (some (.cols cs)) k t = cs.getD k 0 := by
  simp [Ctx.guessVal, hk]

/-- states (and `include_last` variables) start at the guess taken at the NODE times of the guessed grid -/
theorem node_quantities (c : Ctx K) (calls : List (Nat × Guess K)) (i k : Nat) :
    c.startNode calls i k = c.guessVal (guessOf calls i) k (c.tauHat k) := rfl

/-- lemma on stores: a slot ends up with the value of the last write to it -/
theorem lastWrite_append_same (ws : List (Nat × K)) (j : Nat) (v : K) :
    lastWrite (ws ++ [(j, v)]) j = v := by
  simp [lastWrite]

theorem lastWrite_range (f : Nat → K) (n k : Nat) (hk : k < n) (pre : List (Nat × K)) :
    lastWrite (pre ++ (List.range n).map (fun k => (k, f k))) k = f k := by
  induction n with
  | zero => omega
  | succ n ih =>
    rw [List.range_succ, List.map_append, ← List.append_assoc]
    by_cases h : k = n
    · subst h; simp [lastWrite]
    · have hk' : k < n := by omega
      have := ih hk'
      simp only [lastWrite, List.map_cons, List.map_nil, List.reverse_append, List.reverse_cons, List.reverse_nil,
        List.nil_append, List.singleton_append, List.find?_cons] at this ⊢
      have hne : (n == k) = false := by simp; omega
      simp only [hne]
      exact this

/-- controls and per-interval variables: although the final node aliases the last interval, every
interval `k < N` starts at the guess taken at ITS OWN start time (column `k` of an array) -/
theorem interval_quantities (c : Ctx K) (calls : List (Nat × Guess K)) (i k : Nat) (hk : k < c.N) :
    c.startInterval calls i k = c.guessVal (guessOf calls i) k (c.tauHat k) := by
  unfold Ctx.startInterval Ctx.intervalWrites
  exact lastWrite_range (fun k => c.guessVal (guessOf calls i) k (c.tauHat k)) c.N k hk [_]

/-- helper states of DirectCollocation start at the guess taken at the integrator / collocation times -/
theorem helper_states (c : Ctx K) (calls : List (Nat × Guess K)) (i k l j : Nat) :
    c.startIntg calls i k l = c.guessVal (guessOf calls i) k (intgTime c.tauHat c.M k l) ∧
    c.startRoot calls i k l j = c.guessVal (guessOf calls i) k
      (intgTime c.tauHat c.M k l + ((c.tauHat (k+1) - c.tauHat k) / (c.M : K)) * c.o.method.tau.getD j (nat 0)) :=
  ⟨rfl, rfl⟩

/-- localized grid variables start on the guessed grid -/
theorem localized_start (c : Ctx K) (k : Nat) :
    c.startT0local k = c.tauHat k ∧ c.startTlocal k = c.tauHat (k+1) - c.tauHat k := ⟨rfl, rfl⟩

/-- guesses never change the objective or the constraints: the NLP is a function of the description
and the decision point only (the guesses are not among its arguments) -/
theorem no_effect_on_nlp (c : Ctx K) (g g' : Guesses K) : (fun (_ : Guesses K) => c.nlp) g = (fun _ => c.nlp) g' := rfl

example : guessOf [(0, (1:ℚ)), (1, 2), (0, 3)] 0 = some 3 := by decide


/-! ### guesses for algebraic symbols land in their own rows of the stacked algebraic vector -/
section algebraic_rows

/-- `get_ranges_dict`: the rows of the algebraic symbols are consecutive, disjoint and cover the stacked vector, each symbol getting as
many rows as it has entries (vector-valued symbols included) -/
theorem algebraic_rows_tile (sizes : List Nat) :
    (rangesBy sizes).flatten = List.range sizes.sum ∧ (rangesBy sizes).map List.length = sizes :=
  ⟨rangesBy_flatten sizes, rangesFrom_lengths 0 sizes⟩

/-- the loop as written in `casadi_helpers.get_ranges_dict` and in `for_all_primitives` (regenerated from the source on every run) -/
theorem source_glue_as_expected :
    Rockit.Generated.glueSizes =
      [("for_all_primitives", "stride", "nnz"), ("for_all_primitives", "slice", "nnz"),
       ("get_ranges_dict", "range", "nnz"), ("get_ranges_dict", "stride", "nnz")] := by decide

/-- non-vacuity: a 2-vector followed by a scalar: rows `[0,1]` and `[2]` -/
example : rangesBy [2, 1] = [[0, 1], [2]] := by decide

end algebraic_rows

end Rockit.C10
