import RockitModel.Proofs.Bridge
import RockitModel.Model.ToFunction
import Mathlib.Tactic.Basic
import Mathlib.Logic.Basic
import RockitModel.Proofs.Glue
import RockitModel.Generated.Glue
/-!
# C19 — `to_function` reproduces the `set_value` / `set_initial` / `solve` / `sample` pipeline (partial)

The solver is a black box and `Opti.to_function` is CasADi's. What is modelled and proved is that both
pipelines hand the SAME DATA (parameter vector, starting point) to the solver for every argument
value; given a deterministic solver equal data give equal results — that last step, and the results
themselves, are observed by the correspondence check (`ipopt.max_iter = 0` exposes the starting point,
converged solves of convex problems compare the results).
-/
set_option linter.unusedSectionVars false
namespace Rockit.C19
open Rockit
variable {K : Type} [Field K]

/-- **same data, generic store**: binding a list of (slot, value) arguments gives every slot the value
the same calls made one after the other (`set_value`/`set_initial`) give it — last one wins, and
**unlisted slots keep their current value** -/
theorem bind_eq_imperative {β : Type} [DecidableEq β] (current : β → K) (args : List (β × K)) (s : β) :
    tfBind current args s = impBind current args s := by
  induction args generalizing current with
  | nil => simp [tfBind, impBind]
  | cons a l ih =>
    have himp : impBind current (a :: l) s = impBind (fun s' => if s' = a.1 then a.2 else current s') l s := by
      simp [impBind]
    rw [himp, ← ih]
    unfold tfBind
    rw [List.reverse_cons, List.find?_append]
    cases hfind : l.reverse.find? (fun a => a.1 == s) with
    | some b => simp
    | none =>
      by_cases h : a.1 = s
      · simp [h]
      · have h' : ¬ s = a.1 := fun e => h e.symm
        simp [h, h']

theorem unlisted_keeps_current {β : Type} [DecidableEq β] (current : β → K) (args : List (β × K)) (s : β)
    (h : ∀ a ∈ args, a.1 ≠ s) : tfBind current args s = current s := by
  unfold tfBind
  have : args.reverse.find? (fun a => a.1 == s) = none := by
    rw [List.find?_eq_none]
    intro a ha
    simpa using h a (List.mem_reverse.mp ha)
  simp [this]

section states
variable (c : Ctx K)

theorem guessOf_append_same {β : Type} (calls : List (Nat × β)) (i : Nat) (g : β) :
    guessOf (calls ++ [(i, g)]) i = some g := by
  simp [guessOf]

theorem guessOf_append_other {β : Type} (calls : List (Nat × β)) (i j : Nat) (g : β) (h : j ≠ i) :
    guessOf (calls ++ [(i, g)]) j = guessOf calls j := by
  have : (i == j) = false := by rw [beq_eq_false_iff_ne]; exact fun e => h e.symm
  simp only [guessOf, List.reverse_append, List.reverse_cons, List.reverse_nil, List.nil_append, List.singleton_append,
    List.find?_cons, this]

/-- **states, every slot, every method**: passing the `N+1` columns `cols` as the argument
`sample(x_i, grid='control')[1]` gives the node variables, and under DirectCollocation the integrator and
helper states of every step — `Xc_vars0` —, exactly the starting values `set_initial(x_i, cols)` gives them,
whatever guesses were declared before -/
theorem state_start_same (calls : List (Nat × Guess K)) (i : Nat) (cols : List K) (k l j : Nat) (hk : k < cols.length) :
    c.startNode (calls ++ [(i, .cols cols)]) i k = tfStateStart cols (.node k) ∧
    c.startIntg (calls ++ [(i, .cols cols)]) i k l = tfStateStart cols (.intg k l) ∧
    c.startRoot (calls ++ [(i, .cols cols)]) i k l j = tfStateStart cols (.root k l j) := by
  simp [Ctx.startNode, Ctx.startIntg, Ctx.startRoot, guessOf_append_same, Ctx.guessVal, tfStateStart, hk]

/-- the other components keep the guess they had -/
theorem state_start_frame (calls : List (Nat × Guess K)) (i i' : Nat) (cols : List K) (k : Nat) (h : i' ≠ i) :
    c.startNode (calls ++ [(i, .cols cols)]) i' k = c.startNode calls i' k := by
  simp [Ctx.startNode, guessOf_append_other _ _ _ _ h]

theorem find_rev_range (f : Nat → K) (N k : Nat) (hk : k < N) (tail : List (Nat × K)) :
    (((List.range N).map (fun k => (k, f k))).reverse ++ tail).find? (fun w => w.1 == k) = some (k, f k) := by
  induction N with
  | zero => omega
  | succ N ih =>
    rw [List.range_succ, List.map_append, List.reverse_append]
    simp only [List.map_cons, List.map_nil, List.reverse_cons, List.reverse_nil, List.nil_append, List.singleton_append,
      List.cons_append, List.find?_cons]
    by_cases h : N = k
    · subst h; simp
    · have h' : (N == k) = false := by simpa using h
      simp only [h']
      exact ih (by omega)

theorem lastWrite_cons_range (f : Nat → K) (N k : Nat) (hk : k < N) (w0 : Nat × K) :
    lastWrite (w0 :: (List.range N).map (fun k => (k, f k))) k = f k := by
  unfold lastWrite
  rw [List.reverse_cons, find_rev_range f N k hk]
  simp

/-- **controls**: passing the `N` columns `cols` as the argument `sample(u_i, grid='control-')[1]` gives
`U[k]` the starting value `set_initial(u_i, cols)` gives it (the imperative loop visits the final
node first, then every interval with its own column) -/
theorem control_start_same (calls : List (Nat × Guess K)) (i : Nat) (cols : List K) (k : Nat)
    (hN : cols.length = c.N) (hk : k < c.N) :
    c.startInterval (calls ++ [(i, .cols cols)]) i k = tfControlStart cols k := by
  unfold Ctx.startInterval Ctx.intervalWrites
  simp only [guessOf_append_same]
  rw [lastWrite_cons_range (fun k => c.guessVal (some (Guess.cols cols)) k (c.tauHat k)) c.N k hk]
  simp [Ctx.guessVal, tfControlStart, hN, hk]

end states

/-! ### a concatenation of parameters as ONE argument / ONE set_value call -/
section concatenations

/-- the imperative side of `f(values)` with the argument `ocp.p`: `set_value(ocp.p, values)` gives every parameter, of whatever shape,
its own entries (`for_all_primitives`, read off the source on every run) -/
theorem set_value_on_concatenation {α : Type} (parts : List (List α)) :
    splitBy (parts.map List.length) parts.flatten = parts ∧
    Rockit.Generated.glueSizes.filter (fun r => r.1 == "for_all_primitives") =
      [("for_all_primitives", "stride", "nnz"), ("for_all_primitives", "slice", "nnz")] :=
  ⟨splitBy_flatten parts, by decide⟩

end concatenations

end Rockit.C19
