import RockitModel.Proofs.Shooting
import RockitModel.Model.Transcribe
import RockitModel.Proofs.RKTie
import RockitModel.Generated.Clone
/-!
# C01 — shooting transcription encodes exactly the chosen integration scheme

Property theorems only.  `K` is any field (ℝ for the property, ℚ for the driver), `V`, `Q` any
vectors; right-hand sides are arbitrary functions.
-/
set_option linter.unusedSectionVars false
namespace Rockit.C01
open Rockit
variable {K V Q : Type} [Field K]

section structural
variable [VecSpace K V] [VecSpace K Q]

/-- The residual of gap-closing row `k` is the node state minus `M` steps of the scheme started
from `X k` at absolute time `τ k`, step length `(τ(k+1) − τ k)/M`, step `j` starting at
`τ k + j·h_k`, with `DT_control = τ(k+1) − τ k`. -/
theorem ms_gap_residual (step : Nat → Step K V Q) (M : Nat) (tau : Nat → K) (X : Nat → V) (k : Nat) :
    msGap step M tau X k =
      X (k+1) - (Spec.propagate (step k) M (X k) (tau k) (tau (k+1) - tau k) M).1 := by
  simp [msGap, dsFrom, discreteSystem_xf]

/-- SingleShooting reports exactly the recursion from the initial state. -/
theorem ss_states (step : Nat → Step K V Q) (M : Nat) (tau : Nat → K) (x0 : V) (k : Nat) :
    ssStates step M tau x0 0 = x0 ∧
    ssStates step M tau x0 (k+1) =
      (Spec.propagate (step k) M (ssStates step M tau x0 k) (tau k) (tau (k+1) - tau k) M).1 := by
  simp [ssStates, dsFrom, discreteSystem_xf]

/-- accumulated quadrature of the nodes: `Q[k+1] = Q[k] +` the quadrature output of the same `M` steps -/
theorem quad_nodes (step : Nat → Step K V Q) (M : Nat) (tau : Nat → K) (X : Nat → V) (k : Nat) :
    quadNode step M tau X (k+1) = quadNode step M tau X k +
      (Spec.propagate (step k) M (X k) (tau k) (tau (k+1) - tau k) M).2 := by
  simp [quadNode, dsFrom, discreteSystem_qf]

/-- stage times: the local start time the loop has accumulated after `j` steps is `t₀ + j·(T/M)`,
and every step sees `DT = T/M`, `DT_control = T` (discrete-time models included). -/
theorem stage_times (step : Step K V Q) (M : Nat) (x0 : V) (t0 T : K) (j : Nat) :
    (dsLoop step (T / (M : K)) T j
        { x := x0, t := t0, quad := 0, Xi := [x0], Qi := [], coeffs := [], coeffsq := [] }).t
      = t0 + (j : K) * (T / (M : K)) := by
  have h := dsLoop_spec step M x0 t0 T j 0
    { x := x0, t := t0, quad := 0, Xi := [x0], Qi := [], coeffs := [], coeffsq := [] } (by simp) rfl rfl
  simpa using h.2.2

/-- a discrete-time model (`set_next`) is evaluated with `DT = h_k` and `DT_control = τ(k+1) − τ k` -/
theorem dt_seen (g : V → K → K → K → V × Q) (M : Nat) (x0 : V) (t0 T : K) (j : Nat) :
    (Spec.propagate (nextStep g) M x0 t0 T (j+1)).1 =
      (g (Spec.propagate (nextStep g) M x0 t0 T j).1 (t0 + (j : K) * (T / (M : K))) (T / (M : K)) T).1 := by
  simp [Spec.propagate, nextStep]

end structural

section algebraic
variable [AddCommGroup V] [Module K V] [AddCommGroup Q] [Module K Q] [CharZero K]

/-- feasibility of the dynamic block ⇔ every interval end state is the propagated state -/
theorem ms_feasible_iff (step : Nat → Step K V Q) (M N : Nat) (tau : Nat → K) (X : Nat → V) :
    (∀ k < N, msGap step M tau X k = 0) ↔
    (∀ k < N, X (k+1) = (Spec.propagate (step k) M (X k) (tau k) (tau (k+1) - tau k) M).1) := by
  constructor <;> intro h k hk <;> have := h k hk
  · rw [ms_gap_residual] at this; exact sub_eq_zero.mp this
  · rw [ms_gap_residual]; exact sub_eq_zero.mpr this

/-- the model's RK4 step is the textbook scheme (stage times `t, t+h/2, t+h/2, t+h`) -/
theorem rk4_textbook (f : V → K → V × Q) (x : V) (t h DTc : K) :
    (rk4Step f x t h DTc).xf = Spec.rk4 (fun x t => (f x t).1) x t h := by
  simp only [rk4Step, Spec.rk4, nat_eq]
  have e1 : h / (2:K) = h * (1 / 2) := by ring
  have e2 : t + h * (1 / 2) = t + 1 / 2 * h := by ring
  push_cast
  rw [e1, e2]
  module

theorem euler_textbook (f : V → K → V × Q) (x : V) (t h DTc : K) :
    (eulerStep f x t h DTc).xf = Spec.euler (fun x t => (f x t).1) x t h := rfl

end algebraic

section exec
/-! The executable transcription is these definitions instantiated with `V := Vector K nx`. -/
variable (c : Ctx K)

/-- which parameter/variable values the right-hand side of interval `k` sees: the global ones and
column `k` of every per-interval one (column `k` of the `N+1`-column ones), with control `U[k]` -/
theorem param_of_interval (k : Nat) (x : Vector K c.o.nx) (z : Array K) (t DT DTc : K) :
    let e := c.rhsEnv k x z t DT DTc
    e.u = c.pt.U.getD k #[] ∧ e.p = c.pt.P ∧ e.pc = c.pt.Pc.getD k #[] ∧ e.pcp = c.pt.Pcp.getD k #[] ∧
    e.v = c.pt.V ∧ e.vc = c.pt.Vc.getD k #[] ∧ e.vcp = c.pt.Vcp.getD k #[] ∧ e.t = t ∧ e.DT = DT ∧ e.DTc = DTc :=
  ⟨rfl, rfl, rfl, rfl, rfl, rfl, rfl, rfl, rfl, rfl⟩

/-- the end state of interval `k` used by the transcription is the closed-form propagation -/
theorem exec_interval_end (k : Nat) :
    (c.ds k).xf = (Spec.propagate (c.step k) c.M (c.Xn k) (c.tau k) (c.tau (k+1) - c.tau k) c.M).1 := by
  simp [Ctx.ds, dsFrom, discreteSystem_xf]

end exec

/-! ### non-vacuity: a concrete instance (ℚ, scalar state, `x' = x·t`, two Euler steps) -/
example : (Spec.propagate (eulerStep (fun (x : ℚ) (t : ℚ) => (x * t, (0:ℚ)))) 2 (1:ℚ) 1 2 2).1 = 6 := by
  norm_num [Spec.propagate, eulerStep]


/-! ### the scheme as written in the source (regenerated on every run) is the model's step -/
section source_tie
variable {K V Q : Type} [Field K] [CharZero K] [AddCommGroup V] [Module K V] [AddCommGroup Q] [Module K Q]

/-- every assignment of `intg_rk` / `intg_expl_euler`, read as a linear form by the translator, is the classical scheme -/
theorem source_schemes_as_expected :
    (Rockit.Generated.rk4Parsed = true ∧ Rockit.Generated.rk4StageX = RKTie.expectedRk4StageX ∧ Rockit.Generated.rk4StageT = RKTie.expectedRk4StageT ∧
      Rockit.Generated.rk4Xf = RKTie.expectedRk4Xf) ∧ (Rockit.Generated.eulerParsed = true ∧ Rockit.Generated.eulerXf = [⟨"X", 1, 1, 0, 0⟩, ⟨"k.ode", 1, 1, 1, 0⟩]) := by
  decide

/-- … and interpreting those forms (stage arguments, stage times, result) gives exactly the model's `rk4Step` -/
theorem source_rk4_is_model_step (f : V → K → V × Q) (x : V) (t0 DT DTc : K) :
    RKTie.interp RKTie.expectedRk4Xf (RKTie.odeVal x (RKTie.runStages (K := K) RKTie.expectedRk4StageX RKTie.expectedRk4StageT f x t0 DT DTc)) DT DTc
      = (rk4Step f x t0 DT DTc).xf :=
  (RKTie.rk4_source_is_model f x t0 DT DTc).1

end source_tie

/-- DT and DT_control seen by the model of a stage that is an INSTANCE of a template are the instance's own: the placeholder substitution of
`Stage.clone` (regenerated from the source on every run) maps `DT` to `DT` and `DT_control` to `DT_control` -/
theorem instance_steps_are_its_own :
    (Rockit.Generated.cloneTimeSymbols.filter (fun p => p.1 == "DT" || p.1 == "DT_control")) = [("DT", "DT"), ("DT_control", "DT_control")] := by decide

end Rockit.C01
