import RockitModel.Props.C13
/-!
# C18 — saving and loading an OCP preserves the problem (partial)

What is proved is the part of `save`/`load` that is rockit's logic: `save` untranscribes and then
pickles the object, `load` returns an untranscribed object holding what was pickled. Byte-level
fidelity of `pickle` + CasADi's serializer (that the unpickled object IS the specification that was
pickled) is NOT a theorem: it is the assumption `hpickle` below and is what the correspondence check
observes on the real code (NLP, starting point, parameter values, method and solver settings,
accessor order, for every generated feature mix and save position).
-/
set_option linter.unusedSectionVars false
namespace Rockit.C18
open Rockit Rockit.Generated
variable {S : Type}

/-- `Ocp.save` (regenerated table): it untranscribes and writes no specification attribute; `Ocp.load`
touches nothing of an existing object -/
theorem save_load_in_table :
    (∃ i ∈ invalidation, i.cls = "Ocp" ∧ i.name = "save" ∧ i.clears = true ∧ i.writes = [] ∧ i.query = false) ∧
    (∃ i ∈ invalidation, i.cls = "Ocp" ∧ i.name = "load" ∧ i.writes = []) := by decide

def saveInfo : OpInfo :=
  { cls := "Ocp", name := "save", clears := true, live := false, query := false, writes := [], storesAlways := [] }

/-- a `save` call as an operation of the history model -/
def saveOp : HOp S := { info := saveInfo, f := id }

theorem saveInfo_in_table : saveInfo ∈ invalidation := by decide

theorem saveOp_in_table : (saveOp (S := S)).info ∈ invalidation := saveInfo_in_table

/-- **saving does not damage the original**: after any history, `save`, and any further history, the
next solve of the ORIGINAL works on the specification the calls say — `save` leaves no trace -/
theorem save_harmless (before after : List (HOp S)) (s0 : S)
    (h1 : ∀ op ∈ before, op.info ∈ invalidation) (h2 : ∀ op ∈ after, op.info ∈ invalidation) :
    nlpSeenByNextSolve (hrun (before ++ [saveOp] ++ after) { spec := s0, transcribed := false, cache := s0 }) =
      intended (before ++ after) s0 := by
  rw [C13.history_independent_rockit]
  · simp [intended, saveOp, List.foldl_append]
  · intro op hop
    simp only [List.mem_append, List.mem_singleton] at hop
    rcases hop with (h | h) | h
    · exact h1 op h
    · subst h; exact saveOp_in_table
    · exact h2 op h

/-- **round trip**: the problem the loaded object's first solve works on is the problem the original's
next solve works on, whether `save` happened before or after a transcription/solve — given that
unpickling returns the pickled specification (`hpickle`, observed by the correspondence check) -/
theorem roundtrip (ops : List (HOp S)) (s0 : S) (h : ∀ op ∈ ops, op.info ∈ invalidation)
    (unpickled : S) (hpickle : unpickled = saved (hrun ops { spec := s0, transcribed := false, cache := s0 })) :
    nlpSeenByNextSolve (loaded unpickled) =
      nlpSeenByNextSolve (hrun ops { spec := s0, transcribed := false, cache := s0 }) := by
  rw [C13.history_independent_rockit ops s0 h, hpickle]
  -- the stored specification is the intended one (invariant of the history model)
  have key : ∀ (ops pre : List (HOp S)) (st : HState S), (∀ op ∈ ops, rowOK op.info = true) → C13.Inv pre s0 st →
      C13.Inv (pre ++ ops) s0 (hrun ops st) := by
    intro ops
    induction ops with
    | nil => intro pre st _ h; simpa [hrun] using h
    | cons op rest ih =>
      intro pre st hall h
      have h' := C13.step_inv pre s0 st op (hall op (by simp)) h
      have := ih (pre ++ [op]) (hstep st op) (fun o ho => hall o (by simp [ho])) h'
      simpa [hrun, List.append_assoc] using this
  have hinv := key ops [] { spec := s0, transcribed := false, cache := s0 } (fun op ho => C13.table_ok _ (h op ho)) ⟨rfl, by simp⟩
  simp only [List.nil_append] at hinv
  simp [nlpSeenByNextSolve, stepQuery, loaded, saved, stepClear, hinv.1]

/-- the loaded object is untranscribed and complete: its first query transcribes what was pickled -/
theorem loaded_fresh (spec : S) : (loaded spec).transcribed = false ∧ (stepQuery (loaded spec)).cache = spec := by
  simp [loaded, stepQuery]

/-! non-vacuity: solve; save; set_T 5; solve — the original sees horizon 5, an object loaded from the
file written in between sees horizon 2 (`S := Nat` = the horizon) -/
example :
    let solve : HOp Nat := { info := { cls := "Ocp", name := "solve", clears := false, live := false, query := true, writes := [], storesAlways := [] }, f := id }
    let setT : HOp Nat := { info := { cls := "Stage", name := "set_T", clears := true, live := false, query := false, writes := ["_T"], storesAlways := ["_T"] }, f := fun _ => 5 }
    nlpSeenByNextSolve (hrun [solve, saveOp, setT] { spec := 2, transcribed := false, cache := 2 }) = 5 ∧
    nlpSeenByNextSolve (loaded (saved (hrun [solve] { spec := (2:Nat), transcribed := false, cache := 2 }))) = 2 := by decide

end Rockit.C18
