import RockitModel.Proofs.Bridge
import RockitModel.Model.Sample
import Mathlib.Data.List.Basic
import Mathlib.Data.List.Range
import Mathlib.Tactic.Linarith
import Mathlib.Tactic.Ring
/-!
# C07 — sampling commutes with expression evaluation on every grid
-/
set_option linter.unusedSectionVars false
namespace Rockit.C07
open Rockit
variable {K : Type} [Field K] (c : Ctx K)

/-- control grid: the sampled nodes are `0 … N-1` and the final node (all `N+1`), each once, in order -/
theorem control_nodes (hN : 0 < c.N) :
    c.ctrlSampleNodes true true = (List.range c.N).map Node.at ++ [Node.final] := by
  unfold Ctx.ctrlSampleNodes
  obtain ⟨n, hn⟩ : ∃ n, c.N = n + 1 := ⟨c.N - 1, by omega⟩
  simp only [hn, Nat.add_sub_cancel, if_true]
  rw [List.range_succ_eq_map]
  simp [List.map_map, Function.comp_def]

/-- `'control-'` / `'-control'`: the same without the final node — `N` values and `N` times -/
theorem control_minus_nodes (hN : 0 < c.N) :
    c.ctrlSampleNodes true false = (List.range c.N).map Node.at := by
  unfold Ctx.ctrlSampleNodes
  obtain ⟨n, hn⟩ : ∃ n, c.N = n + 1 := ⟨c.N - 1, by omega⟩
  simp only [hn, Nat.add_sub_cancel, if_true]
  rw [List.range_succ_eq_map]
  simp [List.map_map, Function.comp_def]

/-- sampling on the control grid gives, at every grid point, the value of `e` in the environment of
that point (states, controls, per-interval quantities, time … of the point) and the point's time -/
theorem sample_control (e : Expr) (first last : Bool) :
    c.sampleControl e first last =
      (c.ctrlSampleNodes first last).map (fun q => (c.nodeTime q, e.eval (c.envNode q #[]))) := rfl

theorem time_and_value_counts_agree (e : Expr) (first last : Bool) :
    ((c.sampleControl e first last).map Prod.fst).length = ((c.sampleControl e first last).map Prod.snd).length := by
  simp

/-- integrator grid: `N·M + 1` points -/
theorem integrator_count (e : Expr) : (c.sampleIntegrator e).length = c.N * c.M + 1 := by
  simp [Ctx.sampleIntegrator, List.length_flatMap]

theorem roots_count (e : Expr) : (c.sampleRoots e).length = c.N * c.M * c.d := by
  simp [Ctx.sampleRoots, List.length_flatMap, Nat.mul_assoc]

/-- compositionality: for any list of grid-point environments, sampling `a ∘ b` is the pointwise
operation on the samples of `a` and `b`; a primitive symbol samples to the environment's component -/
theorem compositional_add (envs : List (Env K)) (a b : Expr) :
    envs.map (Expr.add a b).eval = List.zipWith (· + ·) (envs.map a.eval) (envs.map b.eval) := by
  induction envs with
  | nil => rfl
  | cons e es ih => simp [Expr.eval, ih]

theorem compositional_mul (envs : List (Env K)) (a b : Expr) :
    envs.map (Expr.mul a b).eval = List.zipWith (· * ·) (envs.map a.eval) (envs.map b.eval) := by
  induction envs with
  | nil => rfl
  | cons e es ih => simp [Expr.eval, ih]

theorem compositional_sub (envs : List (Env K)) (a b : Expr) :
    envs.map (Expr.sub a b).eval = List.zipWith (· - ·) (envs.map a.eval) (envs.map b.eval) := by
  induction envs with
  | nil => rfl
  | cons e es ih => simp [Expr.eval, ih]

theorem compositional_div (envs : List (Env K)) (a b : Expr) :
    envs.map (Expr.div a b).eval = List.zipWith (· / ·) (envs.map a.eval) (envs.map b.eval) := by
  induction envs with
  | nil => rfl
  | cons e es ih => simp [Expr.eval, ih]

theorem primitive_symbol (env : Env K) (s : Sym) : (Expr.sym s).eval env = env.get s := rfl

/-- `value(e)` of a non-signal expression is `e` at the values of its ingredients (global
parameters/variables, `T`, `t0`, placeholders resolved as in C05) -/
theorem value_eq (e : Expr) :
    ({ c with o := { c.o with objective := e } } : Ctx K).objective =
      e.eval (c.envGlobal c.phValues) := rfl

/-- DM2numpy index theorem: element `(a,b)` at time `i` lands inside the array, at the C-order
position of index `[i,a,b]` of shape `(n,r,c)`; singleton dimensions can be dropped -/
theorem dm2numpy_in_range (n r cd i a b : Nat) (hi : i < n) (ha : a < r) (hb : b < cd) :
    dm2numpyFlat r cd i a b < n * r * cd := by
  unfold dm2numpyFlat
  have h1 : i * r + a < n * r := by
    calc i * r + a < i * r + r := by omega
      _ = (i + 1) * r := by ring
      _ ≤ n * r := Nat.mul_le_mul_right r (by omega)
  calc (i * r + a) * cd + b < (i * r + a) * cd + cd := by omega
    _ = (i * r + a + 1) * cd := by ring
    _ ≤ (n * r) * cd := Nat.mul_le_mul_right cd (by omega)

theorem dm2numpy_row (cd i b : Nat) : dm2numpyFlat 1 cd i 0 b = i * cd + b := by simp [dm2numpyFlat]
theorem dm2numpy_col (r i a : Nat) : dm2numpyFlat r 1 i a 0 = i * r + a := by simp [dm2numpyFlat]
theorem dm2numpy_scalar (i : Nat) : dm2numpyFlat 1 1 i 0 0 = i := by simp [dm2numpyFlat]

theorem divmod_unique (X X' b b' cd : Nat) (hb : b < cd) (hb' : b' < cd) (h : X * cd + b = X' * cd + b') :
    X = X' ∧ b = b' := by
  rcases Nat.lt_trichotomy X X' with hlt | heq | hgt
  · exfalso
    have : (X + 1) * cd ≤ X' * cd := Nat.mul_le_mul_right cd hlt
    have e : (X + 1) * cd = X * cd + cd := by ring
    omega
  · subst heq; exact ⟨rfl, by omega⟩
  · exfalso
    have : (X' + 1) * cd ≤ X * cd := Nat.mul_le_mul_right cd hgt
    have e : (X' + 1) * cd = X' * cd + cd := by ring
    omega

/-- distinct index triples land on distinct positions -/
theorem dm2numpy_injective (r cd i a b i' a' b' : Nat) (ha : a < r) (hb : b < cd) (ha' : a' < r) (hb' : b' < cd)
    (h : dm2numpyFlat r cd i a b = dm2numpyFlat r cd i' a' b') : i = i' ∧ a = a' ∧ b = b' := by
  unfold dm2numpyFlat at h
  obtain ⟨h1, h2⟩ := divmod_unique _ _ _ _ _ hb hb' h
  obtain ⟨h3, h4⟩ := divmod_unique _ _ _ _ _ ha ha' h1
  exact ⟨h3, h4, h2⟩

end Rockit.C07
