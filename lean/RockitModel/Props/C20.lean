import RockitModel.Model.Validate
import Mathlib.Tactic.Basic
import RockitModel.Generated.Clone
/-!
# C20 — ill-posed specifications are rejected, never silently transcribed
-/
namespace Rockit.C20
open Rockit Rockit.Generated

/-- proof obligation over the regenerated guard table: every guard of the catalogue is present in
the function that anchors it -/
theorem all_guards_present : ∀ g ∈ guards, g.2 = true := by decide

/-- every fault of the catalogue has its guard in the table -/
theorem catalogue_covered : ∀ f ∈ allFaults, guardPresent guards f.guard.1 = true := by decide

theorem allFaults_complete (f : Fault) : f ∈ allFaults := by cases f <;> decide

/-- a specification containing at least one catalogue fault is rejected at declaration or at the
latest at transcription, and no NLP is handed to the solver — for every combination of faults -/
theorem rejected (faults : List Fault) (h : faults ≠ []) :
    attempt guards faults ≠ .solverCalled := by
  unfold attempt
  cases hd : faults.find? (fun f => f.guard.2 == .declaration && guardPresent guards f.guard.1) with
  | some _ => simp
  | none =>
    cases ht : faults.find? (fun f => guardPresent guards f.guard.1) with
    | some _ => simp
    | none =>
      exfalso
      obtain ⟨f, rest, rfl⟩ := List.exists_cons_of_ne_nil h
      have := List.find?_eq_none.mp ht f (by simp)
      exact this (catalogue_covered f (allFaults_complete f))

/-- a well-posed specification (no fault) reaches the solver -/
theorem well_posed_accepted : attempt guards [] = .solverCalled := rfl

/-- faults raised by a declaring call are rejected there, before any transcription -/
theorem declaration_faults_early (f : Fault) (hf : f.guard.2 = .declaration) :
    attempt guards [f] = .rejected .declaration := by
  cases f <;> first | decide | (simp [Fault.guard] at hf)

example : attempt guards [.missingDerivative] = .rejected .transcription := by decide


/-! ### a missing parameter value is missing per stage -/
/-- `Stage.clone` as it is now gives every instance of a template its own table of parameter values, so that a value given to a sibling
(or to the template afterwards) does not hide a missing one -/
theorem parameter_values_are_per_stage :
    (Rockit.Generated.cloneTable.filter (fun e => e.1 == "_param_vals")).all (fun e => e.2.1 == .copy || e.2.1 == .deepcopy) = true ∧
    (Rockit.Generated.cloneTable.filter (fun e => e.1 == "_param_vals")).length = 1 := by decide

end Rockit.C20
