import RockitModel.Props.C04
import RockitModel.Props.C02
import RockitModel.Generated.Clone
import RockitModel.Generated.Scales
/-!
# C14 — scaling arguments never change the meaning of the problem
-/
set_option linter.unusedSectionVars false
namespace Rockit.C14
open Rockit
variable {K : Type} [Field K]

/-- solver variable ↔ physical quantity -/
def solverOf (phys s : K) : K := phys / s
def physOf (x s : K) : K := s * x

/-- solver variables are the physical ones divided by their scale (and back) -/
theorem solver_variables (phys s : K) (hs : s ≠ 0) : physOf (solverOf phys s) s = phys := by
  unfold physOf solverOf; field_simp

/-- every constraint residual and its bounds are divided by the scale: the atoms of the scaled row
are those of the unscaled row divided by `s` -/
theorem rows (k : Con K) (s : K) (env : Env K) :
    Ctx.conAtoms { k with scale := s } env = (Ctx.conAtoms { k with scale := (1:K) } env).map (· / s) := by
  unfold Ctx.conAtoms
  cases k.rel <;> simp

section order
variable [LinearOrder K] [IsStrictOrderedRing K]

/-- the feasible set is unchanged: for every positive scale a row is feasible iff the unscaled row is -/
theorem feasible_same (k : Con K) (s : K) (env : Env K) (hs : 0 < s) :
    (∀ a ∈ Ctx.conAtoms { k with scale := s } env, 0 ≤ a) ↔
    (∀ a ∈ Ctx.conAtoms { k with scale := (1:K) } env, 0 ≤ a) := by
  rw [C04.sense { k with scale := s } env hs, C04.sense { k with scale := (1:K) } env one_pos]
  rfl

/-- dynamic rows (gaps and continuity by `scale_x`, defects by the derivative scale, algebraic rows
by `scale_z`): a scaled equality is feasible iff the unscaled one is -/
theorem dynamic_rows_same (a b s : K) (hs : 0 < s) :
    (0 ≤ (b - a) / s ∧ 0 ≤ (a - b) / s) ↔ (0 ≤ (b - a) / 1 ∧ 0 ≤ (a - b) / 1) := by
  rw [C02.eq_row_feasible a b s hs, C02.eq_row_feasible a b 1 one_pos]

end order

/-- the same description with other scales -/
def withScales (c : Ctx K) (sx sd sz : Array K) : Ctx K :=
  { o := { c.o with scaleX := sx, scaleDer := sd, scaleZ := sz }, pt := c.pt }

/-- the objective, the states at every grid point, the time grid and the declared-constraint rows are
expressed in physical quantities: they do not depend on the variable scales at all -/
theorem objective_same (c : Ctx K) (sx sd sz : Array K) : (withScales c sx sd sz).objective = c.objective := rfl
theorem states_same (c : Ctx K) (sx sd sz : Array K) (k : Nat) : (withScales c sx sd sz).Xn k = c.Xn k := rfl
theorem user_rows_same (c : Ctx K) (sx sd sz : Array K) : (withScales c sx sd sz).userRows = c.userRows := rfl

example : solverOf (6:ℚ) 4 = 3/2 := by norm_num [solverOf]


/-! ### scales are per stage -/
/-- `Stage.clone` as it is now (table regenerated from the source on every run) gives every instance of a template its OWN table of
derivative scales: an instance that re-declares a derivative with another scale does not change its siblings' rows -/
theorem scale_table_is_per_stage :
    (Rockit.Generated.cloneTable.filter (fun e => e.1 == "_scale_der")).all (fun e => e.2.1 == .copy || e.2.1 == .deepcopy) = true ∧
    (Rockit.Generated.cloneTable.filter (fun e => e.1 == "_scale_der")).length = 1 := by decide

/-! ### every decision variable of a declared symbol is created with that symbol's scale -/
/-- over the table regenerated from the source on every run: each `opti.variable(...)` call of the transcription methods that creates
decision variables for states, algebraic variables, controls or declared variables hands Opti the scale of that kind (so that the
solver variable is the physical one divided by it: `solver_variables`), and the local names used by the collocation method are bound
to the stage's scale vectors, once each -/
theorem every_symbol_variable_site_scaled :
    (Rockit.Generated.variableSites.all (fun r => r.kind == "other" || r.scaled)) = true ∧
    Rockit.Generated.scaleLocals = [("scale_x", "stage._scale_x"), ("scale_z", "stage._scale_z"), ("scale_u", "stage._scale_u")] := by decide

/-- non-vacuity: the table has sites of every kind, among them the algebraic variables at the collocation roots of the integration steps
after the first one (four `stage.nz` sites in `DirectCollocation.add_variables`) -/
theorem variable_sites_present :
    ["x", "z", "u", "symbol", "variable"].all (fun k => Rockit.Generated.variableSites.any (fun r => r.kind == k)) = true ∧
    (Rockit.Generated.variableSites.filter (fun r => r.kind == "z" && r.file == "direct_collocation")).length = 4 := by decide

end Rockit.C14
