import RockitModel.Proofs.Place
import RockitModel.Proofs.Bridge
import RockitModel.Model.Transcribe
import Mathlib.Algebra.Order.Field.Basic
import Mathlib.Tactic.Linarith
import Mathlib.Tactic.FieldSimp
import RockitModel.Generated.Reads
/-!
# C04 — every constraint is imposed exactly where declared, and nothing else is
-/
set_option linter.unusedSectionVars false
namespace Rockit.C04
open Rockit

/-- control grid: the instances the code's loops emit (with the `try … except IndexError` drop rule)
are exactly the nodes `0 … N` filtered by `include_first`, `include_last` and "every shifted operand
stays inside the horizon", each once, in increasing order. -/
theorem control_rows (N : Nat) (hN : 0 < N) (first last : Bool) (offs : List Int) :
    ctrlPlaced N first last offs = (Spec.ctrlIdx N first last offs).map (nodeOfIdx N) := by
  unfold ctrlPlaced Spec.ctrlIdx
  rw [ctrlNodes_eq N hN, List.filter_map, List.filter_filter]
  congr 1
  apply List.filter_congr
  intro k _
  simp only [Function.comp, offs_ok_nodeOfIdx]
  cases h : ((k != 0 || first) && (k != N || last)) <;> simp [Bool.and_comm]

/-- count: `N+1` instances of a control-grid constraint without offsets and exclusions -/
theorem control_count (N : Nat) (hN : 0 < N) : (ctrlPlaced N true true []).length = N + 1 := by
  rw [control_rows N hN]; simp [Spec.ctrlIdx]

/-- each node of the horizon at most once -/
theorem control_nodup (N : Nat) (hN : 0 < N) (first last : Bool) (offs : List Int) :
    (Spec.ctrlIdx N first last offs).Nodup := by
  unfold Spec.ctrlIdx
  exact List.Nodup.filter _ List.nodup_range

/-- integrator grid: membership — every step start `(k,i)` (except `(0,0)` when `include_first` is
off) and the final node (when `include_last` is on), nothing else -/
theorem integrator_mem (N M : Nat) (first last : Bool) (p : Pt) :
    p ∈ intgPts N M first last ↔
      (∃ k i, p = Pt.step k i ∧ k < N ∧ i < M ∧ (k = 0 ∧ i = 0 → first = true)) ∨
      (p = Pt.node .final ∧ last = true) := by
  unfold intgPts
  simp only [List.mem_append, List.mem_flatMap, List.mem_range, List.mem_filterMap]
  constructor
  · rintro (⟨k, hk, i, hi, h⟩ | h)
    · left
      refine ⟨k, i, ?_, hk, hi, ?_⟩
      · split at h <;> simp_all
      · rintro ⟨rfl, rfl⟩; cases first <;> simp_all
    · right; cases last <;> simp_all
  · rintro (⟨k, i, rfl, hk, hi, h⟩ | ⟨rfl, hl⟩)
    · left
      refine ⟨k, hk, i, hi, ?_⟩
      by_cases h0 : k = 0 ∧ i = 0
      · have := h h0; obtain ⟨rfl, rfl⟩ := h0; simp [this]
      · have : (k == 0 && i == 0) = false := by
          rcases not_and_or.mp h0 with h | h <;> simp [h]
        simp [this]
    · right; simp [hl]

/-- count: `N·M + 1` instances of an integrator-grid constraint without exclusions -/
theorem integrator_count (N M : Nat) : (intgPts N M true true).length = N * M + 1 := by
  unfold intgPts
  simp [List.length_flatMap]

/-- `integrator_roots`: every collocation time of every step -/
theorem roots_mem (N M d : Nat) (p : Pt) :
    p ∈ rootPts N M d ↔ ∃ k i j, p = Pt.root k i j ∧ k < N ∧ i < M ∧ j < d := by
  unfold rootPts
  simp only [List.mem_flatMap, List.mem_range, List.mem_map]
  constructor
  · rintro ⟨k, hk, i, hi, j, hj, rfl⟩; exact ⟨k, i, j, rfl, hk, hi, hj⟩
  · rintro ⟨k, i, j, rfl, hk, hi, hj⟩; exact ⟨k, hk, i, hi, j, hj, rfl⟩

section sense
variable {K : Type} [Field K] [LinearOrder K] [IsStrictOrderedRing K]

/-- what a declared scalar constraint demands of an environment -/
def holds (k : Con K) (env : Env K) : Prop :=
  match k.rel with
  | .le => k.a.eval env ≤ k.b.eval env
  | .eq => k.a.eval env = k.b.eval env
  | .two => k.a.eval env ≤ k.b.eval env ∧ k.b.eval env ≤ k.c.eval env

/-- bounds and sense are preserved: a placed row is feasible (all atoms `≥ 0`) iff the declared
(in)equality holds in the environment of its point — whatever positive scale is applied -/
theorem sense (k : Con K) (env : Env K) (hs : 0 < k.scale) :
    (∀ a ∈ Ctx.conAtoms k env, 0 ≤ a) ↔ holds k env := by
  unfold Ctx.conAtoms holds
  cases k.rel <;> simp only [List.mem_cons, List.mem_nil_iff, or_false, forall_eq_or_imp, forall_eq]
  · rw [div_nonneg_iff]; constructor
    · rintro (⟨h, _⟩ | ⟨_, h⟩) <;> linarith
    · intro h; left; exact ⟨by linarith, le_of_lt hs⟩
  · rw [div_nonneg_iff, div_nonneg_iff]; constructor
    · rintro ⟨(⟨h1, _⟩ | ⟨_, h⟩), (⟨h2, _⟩ | ⟨_, h'⟩)⟩ <;> linarith
    · intro h; exact ⟨Or.inl ⟨by linarith, le_of_lt hs⟩, Or.inl ⟨by linarith, le_of_lt hs⟩⟩
  · rw [div_nonneg_iff, div_nonneg_iff]; constructor
    · rintro ⟨(⟨h1, _⟩ | ⟨_, h⟩), (⟨h2, _⟩ | ⟨_, h'⟩)⟩ <;> constructor <;> linarith
    · rintro ⟨h1, h2⟩; exact ⟨Or.inl ⟨by linarith, le_of_lt hs⟩, Or.inl ⟨by linarith, le_of_lt hs⟩⟩

end sense

section env
variable {K : Type} [Field K] (c : Ctx K)

/-- the environment of the final node: state `X[N]`, time `τ_N`, but the control, per-interval
parameters and per-interval variables of the LAST interval, and column `N` of `include_last` ones -/
theorem env_final (off : Array K) :
    let e := c.envNode .final off
    e.x = (c.Xn c.N).toArray ∧ e.t = c.tau c.N ∧
    e.u = c.pt.U.getD (c.N - 1) #[] ∧ e.pc = c.pt.Pc.getD (c.N - 1) #[] ∧ e.vc = c.pt.Vc.getD (c.N - 1) #[] ∧
    e.pcp = c.pt.Pcp.getD c.N #[] ∧ e.vcp = c.pt.Vcp.getD c.N #[] ∧ e.p = c.pt.P ∧ e.v = c.pt.V ∧
    e.DTc = c.tau c.N - c.tau (c.N - 1) :=
  ⟨rfl, rfl, rfl, rfl, rfl, rfl, rfl, rfl, rfl, rfl⟩

/-- the environment of an interior node `k`: everything of interval `k` -/
theorem env_node (k : Nat) (off : Array K) :
    let e := c.envNode (.at k) off
    e.x = (c.Xn k).toArray ∧ e.t = c.tau k ∧ e.u = c.pt.U.getD k #[] ∧ e.pc = c.pt.Pc.getD k #[] ∧
    e.vc = c.pt.Vc.getD k #[] ∧ e.pcp = c.pt.Pcp.getD k #[] ∧ e.vcp = c.pt.Vcp.getD k #[] ∧ e.off = off :=
  ⟨rfl, rfl, rfl, rfl, rfl, rfl, rfl, rfl⟩

/-- a shifted operand is the operand evaluated in the environment of the node `k + o` -/
theorem env_offset (k : Con K) (q : Node) :
    c.offVals k q = (k.offs.map (fun eo =>
      eo.1.eval (c.envNode (nodeOfIdx c.N (shiftTarget c.N q eo.2)) #[]))).toArray := rfl

/-- a boundary / point constraint appears exactly once -/
theorem point_once (k : Con K) (h : k.grid = .point) : (c.conRows k).length = 1 := by
  simp [Ctx.conRows, h]

/-- a path constraint contributes one row per point of its placement list -/
theorem path_rows (k : Con K) (h : k.grid ≠ .point) : (c.conRows k).length = (c.conPts k).length := by
  unfold Ctx.conRows
  cases hg : k.grid <;> first | exact absurd hg h | simp

/-- nothing else: every row of the NLP is a dynamic row, a row of the time grid, `T ≥ 0`, or the
image of a declared constraint at one of its points -/
theorem nothing_else (r : Row K) (h : r ∈ c.nlp.rows) :
    r ∈ c.dynRows ∨ r ∈ c.gridRows ∨ r ∈ c.tposRows ∨ r ∈ c.userRows := by
  simpa [Ctx.nlp, List.mem_append, or_assoc] using h

end env

/-! non-vacuity: N = 3, `x − prev(x)`: instances at nodes 1, 2 and the final node -/
example : ctrlPlaced 3 true true [-1] = [Node.at 1, Node.at 2, Node.final] := by decide
example : Spec.ctrlIdx 3 true true [-1] = [1, 2, 3] := by decide
example : ctrlPlaced 3 false true [1] = [Node.at 1, Node.at 2] := by decide


/-- **a constraint that cannot be placed is rejected rather than ignored** — over the table regenerated from
the four method classes on every run: every grid key `subject_to` accepts for a path constraint is, in every
transcription method, either read and placed by `add_constraints` or rejected by it (raise / assert) -/
theorem every_key_placed_or_rejected :
    ∀ m ∈ Rockit.Generated.methodReads, ∀ k ∈ Rockit.Generated.pathGridKeys, k ∈ m.placed ∨ k ∈ m.rejected := by decide

end Rockit.C04
