import RockitModel.Model.History
import Mathlib.Tactic.Basic
import Mathlib.Logic.Basic
import RockitModel.Generated.Reads
/-!
# C13 — the transcription depends only on the final specification, not on its history
-/
set_option linter.unusedSectionVars false
namespace Rockit.C13
open Rockit Rockit.Generated

/-- Proof obligation over the table regenerated from rockit/stage.py and rockit/ocp.py on every run:
every public method of `Stage`/`Ocp` that writes a specification attribute either clears the
transcribed flag or forwards the update to the live NLP and stores it as well. -/
theorem table_ok : ∀ i ∈ invalidation, rowOK i = true := by decide

/-- the operations the property names are in the table with the shape the history model assumes -/
theorem named_operations_present :
    ∀ n ∈ ["set_value", "set_initial", "subject_to", "clear_constraints", "add_objective", "method", "solver",
           "set_T", "set_t0", "sample", "value", "solve"], ∃ i ∈ invalidation, i.name = n := by decide

variable {S : Type}

def Inv (ops : List (HOp S)) (s0 : S) (st : HState S) : Prop :=
  st.spec = intended ops s0 ∧ (st.transcribed = true → st.cache = st.spec)

theorem step_inv (ops : List (HOp S)) (s0 : S) (st : HState S) (op : HOp S) (hok : rowOK op.info = true)
    (h : Inv ops s0 st) : Inv (ops ++ [op]) s0 (hstep st op) := by
  obtain ⟨h1, h2⟩ := h
  unfold Inv hstep intended
  simp only [List.foldl_append, List.foldl_cons, List.foldl_nil]
  by_cases hw : op.info.writes.isEmpty = true
  · simp only [hw, if_true]
    by_cases hq : op.info.query = true
    · simp only [hq, if_true, stepQuery]
      by_cases ht : st.transcribed = true
      · simp only [ht, if_true]; exact ⟨h1, fun _ => h2 ht⟩
      · simp only [ht]; exact ⟨h1, fun _ => rfl⟩
    · simp only [hq]
      by_cases hc : op.info.clears = true
      · simp only [hc, if_true, stepClear]; exact ⟨h1, by simp⟩
      · simp only [hc]; exact ⟨h1, h2⟩
  · simp only [hw, stepWrite]
    simp only [rowOK, hw, Bool.false_or, Bool.or_eq_true, Bool.and_eq_true] at hok
    rcases hok with hc | ⟨hl, hs⟩
    · simp only [hc, Bool.not_true, Bool.and_false, Bool.false_and, if_true]
      refine ⟨by simp [intended] at h1 ⊢; rw [h1], by simp⟩
    · by_cases hc : op.info.clears = true
      · simp only [hc, Bool.not_true, Bool.and_false, Bool.false_and, if_true]
        refine ⟨by simp [intended] at h1 ⊢; rw [h1], by simp⟩
      · have hcf : op.info.clears = false := by simpa using hc
        by_cases ht : st.transcribed = true
        · have hcache := h2 ht
          simp only [hcf, hl, hs, ht, Bool.not_false, Bool.and_true, Bool.not_true, Bool.and_false, if_true,
            Bool.false_eq_true, if_false]
          refine ⟨by simp [intended] at h1 ⊢; rw [h1], fun _ => by rw [hcache]⟩
        · have htf : st.transcribed = false := by simpa using ht
          simp only [hcf, hl, hs, htf, Bool.false_and, Bool.false_eq_true, if_false]
          refine ⟨by simp [intended] at h1 ⊢; rw [h1], by simp⟩

/-- Main theorem: for every finite sequence of public operations whose table rows are safe, the
specification (hence NLP, starting point, parameter values, solver settings) the next solve works on
is the one a freshly written OCP with the final specification would have. -/
theorem history_independent (ops : List (HOp S)) (s0 : S) (hok : ∀ op ∈ ops, rowOK op.info = true) :
    nlpSeenByNextSolve (hrun ops { spec := s0, transcribed := false, cache := s0 }) = intended ops s0 := by
  have key : ∀ (ops pre : List (HOp S)) (st : HState S), (∀ op ∈ ops, rowOK op.info = true) → Inv pre s0 st →
      Inv (pre ++ ops) s0 (hrun ops st) := by
    intro ops
    induction ops with
    | nil => intro pre st _ h; simpa [hrun] using h
    | cons op rest ih =>
      intro pre st hall h
      have h' := step_inv pre s0 st op (hall op (by simp)) h
      have := ih (pre ++ [op]) (hstep st op) (fun o ho => hall o (by simp [ho])) h'
      simpa [hrun, List.append_assoc] using this
  have h := key ops [] { spec := s0, transcribed := false, cache := s0 } hok ⟨rfl, by simp⟩
  obtain ⟨h1, h2⟩ := h
  simp only [List.nil_append] at h1 h2
  unfold nlpSeenByNextSolve stepQuery
  by_cases ht : (hrun ops { spec := s0, transcribed := false, cache := s0 }).transcribed = true
  · simp only [ht, if_true]; rw [h2 ht, h1]
  · simp only [ht]; exact h1

/-- with the generated table: any history over rockit's public operations -/
theorem history_independent_rockit (ops : List (HOp S)) (s0 : S) (hin : ∀ op ∈ ops, op.info ∈ invalidation) :
    nlpSeenByNextSolve (hrun ops { spec := s0, transcribed := false, cache := s0 }) = intended ops s0 :=
  history_independent ops s0 (fun op h => table_ok _ (hin op h))

/-- solving or querying twice changes nothing -/
theorem idempotent (st : HState S) : stepQuery (stepQuery st) = stepQuery st := by
  unfold stepQuery; by_cases h : st.transcribed = true <;> simp [h]

/-- transcribing never alters what the user declared -/
theorem transcription_pure (st : HState S) : (stepQuery st).spec = st.spec := by
  unfold stepQuery; by_cases h : st.transcribed = true <;> simp [h]

/-! non-vacuity: solve; set_T; solve sees the new horizon (`S := Nat` = the horizon) -/
example : nlpSeenByNextSolve (hrun
    [ { info := { cls := "Ocp", name := "solve", clears := false, live := false, query := true, writes := [], storesAlways := [] }, f := id },
      { info := { cls := "Stage", name := "set_T", clears := true, live := false, query := false, writes := ["_T"], storesAlways := ["_T"] }, f := fun _ => 5 } ]
    { spec := 2, transcribed := false, cache := 2 }) = (5 : Nat) := by decide


/-- the transcribed flag is written exactly where it is read (on the master of the stage tree), so an
invalidating call made through ANY stage object of a tree is seen by the next solve (regenerated from
`Stage._set_transcribed` / `Stage._is_transcribed`) -/
theorem flag_written_where_read :
    Rockit.Generated.flagWrittenTo = Rockit.Generated.flagReadFrom ∧ Rockit.Generated.flagWrittenTo = ["self.master._var_is_transcribed"] := by
  decide

end Rockit.C13
