import RockitModel.Proofs.Objective
import Mathlib.Algebra.Module.Prod
import Mathlib.Tactic.FieldSimp
import RockitModel.Proofs.RKTie
import RockitModel.Proofs.Weights
import RockitModel.Generated.Objective
/-!
# C05 — the NLP objective is the sum of the declared Mayer, sum and integral terms
-/
set_option linter.unusedSectionVars false
namespace Rockit.C05
open Rockit

section placeholders
variable {K : Type} [Field K] (c : Ctx K)

/-- the transcribed objective is the declared objective expression evaluated at the values of its
placeholders (and of the global parameters/variables, `T`, `t0`) -/
theorem objective_eq : c.objective = c.o.objective.eval (c.envGlobal (c.o.phs.map c.phValue)) := rfl

/-- several `add_objective` calls add up (`_objective = _objective + term`) -/
theorem objective_terms (a b : Expr) (env : Env K) : (Expr.add a b).eval env = a.eval env + b.eval env := rfl

/-- `at_t0 e` / `at_tf e` evaluate at the first / final node -/
theorem mayer_t0 (e : Expr) : c.phValue ⟨.atT0, e⟩ = e.eval (c.envNode (.at 0) #[]) := rfl
theorem mayer_tf (e : Expr) : c.phValue ⟨.atTf, e⟩ = e.eval (c.envNode .final #[]) := rfl

/-- `sum e` adds the node values of the `N` intervals -/
theorem sum_nodes (e : Expr) :
    c.phValue ⟨.sum, e⟩ = ((List.range c.N).map (fun k => e.eval (c.envNode (.at k) #[]))).sum := by
  simp only [Ctx.phValue, nat_eq, Nat.cast_zero]
  rw [foldl_add_eq_sum]; simp

/-- `sum(e, include_last=True)` adds the final node as well -/
theorem sum_plus (e : Expr) :
    c.phValue ⟨.sumPlus, e⟩ =
      ((List.range c.N).map (fun k => e.eval (c.envNode (.at k) #[]))).sum + e.eval (c.envNode .final #[]) := by
  simp only [Ctx.phValue, nat_eq, Nat.cast_zero]
  rw [foldl_add_eq_sum]; simp

/-- `integral(e, grid='control')` is the interval-length-weighted left sum -/
theorem integral_control (e : Expr) :
    c.phValue ⟨.intControl, e⟩ =
      ((List.range c.N).map (fun k => (c.tau (k+1) - c.tau k) * e.eval (c.envNode (.at k) #[]))).sum := by
  simp only [Ctx.phValue, nat_eq, Nat.cast_zero]
  rw [foldl_add_eq_sum]; simp

/-- `integral(e)` is the value at `tf` of the quadrature state whose integrand is `e` -/
theorem integral_is_quadrature (q : Nat) (e : Expr) :
    c.phValue ⟨.integral q, e⟩ = (c.Qn c.N).toArray.getD q 0 := by
  simp [Ctx.phValue]

/-- collocation: the accumulated quadrature grows by `Σ_j h_k·B_j·q(root (k,i,j))` per step -/
theorem colloc_quadrature_step (n : Nat) :
    c.dcQuadBefore (n+1) = c.dcQuadBefore n + c.dcStepQuad (n / c.M) (n % c.M) := rfl

end placeholders

section shooting
variable {K V Q : Type} [Field K] [CharZero K] [AddCommGroup V] [Module K V] [AddCommGroup Q] [Module K Q]

/-- shooting: `Q[N]` is the sum over the intervals of the quadrature output of the same `M` steps
that propagate the state -/
theorem integral_shooting (step : Nat → Step K V Q) (M : Nat) (tau : Nat → K) (X : Nat → V) (N : Nat) :
    quadNode step M tau X N =
      ((List.range N).map (fun k =>
        (Spec.propagate (step k) M (X k) (tau k) (tau (k+1) - tau k) M).2)).sum := by
  rw [quadNode_sum]
  congr 1
  apply List.map_congr_left
  intro k _
  simp [dsFrom, discreteSystem_qf]

/-- the quadrature output of an RK4 step is RK4 applied to the augmented system `(x, q)' = (f, e)` -/
theorem rk4_augmented (f : V → K → V × Q) (x : V) (xq : Q) (t h DTc : K) :
    ((rk4Step f x t h DTc).xf, xq + (rk4Step f x t h DTc).qf) =
      Spec.rk4 (fun (w : V × Q) s => f w.1 s) (x, xq) t h := by
  have e1 : h / (2:K) = h * (1 / 2) := by ring
  have e2 : t + h * (1 / 2) = t + 1 / 2 * h := by ring
  ext
  · simp only [rk4Step, Spec.rk4, nat_eq, Prod.fst_add, Prod.smul_fst]
    push_cast; rw [e1, e2]; module
  · simp only [rk4Step, Spec.rk4, nat_eq, Prod.snd_add, Prod.smul_snd, Prod.fst_add, Prod.smul_fst]
    push_cast; rw [e1, e2]; module

theorem euler_augmented (f : V → K → V × Q) (x : V) (xq : Q) (t h DTc : K) :
    ((eulerStep f x t h DTc).xf, xq + (eulerStep f x t h DTc).qf) =
      Spec.euler (fun (w : V × Q) s => f w.1 s) (x, xq) t h := by
  ext <;> simp [eulerStep, Spec.euler]

end shooting

section weights
variable {K : Type} [Field K] [CharZero K]

/-- the collocation quadrature weights sum to one — so constants are integrated exactly — for
any pairwise distinct collocation points, degree 1 … 4 (symbolic nodes) -/
theorem weights_sum_one_1 (a : K) : ((collocCoeff [a]).B).sum = 1 := by
  simp [collocCoeff, LP.basis, LP.others, LP.lagrange, LP.integ01, LP.integ01Aux]

theorem weights_sum_one_2 (a b : K) (hab : a ≠ b) : ((collocCoeff [a, b]).B).sum = 1 := by
  have h1 : a - b ≠ 0 := sub_ne_zero.mpr hab
  have h2 : b - a ≠ 0 := sub_ne_zero.mpr hab.symm
  simp [collocCoeff, LP.basis, LP.others, LP.lagrange, LP.mulLin, LP.add, LP.smul, LP.integ01, LP.integ01Aux, List.range_succ]
  field_simp
  ring


theorem weights_sum_one_3 (a b c : K) (hab : a ≠ b) (hac : a ≠ c) (hbc : b ≠ c) :
    ((collocCoeff [a, b, c]).B).sum = 1 := by
  have h1 : a - b ≠ 0 := sub_ne_zero.mpr hab
  have h2 : b - a ≠ 0 := sub_ne_zero.mpr hab.symm
  have h3 : a - c ≠ 0 := sub_ne_zero.mpr hac
  have h4 : c - a ≠ 0 := sub_ne_zero.mpr hac.symm
  have h5 : b - c ≠ 0 := sub_ne_zero.mpr hbc
  have h6 : c - b ≠ 0 := sub_ne_zero.mpr hbc.symm
  simp [collocCoeff, LP.basis, LP.others, LP.lagrange, LP.mulLin, LP.add, LP.smul, LP.integ01, LP.integ01Aux, List.range_succ]
  field_simp
  ring

theorem weights_sum_one_4 (a b c d : K) (hab : a ≠ b) (hac : a ≠ c) (had : a ≠ d) (hbc : b ≠ c) (hbd : b ≠ d) (hcd : c ≠ d) :
    ((collocCoeff [a, b, c, d]).B).sum = 1 := by
  have h1 : a - b ≠ 0 := sub_ne_zero.mpr hab
  have h2 : b - a ≠ 0 := sub_ne_zero.mpr hab.symm
  have h3 : a - c ≠ 0 := sub_ne_zero.mpr hac
  have h4 : c - a ≠ 0 := sub_ne_zero.mpr hac.symm
  have h5 : b - c ≠ 0 := sub_ne_zero.mpr hbc
  have h6 : c - b ≠ 0 := sub_ne_zero.mpr hbc.symm
  have h7 : a - d ≠ 0 := sub_ne_zero.mpr had
  have h8 : d - a ≠ 0 := sub_ne_zero.mpr had.symm
  have h9 : b - d ≠ 0 := sub_ne_zero.mpr hbd
  have h10 : d - b ≠ 0 := sub_ne_zero.mpr hbd.symm
  have h11 : c - d ≠ 0 := sub_ne_zero.mpr hcd
  have h12 : d - c ≠ 0 := sub_ne_zero.mpr hcd.symm
  simp [collocCoeff, LP.basis, LP.others, LP.lagrange, LP.mulLin, LP.add, LP.smul, LP.integ01, LP.integ01Aux, List.range_succ]
  field_simp
  ring

/-- **for EVERY degree and every choice of pairwise distinct collocation points** the quadrature weights sum to
one: constants are integrated exactly (no property of Radau or Legendre points is used) -/
theorem weights_sum_one (tau : List K) (hn : tau.Nodup) (hne : tau ≠ []) : ((collocCoeff tau).B).sum = 1 := by
  simpa [collocCoeff] using LP.sum_integ01_basis tau hn hne

/-- … and more: the collocation quadrature `Σ_j B_j q(τ_j)` is exact for every polynomial integrand with at most `d`
coefficients (degree `< d`), for any pairwise distinct points -/
theorem colloc_quadrature_exact (tau : List K) (hn : tau.Nodup) (hne : tau ≠ []) (q : List K) (hq : q.length ≤ tau.length) :
    ((List.range tau.length).map (fun j => ((collocCoeff tau).B).getD j 0 * LP.eval q (tau.getD j 0))).sum = LP.integ01 q := by
  rw [← LP.quadrature_exact tau hn q hq hne]
  congr 1
  apply List.map_congr_left
  intro j hj
  have hj' : j < tau.length := by simpa using hj
  simp [collocCoeff, List.getD_eq_getElem?_getD, hj']

end weights

/-! non-vacuity -/
example : ([(1:ℚ)/3, 1]).Nodup ∧ ([(1:ℚ)/3, 1]) ≠ [] := ⟨by norm_num, by simp⟩
example : ((collocCoeff [(1:ℚ)]).B) = [1] := by
  simp [collocCoeff, LP.basis, LP.others, LP.lagrange, LP.integ01, LP.integ01Aux]


/-! ### the quadrature output as written in the source is the model's -/
section source_tie
variable {K V Q : Type} [Field K] [CharZero K] [AddCommGroup V] [Module K V] [AddCommGroup Q] [Module K Q]

theorem source_quadrature_as_expected :
    Rockit.Generated.rk4Qf = RKTie.expectedRk4Qf ∧ Rockit.Generated.eulerQf = [⟨"k.quad", 1, 1, 1, 0⟩] := by decide

/-- `qf` of `intg_rk` (the weights `DT/6·(1,2,2,1)` on the quadrature right-hand side at the four stages) is `rk4Step.qf` -/
theorem source_rk4_quadrature_is_model (f : V → K → V × Q) (x : V) (t0 DT DTc : K) :
    RKTie.interp RKTie.expectedRk4Qf (RKTie.quadVal (RKTie.runStages (K := K) RKTie.expectedRk4StageX RKTie.expectedRk4StageT f x t0 DT DTc)) DT DTc
      = (rk4Step f x t0 DT DTc).qf :=
  (RKTie.rk4_source_is_model f x t0 DT DTc).2

end source_tie

/-! ### the terms of the OCP and of every stage reach one objective -/
section all_stages

/-- the Opti shared by an OCP and all its stages collects the objective by `objective := objective + term`, once per transcribed stage
(starting from 0): what the solver receives is the sum of the terms of ALL stages, in any order -/
theorem accumulated_objective_is_sum {K : Type} [AddCommMonoid K] (terms : List K) :
    terms.foldl (fun acc t => acc + t) 0 = terms.sum := by
  have h : ∀ (a : K) (l : List K), l.foldl (fun acc t => acc + t) a = a + l.sum := by
    intro a l
    induction l generalizing a with
    | nil => simp
    | cons t ts ih => simp only [List.foldl_cons, List.sum_cons, ih]; rw [add_assoc]
  simpa using h 0 terms

/-- … and the source as it is now (regenerated on every run) does exactly that: `OptiWrapper.add_objective` accumulates, nothing calls
`clear_objective`, and each method class hands over the stage's whole declared objective exactly once -/
theorem source_objective_accumulates :
    Rockit.Generated.optiAddObjective = "self.objective=self.objective+expr" ∧
    Rockit.Generated.clearObjectiveCalls = [] ∧
    Rockit.Generated.objectiveCalls =
      [("DirectMethod.transcribe", "self.eval_top(stage,stage._objective)"), ("SamplingMethod.add_objective", "self.eval(stage,stage._objective)")] := by decide

example : ([3, 4, 5] : List Int).foldl (fun acc t => acc + t) 0 = 12 := by decide

end all_stages

end Rockit.C05
