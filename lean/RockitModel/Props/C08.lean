import RockitModel.Proofs.Colloc
import RockitModel.Proofs.Shooting
import RockitModel.Model.Sample
import Mathlib.Algebra.Order.Field.Basic
import Mathlib.Tactic.Linarith
import RockitModel.Proofs.RKTie
import RockitModel.Props.C02
/-!
# C08 — refined sampling and samplers interpolate the discrete solution consistently
-/
set_option linter.unusedSectionVars false
namespace Rockit.C08
open Rockit
variable {K V Q : Type} [Field K] [CharZero K] [AddCommGroup V] [Module K V] [AddCommGroup Q] [Module K Q]

/-- evaluation of a 5-coefficient dense output (`coeff @ [1, s, s², s³, s⁴]`) -/
theorem densePoly5 (c0 c1 c2 c3 c4 : V) (s : K) :
    densePoly [c0, c1, c2, c3, c4] s = c0 + s • c1 + (s^2) • c2 + (s^3) • c3 + (s^4) • c4 := by
  simp only [densePoly, List.foldl_cons, List.foldl_nil, nat_eq, Nat.cast_one]
  module

theorem densePoly2 (c0 c1 : V) (s : K) : densePoly [c0, c1] s = c0 + s • c1 := by
  simp only [densePoly, List.foldl_cons, List.foldl_nil, nat_eq, Nat.cast_one]
  module

/-- each RK4 step polynomial starts at the step's start state … -/
theorem rk4_dense_start (f : V → K → V × Q) (x : V) (t h DTc : K) :
    densePoly (rk4Step f x t h DTc).coeff (0:K) = x := by
  simp only [rk4Step, densePoly5]; simp

/-- … and ends at the step's end state -/
theorem rk4_dense_end (f : V → K → V × Q) (x : V) (t h DTc : K) (hh : h ≠ 0) :
    densePoly (rk4Step f x t h DTc).coeff h = (rk4Step f x t h DTc).xf := by
  simp only [rk4Step, densePoly5, nat_eq]
  push_cast
  match_scalars <;> field_simp <;> ring

/-- its initial slope is the ODE right-hand side at the step start -/
theorem rk4_initial_slope (f : V → K → V × Q) (x : V) (t h DTc : K) :
    (rk4Step f x t h DTc).coeff[1]? = some (f x t).1 := rfl

theorem euler_dense_start (f : V → K → V × Q) (x : V) (t h DTc : K) :
    densePoly (eulerStep f x t h DTc).coeff (0:K) = x := by
  simp only [eulerStep, densePoly2]; simp

theorem euler_dense_end (f : V → K → V × Q) (x : V) (t h DTc : K) :
    densePoly (eulerStep f x t h DTc).coeff h = (eulerStep f x t h DTc).xf := by
  simp only [eulerStep, densePoly2]

theorem euler_initial_slope (f : V → K → V × Q) (x : V) (t h DTc : K) :
    (eulerStep f x t h DTc).coeff[1]? = some (f x t).1 := rfl

/-- the quadrature polynomial `xq_start + Σ coeffq[i]·s^(i+1)` ends at `xq_start + qf` -/
theorem rk4_quad_dense_end (f : V → K → V × Q) (x : V) (xq : Q) (t h DTc : K) (hh : h ≠ 0) :
    densePoly (xq :: (rk4Step f x t h DTc).coeffq) h = xq + (rk4Step f x t h DTc).qf := by
  simp only [rk4Step, densePoly5, nat_eq]
  push_cast
  match_scalars <;> field_simp <;> ring

/-- exactness (PARTIAL form of the clause "exact whenever the true solution is a polynomial of degree ≤ 2"):
if the right-hand side does not depend on the state and is affine in time (`x' = a + t·b`, solution of
degree ≤ 2) the RK4 dense output IS the exact solution at every local time.
What is missing: state-dependent right-hand sides whose solution happens to be quadratic — there the
clause is false of the RK4 scheme itself, see `rk4_dense_not_exact_state_dependent` (known finding). -/
theorem rk4_dense_exact_partial (a b : V) (qf : V → K → Q) (x : V) (t h DTc s : K) (hh : h ≠ 0) :
    densePoly (rk4Step (fun x' t' => (a + t' • b, qf x' t')) x t h DTc).coeff s =
      x + s • a + (t * s + s^2 / 2) • b := by
  simp only [rk4Step, densePoly5, nat_eq]
  push_cast
  match_scalars <;> field_simp <;> ring

/-- the literal clause fails for a state-dependent right-hand side: `x' = x − t² + 2t`, `x(0) = 0` has
the solution `t²`, but one RK4 step of length 1 ends at `47/48 ≠ 1` and its dense output gives
`167/768 ≠ 1/4` at `t = 1/2` (inherent to the scheme; replayed on rockit by the check) -/
theorem rk4_dense_not_exact_state_dependent :
    (rk4Step (fun (x : ℚ) (t : ℚ) => (x - t^2 + 2*t, (0:ℚ))) 0 0 1 1).xf = 47/48 ∧
    densePoly (rk4Step (fun (x : ℚ) (t : ℚ) => (x - t^2 + 2*t, (0:ℚ))) 0 0 1 1).coeff (1/2 : ℚ) = 167/768 := by
  constructor
  · norm_num [rk4Step]
  · rw [show (rk4Step (fun (x : ℚ) (t : ℚ) => (x - t^2 + 2*t, (0:ℚ))) 0 0 1 1).coeff = _ from rfl]
    simp only [rk4Step, densePoly5, nat_eq]
    norm_num

/-- explicit Euler: exact for a constant right-hand side (solution of degree ≤ 1) -/
theorem euler_dense_exact_const (a : V) (qf : V → K → Q) (x : V) (t h DTc s : K) :
    densePoly (eulerStep (fun x' t' => (a, qf x' t')) x t h DTc).coeff s = x + s • a := by
  simp only [eulerStep, densePoly2]

/-! ### collocation: the step polynomial of the refined samples -/
section collocation_dense

/-- the step polynomial starts at the step's start state and passes through the helper states (any pairwise distinct points) -/
theorem colloc_dense_through_states (tau : List K) (hn : ((0:K) :: tau).Nodup) (Xc : List V) (hl : Xc.length = tau.length + 1)
    (j : Nat) (hj : j < tau.length + 1) :
    C02.vpoly ((0:K) :: tau) Xc (((0:K) :: tau)[j]'(by simpa using hj)) = Xc[j]'(by omega) :=
  C02.interpolates ((0:K) :: tau) hn Xc (by simpa using hl) j (by simpa using hj)

/-- … its end value is what the continuity row compares with the next start state: the refined trajectory is continuous at every point
satisfying the dynamic constraints -/
theorem colloc_dense_end (tau : List K) (Xc : List V) :
    collocEnd (collocCoeff tau).D Xc = C02.vpoly ((0:K) :: tau) Xc 1 := C02.end_is_value_at_one tau Xc

/-- … and it is EXACT whenever the true solution is a polynomial of degree ≤ d on the step (every degree, any pairwise distinct points):
with the helper states on the solution, the step polynomial IS the solution at every local time -/
theorem colloc_dense_exact (tau : List K) (hn : ((0:K) :: tau).Nodup) (q : List K) (hq : q.length ≤ tau.length + 1) (s : K) :
    C02.vpoly ((0:K) :: tau) (((0:K) :: tau).map (LP.eval q)) s = LP.eval q s :=
  C02.vpoly_of_polynomial _ hn (by simp) q (by simpa using hq) s

end collocation_dense

/-- collocation: the coefficient list `p_i / h^i` is the power basis of `s ↦ p(s/h)` (local physical time) -/
theorem eval_scale (p : List K) (h s : K) (hh : h ≠ 0) (n : Nat) :
    LP.eval ((p.zipIdx n).map (fun ai => ai.1 / h ^ ai.2)) s * h ^ n = LP.eval p (s / h) := by
  induction p generalizing n with
  | nil => simp
  | cons a p ih =>
    simp only [List.zipIdx_cons, List.map_cons, LP.eval_cons]
    have := ih (n+1)
    have e : LP.eval (List.map (fun ai => ai.1 / h ^ ai.2) (p.zipIdx (n + 1))) s = LP.eval p (s / h) / h ^ (n+1) := by
      rw [← this]; field_simp
    rw [e]
    field_simp
    ring

section sampler
variable [LinearOrder K] [IsStrictOrderedRing K]

/-- `low`: the index found has its grid value at or below `t` whenever the first grid value is -/
theorem low_le (v : Nat → K) (n : Nat) (t : K) (h0 : v 0 ≤ t) : v (lowIdx v n t) ≤ t := by
  unfold lowIdx
  suffices H : ∀ (l : List Nat) (acc : Nat), v acc ≤ t →
      v (l.foldl (fun acc i => if v i ≤ t then i else acc) acc) ≤ t from H _ 0 h0
  intro l
  induction l with
  | nil => intro acc h; simpa using h
  | cons i l ih =>
    intro acc h
    simp only [List.foldl_cons]
    split
    · next hi => exact ih i hi
    · exact ih acc h

/-- … and is in range -/
theorem low_lt (v : Nat → K) (n : Nat) (t : K) (hn : 2 ≤ n) : lowIdx v n t < n - 1 := by
  unfold lowIdx
  suffices H : ∀ (l : List Nat) (acc : Nat), acc < n - 1 → (∀ i ∈ l, i < n - 1) →
      l.foldl (fun acc i => if v i ≤ t then i else acc) acc < n - 1 from
    H _ 0 (by omega) (fun i hi => List.mem_range.mp hi)
  intro l
  induction l with
  | nil => intro acc h _; simpa using h
  | cons i l ih =>
    intro acc h hl
    simp only [List.foldl_cons]
    split
    · exact ih i (hl i (by simp)) (fun j hj => hl j (by simp [hj]))
    · exact ih acc h (fun j hj => hl j (by simp [hj]))

end sampler

/-- the sampler evaluates the same step polynomial as refined sampling, at local time `t − t_m`,
with the control of the enclosing control interval -/
theorem sampler_eq {K : Type} [Field K] [LE K] [DecidableLE K] (c : Ctx K) (e : Expr) (t : K) :
    c.samplerAt e t =
      let m := lowIdx c.flatIntgTime (c.N * c.M + 1) t
      e.eval { c.envFine (m / c.M) (m % c.M) (t - c.flatIntgTime m) t with
               u := arr2 c.pt.U (lowIdx c.tau (c.N + 1) t) } := rfl

/-! non-vacuity: one RK4 step of x' = x from 1 with h = 1 -/
example : densePoly (rk4Step (fun (x : ℚ) (_ : ℚ) => (x, (0:ℚ))) 1 0 1 1).coeff (1:ℚ) = 65/24 := by
  rw [rk4_dense_end _ _ _ _ _ one_ne_zero]; norm_num [rk4Step]


/-! ### the dense-output coefficients as written in the source are the model's -/
section source_tie
variable {K V Q : Type} [Field K] [CharZero K] [AddCommGroup V] [Module K V] [AddCommGroup Q] [Module K Q]

theorem source_dense_output_as_expected :
    Rockit.Generated.rk4Coeff = RKTie.expectedRk4Coeff ∧ Rockit.Generated.rk4CoeffQ = RKTie.expectedRk4CoeffQ ∧
    Rockit.Generated.eulerCoeff = [[⟨"X", 1, 1, 0, 0⟩], [⟨"k.ode", 1, 1, 0, 0⟩]] ∧ Rockit.Generated.eulerCoeffQ = [[⟨"k.quad", 1, 1, 0, 0⟩]] := by decide

/-- `poly_coeff` / `poly_coeff_q` of `intg_rk` (`f0 … f3` in powers of `DT`, not `DT_control`) are `rk4Step.coeff / coeffq` -/
theorem source_rk4_coeffs_are_model (f : V → K → V × Q) (x : V) (t0 DT DTc : K) (hDT : DT ≠ 0) :
    RKTie.expectedRk4Coeff.map (fun ts => RKTie.interp ts (RKTie.odeVal x (RKTie.runStages (K := K) RKTie.expectedRk4StageX RKTie.expectedRk4StageT f x t0 DT DTc)) DT DTc)
      = (rk4Step f x t0 DT DTc).coeff :=
  (RKTie.rk4_source_coeffs_are_model f x t0 DT DTc hDT).1

end source_tie

end Rockit.C08
