import RockitModel.Proofs.Bridge
import RockitModel.Model.Der
import RockitModel.Model.Intg
import RockitModel.Proofs.Glue
import RockitModel.Generated.Glue
import Mathlib.Analysis.Calculus.Deriv.Mul
import Mathlib.Analysis.Calculus.Deriv.Add
import Mathlib.Analysis.Calculus.Deriv.Pow
import Mathlib.Analysis.Calculus.Deriv.Inv
import Mathlib.Algebra.BigOperators.Ring.Finset
import Mathlib.Tactic.Ring
import Mathlib.Tactic.FieldSimp
import Mathlib.Tactic.Module
import Mathlib.Tactic.Positivity
import Mathlib.Tactic.NormNum
import Mathlib.Tactic.Linarith
/-!
# C16 — `der()` is the total time derivative along the declared dynamics
-/
set_option linter.unusedSectionVars false
namespace Rockit.C16
open Rockit

section algebra
variable {K : Type} [Field K]

theorem npow_eq_pow (a : K) (n : Nat) : npow a n = a ^ n := by
  induction n with
  | zero => simp [npow]
  | succ n ih => simp [npow, ih, pow_succ]

theorem intCast_ofNat (k : Nat) : (intCast (Int.ofNat k) : K) = (k : K) := rfl

/-- the symbolic derivative evaluates to the forward-mode tangent whose seeds are the values of
the velocity expressions -/
theorem eval_der (e : Expr) (dsym : Sym → Expr) (env : Env K) :
    (e.der dsym).eval env = e.derVal env (fun s => (dsym s).eval env) := by
  induction e with
  | const n d => simp [Expr.der, Expr.derVal, Expr.eval, intCast]
  | sym s => rfl
  | add a b iha ihb => simp only [Expr.der, Expr.derVal, Expr.eval, iha, ihb]
  | sub a b iha ihb => simp only [Expr.der, Expr.derVal, Expr.eval, iha, ihb]
  | mul a b iha ihb => simp only [Expr.der, Expr.derVal, Expr.eval, iha, ihb]
  | div a b iha ihb => simp only [Expr.der, Expr.derVal, Expr.eval, iha, ihb]
  | neg a iha => simp only [Expr.der, Expr.derVal, Expr.eval, iha]
  | pow a n iha =>
    cases n with
    | zero => simp [Expr.der, Expr.derVal, Expr.eval, intCast]
    | succ m => simp only [Expr.der, Expr.derVal, Expr.eval, iha, intCast_ofNat, nat_eq]; simp

/-- the tangent is linear in the seed … -/
theorem derVal_linear (e : Expr) (env : Env K) (c : K) (d1 d2 : Sym → K) :
    e.derVal env (fun s => c * d1 s + d2 s) = c * e.derVal env d1 + e.derVal env d2 := by
  induction e with
  | const n d => simp [Expr.derVal]
  | sym s => rfl
  | add a b iha ihb => simp only [Expr.derVal, iha, ihb]; ring
  | sub a b iha ihb => simp only [Expr.derVal, iha, ihb]; ring
  | mul a b iha ihb => simp only [Expr.derVal, iha, ihb]; ring
  | div a b iha ihb => simp only [Expr.derVal, iha, ihb]; ring
  | neg a iha => simp only [Expr.derVal, iha]; ring
  | pow a n iha =>
    cases n with
    | zero => simp [Expr.derVal]
    | succ m => simp only [Expr.derVal, iha]; ring

theorem derVal_zero (e : Expr) (env : Env K) : e.derVal env (fun _ => 0) = 0 := by
  induction e with
  | const n d => simp [Expr.derVal]
  | sym s => rfl
  | add a b iha ihb => simp [Expr.derVal, iha, ihb]
  | sub a b iha ihb => simp [Expr.derVal, iha, ihb]
  | mul a b iha ihb => simp [Expr.derVal, iha, ihb]
  | div a b iha ihb => simp [Expr.derVal, iha, ihb]
  | neg a iha => simp [Expr.derVal, iha]
  | pow a n iha =>
    cases n with
    | zero => simp [Expr.derVal]
    | succ m => simp [Expr.derVal, iha]

/-- seed of the partial derivative with respect to one symbol -/
def ind (s : Sym) : Sym → K := fun s' => if s' = s then 1 else 0

/-- … hence linear in finite combinations of seeds -/
theorem derVal_sum (e : Expr) (env : Env K) (n : Nat) (c : Nat → K) (d : Nat → Sym → K) (d0 : Sym → K) :
    e.derVal env (fun s => d0 s + ∑ i ∈ Finset.range n, c i * d i s) =
      e.derVal env d0 + ∑ i ∈ Finset.range n, c i * e.derVal env (d i) := by
  induction n with
  | zero => simp
  | succ n ih =>
    have h : (fun s => d0 s + ∑ i ∈ Finset.range (n+1), c i * d i s) =
        (fun s => c n * d n s + (d0 s + ∑ i ∈ Finset.range n, c i * d i s)) := by
      funext s; rw [Finset.sum_range_succ]; ring
    rw [h, derVal_linear, ih, Finset.sum_range_succ]; ring

/-- **der(e) = ∂e/∂t + ∇ₓe·ode + ∇_{xq}e·quad** at every evaluation point: the value of `Stage.der(e)`
is the partial derivative of `e` in time plus its gradient in the states (and quadrature states)
times the declared right-hand sides; parameters and variables are constants. (`derVal env (ind s)`
is the partial derivative `∂e/∂s`, see `partial_is_derivative`.) -/
theorem total_derivative (o : Ocp K) (e : Expr) (env : Env K) :
    (e.der o.derSym).eval env =
      e.derVal env (ind .t)
      + ∑ i ∈ Finset.range o.nx, (o.derSym (.x i)).eval env * e.derVal env (ind (.x i))
      + ∑ i ∈ Finset.range o.nxq, (o.derSym (.xq i)).eval env * e.derVal env (ind (.xq i)) := by
  rw [eval_der]
  have key : (fun s => (o.derSym s).eval env) =
      (fun s => (ind (K := K) .t s + ∑ i ∈ Finset.range o.nx, (o.derSym (.x i)).eval env * ind (.x i) s)
                + ∑ i ∈ Finset.range o.nxq, (o.derSym (.xq i)).eval env * ind (.xq i) s) := by
    funext s
    cases s <;> simp [ind, Ocp.derSym, Expr.eval, intCast]
    next i =>
      by_cases h : i < o.nx <;> simp [h, Expr.eval, intCast]
    next i =>
      by_cases h : i < o.nxq <;> simp [h, Expr.eval, intCast]
  rw [key, derVal_sum e env o.nxq _ _ _, derVal_sum e env o.nx _ _ _]

end algebra

/-! ### the analytic statement over ℝ -/
section analytic

/-- every divisor occurring in `e` is non-zero at `env` -/
def Defined (env : Env ℝ) : Expr → Prop
  | .const _ _ => True
  | .sym _ => True
  | .add a b | .sub a b | .mul a b => Defined env a ∧ Defined env b
  | .div a b => Defined env a ∧ Defined env b ∧ b.eval env ≠ 0
  | .neg a => Defined env a
  | .pow a _ => Defined env a

/-- chain rule by induction over the expression: if every symbol moves along a differentiable path
with velocity `dv s` at time `t`, the expression moves with velocity `derVal` -/
theorem hasDerivAt_eval (e : Expr) (path : ℝ → Env ℝ) (dv : Sym → ℝ) (t : ℝ)
    (hp : ∀ s, HasDerivAt (fun τ => (path τ).get s) (dv s) t) (hd : Defined (path t) e) :
    HasDerivAt (fun τ => e.eval (path τ)) (e.derVal (path t) dv) t := by
  induction e with
  | const n d => simpa [Expr.eval, Expr.derVal] using hasDerivAt_const t _
  | sym s => simpa [Expr.eval, Expr.derVal] using hp s
  | add a b iha ihb => simp only [Expr.eval, Expr.derVal]; exact (iha hd.1).fun_add (ihb hd.2)
  | sub a b iha ihb => simp only [Expr.eval, Expr.derVal]; exact (iha hd.1).fun_sub (ihb hd.2)
  | mul a b iha ihb => simp only [Expr.eval, Expr.derVal]; exact (iha hd.1).fun_mul (ihb hd.2)
  | div a b iha ihb =>
    simp only [Expr.eval, Expr.derVal]
    have := (iha hd.1).fun_div (ihb hd.2.1) hd.2.2
    simpa [pow_two] using this
  | neg a iha => simp only [Expr.eval, Expr.derVal]; exact (iha hd).fun_neg
  | pow a n iha =>
    cases n with
    | zero => simpa [Expr.eval, Expr.derVal, npow] using hasDerivAt_const t (1:ℝ)
    | succ m =>
      simp only [Expr.eval, Expr.derVal, npow_eq_pow, nat_eq]
      have := (iha hd).fun_pow (m+1)
      simpa using this

/-- `derVal env (ind s)` is the partial derivative with respect to symbol `s` -/
theorem partial_is_derivative (e : Expr) (path : ℝ → Env ℝ) (s : Sym) (t : ℝ)
    (hs : HasDerivAt (fun τ => (path τ).get s) 1 t)
    (ho : ∀ s', s' ≠ s → HasDerivAt (fun τ => (path τ).get s') 0 t) (hd : Defined (path t) e) :
    HasDerivAt (fun τ => e.eval (path τ)) (e.derVal (path t) (ind s)) t := by
  apply hasDerivAt_eval e path (ind s) t _ hd
  intro s'
  by_cases h : s' = s
  · subst h; simpa [ind] using hs
  · simpa [ind, h] using ho s' h

/-- **along any exact solution `der(e)` is `d/dt e`**: if the path moves every state and quadrature
state with its declared right-hand side, time with velocity one and keeps everything else
(parameters, variables) constant, then `t ↦ e(path t)` is differentiable with derivative the value of
`Stage.der(e)` — for every expression built from `+ − × ÷` and integer powers whose divisors do not
vanish at that time. -/
theorem der_along_solutions (o : Ocp ℝ) (e : Expr) (path : ℝ → Env ℝ) (t : ℝ)
    (hp : ∀ s, HasDerivAt (fun τ => (path τ).get s) ((o.derSym s).eval (path t)) t)
    (hd : Defined (path t) e) :
    HasDerivAt (fun τ => e.eval (path τ)) ((e.der o.derSym).eval (path t)) t := by
  rw [eval_der]
  exact hasDerivAt_eval e path _ t hp hd

end analytic

/-! ### rejection, and the chain of an order-`k` control -/
section chain
variable {K : Type} [Field K]

/-- an expression that depends on a (piecewise constant) control has no derivative: rejected -/
theorem der_rejects_controls (o : Ocp K) (e : Expr) (h : e.mentions isU = true) :
    o.der e = .error .dependsOnControl := by
  simp [Ocp.der, h]

theorem der_accepts (o : Ocp K) (e : Expr) (h : e.mentions isU = false) :
    o.der e = .ok (e.der o.derSym) := by
  simp [Ocp.der, h]

/-- the states at indices `c … c+k-1` are the chain `control(order=k)` creates on control `ui` -/
def IsChain (o : Ocp K) (c k ui : Nat) : Prop :=
  ∀ i, i < k → o.derSym (.x (c + i)) = chainOde c k ui i

/-- `der` applied `j ≤ k` times to an order-`k` control walks down the chain of its derivatives;
the `k`-th derivative is the piecewise-constant decision itself … -/
theorem chain_walk (o : Ocp K) (c k ui : Nat) (hk : 0 < k) (h : IsChain o c k ui) :
    ∀ j, j ≤ k → o.derIter (.sym (.x c)) j = .ok (if j < k then .sym (.x (c + j)) else .sym (.u ui)) := by
  intro j
  induction j with
  | zero => intro _; simp [Ocp.derIter, hk]
  | succ j ih =>
    intro hj
    have hjk : j < k := by omega
    rw [Ocp.derIter, ih (by omega)]
    simp only [hjk, if_true]
    show o.der (.sym (.x (c + j))) = _
    rw [der_accepts o _ (by simp [Expr.mentions, isU])]
    simp only [Expr.der, h j hjk, chainOde]
    by_cases h2 : j + 1 < k
    · simp [h2, Nat.add_assoc]
    · simp [h2]

/-- … and asking for one derivative more raises -/
theorem chain_exhausted (o : Ocp K) (c k ui : Nat) (hk : 0 < k) (h : IsChain o c k ui) :
    o.derIter (.sym (.x c)) (k + 1) = .error .dependsOnControl := by
  rw [Ocp.derIter, chain_walk o c k ui hk h k (le_refl k)]
  simp only [lt_irrefl, if_false]
  show o.der (.sym (.u ui)) = _
  exact der_rejects_controls o _ (by simp [Expr.mentions, isU])

end chain

/-! ### the chain under RK4: continuous piecewise polynomials, each the derivative of the one above -/
section rk4chain
variable {K : Type} [Field K] [CharZero K]

/-- right-hand side of a chain of four states on top of a constant control value `u`
(`control(order=4)`; its tails are the chains of order 3, 2, 1) -/
def chain4 (u : K) : (K × K × K × K) → K → (K × K × K × K) × K :=
  fun x _ => ((x.2.1, x.2.2.1, x.2.2.2, u), 0)

theorem densePoly5 {V : Type} [AddCommGroup V] [Module K V] (c0 c1 c2 c3 c4 : V) (s : K) :
    densePoly [c0, c1, c2, c3, c4] s = c0 + s • c1 + (s^2) • c2 + (s^3) • c3 + (s^4) • c4 := by
  simp only [densePoly, List.foldl_cons, List.foldl_nil, nat_eq, Nat.cast_one]
  module

/-- on every integrator step the RK4 dense output of an order-`k ≤ 4` control chain IS its Taylor
polynomial in local time: member `j` is a polynomial of degree `k-j` whose (formal) derivative is
member `j+1`, the lowest member being the constant decision `u` -/
theorem rk4_chain_dense (a b c d u t h DTc s : K) (hh : h ≠ 0) :
    densePoly (rk4Step (chain4 u) (a, b, c, d) t h DTc).coeff s =
      (a + s * b + s^2 / 2 * c + s^3 / 6 * d + s^4 / 24 * u,
       b + s * c + s^2 / 2 * d + s^3 / 6 * u,
       c + s * d + s^2 / 2 * u,
       d + s * u) := by
  simp only [rk4Step, chain4, densePoly5, nat_eq]
  push_cast
  refine Prod.ext ?_ (Prod.ext ?_ (Prod.ext ?_ ?_)) <;>
    simp only [Prod.fst_add, Prod.snd_add, Prod.smul_fst, Prod.smul_snd, Prod.fst_sub, Prod.snd_sub, smul_eq_mul] <;>
    field_simp <;> ring

/-- … and the step result is that polynomial at `s = h`: the chain is integrated exactly, so the
pieces join continuously at the integrator and control grid points (the shooting gaps of C01 close
on exactly these end values) -/
theorem rk4_chain_end (a b c d u t h DTc : K) :
    (rk4Step (chain4 u) (a, b, c, d) t h DTc).xf =
      (a + h * b + h^2 / 2 * c + h^3 / 6 * d + h^4 / 24 * u,
       b + h * c + h^2 / 2 * d + h^3 / 6 * u,
       c + h * d + h^2 / 2 * u,
       d + h * u) := by
  simp only [rk4Step, chain4, nat_eq]
  push_cast
  refine Prod.ext ?_ (Prod.ext ?_ (Prod.ext ?_ ?_)) <;>
    simp only [Prod.fst_add, Prod.snd_add, Prod.smul_fst, Prod.smul_snd, smul_eq_mul] <;>
    field_simp <;> ring

end rk4chain


/-! ### non-vacuity: concrete instances meet the hypotheses -/
section examples

/-- `x' = 2` -/
def oEx : Ocp ℝ :=
  { nx := 1, nxq := 0, ode := #v[.const 2 1], quad := #v[],
    method := { kind := .ms, N := 1, M := 1, grid := { kind := .uniform, min := 0 } } }

/-- its solution through `x(0) = 0` -/
def pathEx (τ : ℝ) : Env ℝ := { x := #[2 * τ], t := τ, T := 1, t0 := 0, DT := 0, DTc := 0 }

theorem pathEx_solves (t : ℝ) :
    ∀ s, HasDerivAt (fun τ => (pathEx τ).get s) ((oEx.derSym s).eval (pathEx t)) t := by
  intro s
  cases s <;> simp [pathEx, Env.get, Ocp.derSym, oEx, Expr.eval, intCast] <;> try exact hasDerivAt_const t _
  next i =>
    by_cases h : i = 0
    · subst h
      simpa [Expr.eval, intCast] using (hasDerivAt_id' t).const_mul (2:ℝ)
    · have : ¬ i < 1 := by omega
      simp [this, h, Expr.eval, intCast]
      exact hasDerivAt_const t _
  next => exact hasDerivAt_id' t

/-- the hypotheses of `der_along_solutions` are met by a concrete time-dependent, state-dependent
rational expression `x·t / (1 + x²)` -/
example (t : ℝ) :
    HasDerivAt (fun τ => (Expr.div (.mul (.sym (.x 0)) (.sym .t)) (.add (.const 1 1) (.pow (.sym (.x 0)) 2))).eval (pathEx τ))
      (((Expr.div (.mul (.sym (.x 0)) (.sym .t)) (.add (.const 1 1) (.pow (.sym (.x 0)) 2))).der oEx.derSym).eval (pathEx t)) t := by
  apply der_along_solutions oEx _ pathEx t (pathEx_solves t)
  refine ⟨⟨trivial, trivial⟩, ⟨trivial, trivial⟩, ?_⟩
  simp only [Expr.eval, npow, intCast, pathEx, Env.get, nat_eq]
  norm_num
  nlinarith [mul_self_nonneg (2 * t)]

/-- an order-2 control: two chain states on top of control 0 -/
def oChain : Ocp ℚ :=
  { nx := 2, nxq := 0, ode := #v[.sym (.x 1), .sym (.u 0)], quad := #v[],
    method := { kind := .ms, N := 1, M := 1, grid := { kind := .uniform, min := 0 } } }

example : IsChain oChain 0 2 0 := by
  intro i hi
  have : i = 0 ∨ i = 1 := by omega
  rcases this with h | h <;> subst h <;> simp [Ocp.derSym, oChain, chainOde]

end examples

/-! ### right-hand sides declared on a concatenation of state symbols -/
section concatenated_declaration

/-- `set_der(vertcat(a, b, …), rhs)`: splitting the right-hand side by the sizes of the symbols hands every state its own rows, whatever
the sizes (the running-offset loop of `for_all_primitives`) -/
theorem concatenated_rhs_split {α : Type} (parts : List (List α)) : splitBy (parts.map List.length) parts.flatten = parts :=
  splitBy_flatten parts

/-- … and the loop as written in `casadi_helpers.for_all_primitives` now (regenerated from the source on every run) is that loop: slice and
stride are the number of entries of the symbol -/
theorem source_split_as_expected :
    Rockit.Generated.glueSizes.filter (fun r => r.1 == "for_all_primitives") =
      [("for_all_primitives", "stride", "nnz"), ("for_all_primitives", "slice", "nnz")] := by decide

/-- non-vacuity: a 2-vector state followed by a scalar one -/
example : splitBy [2, 1] [10, 20, 30] = [[10, 20], [30]] := by decide

end concatenated_declaration

end Rockit.C16
