import RockitModel.Proofs.Bridge
import RockitModel.Model.Transcribe
/-!
# C11 — a free-time problem is the fixed-time problem with T (t0) as a decision variable

In the model the horizon enters every definition only through the values `pt.T`, `pt.t0` of the
decision point; the description only records *whether* they are decision variables.
-/
set_option linter.unusedSectionVars false
namespace Rockit.C11
open Rockit
variable {K : Type} [Field K]

/-- the same description and point, with `T` / `t0` declared free or not -/
def withFree (c : Ctx K) (Tfree t0free : Bool) : Ctx K :=
  { o := { c.o with Tfree := Tfree, t0free := t0free }, pt := c.pt }

variable (c : Ctx K) (a b : Bool)

/-- restricted to `T = c`, `t0 = c0` the free-time problem has the same objective … -/
theorem objective_same : (withFree c a b).objective = c.objective := by
  rfl

/-- … the same dynamic constraints … -/
theorem dyn_rows_same : (withFree c a b).dynRows = c.dynRows := rfl

/-- … the same declared constraints at the same points … -/
theorem user_rows_same : (withFree c a b).userRows = c.userRows := by
  rfl

/-- … the same time grid … -/
theorem grid_same (k : Nat) : (withFree c a b).tau k = c.tau k := rfl

theorem finalize_rows_same : (withFree c a b).finalizeRows = c.finalizeRows := rfl

/-- … plus exactly one extra row `T ≥ 0` when `T` is free (none for `t0`) -/
theorem tpos_row : (withFree c true b).tposRows = [{ tag := "tpos", atoms := [c.pt.T] }] ∧
    (withFree c false b).tposRows = [] := ⟨rfl, rfl⟩

/-- `ocp.T`, `ocp.t0` in objectives, constraints and `value()` refer to that variable -/
theorem refers_to_variable (ph : Array K) (q : Node) (off : Array K) :
    (c.envGlobal ph).T = c.pt.T ∧ (c.envGlobal ph).t0 = c.pt.t0 ∧
    (c.envNode q off).T = c.pt.T ∧ (c.envNode q off).t0 = c.pt.t0 := ⟨rfl, rfl, rfl, rfl⟩

end Rockit.C11
