import RockitModel.Proofs.Grid
import RockitModel.Model.Transcribe
import Mathlib.Tactic.LinearCombination
import RockitModel.Generated.Reads
/-!
# C06 — the time grid is the declared partition of [t0, t0+T]
-/
set_option linter.unusedSectionVars false
namespace Rockit.C06
open Rockit
variable {K : Type} [Field K]

section plain
variable [CharZero K]

def uniformSpec : GridSpec K := { kind := .uniform, min := 0 }
def geometricSpec (growth : K) (isLocal : Bool) (g : K) : GridSpec K := { kind := .geometric growth isLocal g, min := 0 }

/-- uniform grid: node `k` sits at `t0 + (k/N)·T` -/
theorem uniform_node (N k : Nat) (hk : k ≤ N) (t0 T : K) (t0l Tl : Nat → K) :
    (uniformSpec (K := K)).tau N t0 T t0l Tl k = t0 + ((k : K) / (N : K)) * T := by
  simp only [GridSpec.tau, uniformSpec, GridSpec.locT, GridSpec.normalized, Bool.false_eq_true, if_false]
  rw [getD_map_range _ _ _ (by omega)]

/-- the grid starts at `t0` and ends at `t0 + T` -/
theorem uniform_endpoints (N : Nat) (hN : 0 < N) (t0 T : K) (t0l Tl : Nat → K) :
    (uniformSpec (K := K)).tau N t0 T t0l Tl 0 = t0 ∧ (uniformSpec (K := K)).tau N t0 T t0l Tl N = t0 + T := by
  rw [uniform_node N 0 (by omega), uniform_node N N (le_refl _)]
  have : (N : K) ≠ 0 := by exact_mod_cast Nat.pos_iff_ne_zero.mp hN
  constructor
  · simp
  · field_simp

/-- geometric grid: node `k` sits at `t0 + (S_k / S_N)·T`, `S_k = 1 + g + … + g^(k-1)` -/
theorem geometric_node (growth g : K) (isLocal : Bool) (N k : Nat) (hk : k ≤ N) (t0 T : K) (t0l Tl : Nat → K) :
    (geometricSpec growth isLocal g).tau N t0 T t0l Tl k = t0 + (geoSum g k / geoSum g N) * T := by
  simp only [GridSpec.tau, geometricSpec, GridSpec.locT, GridSpec.normalized, Bool.false_eq_true, if_false, nat_eq, Nat.cast_zero]
  rw [geomNormalized_getD g N k hk]

/-- consecutive control intervals of a geometric grid are in the constant ratio `g` -/
theorem geometric_ratio (growth g : K) (isLocal : Bool) (N k : Nat) (hk : k + 2 ≤ N) (t0 T : K) (t0l Tl : Nat → K) :
    let tau := (geometricSpec growth isLocal g).tau N t0 T t0l Tl
    tau (k+2) - tau (k+1) = g * (tau (k+1) - tau k) := by
  simp only
  rw [geometric_node _ _ _ N (k+2) (by omega), geometric_node _ _ _ N (k+1) (by omega), geometric_node _ _ _ N k (by omega)]
  simp only [geoSum, pow_succ]
  ring

/-- hence the last interval is `g^(N-1)` times the first (equal to the declared growth factor when
the code's `g = growth^(1/(N-1))`, a numeric premise checked by the harness) -/
theorem geometric_last_first (growth g : K) (isLocal : Bool) (N : Nat) (hN : 0 < N) (t0 T : K) (t0l Tl : Nat → K) :
    let tau := (geometricSpec growth isLocal g).tau N t0 T t0l Tl
    tau N - tau (N-1) = g ^ (N-1) * (tau 1 - tau 0) := by
  simp only
  obtain ⟨n, rfl⟩ : ∃ n, N = n + 1 := ⟨N - 1, by omega⟩
  rw [geometric_node _ _ _ (n+1) (n+1) (le_refl _), geometric_node _ _ _ (n+1) (n+1-1) (by omega),
      geometric_node _ _ _ (n+1) 1 (by omega), geometric_node _ _ _ (n+1) 0 (by omega)]
  simp only [Nat.add_sub_cancel, geoSum, pow_zero, zero_add]
  ring

/-- the integrator grid splits control interval `k` into `M` equal steps -/
theorem integrator_split (tau : Nat → K) (M k i : Nat) (hM : 0 < M) (hi : i ≤ M) :
    intgTime tau M k i = tau k + (i : K) * ((tau (k+1) - tau k) / (M : K)) := by
  unfold intgTime
  split
  · next h => subst h
              have : (i : K) ≠ 0 := by exact_mod_cast Nat.pos_iff_ne_zero.mp hM
              field_simp; ring
  · rfl

/-- `DT` at every integrator point is the step length of the interval being propagated -/
theorem dt_is_step (tau : Nat → K) (M k i : Nat) (hM : 0 < M) (hi : i < M) :
    dtAt tau M k i = (tau (k+1) - tau k) / (M : K) := by
  unfold dtAt
  rw [integrator_split tau M k (i+1) hM (by omega), integrator_split tau M k i hM (by omega)]
  push_cast; ring

/-- `DT_control` is the length of the interval, the final node reporting the last one -/
theorem dt_control (tau : Nat → K) (N k : Nat) (hk : k < N) :
    dtControlAt tau N (.at k) = tau (k+1) - tau k ∧ dtControlAt tau N .final = tau N - tau (N-1) ∧
    dtControlAt tau N (.at N) = tau N - tau (N-1) := by
  simp [dtControlAt, Nat.ne_of_lt hk]

end plain

section localised
/-- `localize_t0`: wherever the coupling rows `t0_local[k] + T_k == t0_local[k+1]` hold, the control
grid built from the local start times is the declared partition -/
theorem localised_t0 (n : Nat → K) (t0 T : K) (t0l : Nat → K) (N : Nat) (h0 : n 0 = 0)
    (hrows : ∀ k < N, t0localAt t0 t0l (k+1) = t0localAt t0 t0l k + T * (n (k+1) - n k)) :
    ∀ k ≤ N, t0localAt t0 t0l k = t0 + n k * T := by
  intro k
  induction k with
  | zero => intro _; simp [t0localAt, h0]
  | succ k ih =>
    intro hk
    rw [hrows k (by omega), ih (by omega)]
    ring

/-- `localize_T` (uniform): wherever `T_local[k+1] == T_local[k]` hold, every interval has length
`T/N` and node `k` sits at `t0 + k·T/N` -/
theorem localised_T_uniform (t0 T : K) (Tl : Nat → K) (N : Nat)
    (hrows : ∀ k, k + 1 < N → (uniformSpec (K := K)).TlocalAt N T Tl (k+1) = (uniformSpec (K := K)).TlocalAt N T Tl k) :
    ∀ k ≤ N, t0 + sumTo ((uniformSpec (K := K)).TlocalAt N T Tl) k = t0 + (k : K) * (T / (N : K)) := by
  have hall : ∀ k < N, (uniformSpec (K := K)).TlocalAt N T Tl k = T / (N : K) := by
    intro k
    induction k with
    | zero => intro _; simp [GridSpec.TlocalAt, uniformSpec, GridSpec.isFree, GridSpec.scaleFirst]; ring
    | succ k ih => intro hk; rw [hrows k hk, ih (by omega)]
  intro k
  induction k with
  | zero => intro _; simp [sumTo]
  | succ k ih =>
    intro hk
    have := ih (by omega)
    simp only [sumTo] at *
    rw [hall k (by omega)]
    push_cast
    linear_combination this

/-- FreeGrid: where `control_grid[N] == t0 + T` holds, the interval lengths add up to `T` -/
theorem free_sum (t0 T : K) (Tl : Nat → K) (N : Nat)
    (hfin : t0 + sumTo Tl N = t0 + T) : sumTo Tl N = T := by
  linear_combination hfin

end localised

section order
variable [LinearOrder K] [IsStrictOrderedRing K]

/-- uniform grid is strictly increasing for `T > 0` -/
theorem uniform_monotone (N k : Nat) (hk : k < N) (t0 T : K) (hT : 0 < T) (t0l Tl : Nat → K) :
    (uniformSpec (K := K)).tau N t0 T t0l Tl k < (uniformSpec (K := K)).tau N t0 T t0l Tl (k+1) := by
  rw [uniform_node N k (by omega), uniform_node N (k+1) (by omega)]
  have hN : (0:K) < (N : K) := by exact_mod_cast (by omega : 0 < N)
  have : (k : K) / N < ((k+1 : Nat) : K) / N := by
    apply div_lt_div_of_pos_right _ hN; push_cast; linarith
  nlinarith

/-- a grid built from positive interval lengths is strictly increasing (FreeGrid / `localize_T`) -/
theorem cumsum_monotone (t0 : K) (Tl : Nat → K) (k : Nat) (h : 0 < Tl k) :
    t0 + sumTo Tl k < t0 + sumTo Tl (k+1) := by
  simp only [sumTo]; linarith

/-- min/max: a feasible min/max row bounds its interval length -/
theorem minmax_row (g : GridSpec K) (x : K) (h : ∀ a ∈ Ctx.minmaxAtoms g x, 0 ≤ a) :
    g.min ≤ x ∧ (∀ m, g.max = some m → x ≤ m) := by
  unfold Ctx.minmaxAtoms at h
  constructor
  · have := h (x - g.min) (by simp); linarith
  · intro m hm
    have := h (m - x) (by simp [hm]); linarith

/-- FreeGrid: every control interval gets its own min/max row -/
theorem free_minmax_rows (c : Ctx K) (k : Nat) (h : c.o.method.grid.kind = .free) :
    ({ tag := s!"grid minmax {k}", atoms := Ctx.minmaxAtoms c.o.method.grid
        (c.o.method.grid.TlocalAt c.N c.pt.T (fun k => c.pt.Tl.getD k (nat 0)) k) } : Row K) ∈ c.couplingRows k := by
  unfold Ctx.couplingRows
  simp only [h]
  simp

/-- every method adds the coupling rows of every control interval -/
theorem coupling_all_methods (c : Ctx K) (k : Nat) (hk : k < c.N) (r : Row K) (hr : r ∈ c.couplingRows k) :
    r ∈ c.nlp.rows := by
  simp only [Ctx.nlp, Ctx.gridRows, List.mem_append, List.mem_flatMap, List.mem_range]
  exact Or.inl (Or.inl (Or.inr (Or.inl ⟨k, hk, hr⟩)))

/-- geometric intervals with ratio `g ≥ 1` and positive first interval are non-decreasing, so bounding
the first from below and the last from above bounds them all -/
theorem geometric_monotone_intervals (d : Nat → K) (g : K) (hg : 1 ≤ g) (h0 : 0 ≤ d 0)
    (hr : ∀ k, d (k+1) = g * d k) : ∀ k, 0 ≤ d k ∧ d k ≤ d (k+1) := by
  intro k
  induction k with
  | zero => exact ⟨h0, by rw [hr]; nlinarith⟩
  | succ k ih =>
    have hk : 0 ≤ d (k+1) := by rw [hr]; exact mul_nonneg (by linarith) ih.1
    exact ⟨hk, by rw [hr (k+1)]; nlinarith⟩

end order

/-! non-vacuity -/
example : (uniformSpec (K := ℚ)).tau 4 1 2 (fun _ => 0) (fun _ => 0) 3 = 5/2 := by
  rw [uniform_node 4 3 (by omega)]; norm_num
example : geomNormalized (2:ℚ) 3 = [0, 1/7, 3/7, 1] := by
  simp [geomNormalized, geomRaw]; norm_num


/-- the time-grid coupling rows are added by every sampling method (regenerated table): MultipleShooting,
SingleShooting and DirectCollocation all call `add_coupling_constraints` for every control interval -/
theorem coupling_rows_added_by_every_method :
    ∀ m ∈ Rockit.Generated.methodReads, m.cls ∈ ["MultipleShooting", "SingleShooting", "DirectCollocation"] → m.coupling = true := by
  decide

end Rockit.C06
