import RockitModel.Proofs.Bridge
import RockitModel.Model.Intg
import RockitModel.Spec.Shooting
import RockitModel.Props.C01
import RockitModel.Props.C02
import Mathlib.Algebra.Order.Field.Basic
import Mathlib.Tactic.Ring
import Mathlib.Tactic.FieldSimp
import Mathlib.Tactic.Linarith
import Mathlib.Tactic.Positivity
import Mathlib.Tactic.NormNum
import Mathlib.Tactic.Module
import Mathlib.Tactic.GCongr
import Mathlib.Analysis.Complex.Exponential
import Mathlib.Analysis.SpecialFunctions.Exp
import Mathlib.Analysis.Calculus.Deriv.Comp
import Mathlib.Analysis.Calculus.Deriv.Add
import Mathlib.Analysis.Calculus.Deriv.Mul
import Mathlib.Analysis.Calculus.MeanValue
import Mathlib.Analysis.Calculus.Deriv.Prod
import Mathlib.Analysis.SpecialFunctions.Trigonometric.Deriv
import Mathlib.Analysis.SpecialFunctions.Trigonometric.Bounds
/-!
# C03 — discretised dynamics and integrals converge to the continuous-time model (partial)

What is machine-checked: the algebra of the schemes as the model (tied to rockit by C01/C05) runs
them — order conditions of the tableau, exactness classes with the exact error constant, stability
functions, propagation over `M` steps —, the abstract convergence argument (discrete Grönwall: local
error + Lipschitz one-step map ⇒ global error), complete convergence proofs at the classical order
for the linear test equation (RK4: order 4, Euler: order 1, over ℝ with `Real.exp`), and the time
rescaling `intg_builtin`/`sys_simulator` apply before calling a CasADi integrator.
What is NOT: that the order conditions imply the local error bound for an arbitrary smooth vector
field (textbook, not in Mathlib), collocation super-convergence, the CasADi integrators themselves.
Those are covered by the numeric order/tolerance measurements of the check, labelled as tests.
-/
set_option linter.unusedSectionVars false
namespace Rockit.C03
open Rockit

/-! ### the tableau the model's RK4 step uses, and its order conditions -/
section tableau

/-- explicit 4-stage Runge–Kutta step with a strictly lower-triangular tableau -/
def rk4stage {K V : Type} [Field K] [AddCommGroup V] [Module K V]
    (a21 a31 a32 a41 a42 a43 b1 b2 b3 b4 c2 c3 c4 : K) (f : V → K → V) (x : V) (t h : K) : V :=
  let k1 := f x t
  let k2 := f (x + h • (a21 • k1)) (t + c2 * h)
  let k3 := f (x + h • (a31 • k1 + a32 • k2)) (t + c3 * h)
  let k4 := f (x + h • (a41 • k1 + a42 • k2 + a43 • k3)) (t + c4 * h)
  x + h • (b1 • k1 + b2 • k2 + b3 • k3 + b4 • k4)

variable {K V Q : Type} [Field K] [CharZero K] [AddCommGroup V] [Module K V] [AddCommGroup Q] [Module K Q]

/-- `intg_rk` IS the Runge–Kutta method with the classical tableau
`c = (0, ½, ½, 1)`, `a21 = ½, a32 = ½, a43 = 1`, `b = (⅙, ⅓, ⅓, ⅙)` -/
theorem rk4Step_is_tableau (f : V → K → V × Q) (x : V) (t h DTc : K) :
    (rk4Step f x t h DTc).xf =
      rk4stage (1/2) 0 (1/2) 0 0 1 (1/6) (1/3) (1/3) (1/6) (1/2) (1/2) 1 (fun x t => (f x t).1) x t h := by
  rw [C01.rk4_textbook]
  simp only [Spec.rk4, rk4stage, nat_eq, zero_smul, zero_add, add_zero, one_smul, smul_smul, one_mul]
  push_cast
  rfl

/-- all eight order conditions up to order 4 hold for that tableau (so the method has classical
order 4) … -/
theorem rk4_order_conditions :
    let a21 : ℚ := 1/2; let a31 : ℚ := 0; let a32 : ℚ := 1/2; let a41 : ℚ := 0; let a42 : ℚ := 0; let a43 : ℚ := 1
    let b1 : ℚ := 1/6; let b2 : ℚ := 1/3; let b3 : ℚ := 1/3; let b4 : ℚ := 1/6
    let c2 : ℚ := 1/2; let c3 : ℚ := 1/2; let c4 : ℚ := 1
    -- consistency of the nodes
    (c2 = a21 ∧ c3 = a31 + a32 ∧ c4 = a41 + a42 + a43) ∧
    -- order 1, 2
    (b1 + b2 + b3 + b4 = 1) ∧ (b2 * c2 + b3 * c3 + b4 * c4 = 1/2) ∧
    -- order 3
    (b2 * c2^2 + b3 * c3^2 + b4 * c4^2 = 1/3) ∧ (b3 * a32 * c2 + b4 * (a42 * c2 + a43 * c3) = 1/6) ∧
    -- order 4
    (b2 * c2^3 + b3 * c3^3 + b4 * c4^3 = 1/4) ∧
    (b3 * c3 * a32 * c2 + b4 * c4 * (a42 * c2 + a43 * c3) = 1/8) ∧
    (b3 * a32 * c2^2 + b4 * (a42 * c2^2 + a43 * c3^2) = 1/12) ∧
    (b4 * a43 * a32 * c2 = 1/24) := by
  norm_num

/-- … and the first order-5 condition fails (`Σ bᵢ cᵢ⁴ = 5/24 ≠ 1/5`): the order is exactly 4 -/
theorem rk4_not_order_five : (1/3 : ℚ) * (1/2)^4 + (1/3) * (1/2)^4 + (1/6) * 1^4 ≠ 1/5 := by norm_num

/-- explicit Euler: the order-1 condition holds (`b₁ = 1`), the order-2 condition `Σ bᵢcᵢ = ½` fails -/
theorem euler_order_conditions : ((1:ℚ) = 1) ∧ ((1:ℚ) * 0 ≠ 1/2) := by norm_num

end tableau

/-! ### exactness classes, with the exact error constant -/
section exactness
variable {K : Type} [Field K] [CharZero K]

/-- `x' = q(t)`, `q` a cubic: one RK4 step (and its quadrature output, which is the same Simpson
rule) is EXACT: it returns `x + ∫ₜ^{t+h} q` -/
theorem rk4_cubic_exact (a0 a1 a2 a3 x t h DTc : K) :
    (rk4Step (fun (_ : K) (s : K) => (a0 + a1 * s + a2 * s^2 + a3 * s^3, a0 + a1 * s + a2 * s^2 + a3 * s^3)) x t h DTc).xf
      = x + (a0 * h + a1 * ((t+h)^2 - t^2) / 2 + a2 * ((t+h)^3 - t^3) / 3 + a3 * ((t+h)^4 - t^4) / 4) ∧
    (rk4Step (fun (_ : K) (s : K) => (a0 + a1 * s + a2 * s^2 + a3 * s^3, a0 + a1 * s + a2 * s^2 + a3 * s^3)) x t h DTc).qf
      = a0 * h + a1 * ((t+h)^2 - t^2) / 2 + a2 * ((t+h)^3 - t^3) / 3 + a3 * ((t+h)^4 - t^4) / 4 := by
  constructor <;>
  · simp only [rk4Step, nat_eq, smul_eq_mul]
    push_cast
    field_simp
    ring

/-- for the quartic `q(t) = t⁴` the error of one step is exactly `h⁵/120 = h⁵·q⁗/2880`: the local
error is of order 5 — not 4, not 6 (pins the classical order 4 from both sides) -/
theorem rk4_quartic_error (x t h DTc : K) :
    (rk4Step (fun (_ : K) (s : K) => (s^4, (0:K))) x t h DTc).xf - (x + ((t+h)^5 - t^5) / 5) = h^5 / 120 := by
  simp only [rk4Step, nat_eq, smul_eq_mul]
  push_cast
  field_simp
  ring

/-- explicit Euler is exact for constant right-hand sides and has local error exactly `h²/2·q'` for
affine ones -/
theorem euler_affine_error (a0 a1 x t h DTc : K) :
    (eulerStep (fun (_ : K) (s : K) => (a0 + a1 * s, (0:K))) x t h DTc).xf - (x + a0 * h + a1 * ((t+h)^2 - t^2) / 2)
      = - (a1 * h^2 / 2) := by
  simp only [eulerStep, smul_eq_mul]
  field_simp
  ring

/-- stability functions: on `x' = λx` one RK4 step multiplies by `1 + z + z²/2 + z³/6 + z⁴/24`, one Euler
step by `1 + z`, `z = λh` -/
theorem rk4_linear (lam x t h DTc : K) :
    (rk4Step (fun (y : K) (_ : K) => (lam * y, (0:K))) x t h DTc).xf
      = (1 + lam*h + (lam*h)^2/2 + (lam*h)^3/6 + (lam*h)^4/24) * x := by
  simp only [rk4Step, nat_eq, smul_eq_mul]
  push_cast
  field_simp
  ring

theorem euler_linear (lam x t h DTc : K) :
    (eulerStep (fun (y : K) (_ : K) => (lam * y, (0:K))) x t h DTc).xf = (1 + lam*h) * x := by
  simp only [eulerStep, smul_eq_mul]; ring

/-- `M` steps of the discretised system (`Spec.propagate`, which C01 proves equal to rockit's loop) on
the linear test equation: `R(λT/M)^j · x₀` after `j` steps -/
theorem rk4_linear_steps (lam x0 t0 T : K) (M j : Nat) :
    (Spec.propagate (rk4Step (fun (y : K) (_ : K) => (lam * y, (0:K)))) M x0 t0 T j).1 =
      (1 + lam*(T/M) + (lam*(T/M))^2/2 + (lam*(T/M))^3/6 + (lam*(T/M))^4/24)^j * x0 := by
  induction j with
  | zero => simp [Spec.propagate]
  | succ j ih =>
    simp only [Spec.propagate, rk4_linear, ih]
    ring

theorem euler_linear_steps (lam x0 t0 T : K) (M j : Nat) :
    (Spec.propagate (eulerStep (fun (y : K) (_ : K) => (lam * y, (0:K)))) M x0 t0 T j).1 = (1 + lam*(T/M))^j * x0 := by
  induction j with
  | zero => simp [Spec.propagate]
  | succ j ih =>
    simp only [Spec.propagate, euler_linear, ih]
    ring

end exactness

/-! ### the convergence argument: local error + Lipschitz one-step map ⇒ global error -/
section gronwall
variable {K : Type} [Field K] [LinearOrder K] [IsStrictOrderedRing K]

/-- discrete Grönwall inequality -/
theorem discrete_gronwall (e : ℕ → K) (a δ : K) (ha : 0 < a)
    (hstep : ∀ n, e (n+1) ≤ (1 + a) * e n + δ) :
    ∀ n, e n ≤ (1 + a)^n * e 0 + δ * (((1 + a)^n - 1) / a) := by
  intro n
  induction n with
  | zero => simp
  | succ n ih =>
    have h1 : (0:K) ≤ 1 + a := by linarith
    calc e (n+1) ≤ (1 + a) * e n + δ := hstep n
      _ ≤ (1 + a) * ((1 + a)^n * e 0 + δ * (((1 + a)^n - 1) / a)) + δ := by
          have := mul_le_mul_of_nonneg_left ih h1
          linarith
      _ = (1 + a)^(n+1) * e 0 + δ * (((1 + a)^(n+1) - 1) / a) := by
          field_simp
          ring

/-- **global error from local error**: a one-step map `Φ` whose increment is Lipschitz (`|Φ y − Φ y'| ≤
(1 + hL)|y − y'|`) and whose local error along the exact solution values `x n` is at most
`C·h^(p+1)` accumulates, from equal starting values, a global error of at most
`(C/L)·h^p·((1 + hL)^n − 1)` after `n` steps: order `p`. (For a scheme and a vector field for which the
two premises hold — proved below for the linear test equation, textbook for smooth `f` from the order
conditions above.) -/
theorem global_error_from_local (Φ : K → K) (x y : ℕ → K) (h L C : K) (p : Nat) (hh : 0 < h) (hL : 0 < L)
    (hy : ∀ n, y (n+1) = Φ (y n)) (hy0 : y 0 = x 0)
    (hlip : ∀ u v, |Φ u - Φ v| ≤ (1 + h * L) * |u - v|)
    (hloc : ∀ n, |x (n+1) - Φ (x n)| ≤ C * h^(p+1)) :
    ∀ n, |x n - y n| ≤ C / L * h^p * ((1 + h * L)^n - 1) := by
  intro n
  have hstep : ∀ n, |x (n+1) - y (n+1)| ≤ (1 + h * L) * |x n - y n| + C * h^(p+1) := by
    intro n
    calc |x (n+1) - y (n+1)| = |(x (n+1) - Φ (x n)) + (Φ (x n) - Φ (y n))| := by rw [hy n]; ring_nf
      _ ≤ |x (n+1) - Φ (x n)| + |Φ (x n) - Φ (y n)| := abs_add_le _ _
      _ ≤ C * h^(p+1) + (1 + h * L) * |x n - y n| := add_le_add (hloc n) (hlip _ _)
      _ = (1 + h * L) * |x n - y n| + C * h^(p+1) := by ring
  have hg := discrete_gronwall (fun n => |x n - y n|) (h * L) (C * h^(p+1)) (by positivity) hstep n
  have h0 : |x 0 - y 0| = 0 := by rw [hy0]; simp
  simp only [h0, mul_zero, zero_add] at hg
  calc |x n - y n| ≤ C * h^(p+1) * (((1 + h * L)^n - 1) / (h * L)) := hg
    _ = C / L * h^p * ((1 + h * L)^n - 1) := by
        field_simp
        ring

end gronwall

/-! ### complete convergence proofs at the classical order: the linear test equation over ℝ -/
section linear_test
open Real Finset

/-- stability function of RK4 -/
noncomputable def R4 (z : ℝ) : ℝ := 1 + z + z^2/2 + z^3/6 + z^4/24

theorem R4_eq_sum (z : ℝ) : R4 z = ∑ m ∈ range 5, z^m / (m.factorial : ℝ) := by
  simp [sum_range_succ, R4, Nat.factorial]

/-- RK4's stability function agrees with `exp` up to the fifth-order term -/
theorem exp_sub_R4 (z : ℝ) (hz : |z| ≤ 1) : |exp z - R4 z| ≤ |z|^5 / 100 := by
  have h := Real.exp_bound hz (n := 5) (by norm_num)
  rw [← R4_eq_sum] at h
  have e : ((Nat.succ 5 : ℕ) : ℝ) / ((Nat.factorial 5 : ℕ) * (5 : ℕ)) = 1 / 100 := by
    norm_num [Nat.factorial]
  rw [e] at h
  linarith [h]

theorem abs_R4_le (z : ℝ) : |R4 z| ≤ exp |z| := by
  have h1 : |R4 z| ≤ 1 + |z| + |z|^2/2 + |z|^3/6 + |z|^4/24 := by
    unfold R4
    have a2 : |z^2/2| = |z|^2/2 := by rw [abs_div, abs_pow]; norm_num
    have a3 : |z^3/6| = |z|^3/6 := by rw [abs_div, abs_pow]; norm_num
    have a4 : |z^4/24| = |z|^4/24 := by rw [abs_div, abs_pow]; norm_num
    calc |1 + z + z^2/2 + z^3/6 + z^4/24| ≤ |1 + z + z^2/2 + z^3/6| + |z^4/24| := abs_add_le _ _
      _ ≤ (|1 + z + z^2/2| + |z^3/6|) + |z^4/24| := by gcongr; exact abs_add_le _ _
      _ ≤ ((|1 + z| + |z^2/2|) + |z^3/6|) + |z^4/24| := by gcongr; exact abs_add_le _ _
      _ ≤ (((|(1:ℝ)| + |z|) + |z^2/2|) + |z^3/6|) + |z^4/24| := by gcongr; exact abs_add_le _ _
      _ = 1 + |z| + |z|^2/2 + |z|^3/6 + |z|^4/24 := by rw [a2, a3, a4, abs_one]
  have h2 : 1 + |z| + |z|^2/2 + |z|^3/6 + |z|^4/24 = ∑ m ∈ range 5, |z|^m / (m.factorial : ℝ) := by
    simp [sum_range_succ, Nat.factorial]
  calc |R4 z| ≤ _ := h1
    _ = _ := h2
    _ ≤ exp |z| := Real.sum_le_exp_of_nonneg (abs_nonneg z) 5

/-- **RK4 converges at order 4 on `x' = λx`**: `M` steps of the discretised system over `[t₀, t₀+T]`
(the model's `Spec.propagate`, proved equal to rockit's loop in C01) differ from the exact flow
`e^{λT}·x₀` by at most `|x₀|·e^{|λT|}·|λ|⁵|T|⁵/100 · M⁻⁴` as soon as `|λT/M| ≤ 1` -/
theorem rk4_linear_convergence (lam x0 t0 T : ℝ) (M : ℕ) (hM : 0 < M) (hz : |lam * (T / M)| ≤ 1) :
    |(Spec.propagate (rk4Step (fun (y : ℝ) (_ : ℝ) => (lam * y, (0:ℝ)))) M x0 t0 T M).1 - exp (lam * T) * x0|
      ≤ |x0| * exp |lam * T| * (|lam|^5 * |T|^5 / 100) / (M:ℝ)^4 := by
  have hMr : (0:ℝ) < M := by exact_mod_cast hM
  set z := lam * (T / M) with hzdef
  have hRz : (Spec.propagate (rk4Step (fun (y : ℝ) (_ : ℝ) => (lam * y, (0:ℝ)))) M x0 t0 T M).1 = R4 z ^ M * x0 := by
    rw [rk4_linear_steps]; rfl
  have hexp : exp (lam * T) = exp z ^ M := by
    rw [← Real.exp_nat_mul]; congr 1; rw [hzdef]; field_simp
  rw [hRz, hexp, ← sub_mul, abs_mul]
  have h1 := abs_pow_sub_pow_le (a := R4 z) (b := exp z) (n := M)
  have hmax : max |R4 z| |exp z| ≤ exp |z| :=
    max_le (abs_R4_le z) (by rw [abs_of_pos (exp_pos z)]; exact exp_le_exp.mpr (le_abs_self z))
  have hpow : max |R4 z| |exp z| ^ (M - 1) ≤ exp |lam * T| := by
    calc max |R4 z| |exp z| ^ (M - 1) ≤ exp |z| ^ (M - 1) := by
          gcongr
      _ = exp (((M - 1 : ℕ) : ℝ) * |z|) := by rw [← Real.exp_nat_mul]
      _ ≤ exp ((M:ℝ) * |z|) := by
          apply exp_le_exp.mpr
          have : (((M - 1 : ℕ) : ℝ)) ≤ (M : ℝ) := by exact_mod_cast Nat.sub_le M 1
          exact mul_le_mul_of_nonneg_right this (abs_nonneg z)
      _ = exp |lam * T| := by
          congr 1
          rw [hzdef, abs_mul, abs_div, abs_mul, abs_of_pos hMr]; field_simp
  have hdiff : |R4 z - exp z| ≤ |z|^5 / 100 := by rw [abs_sub_comm]; exact exp_sub_R4 z hz
  have hz5 : |z|^5 * M = |lam|^5 * |T|^5 / (M:ℝ)^4 := by
    rw [hzdef, abs_mul, abs_div, abs_of_pos hMr]; field_simp
  calc |R4 z ^ M - exp z ^ M| * |x0| ≤ (|R4 z - exp z| * M * max |R4 z| |exp z| ^ (M - 1)) * |x0| := by
        gcongr
    _ ≤ ((|z|^5 / 100) * M * exp |lam * T|) * |x0| := by
        gcongr
    _ = |x0| * exp |lam * T| * (|lam|^5 * |T|^5 / 100) / (M:ℝ)^4 := by
        have : |z|^5 / 100 * M = (|z|^5 * M) / 100 := by ring
        rw [this, hz5]; field_simp

/-- **explicit Euler converges at order 1 on `x' = λx`** -/
theorem euler_linear_convergence (lam x0 t0 T : ℝ) (M : ℕ) (hM : 0 < M) (hz : |lam * (T / M)| ≤ 1) :
    |(Spec.propagate (eulerStep (fun (y : ℝ) (_ : ℝ) => (lam * y, (0:ℝ)))) M x0 t0 T M).1 - exp (lam * T) * x0|
      ≤ |x0| * exp |lam * T| * (|lam|^2 * |T|^2) / (M:ℝ) := by
  have hMr : (0:ℝ) < M := by exact_mod_cast hM
  set z := lam * (T / M) with hzdef
  have hRz : (Spec.propagate (eulerStep (fun (y : ℝ) (_ : ℝ) => (lam * y, (0:ℝ)))) M x0 t0 T M).1 = (1 + z) ^ M * x0 := by
    rw [euler_linear_steps]
  have hexp : exp (lam * T) = exp z ^ M := by
    rw [← Real.exp_nat_mul]; congr 1; rw [hzdef]; field_simp
  rw [hRz, hexp, ← sub_mul, abs_mul]
  have h1 := abs_pow_sub_pow_le (a := 1 + z) (b := exp z) (n := M)
  have h1z : |1 + z| ≤ exp |z| := by
    calc |1 + z| ≤ |(1:ℝ)| + |z| := abs_add_le _ _
      _ = |z| + 1 := by rw [abs_one]; ring
      _ ≤ exp |z| := Real.add_one_le_exp _
  have hmax : max |1 + z| |exp z| ≤ exp |z| :=
    max_le h1z (by rw [abs_of_pos (exp_pos z)]; exact exp_le_exp.mpr (le_abs_self z))
  have hpow : max |1 + z| |exp z| ^ (M - 1) ≤ exp |lam * T| := by
    calc max |1 + z| |exp z| ^ (M - 1) ≤ exp |z| ^ (M - 1) := by
          gcongr
      _ = exp (((M - 1 : ℕ) : ℝ) * |z|) := by rw [← Real.exp_nat_mul]
      _ ≤ exp ((M:ℝ) * |z|) := by
          apply exp_le_exp.mpr
          have : (((M - 1 : ℕ) : ℝ)) ≤ (M : ℝ) := by exact_mod_cast Nat.sub_le M 1
          exact mul_le_mul_of_nonneg_right this (abs_nonneg z)
      _ = exp |lam * T| := by
          congr 1
          rw [hzdef, abs_mul, abs_div, abs_mul, abs_of_pos hMr]; field_simp
  have hdiff : |1 + z - exp z| ≤ z^2 := by
    have := Real.abs_exp_sub_one_sub_id_le hz
    rw [abs_sub_comm]
    have e : exp z - (1 + z) = exp z - 1 - z := by ring
    rw [e]; exact this
  have hz2 : z^2 * M = |lam|^2 * |T|^2 / (M:ℝ) := by
    rw [← sq_abs z, hzdef, abs_mul, abs_div, abs_of_pos hMr]; field_simp
  calc |(1 + z) ^ M - exp z ^ M| * |x0| ≤ (|1 + z - exp z| * M * max |1 + z| |exp z| ^ (M - 1)) * |x0| := by
        gcongr
    _ ≤ (z^2 * M * exp |lam * T|) * |x0| := by
        gcongr
    _ = |x0| * exp |lam * T| * (|lam|^2 * |T|^2) / (M:ℝ) := by
        rw [hz2]; field_simp

end linear_test

/-! ### the time rescaling applied before a CasADi integrator is called -/
section rescaling
variable {E : Type} [NormedAddCommGroup E] [NormedSpace ℝ E]

/-- `intg_builtin` / `sys_simulator` integrate `y'(s) = DT·f(y(s), t₀ + s·DT)` over `s ∈ [0,1]`.
If `y` solves that rescaled equation then `x(t) = y((t − t₀)/DT)` solves the declared `x' = f(x, t)`
(explicit time dependence included) — for any vector-valued state -/
theorem time_rescaling (f : E → ℝ → E) (y : ℝ → E) (t0 DT : ℝ) (hDT : DT ≠ 0) (t : ℝ)
    (hy : HasDerivAt y (DT • f (y ((t - t0) / DT)) (t0 + ((t - t0) / DT) * DT)) ((t - t0) / DT)) :
    HasDerivAt (fun τ => y ((τ - t0) / DT)) (f (y ((t - t0) / DT)) t) t := by
  have hg : HasDerivAt (fun τ : ℝ => (τ - t0) / DT) (1 / DT) t := by
    simpa using ((hasDerivAt_id t).sub_const t0).div_const DT
  have := HasDerivAt.scomp t hy hg
  have e1 : t0 + (t - t0) / DT * DT = t := by field_simp; ring
  rw [e1] at this
  have e2 : (1 / DT) • DT • f (y ((t - t0) / DT)) t = f (y ((t - t0) / DT)) t := by
    rw [smul_smul]; field_simp; simp
  rw [e2] at this
  exact this

end rescaling

/-! ### explicit Euler converges at order one for EVERY scalar ODE with a Lipschitz right-hand side and a C² solution

Not only the linear test equation: local error from the mean value inequality (twice), Lipschitz one-step map, discrete Grönwall. -/
section euler_general
open Set

/-- `global_error_from_local` for a step map that depends on the step index (explicit time dependence) -/
theorem global_error_from_local_steps (Φ : ℕ → ℝ → ℝ) (x y : ℕ → ℝ) (h L C : ℝ) (p : Nat) (hh : 0 < h) (hL : 0 < L)
    (hy : ∀ n, y (n+1) = Φ n (y n)) (hy0 : y 0 = x 0)
    (hlip : ∀ n u v, |Φ n u - Φ n v| ≤ (1 + h * L) * |u - v|)
    (hloc : ∀ n, |x (n+1) - Φ n (x n)| ≤ C * h^(p+1)) :
    ∀ n, |x n - y n| ≤ C / L * h^p * ((1 + h * L)^n - 1) := by
  intro n
  have hstep : ∀ n, |x (n+1) - y (n+1)| ≤ (1 + h * L) * |x n - y n| + C * h^(p+1) := by
    intro n
    calc |x (n+1) - y (n+1)| = |(x (n+1) - Φ n (x n)) + (Φ n (x n) - Φ n (y n))| := by rw [hy n]; ring_nf
      _ ≤ |x (n+1) - Φ n (x n)| + |Φ n (x n) - Φ n (y n)| := abs_add_le _ _
      _ ≤ C * h^(p+1) + (1 + h * L) * |x n - y n| := add_le_add (hloc n) (hlip n _ _)
      _ = (1 + h * L) * |x n - y n| + C * h^(p+1) := by ring
  have hg := discrete_gronwall (fun n => |x n - y n|) (h * L) (C * h^(p+1)) (by positivity) hstep n
  have h0 : |x 0 - y 0| = 0 := by rw [hy0]; simp
  simp only [h0, mul_zero, zero_add] at hg
  calc |x n - y n| ≤ C * h^(p+1) * (((1 + h * L)^n - 1) / (h * L)) := hg
    _ = C / L * h^p * ((1 + h * L)^n - 1) := by
        field_simp
        ring

/-- local error of one explicit Euler step along a C² solution: `|x(t+h) − x(t) − h·x'(t)| ≤ C₂·h²` -/
theorem euler_local_error (x x1 x2 : ℝ → ℝ) (C2 t h : ℝ) (hh : 0 ≤ h)
    (hx : ∀ s, HasDerivAt x (x1 s) s) (hx1 : ∀ s, HasDerivAt x1 (x2 s) s) (hb : ∀ s, |x2 s| ≤ C2) :
    |x (t + h) - x t - h * x1 t| ≤ C2 * h ^ 2 := by
  have hC2 : 0 ≤ C2 := le_trans (abs_nonneg _) (hb t)
  -- the slope changes by at most C₂·|s − t|
  have slope : ∀ s, |x1 s - x1 t| ≤ C2 * |s - t| := by
    intro s
    have := Convex.norm_image_sub_le_of_norm_hasDerivWithin_le (f := x1) (f' := x2) (s := univ) (x := t) (y := s)
      (fun u _ => (hx1 u).hasDerivWithinAt) (fun u _ => by simpa using hb u) convex_univ (mem_univ _) (mem_univ _)
    simpa using this
  -- r(s) = x(s) − x(t) − (s − t)·x'(t) has derivative x'(s) − x'(t), at most C₂·h in size on [t, t+h]
  have hr : ∀ s ∈ Icc t (t + h), HasDerivWithinAt (fun s => x s - x t - (s - t) * x1 t) (x1 s - x1 t) (Icc t (t + h)) s := by
    intro s _
    have h1 : HasDerivAt (fun s => x s - x t - (s - t) * x1 t) (x1 s - (1 * x1 t)) s :=
      ((hx s).sub_const (x t)).sub (((hasDerivAt_id' s).sub_const t).mul_const (x1 t))
    have e : x1 s - x1 t = x1 s - (1 * x1 t) := by ring
    rw [e]
    exact h1.hasDerivWithinAt
  have bound : ∀ s ∈ Icc t (t + h), ‖x1 s - x1 t‖ ≤ C2 * h := by
    intro s hs
    have h1 := slope s
    have h2 : |s - t| ≤ h := by rw [abs_of_nonneg (by linarith [hs.1])]; linarith [hs.2]
    calc ‖x1 s - x1 t‖ = |x1 s - x1 t| := Real.norm_eq_abs _
      _ ≤ C2 * |s - t| := h1
      _ ≤ C2 * h := mul_le_mul_of_nonneg_left h2 hC2
  have := Convex.norm_image_sub_le_of_norm_hasDerivWithin_le (f := fun s => x s - x t - (s - t) * x1 t)
    (f' := fun s => x1 s - x1 t) (s := Icc t (t + h)) (x := t) (y := t + h) hr bound (convex_Icc _ _)
    (by constructor <;> linarith) (by constructor <;> linarith)
  simp only [sub_self, zero_mul, sub_zero, add_sub_cancel_left, Real.norm_eq_abs] at this
  rw [abs_of_nonneg hh] at this
  calc |x (t + h) - x t - h * x1 t| ≤ C2 * h * h := this
    _ = C2 * h ^ 2 := by ring

/-- **explicit Euler converges at order one**: for `x' = f(x, t)` with `f` `L`-Lipschitz in the state and a solution with
`|x''| ≤ C₂`, the Euler iterates `y_{n+1} = y_n + h·f(y_n, t0 + n·h)` from `y_0 = x(t0)` satisfy
`|x(t0 + n·h) − y_n| ≤ (C₂/L)·h·((1 + hL)^n − 1)` — for every step count and step size (this is the recursion C01 proves
rockit's `intg='expl_euler'` runs, with `h = T/N/M`) -/
theorem euler_convergence (f : ℝ → ℝ → ℝ) (x x2 : ℝ → ℝ) (y : ℕ → ℝ) (t0 h L C2 : ℝ) (hh : 0 < h) (hL : 0 < L)
    (hsol : ∀ s, HasDerivAt x (f (x s) s) s) (hx2 : ∀ s, HasDerivAt (fun s => f (x s) s) (x2 s) s) (hb : ∀ s, |x2 s| ≤ C2)
    (hlip : ∀ u v s, |f u s - f v s| ≤ L * |u - v|)
    (hy0 : y 0 = x t0) (hy : ∀ n, y (n + 1) = y n + h * f (y n) (t0 + n * h)) :
    ∀ n : ℕ, |x (t0 + n * h) - y n| ≤ C2 / L * h * ((1 + h * L) ^ n - 1) := by
  intro n
  have := global_error_from_local_steps (fun n u => u + h * f u (t0 + n * h)) (fun n => x (t0 + n * h)) y h L C2 1 hh hL
    hy (by simpa using hy0)
    (by
      intro n u v
      calc |u + h * f u (t0 + n * h) - (v + h * f v (t0 + n * h))|
          = |(u - v) + h * (f u (t0 + n * h) - f v (t0 + n * h))| := by ring_nf
        _ ≤ |u - v| + |h * (f u (t0 + n * h) - f v (t0 + n * h))| := abs_add_le _ _
        _ = |u - v| + h * |f u (t0 + n * h) - f v (t0 + n * h)| := by rw [abs_mul, abs_of_pos hh]
        _ ≤ |u - v| + h * (L * |u - v|) := by gcongr; exact hlip _ _ _
        _ = (1 + h * L) * |u - v| := by ring)
    (by
      intro n
      have e := euler_local_error x (fun s => f (x s) s) x2 C2 (t0 + n * h) h hh.le hsol hx2 hb
      have e1 : t0 + ((n + 1 : ℕ) : ℝ) * h = t0 + n * h + h := by push_cast; ring
      simp only [e1]
      have e2 : x (t0 + n * h + h) - (x (t0 + n * h) + h * f (x (t0 + n * h)) (t0 + n * h)) =
          x (t0 + n * h + h) - x (t0 + n * h) - h * f (x (t0 + n * h)) (t0 + n * h) := by ring
      rw [e2]
      simpa using e) n
  simpa using this

/-- non-vacuity: every hypothesis of `euler_convergence` holds for the state-dependent, explicitly time-dependent ODE
`x' = -x + sin t + cos t` with the solution `x = sin t` (`L = 1`, `C₂ = 1`) -/
example (y : ℕ → ℝ) (h : ℝ) (hh : 0 < h) (hy0 : y 0 = Real.sin 0)
    (hy : ∀ n, y (n + 1) = y n + h * (-(y n) + Real.sin (0 + n * h) + Real.cos (0 + n * h))) :
    ∀ n : ℕ, |Real.sin (0 + n * h) - y n| ≤ 1 / 1 * h * ((1 + h * 1) ^ n - 1) :=
  euler_convergence (fun u s => -u + Real.sin s + Real.cos s) Real.sin (fun s => -Real.sin s) y 0 h 1 1 hh one_pos
    (fun s => by convert Real.hasDerivAt_sin s using 1; ring)
    (fun s => by
      have : (fun s => -Real.sin s + Real.sin s + Real.cos s) = Real.cos := by funext s; ring
      rw [this]; exact Real.hasDerivAt_cos s)
    (fun s => by rw [abs_neg]; exact Real.abs_sin_le_one s)
    (fun u v s => by
      have : -u + Real.sin s + Real.cos s - (-v + Real.sin s + Real.cos s) = -(u - v) := by ring
      rw [this, abs_neg, one_mul])
    hy0 hy

/-! the same for vector-valued states (any real normed space): the statement rockit's vector ODEs need -/
section vector
variable {E : Type} [NormedAddCommGroup E] [NormedSpace ℝ E]

theorem euler_local_error_vec (x x1 x2 : ℝ → E) (C2 t h : ℝ) (hh : 0 ≤ h)
    (hx : ∀ s, HasDerivAt x (x1 s) s) (hx1 : ∀ s, HasDerivAt x1 (x2 s) s) (hb : ∀ s, ‖x2 s‖ ≤ C2) :
    ‖x (t + h) - x t - h • x1 t‖ ≤ C2 * h ^ 2 := by
  have hC2 : 0 ≤ C2 := le_trans (norm_nonneg _) (hb t)
  have slope : ∀ s, ‖x1 s - x1 t‖ ≤ C2 * |s - t| := by
    intro s
    have := Convex.norm_image_sub_le_of_norm_hasDerivWithin_le (f := x1) (f' := x2) (s := univ) (x := t) (y := s)
      (fun u _ => (hx1 u).hasDerivWithinAt) (fun u _ => hb u) convex_univ (mem_univ _) (mem_univ _)
    simpa using this
  have hr : ∀ s ∈ Icc t (t + h), HasDerivWithinAt (fun s => x s - x t - (s - t) • x1 t) (x1 s - x1 t) (Icc t (t + h)) s := by
    intro s _
    have h1 : HasDerivAt (fun s => x s - x t - (s - t) • x1 t) (x1 s - ((1 : ℝ) • x1 t)) s :=
      ((hx s).sub_const (x t)).sub (((hasDerivAt_id' s).sub_const t).smul_const (x1 t))
    have e : x1 s - x1 t = x1 s - ((1 : ℝ) • x1 t) := by rw [one_smul]
    rw [e]
    exact h1.hasDerivWithinAt
  have bound : ∀ s ∈ Icc t (t + h), ‖x1 s - x1 t‖ ≤ C2 * h := by
    intro s hs
    have h2 : |s - t| ≤ h := by rw [abs_of_nonneg (by linarith [hs.1])]; linarith [hs.2]
    exact le_trans (slope s) (mul_le_mul_of_nonneg_left h2 hC2)
  have := Convex.norm_image_sub_le_of_norm_hasDerivWithin_le (f := fun s => x s - x t - (s - t) • x1 t)
    (f' := fun s => x1 s - x1 t) (s := Icc t (t + h)) (x := t) (y := t + h) hr bound (convex_Icc _ _)
    (by constructor <;> linarith) (by constructor <;> linarith)
  simp only [sub_self, zero_smul, sub_zero, add_sub_cancel_left, Real.norm_eq_abs] at this
  rw [abs_of_nonneg hh] at this
  calc ‖x (t + h) - x t - h • x1 t‖ ≤ C2 * h * h := this
    _ = C2 * h ^ 2 := by ring

/-- **explicit Euler converges at order one for vector ODEs** -/
theorem euler_convergence_vec (f : E → ℝ → E) (x x2 : ℝ → E) (y : ℕ → E) (t0 h L C2 : ℝ) (hh : 0 < h) (hL : 0 < L)
    (hsol : ∀ s, HasDerivAt x (f (x s) s) s) (hx2 : ∀ s, HasDerivAt (fun s => f (x s) s) (x2 s) s) (hb : ∀ s, ‖x2 s‖ ≤ C2)
    (hlip : ∀ u v s, ‖f u s - f v s‖ ≤ L * ‖u - v‖)
    (hy0 : y 0 = x t0) (hy : ∀ n, y (n + 1) = y n + h • f (y n) (t0 + n * h)) :
    ∀ n : ℕ, ‖x (t0 + n * h) - y n‖ ≤ C2 / L * h * ((1 + h * L) ^ n - 1) := by
  intro n
  have hstep : ∀ n : ℕ, ‖x (t0 + (n + 1 : ℕ) * h) - y (n + 1)‖ ≤ (1 + h * L) * ‖x (t0 + n * h) - y n‖ + C2 * h ^ (1 + 1) := by
    intro n
    have e1 : t0 + ((n + 1 : ℕ) : ℝ) * h = t0 + n * h + h := by push_cast; ring
    have loc := euler_local_error_vec x (fun s => f (x s) s) x2 C2 (t0 + n * h) h hh.le hsol hx2 hb
    rw [e1, hy n]
    have split : x (t0 + n * h + h) - (y n + h • f (y n) (t0 + n * h)) =
        (x (t0 + n * h + h) - x (t0 + n * h) - h • f (x (t0 + n * h)) (t0 + n * h)) +
        ((x (t0 + n * h) - y n) + h • (f (x (t0 + n * h)) (t0 + n * h) - f (y n) (t0 + n * h))) := by
      rw [smul_sub]; abel
    rw [split]
    calc ‖_ + _‖ ≤ ‖x (t0 + n * h + h) - x (t0 + n * h) - h • f (x (t0 + n * h)) (t0 + n * h)‖ +
          ‖(x (t0 + n * h) - y n) + h • (f (x (t0 + n * h)) (t0 + n * h) - f (y n) (t0 + n * h))‖ := norm_add_le _ _
      _ ≤ C2 * h ^ 2 + (‖x (t0 + n * h) - y n‖ + h * (L * ‖x (t0 + n * h) - y n‖)) := by
          apply add_le_add loc
          refine le_trans (norm_add_le _ _) ?_
          rw [norm_smul, Real.norm_eq_abs, abs_of_pos hh]
          gcongr
          exact hlip _ _ _
      _ = (1 + h * L) * ‖x (t0 + n * h) - y n‖ + C2 * h ^ (1 + 1) := by ring
  have hg := discrete_gronwall (fun n : ℕ => ‖x (t0 + n * h) - y n‖) (h * L) (C2 * h ^ (1 + 1)) (by positivity) hstep n
  have h0 : ‖x (t0 + ((0 : ℕ) : ℝ) * h) - y 0‖ = 0 := by rw [hy0]; simp
  simp only [h0, mul_zero, zero_add] at hg
  calc ‖x (t0 + n * h) - y n‖ ≤ C2 * h ^ (1 + 1) * (((1 + h * L) ^ n - 1) / (h * L)) := hg
    _ = C2 / L * h * ((1 + h * L) ^ n - 1) := by
        field_simp

/-- the bound in the form of the property: over a fixed horizon `T` cut into `M` steps the error is at most
`(C₂/L)(e^{LT} − 1)·T/M` — it vanishes as `M` grows, at order one -/
theorem euler_convergence_rate (f : E → ℝ → E) (x x2 : ℝ → E) (y : ℕ → E) (t0 T L C2 : ℝ) (M : ℕ) (hM : 0 < M) (hT : 0 < T) (hL : 0 < L)
    (hsol : ∀ s, HasDerivAt x (f (x s) s) s) (hx2 : ∀ s, HasDerivAt (fun s => f (x s) s) (x2 s) s) (hb : ∀ s, ‖x2 s‖ ≤ C2)
    (hlip : ∀ u v s, ‖f u s - f v s‖ ≤ L * ‖u - v‖)
    (hy0 : y 0 = x t0) (hy : ∀ n, y (n + 1) = y n + (T / M) • f (y n) (t0 + n * (T / M))) :
    ‖x (t0 + T) - y M‖ ≤ C2 / L * (Real.exp (L * T) - 1) * (T / M) := by
  have hMr : (0 : ℝ) < M := by exact_mod_cast hM
  have hh : 0 < T / M := div_pos hT hMr
  have hC2 : 0 ≤ C2 := le_trans (norm_nonneg _) (hb 0)
  have main := euler_convergence_vec f x x2 y t0 (T / M) L C2 hh hL hsol hx2 hb hlip hy0 hy M
  have e : t0 + (M : ℝ) * (T / M) = t0 + T := by field_simp
  rw [e] at main
  have hpow : (1 + T / M * L) ^ M ≤ Real.exp (L * T) := by
    have h1 : 1 + T / M * L ≤ Real.exp (T / M * L) := by linarith [Real.add_one_le_exp (T / M * L)]
    have h0 : 0 ≤ 1 + T / M * L := by positivity
    calc (1 + T / M * L) ^ M ≤ (Real.exp (T / M * L)) ^ M := pow_le_pow_left₀ h0 h1 M
      _ = Real.exp (L * T) := by
          rw [← Real.exp_nat_mul]
          congr 1
          field_simp
  calc ‖x (t0 + T) - y M‖ ≤ C2 / L * (T / M) * ((1 + T / M * L) ^ M - 1) := main
    _ ≤ C2 / L * (T / M) * (Real.exp (L * T) - 1) := by
        apply mul_le_mul_of_nonneg_left (by linarith)
        positivity
    _ = C2 / L * (Real.exp (L * T) - 1) * (T / M) := by ring

/-- **`ocp.integral` converges too**: the integral is the extra state of the augmented system `(x, q)' = (f(x,t), e(x,t))`, which is how
`intg='expl_euler'` computes it (C05.euler_augmented); with `f`, `e` `L`-Lipschitz in the state and `‖x''‖, |q''| ≤ C₂` the Euler value
`r_n` of the integral satisfies `|q(t0 + n·h) − r_n| ≤ (C₂/L)·h·((1 + hL)^n − 1)` -/
theorem euler_integral_convergence (f : E → ℝ → E) (e : E → ℝ → ℝ) (x x2 : ℝ → E) (q q2 : ℝ → ℝ) (y : ℕ → E) (r : ℕ → ℝ)
    (t0 h L C2 : ℝ) (hh : 0 < h) (hL : 0 < L)
    (hsol : ∀ s, HasDerivAt x (f (x s) s) s) (hq : ∀ s, HasDerivAt q (e (x s) s) s)
    (hx2 : ∀ s, HasDerivAt (fun s => f (x s) s) (x2 s) s) (hq2 : ∀ s, HasDerivAt (fun s => e (x s) s) (q2 s) s)
    (hbx : ∀ s, ‖x2 s‖ ≤ C2) (hbq : ∀ s, |q2 s| ≤ C2)
    (hlipf : ∀ u v s, ‖f u s - f v s‖ ≤ L * ‖u - v‖) (hlipe : ∀ u v s, |e u s - e v s| ≤ L * ‖u - v‖)
    (hy0 : y 0 = x t0) (hr0 : r 0 = q t0)
    (hy : ∀ n, y (n + 1) = y n + h • f (y n) (t0 + n * h)) (hr : ∀ n, r (n + 1) = r n + h * e (y n) (t0 + n * h)) :
    ∀ n : ℕ, |q (t0 + n * h) - r n| ≤ C2 / L * h * ((1 + h * L) ^ n - 1) := by
  intro n
  have main := euler_convergence_vec (E := E × ℝ) (fun z s => (f z.1 s, e z.1 s)) (fun s => (x s, q s)) (fun s => (x2 s, q2 s))
    (fun n => (y n, r n)) t0 h L C2 hh hL
    (fun s => (hsol s).prodMk (hq s))
    (fun s => (hx2 s).prodMk (hq2 s))
    (fun s => by
      rw [Prod.norm_def]
      exact max_le (hbx s) (by simpa using hbq s))
    (fun u v s => by
      rw [Prod.norm_def]
      have h1 : ‖u.1 - v.1‖ ≤ ‖u - v‖ := by
        rw [Prod.norm_def]; exact le_max_left _ _
      refine max_le ?_ ?_
      · exact le_trans (hlipf u.1 v.1 s) (mul_le_mul_of_nonneg_left h1 hL.le)
      · simp only [Prod.snd_sub, Real.norm_eq_abs]
        exact le_trans (hlipe u.1 v.1 s) (mul_le_mul_of_nonneg_left h1 hL.le))
    (by simp [hy0, hr0])
    (fun n => by
      simp only [hy n, hr n, Prod.smul_mk, Prod.mk_add_mk, smul_eq_mul])
    n
  have : |q (t0 + n * h) - r n| ≤ ‖((x (t0 + n * h), q (t0 + n * h)) : E × ℝ) - (y n, r n)‖ := by
    rw [Prod.norm_def]
    simp only [Prod.mk_sub_mk, Real.norm_eq_abs]
    exact le_max_right _ _
  exact le_trans this main

end vector

end euler_general

/-! ### RK4 converges for EVERY Lipschitz ODE (at least at order one)

The classical order 4 needs the order conditions ⇒ local error step for a general smooth vector field (textbook, not formalised);
what IS machine-checked for a general `f` is that the error of `intg='rk'` vanishes as the step count grows: the RK4 step map is
Lipschitz, it differs from the Euler step by `O(h²)`, and Euler's local error is `O(h²)`. -/
section rk4_general
open Set
variable {E : Type} [NormedAddCommGroup E] [NormedSpace ℝ E]

/-- the four stages and the step, written out (`Spec.rk4`, which `C01.rk4_textbook` proves is rockit's `intg_rk`) -/
noncomputable def rkK1 (f : E → ℝ → E) (t : ℝ) (u : E) : E := f u t
noncomputable def rkK2 (f : E → ℝ → E) (t h : ℝ) (u : E) : E := f (u + (h / 2) • rkK1 f t u) (t + h / 2)
noncomputable def rkK3 (f : E → ℝ → E) (t h : ℝ) (u : E) : E := f (u + (h / 2) • rkK2 f t h u) (t + h / 2)
noncomputable def rkK4 (f : E → ℝ → E) (t h : ℝ) (u : E) : E := f (u + h • rkK3 f t h u) (t + h)
noncomputable def rk4E (f : E → ℝ → E) (t h : ℝ) (u : E) : E :=
  u + h • ((1 / 6 : ℝ) • rkK1 f t u + (1 / 3 : ℝ) • rkK2 f t h u + (1 / 3 : ℝ) • rkK3 f t h u + (1 / 6 : ℝ) • rkK4 f t h u)

theorem rk4E_eq_spec (f : E → ℝ → E) (t h : ℝ) (u : E) : Spec.rk4 f u t h = rk4E f t h u := by
  simp only [Spec.rk4, rk4E, rkK1, rkK2, rkK3, rkK4, nat_eq, Nat.cast_one, Nat.cast_ofNat]
  have e1 : h * (1 / 2 : ℝ) = h / 2 := by ring
  have e2 : t + 1 / 2 * h = t + h / 2 := by ring
  rw [e1, e2]

/-- a stage evaluated at `u + a·g(u)` is Lipschitz with constant `L(1 + a·c)` when `g` is `c`-Lipschitz -/
theorem stage_lip (f : E → ℝ → E) (L : ℝ) (hL : 0 ≤ L) (hlip : ∀ u v s, ‖f u s - f v s‖ ≤ L * ‖u - v‖)
    (g : E → E) (c a s : ℝ) (ha : 0 ≤ a) (hg : ∀ u v, ‖g u - g v‖ ≤ c * ‖u - v‖) (u v : E) :
    ‖f (u + a • g u) s - f (v + a • g v) s‖ ≤ L * (1 + a * c) * ‖u - v‖ := by
  have h1 : ‖(u + a • g u) - (v + a • g v)‖ ≤ ‖u - v‖ + a * (c * ‖u - v‖) := by
    have e : (u + a • g u) - (v + a • g v) = (u - v) + a • (g u - g v) := by rw [smul_sub]; abel
    rw [e]
    refine le_trans (norm_add_le _ _) ?_
    rw [norm_smul, Real.norm_eq_abs, abs_of_nonneg ha]
    gcongr
    exact hg u v
  calc ‖f (u + a • g u) s - f (v + a • g v) s‖ ≤ L * ‖(u + a • g u) - (v + a • g v)‖ := hlip _ _ _
    _ ≤ L * (‖u - v‖ + a * (c * ‖u - v‖)) := mul_le_mul_of_nonneg_left h1 hL
    _ = L * (1 + a * c) * ‖u - v‖ := by ring

/-- Lipschitz constant of the RK4 increment -/
noncomputable def rkLam (L h : ℝ) : ℝ :=
  (1 / 6) * L + (1 / 3) * (L * (1 + h / 2 * L)) + (1 / 3) * (L * (1 + h / 2 * (L * (1 + h / 2 * L))))
    + (1 / 6) * (L * (1 + h * (L * (1 + h / 2 * (L * (1 + h / 2 * L))))))

theorem rk4_lipschitz (f : E → ℝ → E) (L t h : ℝ) (hL : 0 ≤ L) (hh : 0 ≤ h) (hlip : ∀ u v s, ‖f u s - f v s‖ ≤ L * ‖u - v‖)
    (u v : E) : ‖rk4E f t h u - rk4E f t h v‖ ≤ (1 + h * rkLam L h) * ‖u - v‖ := by
  have h2 : 0 ≤ h / 2 := by linarith
  have l1 : ∀ u v, ‖rkK1 f t u - rkK1 f t v‖ ≤ L * ‖u - v‖ := fun u v => hlip u v t
  have l2 : ∀ u v, ‖rkK2 f t h u - rkK2 f t h v‖ ≤ L * (1 + h / 2 * L) * ‖u - v‖ :=
    fun u v => stage_lip f L hL hlip (rkK1 f t) L (h / 2) (t + h / 2) h2 l1 u v
  have l3 : ∀ u v, ‖rkK3 f t h u - rkK3 f t h v‖ ≤ L * (1 + h / 2 * (L * (1 + h / 2 * L))) * ‖u - v‖ :=
    fun u v => stage_lip f L hL hlip (rkK2 f t h) _ (h / 2) (t + h / 2) h2 l2 u v
  have l4 : ∀ u v, ‖rkK4 f t h u - rkK4 f t h v‖ ≤ L * (1 + h * (L * (1 + h / 2 * (L * (1 + h / 2 * L))))) * ‖u - v‖ :=
    fun u v => stage_lip f L hL hlip (rkK3 f t h) _ h (t + h) hh l3 u v
  have e : rk4E f t h u - rk4E f t h v = (u - v) + h • ((1 / 6 : ℝ) • (rkK1 f t u - rkK1 f t v) + (1 / 3 : ℝ) • (rkK2 f t h u - rkK2 f t h v)
      + (1 / 3 : ℝ) • (rkK3 f t h u - rkK3 f t h v) + (1 / 6 : ℝ) • (rkK4 f t h u - rkK4 f t h v)) := by
    simp only [rk4E, smul_sub, smul_add]; abel
  rw [e]
  have n1 : ‖(1 / 6 : ℝ) • (rkK1 f t u - rkK1 f t v)‖ ≤ (1 / 6) * (L * ‖u - v‖) := by
    rw [norm_smul, Real.norm_eq_abs, abs_of_nonneg (by norm_num)]; gcongr; exact l1 u v
  have n2 : ‖(1 / 3 : ℝ) • (rkK2 f t h u - rkK2 f t h v)‖ ≤ (1 / 3) * (L * (1 + h / 2 * L) * ‖u - v‖) := by
    rw [norm_smul, Real.norm_eq_abs, abs_of_nonneg (by norm_num)]; gcongr; exact l2 u v
  have n3 : ‖(1 / 3 : ℝ) • (rkK3 f t h u - rkK3 f t h v)‖ ≤ (1 / 3) * (L * (1 + h / 2 * (L * (1 + h / 2 * L))) * ‖u - v‖) := by
    rw [norm_smul, Real.norm_eq_abs, abs_of_nonneg (by norm_num)]; gcongr; exact l3 u v
  have n4 : ‖(1 / 6 : ℝ) • (rkK4 f t h u - rkK4 f t h v)‖ ≤ (1 / 6) * (L * (1 + h * (L * (1 + h / 2 * (L * (1 + h / 2 * L))))) * ‖u - v‖) := by
    rw [norm_smul, Real.norm_eq_abs, abs_of_nonneg (by norm_num)]; gcongr; exact l4 u v
  have ns := le_trans (norm_add_le _ _) (add_le_add (le_trans (norm_add_le _ _) (add_le_add (le_trans (norm_add_le _ _) (add_le_add n1 n2)) n3)) n4)
  refine le_trans (norm_add_le _ _) ?_
  rw [norm_smul, Real.norm_eq_abs, abs_of_nonneg hh]
  refine le_trans (add_le_add_right (mul_le_mul_of_nonneg_left ns hh) _) (le_of_eq ?_)
  unfold rkLam
  ring

/-- global error from local error, vector valued, step map depending on the step index -/
theorem global_error_vec (Φ : ℕ → E → E) (x y : ℕ → E) (h Λ C : ℝ) (p : Nat) (hh : 0 < h) (hΛ : 0 < Λ)
    (hy : ∀ n, y (n + 1) = Φ n (y n)) (hy0 : y 0 = x 0)
    (hlip : ∀ n u v, ‖Φ n u - Φ n v‖ ≤ (1 + h * Λ) * ‖u - v‖)
    (hloc : ∀ n, ‖x (n + 1) - Φ n (x n)‖ ≤ C * h ^ (p + 1)) :
    ∀ n, ‖x n - y n‖ ≤ C / Λ * h ^ p * ((1 + h * Λ) ^ n - 1) := by
  intro n
  have hstep : ∀ n, ‖x (n + 1) - y (n + 1)‖ ≤ (1 + h * Λ) * ‖x n - y n‖ + C * h ^ (p + 1) := by
    intro n
    have e : x (n + 1) - y (n + 1) = (x (n + 1) - Φ n (x n)) + (Φ n (x n) - Φ n (y n)) := by rw [hy n]; abel
    rw [e]
    refine le_trans (norm_add_le _ _) ?_
    linarith [hloc n, hlip n (x n) (y n)]
  have hg := discrete_gronwall (fun n => ‖x n - y n‖) (h * Λ) (C * h ^ (p + 1)) (by positivity) hstep n
  have h0 : ‖x 0 - y 0‖ = 0 := by rw [hy0]; simp
  simp only [h0, mul_zero, zero_add] at hg
  calc ‖x n - y n‖ ≤ C * h ^ (p + 1) * (((1 + h * Λ) ^ n - 1) / (h * Λ)) := hg
    _ = C / Λ * h ^ p * ((1 + h * Λ) ^ n - 1) := by
        field_simp
        ring

/-- how far a stage evaluated at `u + a·w`, time `t + b`, is from `f(u, t)` -/
theorem stage_dev (f : E → ℝ → E) (L Lt : ℝ) (hlip : ∀ u v s, ‖f u s - f v s‖ ≤ L * ‖u - v‖)
    (hlipt : ∀ u s s', ‖f u s - f u s'‖ ≤ Lt * |s - s'|) (u w : E) (a b t : ℝ) (ha : 0 ≤ a) :
    ‖f (u + a • w) (t + b) - f u t‖ ≤ L * (a * ‖w‖) + Lt * |b| := by
  have e : f (u + a • w) (t + b) - f u t = (f (u + a • w) (t + b) - f u (t + b)) + (f u (t + b) - f u t) := by abel
  rw [e]
  refine le_trans (norm_add_le _ _) (add_le_add ?_ ?_)
  · have := hlip (u + a • w) u (t + b)
    rw [add_sub_cancel_left, norm_smul, Real.norm_eq_abs, abs_of_nonneg ha] at this
    exact this
  · have := hlipt u (t + b) t
    rwa [add_sub_cancel_left] at this

/-- the RK4 step differs from the Euler step by `O(h²)` -/
theorem rk4_minus_euler (f : E → ℝ → E) (L Lt F t h : ℝ) (hL : 0 ≤ L) (hLt : 0 ≤ Lt) (hh : 0 ≤ h)
    (hlip : ∀ u v s, ‖f u s - f v s‖ ≤ L * ‖u - v‖) (hlipt : ∀ u s s', ‖f u s - f u s'‖ ≤ Lt * |s - s'|)
    (hF : ∀ u s, ‖f u s‖ ≤ F) (u : E) :
    ‖rk4E f t h u - (u + h • f u t)‖ ≤ (L * F + Lt) / 2 * h ^ 2 := by
  have h2 : 0 ≤ h / 2 := by linarith
  have d2 : ‖rkK2 f t h u - f u t‖ ≤ L * (h / 2 * F) + Lt * (h / 2) := by
    have := stage_dev f L Lt hlip hlipt u (rkK1 f t u) (h / 2) (h / 2) t h2
    rw [abs_of_nonneg h2] at this
    refine le_trans this ?_
    gcongr
    exact hF _ _
  have d3 : ‖rkK3 f t h u - f u t‖ ≤ L * (h / 2 * F) + Lt * (h / 2) := by
    have := stage_dev f L Lt hlip hlipt u (rkK2 f t h u) (h / 2) (h / 2) t h2
    rw [abs_of_nonneg h2] at this
    refine le_trans this ?_
    gcongr
    exact hF _ _
  have d4 : ‖rkK4 f t h u - f u t‖ ≤ L * (h * F) + Lt * h := by
    have := stage_dev f L Lt hlip hlipt u (rkK3 f t h u) h h t hh
    rw [abs_of_nonneg hh] at this
    refine le_trans this ?_
    gcongr
    exact hF _ _
  have e : rk4E f t h u - (u + h • f u t) =
      h • ((1 / 3 : ℝ) • (rkK2 f t h u - f u t) + (1 / 3 : ℝ) • (rkK3 f t h u - f u t) + (1 / 6 : ℝ) • (rkK4 f t h u - f u t)) := by
    simp only [rk4E, rkK1, smul_sub, smul_add, smul_smul]
    module
  rw [e, norm_smul, Real.norm_eq_abs, abs_of_nonneg hh]
  have n2 : ‖(1 / 3 : ℝ) • (rkK2 f t h u - f u t)‖ ≤ (1 / 3) * (L * (h / 2 * F) + Lt * (h / 2)) := by
    rw [norm_smul, Real.norm_eq_abs, abs_of_nonneg (by norm_num)]; gcongr
  have n3 : ‖(1 / 3 : ℝ) • (rkK3 f t h u - f u t)‖ ≤ (1 / 3) * (L * (h / 2 * F) + Lt * (h / 2)) := by
    rw [norm_smul, Real.norm_eq_abs, abs_of_nonneg (by norm_num)]; gcongr
  have n4 : ‖(1 / 6 : ℝ) • (rkK4 f t h u - f u t)‖ ≤ (1 / 6) * (L * (h * F) + Lt * h) := by
    rw [norm_smul, Real.norm_eq_abs, abs_of_nonneg (by norm_num)]; gcongr
  have ns := le_trans (norm_add_le _ _) (add_le_add (le_trans (norm_add_le _ _) (add_le_add n2 n3)) n4)
  refine le_trans (mul_le_mul_of_nonneg_left ns hh) (le_of_eq ?_)
  ring

/-- **`intg='rk'` converges for every Lipschitz ODE**: `f` Lipschitz in the state (`L > 0`) and in time (`Lt`), bounded by `F`,
solution with `‖x''‖ ≤ C₂`: the RK4 iterates `y_{n+1} = rk4(f, y_n, t0 + n·h, h)` satisfy
`‖x(t0 + n·h) − y_n‖ ≤ (C/Λ)·h·((1 + hΛ)^n − 1)` with `C = C₂ + (LF + Lt)/2` and `Λ` the Lipschitz constant of the increment —
the error vanishes as the step count grows (order ≥ 1 machine-checked for a general vector field; order 4 for the classes of
`rk4_cubic_exact`, `rk4_linear_convergence`, and measured otherwise) -/
theorem rk4_convergence (f : E → ℝ → E) (x x2 : ℝ → E) (y : ℕ → E) (t0 h L Lt F C2 : ℝ) (hh : 0 < h) (hL : 0 < L) (hLt : 0 ≤ Lt)
    (hsol : ∀ s, HasDerivAt x (f (x s) s) s) (hx2 : ∀ s, HasDerivAt (fun s => f (x s) s) (x2 s) s) (hb : ∀ s, ‖x2 s‖ ≤ C2)
    (hlip : ∀ u v s, ‖f u s - f v s‖ ≤ L * ‖u - v‖) (hlipt : ∀ u s s', ‖f u s - f u s'‖ ≤ Lt * |s - s'|)
    (hF : ∀ u s, ‖f u s‖ ≤ F)
    (hy0 : y 0 = x t0) (hy : ∀ n, y (n + 1) = Spec.rk4 f (y n) (t0 + n * h) h) :
    ∀ n : ℕ, ‖x (t0 + n * h) - y n‖ ≤ (C2 + (L * F + Lt) / 2) / rkLam L h * h * ((1 + h * rkLam L h) ^ n - 1) := by
  have hΛ : 0 < rkLam L h := by unfold rkLam; positivity
  intro n
  have := global_error_vec (fun n u => rk4E f (t0 + n * h) h u) (fun n : ℕ => x (t0 + n * h)) y h (rkLam L h)
    (C2 + (L * F + Lt) / 2) 1 hh hΛ (fun n => by rw [hy n, rk4E_eq_spec]) (by simpa using hy0)
    (fun n u v => rk4_lipschitz f L (t0 + n * h) h hL.le hh.le hlip u v)
    (by
      intro n
      have e1 : t0 + ((n + 1 : ℕ) : ℝ) * h = t0 + n * h + h := by push_cast; ring
      have loc := euler_local_error_vec x (fun s => f (x s) s) x2 C2 (t0 + n * h) h hh.le hsol hx2 hb
      have dev := rk4_minus_euler f L Lt F (t0 + n * h) h hL.le hLt hh.le hlip hlipt hF (x (t0 + n * h))
      simp only [e1]
      have split : x (t0 + n * h + h) - rk4E f (t0 + n * h) h (x (t0 + n * h)) =
          (x (t0 + n * h + h) - x (t0 + n * h) - h • f (x (t0 + n * h)) (t0 + n * h)) -
          (rk4E f (t0 + n * h) h (x (t0 + n * h)) - (x (t0 + n * h) + h • f (x (t0 + n * h)) (t0 + n * h))) := by abel
      rw [split]
      refine le_trans (norm_sub_le _ _) ?_
      calc _ ≤ C2 * h ^ 2 + (L * F + Lt) / 2 * h ^ 2 := add_le_add loc dev
        _ = (C2 + (L * F + Lt) / 2) * h ^ (1 + 1) := by ring) n
  simpa using this

/-- non-vacuity: every hypothesis of `rk4_convergence` holds for the state- and time-dependent ODE `x' = sin(x − sin t) + cos t` with
the solution `x = sin t` (`L = 1`, `Lt = 2`, `F = 2`, `C₂ = 1`) -/
example (y : ℕ → ℝ) (h : ℝ) (hh : 0 < h) (hy0 : y 0 = Real.sin 0)
    (hy : ∀ n, y (n + 1) = Spec.rk4 (fun u s => Real.sin (u - Real.sin s) + Real.cos s) (y n) (0 + n * h) h) :
    ∀ n : ℕ, ‖Real.sin (0 + n * h) - y n‖ ≤ (1 + (1 * 2 + 2) / 2) / rkLam 1 h * h * ((1 + h * rkLam 1 h) ^ n - 1) :=
  rk4_convergence (fun u s => Real.sin (u - Real.sin s) + Real.cos s) Real.sin (fun s => -Real.sin s) y 0 h 1 2 2 1 hh one_pos (by norm_num)
    (fun s => by
      have : Real.sin (Real.sin s - Real.sin s) + Real.cos s = Real.cos s := by simp
      rw [this]; exact Real.hasDerivAt_sin s)
    (fun s => by
      have : (fun s => Real.sin (Real.sin s - Real.sin s) + Real.cos s) = Real.cos := by funext s; simp
      rw [this]; exact Real.hasDerivAt_cos s)
    (fun s => by rw [norm_neg]; exact Real.abs_sin_le_one s)
    (fun u v s => by
      have : Real.sin (u - Real.sin s) + Real.cos s - (Real.sin (v - Real.sin s) + Real.cos s) =
          Real.sin (u - Real.sin s) - Real.sin (v - Real.sin s) := by ring
      rw [this, one_mul, Real.norm_eq_abs, Real.norm_eq_abs]
      have := Real.abs_sin_sub_sin_le (u - Real.sin s) (v - Real.sin s)
      simpa using this)
    (fun u s s' => by
      have e : Real.sin (u - Real.sin s) + Real.cos s - (Real.sin (u - Real.sin s') + Real.cos s') =
          (Real.sin (u - Real.sin s) - Real.sin (u - Real.sin s')) + (Real.cos s - Real.cos s') := by ring
      rw [e, Real.norm_eq_abs]
      have a := Real.abs_sin_sub_sin_le (u - Real.sin s) (u - Real.sin s')
      have a' : |u - Real.sin s - (u - Real.sin s')| = |Real.sin s - Real.sin s'| := by
        rw [← abs_neg]; congr 1; ring
      rw [a'] at a
      have b := Real.abs_sin_sub_sin_le s s'
      have c := Real.abs_cos_sub_cos_le s s'
      calc |_ + _| ≤ |Real.sin (u - Real.sin s) - Real.sin (u - Real.sin s')| + |Real.cos s - Real.cos s'| := abs_add_le _ _
        _ ≤ 2 * |s - s'| := by linarith)
    (fun u s => by
      rw [Real.norm_eq_abs]
      calc |_ + _| ≤ |Real.sin (u - Real.sin s)| + |Real.cos s| := abs_add_le _ _
        _ ≤ 2 := by linarith [Real.abs_sin_le_one (u - Real.sin s), Real.abs_cos_le_one s])
    hy0 hy

end rk4_general

/-! ### collocation: the exact solution of a quadrature problem satisfies the collocation equations

For `dx/dt = g((t - t_k)/h)` with `g` a polynomial with at most `d` coefficients, the exact solution on the step is a polynomial with
at most `d+1` coefficients; put into the helper states it makes every defect row vanish and the continuity row carry the EXACT end
value `x0 + h ∫₀¹ g` — for every degree `d` and every pairwise distinct collocation points (Radau, Legendre, or any other). So the
scheme has no discretisation error at all on this class (consistency of order `d`; the super-convergence orders `2d-1`/`2d` of
the property are measured by the check, not proved). -/
section collocation
variable {K : Type} [Field K] [CharZero K]

theorem derivAux_smul (n : Nat) (c : K) (p : List K) : LP.derivAux n (LP.smul c p) = LP.smul c (LP.derivAux n p) := by
  induction p generalizing n with
  | nil => rfl
  | cons a p ih =>
    simp only [LP.smul, List.map_cons, LP.derivAux] at *
    rw [ih]
    congr 1
    ring

/-- the exact solution of `dx/ds = h·g(s)`, `x(0) = x0`, in normalised time -/
def quadSolution (g : List K) (x0 h : K) : List K := x0 :: LP.smul h (LP.antiAux 0 g)

theorem colloc_exact_on_quadrature (tau : List K) (hn : ((0:K) :: tau).Nodup) (g : List K) (hg : g.length ≤ tau.length)
    (x0 h : K) (hh : h ≠ 0) (j : Nat) (hj : j < tau.length) :
    collocSlope (collocCoeff tau).C (((0:K) :: tau).map (LP.eval (quadSolution g x0 h))) j h = LP.eval g tau[j] ∧
    collocEnd (collocCoeff tau).D (((0:K) :: tau).map (LP.eval (quadSolution g x0 h))) = x0 + h * LP.integ01 g := by
  have hlen : (quadSolution g x0 h).length ≤ tau.length + 1 := by
    simp [quadSolution, LP.smul, LP.length_antiAux, hg]
  obtain ⟨h1, h2⟩ := C02.polynomial_trajectory_exact tau hn (quadSolution g x0 h) hlen j hj h
  constructor
  · rw [h1]
    have : LP.deriv (quadSolution g x0 h) = LP.smul h g := by
      simp only [quadSolution, LP.deriv, derivAux_smul]
      have := LP.derivAux_antiAux 0 g
      simp only [zero_add] at this
      rw [this]
    rw [this, LP.eval_smul]
    field_simp
  · rw [h2]
    simp [quadSolution, LP.eval_smul, LP.eval_antiAux_one, LP.integ01]

/-- non-vacuity: Radau points of degree 2, `g(s) = 1 + 2s` -/
example : ((0:ℚ) :: [1/3, 1]).Nodup ∧ ([1, 2] : List ℚ).length ≤ ([1/3, 1] : List ℚ).length := ⟨by norm_num, by simp⟩

end collocation

end Rockit.C03
