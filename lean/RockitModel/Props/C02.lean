import RockitModel.Proofs.Colloc
import RockitModel.Proofs.Weights
import RockitModel.Model.Transcribe
import Mathlib.Data.List.Nodup
import Mathlib.Algebra.Order.Field.Basic
import Mathlib.Tactic.Linarith
import Mathlib.Analysis.Calculus.Deriv.Mul
import Mathlib.Analysis.Calculus.Deriv.Add
import RockitModel.Generated.RootTimes
/-!
# C02 — direct collocation constraints characterise the collocation polynomial
-/
set_option linter.unusedSectionVars false
namespace Rockit.C02
open Rockit
variable {K : Type} [Field K]

/-- Lagrange basis: `ℓ_r(node_j) = δ_rj` for pairwise distinct nodes (no property of Radau/Legendre used) -/
theorem basis_delta (nodes : List K) (hn : nodes.Nodup) (r j : Nat) (hr : r < nodes.length) (hj : j < nodes.length) :
    LP.eval (LP.basis nodes r) nodes[j] = if r = j then 1 else 0 := by
  unfold LP.basis LP.others
  have hrr : nodes.getD r (nat 0) = nodes[r] := by simp [List.getD_eq_getElem?_getD, hr]
  rw [hrr]
  have hdist : ∀ xm ∈ nodes.eraseIdx r, nodes[r] ≠ xm := by
    intro xm hm
    rw [List.mem_eraseIdx_iff_getElem] at hm
    obtain ⟨i, hi, hne, rfl⟩ := hm
    intro h
    exact hne ((hn.getElem_inj_iff).mp h).symm
  split
  · next h => subst h; exact LP.lagrange_at_self _ _ hdist
  · next h =>
    apply LP.lagrange_at_other _ _ _ _ hdist
    rw [List.mem_eraseIdx_iff_getElem]
    exact ⟨j, hj, fun e => h e.symm, rfl⟩

section vpoly
variable {V : Type} [AddCommGroup V] [Module K V]

/-- the vector polynomial through the helper states: `Π(s) = Σ_r ℓ_r(s) • Xc_r` -/
def vpoly (nodes : List K) (Xc : List V) (s : K) : V :=
  lincomb ((List.range nodes.length).map (fun r => LP.eval (LP.basis nodes r) s)) Xc

/-- its derivative in normalised time: `Π'(s) = Σ_r ℓ_r'(s) • Xc_r` -/
def vpolyDeriv (nodes : List K) (Xc : List V) (s : K) : V :=
  lincomb ((List.range nodes.length).map (fun r => LP.eval (LP.deriv (LP.basis nodes r)) s)) Xc

theorem lincomb_delta (cs : List K) (vs : List V) (j : Nat) (hl : cs.length = vs.length) (hj : j < vs.length)
    (hc : ∀ r (h : r < cs.length), cs[r] = if r = j then 1 else 0) : lincomb cs vs = vs[j] := by
  induction cs generalizing vs j with
  | nil => simp at hl; omega
  | cons c cs ih =>
    cases vs with
    | nil => simp at hl
    | cons v vs =>
      simp only [lincomb]
      cases j with
      | zero =>
        have h0 := hc 0 (by simp)
        simp at h0
        have hz : lincomb cs vs = 0 := by
          clear ih
          have hc' : ∀ r (h : r < cs.length), cs[r] = 0 := by
            intro r h; have := hc (r+1) (by simp; omega); simpa using this
          clear hc h0 hj
          induction cs generalizing vs with
          | nil => cases vs <;> simp [lincomb]
          | cons c' cs ih2 =>
            cases vs with
            | nil => simp [lincomb]
            | cons v' vs =>
              simp only [lincomb]
              have := hc' 0 (by simp); simp at this
              rw [this, zero_smul, zero_add]
              exact ih2 vs (by simp at hl ⊢; omega) (fun r h => by have := hc' (r+1) (by simp; omega); simpa using this)
        simp [h0, hz]
      | succ j =>
        have h0 := hc 0 (by simp)
        simp at h0
        rw [h0, zero_smul, zero_add]
        simp only [List.getElem_cons_succ]
        exact ih vs j (by simp at hl; omega) (by simp at hj; omega)
          (fun r h => by have := hc (r+1) (by simp; omega); simpa using this)

/-- the polynomial passes through the interval start state and the helper states:
`Π(node_j) = Xc_j` (node 0 is the step start, nodes `1…d` the collocation points) -/
theorem interpolates (nodes : List K) (hn : nodes.Nodup) (Xc : List V) (hl : Xc.length = nodes.length)
    (j : Nat) (hj : j < nodes.length) :
    vpoly nodes Xc nodes[j] = Xc[j]'(by omega) := by
  unfold vpoly
  apply lincomb_delta
  · simp [hl]
  · intro r h
    simp at h
    simp [basis_delta nodes hn r j h hj]

/-- `mtimes(Xc, C[:,j]) / dt` is the derivative of the collocation polynomial at collocation time `j`,
in physical time (`Π'(τ_j)/h`) -/
theorem slope_is_derivative (tau : List K) (Xc : List V) (j : Nat) (hj : j < tau.length) (dt : K) :
    collocSlope (collocCoeff tau).C Xc j dt = (1 / dt : K) • vpolyDeriv ((0:K) :: tau) Xc tau[j] := by
  simp only [collocSlope, collocCoeff, vpolyDeriv, column, List.map_map, nat_eq, Nat.cast_zero, Nat.cast_one,
    List.length_cons]
  congr 2
  apply List.map_congr_left
  intro r _
  simp [List.getD_eq_getElem?_getD, hj]

/-- `mtimes(Xc, D)` is the end value `Π(1)` of the collocation polynomial -/
theorem end_is_value_at_one (tau : List K) (Xc : List V) :
    collocEnd (collocCoeff tau).D Xc = vpoly ((0:K) :: tau) Xc 1 := by
  simp [collocEnd, collocCoeff, vpoly, List.map_map, Function.comp_def]

end vpoly

section polynomial_trajectories
/-! ### the scheme reproduces polynomial trajectories, for every degree and every pairwise distinct points

If the helper states are the values `q(node_r)` of a (scalar) polynomial `q` with at most `d+1` coefficients, the collocation
polynomial IS `q`: the slope the defect rows compare with the right-hand side is `q'(τ_j)/h` and the end value the continuity row
uses is `q(1)`. So a trajectory that is a polynomial of degree ≤ d on each step is feasible exactly when it satisfies the ODE at the
collocation times. -/

theorem lincomb_scalar (cs vs : List K) : lincomb cs vs = (List.zipWith (· * ·) cs vs).sum := by
  induction cs generalizing vs with
  | nil => simp [lincomb]
  | cons c cs ih =>
    cases vs with
    | nil => simp [lincomb]
    | cons v vs => simp [lincomb, ih]

theorem zipWith_range_map (f g : Nat → K) (n : Nat) :
    List.zipWith (· * ·) ((List.range n).map f) ((List.range n).map g) = (List.range n).map (fun r => f r * g r) := by
  rw [List.zipWith_map]
  simp [List.zipWith_self]

theorem vpoly_of_polynomial (nodes : List K) (hn : nodes.Nodup) (hne : nodes ≠ []) (q : List K) (hq : q.length ≤ nodes.length) (s : K) :
    vpoly nodes (nodes.map (LP.eval q)) s = LP.eval q s := by
  have e : nodes.map (LP.eval q) = (List.range nodes.length).map (fun r => LP.eval q (nodes.getD r 0)) := by
    apply List.ext_getElem
    · simp
    · intro i h1 h2
      have hi : i < nodes.length := by simpa using h1
      simp [List.getD_eq_getElem?_getD, hi]
  rw [vpoly, e, lincomb_scalar, zipWith_range_map, ← LP.interp_exact_eval nodes hn q hq hne s]
  congr 1
  apply List.map_congr_left
  intro r _
  ring

theorem vpolyDeriv_of_polynomial (nodes : List K) (hn : nodes.Nodup) (hne : nodes ≠ []) (q : List K) (hq : q.length ≤ nodes.length) (s : K) :
    vpolyDeriv nodes (nodes.map (LP.eval q)) s = LP.eval (LP.deriv q) s := by
  have e : nodes.map (LP.eval q) = (List.range nodes.length).map (fun r => LP.eval q (nodes.getD r 0)) := by
    apply List.ext_getElem
    · simp
    · intro i h1 h2
      have hi : i < nodes.length := by simpa using h1
      simp [List.getD_eq_getElem?_getD, hi]
  rw [vpolyDeriv, e, lincomb_scalar, zipWith_range_map, ← LP.interp_exact_deriv nodes hn q hq hne s]
  congr 1
  apply List.map_congr_left
  intro r _
  ring

/-- **the defect of a polynomial trajectory is its ODE residual**: with helper states `q(0), q(τ_1), …, q(τ_d)` the slope used by
defect row `j` is `q'(τ_j)/h` and the end value used by the continuity row is `q(1)` — any degree `d`, any pairwise distinct
points in which `0` does not occur -/
theorem polynomial_trajectory_exact (tau : List K) (hn : ((0:K) :: tau).Nodup) (q : List K) (hq : q.length ≤ tau.length + 1)
    (j : Nat) (hj : j < tau.length) (dt : K) :
    collocSlope (collocCoeff tau).C (((0:K) :: tau).map (LP.eval q)) j dt = (1 / dt) * LP.eval (LP.deriv q) tau[j] ∧
    collocEnd (collocCoeff tau).D (((0:K) :: tau).map (LP.eval q)) = LP.eval q 1 := by
  constructor
  · rw [slope_is_derivative tau _ j hj dt, vpolyDeriv_of_polynomial _ hn (by simp) q (by simpa using hq)]
    rfl
  · rw [end_is_value_at_one, vpoly_of_polynomial _ hn (by simp) q (by simpa using hq)]

/-- shifting every helper state by the same constant does not change any slope (`Σ_r C[r][j] = 0`) and shifts the end value by that
constant (`Σ_r D[r] = 1`): the constraints depend on the states only through differences and the right-hand side, every degree -/
theorem C_column_sums_zero (tau : List K) (hn : ((0:K) :: tau).Nodup) (j : Nat) (hj : j < tau.length) :
    (((collocCoeff tau).C).map (fun row => row.getD j 0)).sum = 0 := by
  have h := LP.interp_exact_deriv ((0:K) :: tau) hn [1] (by simp) (by simp) tau[j]
  have hd : LP.eval (LP.deriv ([1] : List K)) tau[j] = 0 := by simp [LP.deriv, LP.derivAux]
  have h1 : ∀ x : K, LP.eval ([1] : List K) x = 1 := by intro x; simp
  simp only [h1, one_mul, hd] at h
  rw [← h]
  simp only [collocCoeff, List.map_map, nat_eq, Nat.cast_zero, List.length_cons]
  congr 1
  apply List.map_congr_left
  intro r _
  simp [List.getD_eq_getElem?_getD, hj]

theorem D_sums_to_one (tau : List K) (hn : ((0:K) :: tau).Nodup) : ((collocCoeff tau).D).sum = 1 := by
  have h := LP.interp_exact_eval ((0:K) :: tau) hn [1] (by simp) (by simp) 1
  have h1 : ∀ x : K, LP.eval ([1] : List K) x = 1 := by intro x; simp
  simp only [h1, one_mul] at h
  rw [← h]
  simp [collocCoeff, List.map_map, Function.comp_def]

/-- non-vacuity: Radau points of degree 2 and a quadratic trajectory -/
example : ((0:ℚ) :: [1/3, 1]).Nodup ∧ ([1, 2, 3] : List ℚ).length ≤ ([1/3, 1] : List ℚ).length + 1 := ⟨by norm_num, by simp⟩

end polynomial_trajectories

/-- the formal derivative of a list polynomial is its derivative (so `Π'` above is `dΠ/ds`) -/
theorem derivAux_succ (n : Nat) (p : List K) (s : K) :
    LP.eval (LP.derivAux (n+1) p) s = LP.eval (LP.derivAux n p) s + LP.eval p s := by
  induction p generalizing n with
  | nil => simp [LP.derivAux]
  | cons a p ih => simp only [LP.derivAux, LP.eval_cons, ih]; push_cast; ring

theorem derivAux_zero (p : List K) (s : K) : LP.eval (LP.derivAux 0 p) s = s * LP.eval (LP.deriv p) s := by
  cases p with
  | nil => simp [LP.derivAux, LP.deriv]
  | cons a p => simp [LP.derivAux, LP.deriv]

theorem hasDerivAt_eval (p : List ℝ) (s : ℝ) : HasDerivAt (fun s => LP.eval p s) (LP.eval (LP.deriv p) s) s := by
  induction p with
  | nil => simpa [LP.deriv] using hasDerivAt_const s (0:ℝ)
  | cons a p ih =>
    have h1 : HasDerivAt (fun s => a + s * LP.eval p s) (0 + (1 * LP.eval p s + s * LP.eval (LP.deriv p) s)) s :=
      (hasDerivAt_const s a).add ((hasDerivAt_id' s).mul ih)
    have e : LP.eval (LP.deriv (a :: p)) s = 0 + (1 * LP.eval p s + s * LP.eval (LP.deriv p) s) := by
      show LP.eval (LP.derivAux 1 p) s = _
      rw [derivAux_succ 0 p s, derivAux_zero]; ring
    rw [e]
    exact h1

section rows
variable (c : Ctx K)

/-- collocation time `j` of step `(k,i)` is `t_{k,i} + τ_j·h_k` -/
theorem root_time (k i j : Nat) :
    c.rootTime k i j = intgTime c.tau c.M k i + c.hStep k * c.o.method.tau.getD j (nat 0) := rfl

/-- the defect row of collocation point `(k,i,j)`: `Π'(τ_j)/h_k` against the right-hand side evaluated at
the helper state `j`, that point's algebraic value, the interval's control and parameters, and that time -/
theorem defect_row (k i j : Nat) (hk : k < c.N) (hi : i < c.M) (hj : j < c.d) :
    ({ tag := s!"defect {k} {i} {j}"
       atoms := Ctx.eqAtoms (collocSlope c.cc.C (c.XcFull k i) j (c.hStep k)).toArray
          (c.o.ode.map (·.eval (c.rhsEnv k ((c.XcDC k i).getD j (vzero _)) (c.ZcDC k i j) (c.rootTime k i j) (nat 0) (nat 0)))).toArray
          c.o.scaleDer } : Row K) ∈ c.dcDynRows := by
  simp only [Ctx.dcDynRows, List.mem_flatMap, List.mem_range, List.mem_append]
  exact ⟨k, hk, i, hi, Or.inl ⟨j, hj, by simp⟩⟩

/-- the continuity row of step `(k,i)`: `Π(1)` against the start state of the next step, or `X[k+1]` -/
theorem continuity_row (k i : Nat) (hk : k < c.N) (hi : i < c.M) :
    ({ tag := s!"cont {k} {i}"
       atoms := Ctx.eqAtoms (collocEnd c.cc.D (c.XcFull k i)).toArray
          (if i = c.M - 1 then c.Xvar (k+1) else c.XiDC k (i+1)).toArray c.o.scaleX } : Row K) ∈ c.dcDynRows := by
  simp only [Ctx.dcDynRows, List.mem_flatMap, List.mem_range, List.mem_append]
  exact ⟨k, hk, i, hi, Or.inr (by simp)⟩

end rows

section feasible
variable [LinearOrder K] [IsStrictOrderedRing K]

/-- a scaled equality row is feasible iff both sides agree: residuals are the defects -/
theorem eq_row_feasible (a b s : K) (hs : 0 < s) :
    (0 ≤ (b - a) / s ∧ 0 ≤ (a - b) / s) ↔ a = b := by
  rw [div_nonneg_iff, div_nonneg_iff]
  constructor
  · rintro ⟨(⟨h1, _⟩ | ⟨_, h⟩), (⟨h2, _⟩ | ⟨_, h'⟩)⟩ <;> linarith
  · rintro rfl; simp [le_of_lt hs]

/-- component-wise agreement on the rows the left-hand side has -/
def ArrEq (a b : Array K) : Prop := ∀ r, r < a.size → a.getD r 0 = b.getD r 0

/-- all atoms of a positively scaled vector equality row are non-negative iff the two sides agree component-wise -/
theorem eqAtoms_feasible (lhs rhs scale : Array K) (hs : ∀ r, r < lhs.size → 0 < scale.getD r 1) :
    (∀ a ∈ Ctx.eqAtoms lhs rhs scale, 0 ≤ a) ↔ ArrEq lhs rhs := by
  unfold Ctx.eqAtoms ArrEq
  simp only [List.mem_flatMap, List.mem_range, nat_eq, Nat.cast_zero, Nat.cast_one]
  constructor
  · intro h r hr
    have h1 := h ((rhs.getD r 0 - lhs.getD r 0) / scale.getD r 1) ⟨r, hr, by simp⟩
    have h2 := h ((lhs.getD r 0 - rhs.getD r 0) / scale.getD r 1) ⟨r, hr, by simp⟩
    exact (eq_row_feasible _ _ _ (hs r hr)).mp ⟨h1, h2⟩
  · rintro h a ⟨r, hr, ha⟩
    have := (eq_row_feasible (lhs.getD r 0) (rhs.getD r 0) _ (hs r hr)).mpr (h r hr)
    simp only [List.mem_cons, List.mem_nil_iff, or_false] at ha
    rcases ha with rfl | rfl
    · exact this.1
    · exact this.2

/-- **the dynamic constraints of DirectCollocation hold at a point exactly when**, on every integration step `(k,i)`, the collocation
polynomial's slope equals the right-hand side at every collocation time (with that time, that point's helper state and algebraic value,
the interval's control and parameters), the algebraic equations vanish there, and the polynomial's end value is the next start state —
the conjunction over ALL rows, all scales positive -/
theorem dc_feasible_iff (c : Ctx K)
    (hX : ∀ r, 0 < c.o.scaleX.getD r 1) (hD : ∀ r, 0 < c.o.scaleDer.getD r 1) (hZ : ∀ r, 0 < c.o.scaleZ.getD r 1) :
    (∀ row ∈ c.dcDynRows, ∀ a ∈ row.atoms, 0 ≤ a) ↔
      ∀ k, k < c.N → ∀ i, i < c.M →
        (∀ j, j < c.d →
          ArrEq (collocSlope c.cc.C (c.XcFull k i) j (c.hStep k)).toArray
            (c.o.ode.map (·.eval (c.rhsEnv k ((c.XcDC k i).getD j (vzero _)) (c.ZcDC k i j) (c.rootTime k i j) (nat 0) (nat 0)))).toArray ∧
          (c.o.nz ≠ 0 → ArrEq (Array.replicate c.o.alg.size (nat 0))
            (c.o.alg.map (·.eval (c.rhsEnv k ((c.XcDC k i).getD j (vzero _)) (c.ZcDC k i j) (c.rootTime k i j) (nat 0) (nat 0)))))) ∧
        ArrEq (collocEnd c.cc.D (c.XcFull k i)).toArray (if i = c.M - 1 then c.Xvar (k+1) else c.XiDC k (i+1)).toArray := by
  constructor
  · intro h k hk i hi
    refine ⟨fun j hj => ⟨?_, ?_⟩, ?_⟩
    · rw [← eqAtoms_feasible _ _ c.o.scaleDer (fun r _ => hD r)]
      exact h _ (defect_row c k i j hk hi hj)
    · intro hnz
      rw [← eqAtoms_feasible _ _ c.o.scaleZ (fun r _ => hZ r)]
      apply h { tag := s!"alg {k} {i} {j}", atoms := _ }
      simp only [Ctx.dcDynRows, List.mem_flatMap, List.mem_range, List.mem_append]
      exact ⟨k, hk, i, hi, Or.inl ⟨j, hj, Or.inr (by rw [if_neg hnz]; exact List.mem_singleton.mpr rfl)⟩⟩
    · rw [← eqAtoms_feasible _ _ c.o.scaleX (fun r _ => hX r)]
      exact h _ (continuity_row c k i hk hi)
  · intro h row hrow
    simp only [Ctx.dcDynRows, List.mem_flatMap, List.mem_range, List.mem_append] at hrow
    obtain ⟨k, hk, i, hi, hr⟩ := hrow
    obtain ⟨hdef, hcont⟩ := h k hk i hi
    rcases hr with ⟨j, hj, hr⟩ | hr
    · obtain ⟨h1, h2⟩ := hdef j hj
      simp only [List.mem_append, List.mem_cons, List.mem_nil_iff, or_false] at hr
      rcases hr with rfl | hr
      · exact (eqAtoms_feasible _ _ c.o.scaleDer (fun r _ => hD r)).mpr h1
      · by_cases hnz : c.o.nz = 0
        · simp [hnz] at hr
        · simp only [hnz, if_false, List.mem_cons, List.mem_nil_iff, or_false] at hr
          subst hr
          exact (eqAtoms_feasible _ _ c.o.scaleZ (fun r _ => hZ r)).mpr (h2 hnz)
    · simp only [List.mem_cons, List.mem_nil_iff, or_false] at hr
      subst hr
      exact (eqAtoms_feasible _ _ c.o.scaleX (fun r _ => hX r)).mpr hcont

end feasible

/-! non-vacuity: Radau nodes of degree 2 are distinct; the basis through `0, 1/3, 1` -/
example : LP.eval (LP.basis [(0:ℚ), 1/3, 1] 1) (1/3) = 1 := by
  have := basis_delta [(0:ℚ), 1/3, 1] (by norm_num) 1 1 (by simp) (by simp)
  simpa using this


/-! ### the collocation times as written in the source -/
section source_tie

/-- the loop of `DirectCollocation.add_constraints` that fills `self.tr` (regenerated from the source on every run): ONE such loop, over
the control intervals, with the step length `(control_grid[k+1] − control_grid[k])/M` computed INSIDE it — the interval's own step — and
the collocation time `integrator_grid[k][i] + dt·tau[j]`; that is the model's `rootTime` (`root_time`, by `rfl`) -/
theorem source_root_times_as_expected :
    Rockit.Generated.rootTimeDt = "(self.control_grid[k+1]-self.control_grid[k])/self.M" ∧
    Rockit.Generated.rootTimeDtPerInterval = true ∧
    Rockit.Generated.rootTimeFormula = "self.integrator_grid[k][i]+dt*self.tau[j]|for:k" ∧
    Rockit.Generated.rootTimeLoops = 1 := by decide

end source_tie

end Rockit.C02
