import RockitModel.Model.Basic
/-!
# B-splines on the control grid (mirror of `splines/micro_spline.py`: `eval_on_knots`,
`eval_basis_knotindex(_subgrid)`, `bspline_derivative`, `get_greville_points`, and of
`BSplineSignal.get_der`)

A signal of degree `d` on the grid `ξ_0 < … < ξ_N` lives on the clamped knot vector
`t = [ξ_0]*d ++ ξ ++ [ξ_N]*d` and has `N + d` coefficients.
-/
namespace Rockit
variable {α : Type} [Scalar α]

/-- `horzcat(repmat(xi[0],1,d), xi, repmat(xi[-1],1,d))` -/
def clampedKnots (xi : List α) (d : Nat) : List α :=
  List.replicate d (xi.headD (nat 0)) ++ xi ++ List.replicate d (xi.getLastD (nat 0))

/-- number of basis functions of degree `d` on a grid with `N + 1` points -/
def nBasis (xi : List α) (d : Nat) : Nat := xi.length - 1 + d

section eval
variable [LE α] [DecidableLE α]

/-- index (into the clamped knot vector of degree `d`) of the non-empty span containing `x`:
the last `j` in `[d, d+N-1]` with `t_j ≤ x`; `x` at or beyond the last grid point belongs to the last
span (the code evaluates the end point from the left: `min(ind+d, numel-d-2)`) -/
def spanIdx (xi : List α) (d : Nat) (x : α) : Nat :=
  d + (List.range (xi.length - 1)).foldl (fun acc k => if xi.getD k (nat 0) ≤ x then k else acc) 0

/-- Cox–de Boor recursion on a knot vector `t`, for the point `x` lying in span `j` (`0/0 := 0`):
`B e i` is the value of the `i`-th basis function of degree `e` -/
def coxDeBoor (t : List α) (j : Nat) (x : α) : Nat → Nat → α
  | 0, i => if i = j then nat 1 else nat 0
  | e+1, i =>
      let ti := t.getD i (nat 0)
      let tie := t.getD (i + e + 1) (nat 0)
      let ti1 := t.getD (i + 1) (nat 0)
      let tie1 := t.getD (i + e + 2) (nat 0)
      -- a basis function of degree e that vanishes contributes nothing (this is where 0/0 would arise)
      let left := if i + e < j ∨ j < i then nat 0 else (x - ti) / (tie - ti) * coxDeBoor t j x e i
      let right := if i + 1 + e < j ∨ j < i + 1 then nat 0 else (tie1 - x) / (tie1 - ti1) * coxDeBoor t j x e (i + 1)
      left + right

/-- all `N + d` basis functions of degree `d` at `x` (one column of `eval_on_knots`' matrix) -/
def basisAt (xi : List α) (d : Nat) (x : α) : List α :=
  let t := clampedKnots xi d
  let j := spanIdx xi d x
  (List.range (nBasis xi d)).map (fun i => coxDeBoor t j x d i)

/-- value of the spline with coefficients `c` -/
def splineEval (xi : List α) (d : Nat) (c : List α) (x : α) : α :=
  (List.zipWith (· * ·) c (basisAt xi d x)).foldl (· + ·) (nat 0)

end eval

/-- `bspline_derivative(c, xi, d)`: `c'_i = d·(c_{i+1} − c_i)/(t_{i+d+1} − t_{i+1})` on the clamped
knots `t` (in the code: `delta_xi = [xi[1:], xi[-1]*(d-1)] − [xi[0]*(d-1), xi[:-1]]`) -/
def bsplineDerivCoeffs (xi : List α) (d : Nat) (c : List α) : List α :=
  let t := clampedKnots xi d
  (List.range (c.length - 1)).map fun i =>
    ((d : Nat) : α) / (t.getD (i + d + 1) (nat 0) - t.getD (i + 1) (nat 0)) * (c.getD (i + 1) (nat 0) - c.getD i (nat 0))

/-- `BSplineSignal.get_der`: the grid is normalised (`[0,1]`), physical time is `t0 + T·τ`, so the
derivative in physical time divides by the horizon — for the first and for every further derivative -/
def signalDerCoeffs (xi : List α) (d : Nat) (T : α) (c : List α) : List α :=
  (bsplineDerivCoeffs xi d c).map (fun v => v / T)

/-- `der` applied `m` times: degree drops by one each time, each time divided by `T` -/
def signalDerIter (xi : List α) (T : α) : Nat → Nat → List α → List α
  | _, 0, c => c
  | d, m+1, c => signalDerIter xi T (d - 1) m (signalDerCoeffs xi d T c)

/-- `get_greville_points(xi, d)`: averages of `d` consecutive clamped knots, `g_i = (t_{i+1} + … + t_{i+d})/d`;
for `d = 0` the midpoints of the intervals -/
def greville (xi : List α) (d : Nat) : List α :=
  match d with
  | 0 => (List.range (xi.length - 1)).map (fun i => (xi.getD i (nat 0) + xi.getD (i+1) (nat 0)) / nat 2)
  | d+1 =>
    let t := clampedKnots xi (d+1)
    (List.range (nBasis xi (d+1))).map fun i =>
      (List.range (d+1)).foldl (fun acc r => acc + t.getD (i + 1 + r) (nat 0)) (nat 0) / ((d+1 : Nat) : α)

end Rockit
