import RockitModel.Generated.Guards
/-!
# Decision logic: which specification faults are rejected, and when

A description is abstracted to the set of faults it contains; rockit rejects a fault iff the guard
anchoring it is present (table generated from the source).  A rejected specification never reaches
the solver: `solve` = transcribe (may raise) and only then hand the NLP to the solver.
-/
namespace Rockit
open Rockit.Generated

inductive Phase where | declaration | transcription
deriving DecidableEq, Repr

/-- the catalogue of single specification faults of the property -/
inductive Fault where
  | missingDerivative | missingUpdateRule | missingParameterValue | noMethod | noSolver
  | signalObjective | nonscalarObjective | setValueNonParameter | setValueNonParameterLive
  | setInitialParameter | setInitialUnknown | unknownConstraintGrid | unknownSampleGrid
  | foreignSymbol | constantFalseConstraint | algWithRk | algWithEuler | horizonInOde
  | rootsUnderMultipleShooting | rootsUnderSingleShooting | splineNonlinearOrTimeVarying
  /-- a `grid='inf'` constraint with an operation that cannot be re-evaluated on splines (division, `==`, …) -/
  | infUnsupportedOperation
deriving DecidableEq, Repr

/-- the guard (row of the generated table) that rejects a fault, and the phase in which it fires -/
def Fault.guard : Fault → String × Phase
  | .missingDerivative => ("missing_derivative", .transcription)
  | .missingUpdateRule => ("missing_update_rule", .transcription)
  | .missingParameterValue => ("missing_parameter_value", .transcription)
  | .noMethod => ("no_method", .transcription)
  | .noSolver => ("no_solver", .transcription)
  | .signalObjective => ("signal_objective", .declaration)
  | .nonscalarObjective => ("nonscalar_objective", .declaration)
  | .setValueNonParameter => ("set_value_nonparameter_declared", .declaration)
  | .setValueNonParameterLive => ("set_value_nonparameter_live", .declaration)
  | .setInitialParameter => ("set_initial_parameter", .declaration)
  | .setInitialUnknown => ("set_initial_unknown_symbol", .declaration)
  | .unknownConstraintGrid => ("unknown_constraint_grid", .declaration)
  | .unknownSampleGrid => ("unknown_sample_grid", .declaration)
  | .foreignSymbol => ("free_symbols_in_dynamics", .transcription)
  | .constantFalseConstraint => ("constant_false_constraint", .transcription)
  | .algWithRk => ("alg_with_rk", .transcription)
  | .algWithEuler => ("alg_with_expl_euler", .transcription)
  | .horizonInOde => ("free_symbols_in_dynamics", .transcription)
  | .rootsUnderMultipleShooting => ("roots_constraint_under_multiple_shooting", .transcription)
  | .rootsUnderSingleShooting => ("roots_constraint_under_single_shooting", .transcription)
  | .splineNonlinearOrTimeVarying => ("spline_time_varying_or_nonlinear", .transcription)
  | .infUnsupportedOperation => ("inf_unsupported_operation", .transcription)

def allFaults : List Fault :=
  [.missingDerivative, .missingUpdateRule, .missingParameterValue, .noMethod, .noSolver, .signalObjective,
   .nonscalarObjective, .setValueNonParameter, .setValueNonParameterLive, .setInitialParameter, .setInitialUnknown,
   .unknownConstraintGrid, .unknownSampleGrid, .foreignSymbol, .constantFalseConstraint, .algWithRk, .algWithEuler,
   .horizonInOde, .rootsUnderMultipleShooting, .rootsUnderSingleShooting, .splineNonlinearOrTimeVarying,
   .infUnsupportedOperation]

def guardPresent (tbl : List (String × Bool)) (name : String) : Bool :=
  tbl.any (fun g => g.1 == name && g.2)

inductive Outcome where
  | rejected (p : Phase)
  | solverCalled
deriving DecidableEq, Repr

/-- declare the faulty specification, then `solve`: first raise wins; the solver is called only if
nothing raised during declaration and transcription -/
def attempt (tbl : List (String × Bool)) (faults : List Fault) : Outcome :=
  match faults.find? (fun f => f.guard.2 == .declaration && guardPresent tbl f.guard.1) with
  | some _ => .rejected .declaration
  | none =>
    match faults.find? (fun f => guardPresent tbl f.guard.1) with
    | some _ => .rejected .transcription
    | none => .solverCalled

end Rockit
