import RockitModel.Model.Sample
/-!
# `grid='inf'` constraints (mirror of `SamplingMethod.add_inf_constraints`,
`casadi_helpers.reinterpret_expr` and the `BSpline` algebra of `splines/spline.py` it relies on)

On every integrator step the state is a polynomial in local time (`poly_coeff`). The code rescales
time to `[0,1]`, writes the state in the Bernstein basis, re-evaluates the constraint expression on
these objects (sum: common degree; product: degrees add; scalars stay scalars) and imposes the
relation on the Bernstein coefficients of the result.
-/
namespace Rockit
variable {α : Type} [Scalar α]

namespace LP

def neg (p : List α) : List α := p.map (fun a => - a)

/-- product of two coefficient lists (lowest degree first); the result of two non-empty lists of
lengths `m+1`, `n+1` has length `m+n+1` -/
def mul : List α → List α → List α
  | [], _ => []
  | a :: p, q => add (smul a q) (nat 0 :: mul p q)

/-- `p(σ·s)`: coefficient `i` is multiplied by `σ^i` (`coeff * tpower`) -/
def scaleArgAux (σ : α) : α → List α → List α
  | _, [] => []
  | w, a :: p => (a * w) :: scaleArgAux σ (w * σ) p

def scaleArg (σ : α) (p : List α) : List α := scaleArgAux σ (nat 1) p

/-- pad with zero coefficients up to length `n` (degree elevation in the power basis) -/
def padTo (n : Nat) (p : List α) : List α := p ++ List.replicate (n - p.length) (nat 0)

end LP

/-- binomial coefficient (Pascal recursion; no imports in model files) -/
def binom : Nat → Nat → Nat
  | _, 0 => 1
  | 0, _+1 => 0
  | n+1, k+1 => binom n k + binom n (k+1)

/-- power basis → Bernstein basis of degree `n = a.length - 1`:
`b_i = Σ_{j ≤ i} C(i,j)/C(n,j) · a_j` -/
def toBernstein (a : List α) : List α :=
  let n := a.length - 1
  (List.range a.length).map fun i =>
    (List.range (i+1)).foldl (fun acc j => acc + ((binom i j : Nat) : α) / ((binom n j : Nat) : α) * a.getD j (nat 0)) (nat 0)

/-- value of the Bernstein form `Σ b_i C(n,i) s^i (1-s)^(n-i)`, `n = b.length - 1` -/
def bernsteinEval (b : List α) (s : α) : α :=
  let n := b.length - 1
  (List.range b.length).foldl (fun acc i =>
    acc + b.getD i (nat 0) * ((binom n i : Nat) : α) * (npowS s i * npowS (nat 1 - s) (n - i))) (nat 0)
where
  npowS (a : α) : Nat → α
    | 0 => nat 1
    | k+1 => npowS a k * a

/-- what `reinterpret_expr` computes with: a plain number (CasADi expression without states) or a
spline on `[0,1]` given here by its power coefficients padded to its FORMAL degree -/
inductive IVal (α : Type) where
  | scalar (v : α)
  | poly (cs : List α)
  /-- an operation `reinterpret_expr`/`BSpline` does not support: the constraint is rejected -/
  | unsupported
deriving Inhabited

namespace IVal

def add : IVal α → IVal α → IVal α
  | .scalar a, .scalar b => .scalar (a + b)
  | .scalar a, .poly q => .poly (LP.add [a] q)
  | .poly p, .scalar b => .poly (LP.add p [b])
  | .poly p, .poly q => .poly (LP.add (LP.padTo q.length p) (LP.padTo p.length q))
  | _, _ => .unsupported

def neg : IVal α → IVal α
  | .scalar a => .scalar (- a)
  | .poly p => .poly (LP.neg p)
  | .unsupported => .unsupported

def sub (a b : IVal α) : IVal α := add a (neg b)

def mul : IVal α → IVal α → IVal α
  | .scalar a, .scalar b => .scalar (a * b)
  | .scalar a, .poly q => .poly (LP.smul a q)
  | .poly p, .scalar b => .poly (LP.smul b p)
  | .poly p, .poly q => .poly (LP.mul p q)
  | _, _ => .unsupported

/-- `BSpline.__pow__`: `a = self; for i in range(1, power): a *= self` (scalars: ordinary power) -/
def pow (a : IVal α) (n : Nat) : IVal α :=
  match a with
  | .scalar v => .scalar (npow v n)
  | .poly _ => if n = 0 then .unsupported   -- CasADi folds `x**0` to a constant before it gets here
               else (List.range (n - 1)).foldl (fun acc _ => mul acc a) a
  | .unsupported => .unsupported

end IVal

/-- re-evaluation of an expression on interval values (`reinterpret_expr`): `st i` is the spline of
state `i`, `ops` the values of the special operands (`Sym.off i`), everything else is evaluated in
`env` (the environment of the control node: `eval_at_control(stage, c_spline, k)`) -/
def Expr.ival (st : Nat → IVal α) (ops : Nat → IVal α) (env : Env α) : Expr → IVal α
  | .const n d => .scalar (intCast n / (d : α))
  | .sym (.x i) => st i
  | .sym (.off i) => ops i
  | .sym s => .scalar (env.get s)
  | .add a b => IVal.add (a.ival st ops env) (b.ival st ops env)
  | .sub a b => IVal.sub (a.ival st ops env) (b.ival st ops env)
  | .mul a b => IVal.mul (a.ival st ops env) (b.ival st ops env)
  | .div _ _ => .unsupported
  | .neg a => IVal.neg (a.ival st ops env)
  | .pow a n => IVal.pow (a.ival st ops env) n

/-- Bernstein coefficients the relation is imposed on; a scalar is a single "coefficient" -/
def IVal.coeffs : IVal α → Option (List α)
  | .scalar v => some [v]
  | .poly p => some (toBernstein p)
  | .unsupported => none

/-- `BSpline.common` for a comparison: both sides in the common (higher) degree; a scalar side is
compared with every coefficient of the other -/
def infAtomsLe (a b : IVal α) (scale : α) : Option (List α) :=
  match a, b with
  | .unsupported, _ => none
  | _, .unsupported => none
  | .scalar x, .scalar y => some [(y - x) / scale]
  | .scalar x, .poly q => some ((toBernstein q).map (fun bi => (bi - x) / scale))
  | .poly p, .scalar y => some ((toBernstein p).map (fun ai => (y - ai) / scale))
  | .poly p, .poly q =>
      let n := max p.length q.length
      some (List.zipWith (fun ai bi => (bi - ai) / scale) (toBernstein (LP.padTo n p)) (toBernstein (LP.padTo n q)))

namespace Ctx
variable (c : Ctx α)

/-- the time scale `add_inf_constraints` multiplies into the coefficients (`tscale`): the length of
the integrator step the polynomial lives on -/
def infScale (k : Nat) : α := c.hStep k

/-- state `i` on step `(k,l)` as a polynomial in normalised time `s ∈ [0,1]` -/
def infState (k l i : Nat) : IVal α :=
  .poly (LP.scaleArg (c.infScale k) ((c.stateCoeff k l).map (fun v => v.toArray.getD i (nat 0))))

/-- `lookup[x_i].derivative()*(1/dt)`: derivative in normalised time divided by the step length -/
def infDer (k l i : Nat) : IVal α :=
  match c.infState k l i with
  | .poly p => .poly (LP.smul (nat 1 / c.hStep k) (LP.deriv p))
  | v => v

def infOpVal (k l : Nat) (ops : List InfOp) (i : Nat) : IVal α :=
  match ops[i]? with
  | some (.inert e) => .scalar (e.eval (c.envNode (.at k) #[]))
  | some (.der j) => c.infDer k l j
  | none => .unsupported

/-- atoms of one declared `inf` constraint on step `(k,l)`; `none` = rejected -/
def infConAtoms (con : Con α) (k l : Nat) : Option (List α) :=
  let env := c.envNode (.at k) #[]
  let st := c.infState k l
  let ops := c.infOpVal k l con.infOps
  let a := con.a.ival st ops env
  let b := con.b.ival st ops env
  match con.rel with
  | .le => infAtomsLe a b con.scale
  | .two => do
      let lo ← infAtomsLe a b con.scale
      let hi ← infAtomsLe b (con.c.ival st ops env) con.scale
      pure (lo ++ hi)
  | .eq => none

/-- `for k … for l in range(M): add_inf_constraints(stage, opti, c, k, l)` -/
def infRows : Option (List (Row α)) :=
  (c.o.cons.filter (fun con => con.grid == .inf)).foldlM (fun acc con =>
    (List.range c.N).foldlM (fun acc k => (List.range c.M).foldlM (fun acc l => do
        let at_ ← c.infConAtoms con k l
        pure (acc ++ [{ tag := s!"inf {con.id} {k} {l}", atoms := at_ : Row α }])) acc) acc) []

end Ctx
end Rockit
