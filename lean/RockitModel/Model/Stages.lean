import RockitModel.Model.Inf
/-!
# Stage trees (mirror of `Stage.stage`, `Stage.clone`, `Stage._transcribe_recurse`,
`DirectMethod.transcribe` for the parent's own constraints / objective / variables)

A multi-stage OCP is a parent (no dynamics: `DirectMethod`) with a list of child stages, each with
its own model, method, grid, decision values and parameters. The parent's expressions can only see a
child through that child's placeholders (`at_t0`, `at_tf`, `integral`, …) and its `T`, `t0`, `tf`.
-/
namespace Rockit
variable {α : Type} [Scalar α]

/-- what a parent-level placeholder symbol `Sym.ph k` refers to -/
inductive StageRef where
  /-- placeholder number `j` of child stage `i` (`stage_i.at_tf(e)`, `stage_i.integral(e)`, …) -/
  | ph (i j : Nat)
  | T (i : Nat)
  | t0 (i : Nat)
  | tf (i : Nat)
deriving DecidableEq, Repr, Inhabited

/-- a parent with its child stages at one NLP point -/
structure Multi (α : Type) where
  stages : List (Ctx α)
  refs : Array StageRef := #[]
  /-- the parent's own variables and parameters -/
  V : Array α := #[]
  P : Array α := #[]
  /-- the parent's own (point) constraints -/
  cons : List (Con α) := []
  objective : Expr := .const 0 1

namespace Multi
variable (m : Multi α)

/-- value of a reference: computed from the child stage it names, and from nothing else -/
def refVal : StageRef → α
  | .ph i j => match m.stages[i]? with
      | some c => c.phValues.getD j (nat 0)
      | none => nat 0
  | .T i => match m.stages[i]? with | some c => c.pt.T | none => nat 0
  | .t0 i => match m.stages[i]? with | some c => c.pt.t0 | none => nat 0
  | .tf i => match m.stages[i]? with | some c => c.pt.t0 + c.pt.T | none => nat 0

/-- `eval_top`: the environment the parent's expressions are evaluated in -/
def env : Env α :=
  { t := nat 0, T := nat 1, t0 := nat 0, DT := nat 0, DTc := nat 0, p := m.P, v := m.V, ph := m.refs.map m.refVal }

/-- rows of one child: its whole NLP, `grid='inf'` rows included -/
def stageRows (c : Ctx α) : List (Row α) := c.nlp.rows ++ (c.infRows.getD [])

def parentRows : List (Row α) :=
  m.cons.map fun k => { tag := s!"parent {k.id}", atoms := Ctx.conAtoms k m.env }

/-- the NLP of the tree: the children's rows one after the other, then the parent's own rows;
the objective is the parent's own expression plus every child's objective -/
def nlp : NLP α :=
  { f := m.stages.foldl (fun acc c => acc + c.objective) (m.objective.eval m.env)
    rows := m.stages.flatMap stageRows ++ m.parentRows }

end Multi

/-! ### `Stage.clone` at the level of the description

The containers of a stage and what `clone` does with each of them. Symbols of a description are
positional (`Sym.x i`, …), so "the clone shares the template's state symbols" is the identity here;
what can go wrong is (a) a container that is not carried over and (b) a container that still mentions
the TEMPLATE's time placeholders because it was not run through the substitution. -/
structure StageDesc (α : Type) where
  ocp : Ocp α
  /-- number of quadrature states the user declared (`state(quad=True)`) -/
  userQuad : Nat := 0
  /-- horizon as declared: `none` = inherited default -/
  T : Option α := none
  t0 : Option α := none

/-- overrides given to `parent.stage(template, t0=…, T=…)` -/
structure Overrides (α : Type) where
  T : Option α := none
  t0 : Option α := none

/-- `Stage.clone`: every container is carried over (states, quadrature states, controls, algebraics,
parameters, variables, right-hand sides, algebraic equations, constraints, objective, initial guesses,
placeholders, a private copy of the method); `t0`/`T` come from the overrides when given -/
def StageDesc.clone (t : StageDesc α) (ov : Overrides α) : StageDesc α :=
  { ocp := t.ocp, userQuad := t.userQuad
    T := match ov.T with | some v => some v | none => t.T
    t0 := match ov.t0 with | some v => some v | none => t.t0 }

/-- the same content declared directly on a fresh stage with those horizon arguments -/
def StageDesc.direct (t : StageDesc α) (ov : Overrides α) : StageDesc α :=
  { ocp := t.ocp, userQuad := t.userQuad
    T := (ov.T <|> t.T), t0 := (ov.t0 <|> t.t0) }

end Rockit
