import RockitModel.Generated.Invalidation
/-!
# The Ocp object as a state machine over its public operations

`S` is the specification (whatever the user's calls say: declarations, constraints, objective,
horizon, method, solver settings, parameter values, initial guesses).  The object stores a
specification, a `transcribed` flag, and — while transcribed — the specification the live NLP was
built from (updated in place by the "live" operations `set_value`, `set_initial`).
How each operation treats the flag is read from the table generated from the Python source.
-/
namespace Rockit
open Rockit.Generated

structure HState (S : Type) where
  spec : S
  transcribed : Bool
  cache : S

/-- one public call: which method (its row of the generated table) and what it says about the spec -/
structure HOp (S : Type) where
  info : OpInfo
  f : S → S

/-- every specification attribute the method writes is stored whatever the flag says -/
def storesAll (i : OpInfo) : Bool := i.writes.all (fun w => i.storesAlways.contains w)

/-- a call that writes the specification -/
def stepWrite {S : Type} (op : HOp S) (s : HState S) : HState S :=
  let liveNow := s.transcribed && op.info.live && !op.info.clears
  { spec := if liveNow && !storesAll op.info then s.spec else op.f s.spec
    cache := if liveNow then op.f s.cache else s.cache
    transcribed := if op.info.clears then false else s.transcribed }

/-- a query (`sample`, `value`, `solve`, …): transcribes iff the flag is clear -/
def stepQuery {S : Type} (s : HState S) : HState S :=
  if s.transcribed then s else { s with transcribed := true, cache := s.spec }

/-- a call that writes nothing but untranscribes (`save`, which calls `_untranscribe` before pickling) -/
def stepClear {S : Type} (s : HState S) : HState S := { s with transcribed := false }

def hstep {S : Type} (s : HState S) (op : HOp S) : HState S :=
  if op.info.writes.isEmpty then
    (if op.info.query then stepQuery s else if op.info.clears then stepClear s else s)
  else stepWrite op s

/-- `Ocp.save`: what is pickled is the object after `_untranscribe()`: the specification, no live NLP -/
def saved {S : Type} (s : HState S) : S := (stepClear s).spec

/-- `Ocp.load`: a fresh, untranscribed object holding the pickled specification -/
def loaded {S : Type} (spec : S) : HState S := { spec := spec, transcribed := false, cache := spec }

def hrun {S : Type} (ops : List (HOp S)) (s : HState S) : HState S := ops.foldl hstep s

/-- the specification the next solve works on -/
def nlpSeenByNextSolve {S : Type} (s : HState S) : S := (stepQuery s).cache

/-- what the calls say, applied in order -/
def intended {S : Type} (ops : List (HOp S)) (s0 : S) : S :=
  ops.foldl (fun s op => if op.info.writes.isEmpty then s else op.f s) s0

/-- a row of the table is safe if it writes nothing, clears the flag, or forwards to the live NLP AND stores -/
def rowOK (i : OpInfo) : Bool := i.writes.isEmpty || i.clears || (i.live && storesAll i)

end Rockit
