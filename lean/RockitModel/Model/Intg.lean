import RockitModel.Model.Basic
/-!
# One-step maps and the discretised system (mirror of `SamplingMethod.intg_rk`,
`intg_expl_euler`, `Stage._diffeq` and `SamplingMethod.discrete_system`)

`f x t = (ode, quad)` is the right-hand side closed over the control and the
parameter vector of the interval (`F(x0=…, u=U[k], p=get_p_sys(k), …)`).
-/
namespace Rockit
variable {α V Q : Type} [Scalar α] [VecSpace α V] [VecSpace α Q]

/-- output of one integrator step (`xf`, `qf`, dense-output coefficients in local physical time) -/
structure StepOut (V Q : Type) where
  xf : V
  qf : Q
  /-- `poly_coeff` columns: state ≈ Σ coeff[i]·s^i, `s` local time from the step start; `[]` if none -/
  coeff : List V
  /-- `poly_coeff_q` columns (the quadrature polynomial is `xq_start + Σ coeffq[i]·s^(i+1)`) -/
  coeffq : List Q

/-- a step map: state, start time, `DT`, `DT_control` ↦ result -/
abbrev Step (α V Q : Type) := V → α → α → α → StepOut V Q

/-- `intg_rk`: one classical Runge–Kutta-4 step with dense output -/
def rk4Step (f : V → α → V × Q) : Step α V Q := fun (x : V) (t0 DT _DTc : α) =>
  let two : α := nat 2
  let k1 := f x t0
  let k2 := f (x + (DT / two) • k1.1) (t0 + DT / two)
  let k3 := f (x + (DT / two) • k2.1) (t0 + DT / two)
  let k4 := f (x + DT • k3.1) (t0 + DT)
  let half : α := nat 1 / two
  { xf := x + ((DT / nat 6 : α)) • (k1.1 + two • k2.1 + two • k3.1 + k4.1)
    qf := ((DT / nat 6 : α)) • (k1.2 + two • k2.2 + two • k3.2 + k4.2)
    coeff := [x, k1.1,
              half • ((two / DT) • (k2.1 - k1.1)),
              ((nat 1 / nat 6 : α)) • (((nat 4 / (DT * DT) : α)) • (k3.1 - k2.1)),
              ((nat 1 / nat 24 : α)) • (((nat 1 / (DT * DT * DT) : α)) • ((nat 4 : α) • (k4.1 - two • k3.1 + k1.1)))]
    coeffq := [k1.2,
              half • ((two / DT) • (k2.2 - k1.2)),
              ((nat 1 / nat 6 : α)) • (((nat 4 / (DT * DT) : α)) • (k3.2 - k2.2)),
              ((nat 1 / nat 24 : α)) • (((nat 1 / (DT * DT * DT) : α)) • ((nat 4 : α) • (k4.2 - two • k3.2 + k1.2)))] }

/-- `intg_expl_euler` -/
def eulerStep (f : V → α → V × Q) : Step α V Q := fun (x : V) (t0 DT _DTc : α) =>
  let k := f x t0
  { xf := x + DT • k.1, qf := DT • k.2, coeff := [x, k.1], coeffq := [k.2] }

/-- `Stage._diffeq`: a discrete-time update rule `g x t DT DT_control = (next, quad)` -/
def nextStep (g : V → α → α → α → V × Q) : Step α V Q := fun (x : V) (t0 DT DTc : α) =>
  let r := g x t0 DT DTc
  { xf := r.1, qf := r.2, coeff := [], coeffq := [] }

/-- result of `discrete_system`'s function `F` -/
structure DSOut (V Q : Type) where
  xf : V
  /-- `Xi` = `[X₀, X₁, …, X_M]` -/
  Xi : List V
  qf : Q
  /-- cumulative quadratures `[q₁, …, q_M]` -/
  Qi : List Q
  coeffs : List (List V)
  coeffsq : List (List Q)

/-- loop state of `discrete_system` -/
structure DSAcc (α V Q : Type) where
  x : V
  t : α
  quad : Q
  Xi : List V
  Qi : List Q
  coeffs : List (List V)
  coeffsq : List (List Q)

/-- body of `for j in range(self.M)` -/
def dsBody (step : Step α V Q) (DT T : α) (a : DSAcc α V Q) : DSAcc α V Q :=
  let r := step a.x a.t DT T
  let quad := a.quad + r.qf
  { x := r.xf, t := a.t + DT, quad := quad,
    Xi := a.Xi ++ [r.xf], Qi := a.Qi ++ [quad],
    coeffs := a.coeffs ++ [r.coeff], coeffsq := a.coeffsq ++ [r.coeffq] }

def dsLoop (step : Step α V Q) (DT T : α) : Nat → DSAcc α V Q → DSAcc α V Q
  | 0, a => a
  | j+1, a => dsLoop step DT T j (dsBody step DT T a)

/-- `discrete_system`: `M` steps of size `DT = T/M` from `(x0, t0)`; the local start time is
accumulated (`t0_local += DT`), `DT_control = T`. -/
def discreteSystem (step : Step α V Q) (M : Nat) (x0 : V) (t0 T : α) : DSOut V Q :=
  let DT := T / (M : α)
  let a := dsLoop step DT T M
    { x := x0, t := t0, quad := 0, Xi := [x0], Qi := [], coeffs := [], coeffsq := [] }
  { xf := a.x, Xi := a.Xi, qf := a.quad, Qi := a.Qi, coeffs := a.coeffs, coeffsq := a.coeffsq }

/-- evaluate a dense-output polynomial `Σ c[i] s^i` (Horner-free, as `coeff @ tpower`) -/
def densePoly (c : List V) (s : α) : V :=
  (c.foldl (fun (acc : V × α) ci => (acc.1 + acc.2 • ci, acc.2 * s)) (0, nat 1)).1

end Rockit
