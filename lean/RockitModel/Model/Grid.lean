import RockitModel.Model.Basic
/-!
# Time grids (mirror of the `Grid` classes of `sampling_method.py`,
`add_variables_V_control_finalize`, the `integrator_grid` construction,
`get_DT_control_at`, `get_DT_at`)
-/
namespace Rockit
variable {α : Type} [Scalar α]

inductive GridKind (α : Type) where
  | uniform
  /-- `GeometricGrid`; `gEff` is the per-interval ratio the code uses (`growth_factor(N)`), supplied
      as data because a fractional power is not field arithmetic -/
  | geometric (growth : α) (isLocal : Bool) (gEff : α)
  /-- `FunctionGrid` / `DensityGrid`: the normalised vector is data -/
  | data (nz : List α)
  /-- `FreeGrid` -/
  | free

structure GridSpec (α : Type) where
  kind : GridKind α
  localizeT0 : Bool := false
  localizeT : Bool := false
  min : α
  /-- `none` = `inf` -/
  max : Option α := none
  /-- true iff `min==0 and max==inf` (the code's default test) -/
  defaultBounds : Bool := true

/-- `GeometricGrid.normalized`: accumulate `base`, multiply by `g`, then normalise by the last -/
def geomRaw (g : α) : Nat → List α × α × α   -- (vec, last, base)
  | 0 => ([nat 0], nat 0, nat 1)
  | n+1 =>
    let (vec, last, base) := geomRaw g n
    (vec ++ [last + base], last + base, base * g)

def geomNormalized (g : α) (N : Nat) : List α :=
  let (vec, last, _) := geomRaw g N
  vec.map (· / last)

def GridSpec.normalized (s : GridSpec α) (N : Nat) : List α :=
  match s.kind with
  | .uniform => (List.range (N+1)).map (fun (k : Nat) => ((k : Nat) : α) / ((N : Nat) : α))
  | .geometric _ _ g => geomNormalized g N
  | .data nz => nz
  | .free => []

/-- `localize_T` in effect (`FreeGrid` forces it) -/
def GridSpec.locT (s : GridSpec α) : Bool :=
  match s.kind with
  | .free => true
  | _ => s.localizeT

def GridSpec.isFree (s : GridSpec α) : Bool :=
  match s.kind with
  | .free => true
  | _ => false

/-- `scale_first(N)` -/
def GridSpec.scaleFirst (s : GridSpec α) (N : Nat) : α :=
  match s.kind with
  | .uniform => nat 1 / (N : α)
  | _ => (s.normalized N).getD 1 (nat 0)

/-- `T_local[k]` as an expression of the decision values: entry 0 is `T*scale_first(N)` except for
`FreeGrid`, the others are the variables `Tl k` -/
def GridSpec.TlocalAt (s : GridSpec α) (N : Nat) (T : α) (Tl : Nat → α) (k : Nat) : α :=
  if k = 0 && !s.isFree then T * s.scaleFirst N else Tl k

/-- `t0_local[k]`: entry 0 is `t0`, the others are variables -/
def t0localAt (t0 : α) (t0l : Nat → α) (k : Nat) : α := if k = 0 then t0 else t0l k

def sumTo (f : Nat → α) : Nat → α
  | 0 => nat 0
  | n+1 => sumTo f n + f n

/-- `control_grid[k]`, `0 ≤ k ≤ N` (`add_variables_V_control_finalize`) -/
def GridSpec.tau (s : GridSpec α) (N : Nat) (t0 T : α) (t0l Tl : Nat → α) (k : Nat) : α :=
  if s.localizeT0 then t0localAt t0 t0l k
  else if s.locT then t0 + sumTo (s.TlocalAt N T Tl) k
  else t0 + (s.normalized N).getD k (nat 0) * T

/-- `integrator_grid[k][i]` (`linspace(control_grid[k], control_grid[k+1], M+1)`), `0 ≤ i ≤ M` -/
def intgTime (tau : Nat → α) (M : Nat) (k i : Nat) : α :=
  if i = M then tau (k+1) else tau k + (i : α) * ((tau (k+1) - tau k) / (M : α))

/-- `get_DT_control_at(k)`; `k = N` and the final node report the last interval -/
def dtControlAt (tau : Nat → α) (N : Nat) : Node → α
  | .final => tau N - tau (N-1)
  | .at k => if k = N then tau N - tau (N-1) else tau (k+1) - tau k

/-- `get_DT_at(k, i)` -/
def dtAt (tau : Nat → α) (M : Nat) (k i : Nat) : α :=
  intgTime tau M k (i+1) - intgTime tau M k i

end Rockit
