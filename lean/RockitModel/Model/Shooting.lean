import RockitModel.Model.Intg
/-!
# Shooting transcriptions (mirror of `MultipleShooting.add_constraints`,
`SingleShooting.add_constraints`: the `FF = F(x0=X[k], u=U[k], t0=control_grid[k],
T=control_grid[k+1]-control_grid[k], p=get_p_sys(k))` calls)

`step k` is the scheme closed over `U[k]` and `get_p_sys(k)`.
-/
namespace Rockit
variable {α V Q : Type} [Scalar α] [VecSpace α V] [VecSpace α Q]

/-- `FF` of interval `k` started from `x` -/
def dsFrom (step : Nat → Step α V Q) (M : Nat) (tau : Nat → α) (k : Nat) (x : V) : DSOut V Q :=
  discreteSystem (step k) M x (tau k) (tau (k+1) - tau k)

/-- MultipleShooting: residual of `X[k+1] == FF["xf"]` -/
def msGap (step : Nat → Step α V Q) (M : Nat) (tau : Nat → α) (X : Nat → V) (k : Nat) : V :=
  X (k+1) - (dsFrom step M tau k (X k)).xf

/-- SingleShooting: `X[k+1] = FF["xf"]` -/
def ssStates (step : Nat → Step α V Q) (M : Nat) (tau : Nat → α) (x0 : V) : Nat → V
  | 0 => x0
  | k+1 => (dsFrom step M tau k (ssStates step M tau x0 k)).xf

/-- cumulative quadrature `Q[k]` (`self.q = self.q + FF["qf"]`) for node states `X` -/
def quadNode (step : Nat → Step α V Q) (M : Nat) (tau : Nat → α) (X : Nat → V) : Nat → Q
  | 0 => 0
  | k+1 => quadNode step M tau X k + (dsFrom step M tau k (X k)).qf

end Rockit
