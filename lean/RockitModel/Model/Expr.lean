import RockitModel.Model.Basic
/-!
# Expression AST shared by the description of an OCP (driver side) and the theorems
about substitution (C09) and differentiation (C16).
-/
namespace Rockit

/-- primitive symbols an expression can mention -/
inductive Sym where
  | x (i : Nat) | u (i : Nat) | z (i : Nat) | xq (i : Nat)
  | t | T | t0 | DT | DTc
  | p (i : Nat) | pc (i : Nat) | pcp (i : Nat)
  | v (i : Nat) | vc (i : Nat) | vcp (i : Nat) | vs (i : Nat)
  /-- value of the i-th shifted operand (`ocp.offset/next/prev`) of the enclosing constraint -/
  | off (i : Nat)
  /-- value of the i-th placeholder (`at_t0`, `at_tf`, `sum`, `integral`, …) -/
  | ph (i : Nat)
deriving DecidableEq, Repr, Inhabited

inductive Expr where
  | const (num : Int) (den : Nat)
  | sym (s : Sym)
  | add (a b : Expr) | sub (a b : Expr) | mul (a b : Expr) | div (a b : Expr)
  | neg (a : Expr)
  | pow (a : Expr) (n : Nat)
deriving Repr, Inhabited

/-- environment: the value of every primitive symbol at one point of a grid -/
structure Env (α : Type) where
  x : Array α := #[]
  u : Array α := #[]
  z : Array α := #[]
  xq : Array α := #[]
  t : α
  T : α
  t0 : α
  DT : α
  DTc : α
  p : Array α := #[]
  pc : Array α := #[]
  pcp : Array α := #[]
  v : Array α := #[]
  vc : Array α := #[]
  vcp : Array α := #[]
  vs : Array α := #[]
  off : Array α := #[]
  ph : Array α := #[]

variable {α : Type} [Scalar α]

def intCast (n : Int) : α :=
  match n with
  | Int.ofNat k => (k : α)
  | Int.negSucc k => - ((k + 1 : Nat) : α)

def npow (a : α) : Nat → α
  | 0 => nat 1
  | n+1 => npow a n * a

/-- An out-of-range index denotes a malformed description; the driver validates arities
before evaluating, the default is never observed on validated input. -/
def Env.get (e : Env α) : Sym → α
  | .x i => e.x.getD i (nat 0) | .u i => e.u.getD i (nat 0) | .z i => e.z.getD i (nat 0)
  | .xq i => e.xq.getD i (nat 0)
  | .t => e.t | .T => e.T | .t0 => e.t0 | .DT => e.DT | .DTc => e.DTc
  | .p i => e.p.getD i (nat 0) | .pc i => e.pc.getD i (nat 0) | .pcp i => e.pcp.getD i (nat 0)
  | .v i => e.v.getD i (nat 0) | .vc i => e.vc.getD i (nat 0) | .vcp i => e.vcp.getD i (nat 0)
  | .vs i => e.vs.getD i (nat 0)
  | .off i => e.off.getD i (nat 0) | .ph i => e.ph.getD i (nat 0)

def Expr.eval (env : Env α) : Expr → α
  | .const n d => intCast n / (d : α)
  | .sym s => env.get s
  | .add a b => a.eval env + b.eval env
  | .sub a b => a.eval env - b.eval env
  | .mul a b => a.eval env * b.eval env
  | .div a b => a.eval env / b.eval env
  | .neg a => - a.eval env
  | .pow a n => npow (a.eval env) n

/-- does the expression mention a symbol satisfying `q` -/
def Expr.mentions (q : Sym → Bool) : Expr → Bool
  | .const _ _ => false
  | .sym s => q s
  | .add a b | .sub a b | .mul a b | .div a b => a.mentions q || b.mentions q
  | .neg a => a.mentions q
  | .pow a _ => a.mentions q

/-- substitute expressions for symbols -/
def Expr.subst (σ : Sym → Option Expr) : Expr → Expr
  | .const n d => .const n d
  | .sym s => (σ s).getD (.sym s)
  | .add a b => .add (a.subst σ) (b.subst σ)
  | .sub a b => .sub (a.subst σ) (b.subst σ)
  | .mul a b => .mul (a.subst σ) (b.subst σ)
  | .div a b => .div (a.subst σ) (b.subst σ)
  | .neg a => .neg (a.subst σ)
  | .pow a n => .pow (a.subst σ) n

end Rockit
