import RockitModel.Model.Ocp
import RockitModel.Model.Shooting
import RockitModel.Model.Place
import RockitModel.Model.DC
/-!
# The transcription: description + decision point ↦ NLP rows and objective
(executable glue that instantiates the abstract definitions of `Intg`, `Shooting`, `DC`,
`Grid`, `Place` with `V := Vector α nx`; mirrors `add_constraints`, `eval_at_*`,
`add_coupling_constraints`, `fill_placeholders_*`, `add_objective`)
-/
namespace Rockit
variable {α : Type} [Scalar α]

def arr2 (a : Array (Array α)) (k : Nat) : Array α := a.getD k #[]

def vzero (n : Nat) : Vector α n := Vector.replicate n (nat 0)

/-- context: a description and a point -/
structure Ctx (α : Type) where
  o : Ocp α
  pt : Point α o.nx

namespace Ctx
variable (c : Ctx α)

def N : Nat := c.o.method.N
def M : Nat := c.o.method.M
def d : Nat := c.o.method.tau.length

/-- `control_grid` -/
def tau (k : Nat) : α :=
  c.o.method.grid.tau c.N c.pt.t0 c.pt.T (fun k => c.pt.t0l.getD k (nat 0)) (fun k => c.pt.Tl.getD k (nat 0)) k

/-- environment seen by the right-hand side on interval `k` (`get_p_sys(k)`, `U[k]`) -/
def rhsEnv (k : Nat) (x : Vector α c.o.nx) (z : Array α) (t DT DTc : α) : Env α :=
  { x := x.toArray, u := arr2 c.pt.U k, z := z, t := t, T := c.pt.T, t0 := c.pt.t0, DT := DT, DTc := DTc
    p := c.pt.P, pc := arr2 c.pt.Pc k, pcp := arr2 c.pt.Pcp k
    v := c.pt.V, vc := arr2 c.pt.Vc k, vcp := arr2 c.pt.Vcp k }

/-- `stage._ode()` closed over interval `k` -/
def rhs (k : Nat) : Vector α c.o.nx → α → Vector α c.o.nx × Vector α c.o.nxq := fun x t =>
  let env := c.rhsEnv k x #[] t (nat 0) (nat 0)
  (c.o.ode.map (·.eval env), c.o.quad.map (·.eval env))

/-- `stage._diffeq()` closed over interval `k` -/
def upd (k : Nat) : Vector α c.o.nx → α → α → α → Vector α c.o.nx × Vector α c.o.nxq :=
  fun x t DT DTc =>
  let env := c.rhsEnv k x #[] t DT DTc
  (c.o.ode.map (·.eval env), c.o.quad.map (·.eval env))

/-- the integrator of the stage on interval `k` -/
def step (k : Nat) : Step α (Vector α c.o.nx) (Vector α c.o.nxq) :=
  match c.o.method.intg with
  | .rk => rk4Step (c.rhs k)
  | .euler => eulerStep (c.rhs k)
  | .next => nextStep (c.upd k)

def Xvar (k : Nat) : Vector α c.o.nx := c.pt.X.getD k (vzero _)

/-- node states `X[k]` -/
def Xn (k : Nat) : Vector α c.o.nx :=
  match c.o.method.kind with
  | .ss => ssStates c.step c.M c.tau (c.Xvar 0) k
  | _ => c.Xvar k

def ds (k : Nat) : DSOut (Vector α c.o.nx) (Vector α c.o.nxq) := dsFrom c.step c.M c.tau k (c.Xn k)

/-! ### DirectCollocation pieces -/

def cc : CollocCoeff α := collocCoeff c.o.method.tau

def XiDC (k i : Nat) : Vector α c.o.nx := c.pt.Xi.getD (k * c.M + i) (vzero _)
def XcDC (k i : Nat) : List (Vector α c.o.nx) := (c.pt.Xc.getD (k * c.M + i) #[]).toList
def ZcDC (k i j : Nat) : Array α := (c.pt.Zc.getD (k * c.M + i) #[]).getD j #[]
/-- `Xc[k][i] = [x0 | xc]` -/
def XcFull (k i : Nat) : List (Vector α c.o.nx) := c.XiDC k i :: c.XcDC k i

def hStep (k : Nat) : α := (c.tau (k+1) - c.tau k) / (c.M : α)

/-- `tr[k][i][j] = integrator_grid[k][i] + dt*tau[j]` -/
def rootTime (k i j : Nat) : α := intgTime c.tau c.M k i + c.hStep k * c.o.method.tau.getD j (nat 0)

/-- quadrature increment of step `(k,i)`: `Σ_j quad(root j)·dt·B[j]` -/
def dcStepQuad (k i : Nat) : Vector α c.o.nxq :=
  (List.range c.d).foldl (fun (acc : Vector α c.o.nxq) j =>
      let env := c.rhsEnv k ((c.XcDC k i).getD j (vzero _)) (c.ZcDC k i j) (c.rootTime k i j) (nat 0) (nat 0)
      acc + (c.hStep k * c.cc.B.getD j (nat 0) : α) • c.o.quad.map (·.eval env))
    0

/-- cumulative quadrature before step `(k,i)` (index `k*M+i` of `xqk`) -/
def dcQuadBefore (n : Nat) : Vector α c.o.nxq :=
  cumSum (α := α) (fun m => c.dcStepQuad (m / c.M) (m % c.M)) n

/-- `Z[k]` for DirectCollocation: extrapolation of the algebraic polynomial -/
def dcZnode (k : Nat) : Array α :=
  let nz := c.o.nz
  if k < c.N then
    let w := c.cc.polyZ.map (fun l => l.getD 0 (nat 0))      -- poly_z[:,0]
    Array.ofFn (n := nz) fun r => (List.range c.d).foldl (fun acc j => acc + (c.ZcDC k 0 j).getD r (nat 0) * w.getD j (nat 0)) (nat 0)
  else
    let w := c.cc.polyZ.map (fun l => l.foldl (· + ·) (nat 0))   -- sum2(poly_z)
    Array.ofFn (n := nz) fun r => (List.range c.d).foldl (fun acc j => acc + (c.ZcDC (c.N-1) (c.M-1) j).getD r (nat 0) * w.getD j (nat 0)) (nat 0)

def dcZstep (k i : Nat) : Array α :=
  let w := c.cc.polyZ.map (fun l => l.getD 0 (nat 0))
  Array.ofFn (n := c.o.nz) fun r => (List.range c.d).foldl (fun acc j => acc + (c.ZcDC k i j).getD r (nat 0) * w.getD j (nat 0)) (nat 0)

/-! ### states / quadratures at grid points -/

/-- cumulative quadrature at node `k` (`Q[k]`) -/
def Qn (k : Nat) : Vector α c.o.nxq :=
  match c.o.method.kind with
  | .dc => c.dcQuadBefore (k * c.M)
  | _ => quadNode c.step c.M c.tau c.Xn k

/-- state at the start of step `(k,i)` (`xk[k*M+i]`) -/
def xStep (k i : Nat) : Vector α c.o.nx :=
  match c.o.method.kind with
  | .dc => c.XiDC k i
  | _ => (c.ds k).Xi.getD i (vzero _)

/-- quadrature at the start of step `(k,i)` (`xqk[k*M+i]`) -/
def qStep (k i : Nat) : Vector α c.o.nxq :=
  match c.o.method.kind with
  | .dc => c.dcQuadBefore (k * c.M + i)
  | _ => if i = 0 then c.Qn k else c.Qn k + (c.ds k).Qi.getD (i-1) 0

def Znode (k : Nat) : Array α :=
  match c.o.method.kind with
  | .dc => c.dcZnode k
  | _ => #[]

/-! ### environments (mirror of `eval_at_control`, `_eval_at_control`, `eval_at_integrator`,
`eval_at_integrator_root`, `eval`) -/

def envNode (q : Node) (off : Array α) : Env α :=
  let kx := match q with | .final => c.N | .at k => k
  let ku := match q with | .final => c.N - 1 | .at k => k
  { x := (c.Xn kx).toArray, u := arr2 c.pt.U ku, z := c.Znode kx, xq := (c.Qn kx).toArray
    t := c.tau kx, T := c.pt.T, t0 := c.pt.t0
    DT := (match q with | .final => dtAt c.tau c.M (c.N-1) (c.M-1) | .at k => dtAt c.tau c.M k 0)
    DTc := dtControlAt c.tau c.N q
    p := c.pt.P, pc := arr2 c.pt.Pc ku, pcp := arr2 c.pt.Pcp kx
    v := c.pt.V, vc := arr2 c.pt.Vc ku, vcp := arr2 c.pt.Vcp kx, vs := arr2 c.pt.Vs kx
    off := off }

def envStep (k i : Nat) : Env α :=
  { x := (c.xStep k i).toArray, u := arr2 c.pt.U k, xq := (c.qStep k i).toArray
    z := (match c.o.method.kind with | .dc => c.dcZstep k i | _ => #[])
    t := intgTime c.tau c.M k i, T := c.pt.T, t0 := c.pt.t0
    DT := dtAt c.tau c.M k i, DTc := dtControlAt c.tau c.N (.at k)
    p := c.pt.P, pc := arr2 c.pt.Pc k, pcp := arr2 c.pt.Pcp k
    v := c.pt.V, vc := arr2 c.pt.Vc k, vcp := arr2 c.pt.Vcp k, vs := arr2 c.pt.Vs k }

def envRoot (k i j : Nat) : Env α :=
  { x := ((c.XcDC k i).getD j (vzero _)).toArray, u := arr2 c.pt.U k, z := c.ZcDC k i j
    t := c.rootTime k i j, T := c.pt.T, t0 := c.pt.t0
    DT := dtAt c.tau c.M k i, DTc := dtControlAt c.tau c.N (.at k)
    p := c.pt.P, pc := arr2 c.pt.Pc k, pcp := arr2 c.pt.Pcp k
    v := c.pt.V, vc := arr2 c.pt.Vc k, vcp := arr2 c.pt.Vcp k }

def envGlobal (ph : Array α) : Env α :=
  { t := nat 0, T := c.pt.T, t0 := c.pt.t0, DT := nat 0, DTc := nat 0, p := c.pt.P, v := c.pt.V, ph := ph }

def envPt : Pt → Array α → Env α
  | .node q, off => c.envNode q off
  | .step k i, _ => c.envStep k i
  | .root k i j, _ => c.envRoot k i j

/-! ### placeholders and objective -/

def phValue (p : Ph) : α :=
  match p.kind with
  | .atT0 => p.e.eval (c.envNode (.at 0) #[])
  | .atTf => p.e.eval (c.envNode .final #[])
  | .sum => (List.range c.N).foldl (fun acc k => acc + p.e.eval (c.envNode (.at k) #[])) (nat 0)
  | .sumPlus => (List.range c.N).foldl (fun acc k => acc + p.e.eval (c.envNode (.at k) #[])) (nat 0)
                  + p.e.eval (c.envNode .final #[])
  | .intControl => (List.range c.N).foldl
        (fun acc k => acc + (c.tau (k+1) - c.tau k) * p.e.eval (c.envNode (.at k) #[])) (nat 0)
  | .integral q => (c.Qn c.N).toArray.getD q (nat 0)

def phValues : Array α := c.o.phs.map c.phValue

def objective : α := c.o.objective.eval (c.envGlobal c.phValues)

/-! ### rows -/

def conAtoms (k : Con α) (env : Env α) : List α :=
  let a := k.a.eval env
  let b := k.b.eval env
  match k.rel with
  | .le => [(b - a) / k.scale]
  | .eq => [(b - a) / k.scale, (a - b) / k.scale]
  | .two => [(b - a) / k.scale, (k.c.eval env - b) / k.scale]

/-- values of the shifted operands of a constraint instance at node `q` -/
def offVals (k : Con α) (q : Node) : Array α :=
  (k.offs.map (fun (e, o) => e.eval (c.envNode (nodeOfIdx c.N (shiftTarget c.N q o)) #[]))).toArray

def ptTag : Pt → String
  | .node .final => "node -1"
  | .node (.at k) => s!"node {k}"
  | .step k i => s!"step {k} {i}"
  | .root k i j => s!"root {k} {i} {j}"

/-- the points at which a declared constraint is instantiated by this method -/
def conPts (k : Con α) : List Pt :=
  match k.grid with
  | .control => (ctrlPlaced c.N k.first k.last (k.offs.map (·.2))).map Pt.node
  | .integrator => intgPts c.N c.M k.first k.last
  | .roots => (match c.o.method.kind with | .dc => rootPts c.N c.M c.d | _ => [])
  | .point => []
  | .inf => []

/-- the rows a declared constraint contributes -/
def conRows (k : Con α) : List (Row α) :=
  match k.grid with
  | .point => [{ tag := s!"user {k.id} point", atoms := conAtoms k (c.envGlobal c.phValues) }]
  | _ => (c.conPts k).map fun p =>
      let off := match p with | .node q => c.offVals k q | _ => #[]
      { tag := s!"user {k.id} {ptTag p}", atoms := conAtoms k (c.envPt p off) }

def userRows : List (Row α) := c.o.cons.flatMap c.conRows

def eqAtoms (lhs rhs scale : Array α) : List α :=
  (List.range lhs.size).flatMap fun r =>
    let a := lhs.getD r (nat 0); let b := rhs.getD r (nat 0); let s := scale.getD r (nat 1)
    [(b - a) / s, (a - b) / s]

/-- gap-closing rows of MultipleShooting -/
def msDynRows : List (Row α) :=
  (List.range c.N).map fun k =>
    { tag := s!"dyn {k}", atoms := eqAtoms (c.Xvar (k+1)).toArray (c.ds k).xf.toArray c.o.scaleX }

/-- defect, algebraic and continuity rows of DirectCollocation -/
def dcDynRows : List (Row α) :=
  (List.range c.N).flatMap fun k => (List.range c.M).flatMap fun i =>
    let Xc := c.XcFull k i
    ((List.range c.d).flatMap fun j =>
      let env := c.rhsEnv k ((c.XcDC k i).getD j (vzero _)) (c.ZcDC k i j) (c.rootTime k i j) (nat 0) (nat 0)
      let slope := collocSlope c.cc.C Xc j (c.hStep k)
      [{ tag := s!"defect {k} {i} {j}"
         atoms := eqAtoms slope.toArray (c.o.ode.map (·.eval env)).toArray c.o.scaleDer : Row α }]
      ++ (if c.o.nz = 0 then [] else
           [{ tag := s!"alg {k} {i} {j}"
              atoms := eqAtoms (Array.replicate c.o.alg.size (nat 0)) (c.o.alg.map (·.eval env)) c.o.scaleZ }]))
    ++ [{ tag := s!"cont {k} {i}"
          atoms := eqAtoms (collocEnd c.cc.D Xc).toArray
                     (if i = c.M - 1 then c.Xvar (k+1) else c.XiDC k (i+1)).toArray c.o.scaleX }]

def minmaxAtoms (g : GridSpec α) (x : α) : List α :=
  [x - g.min] ++ (match g.max with | some m => [m - x] | none => [])

/-- `time_grid.bounds_T(T_local, t0_local, k, T, N)` filtered by `is_parametric` -/
def couplingRows (k : Nat) : List (Row α) :=
  let g := c.o.method.grid
  let N := c.N
  let Tl := g.TlocalAt N c.pt.T (fun k => c.pt.Tl.getD k (nat 0))
  let t0l := t0localAt c.pt.t0 (fun k => c.pt.t0l.getD k (nat 0))
  let nz := g.normalized N
  let Tk : α := if g.locT then Tl k else c.pt.T * (nz.getD (k+1) (nat 0) - nz.getD k (nat 0))
  -- FixedGrid.bounds_T
  let constrain : List (Row α) :=
    if g.locT && decide (k + 1 < N) then
      match g.kind with
      | .uniform => [{ tag := s!"grid constrain {k}", atoms := [Tl (k+1) - Tl k, Tl k - Tl (k+1)] }]
      | .geometric _ _ ge => [{ tag := s!"grid constrain {k}", atoms := [Tl (k+1) - Tl k * ge, Tl k * ge - Tl (k+1)] }]
      | _ => []
    else []
  let t0row : List (Row α) :=
    if g.localizeT0 then
      [{ tag := s!"grid t0 {k}", atoms := [t0l (k+1) - (t0l k + Tk), (t0l k + Tk) - t0l (k+1)] }]
    else []
  let fixed := constrain ++ t0row
  match g.kind with
  | .uniform =>
    -- one min/max row (all intervals are equal); parametric rows are skipped by `is_parametric`
    let mm : List (Row α) :=
      if k = 0 then
        (if g.locT then
          (if c.o.Tfree then [{ tag := "grid minmax 0", atoms := minmaxAtoms g (Tl 0) }] else [])
        else if g.defaultBounds then []
        else (if c.o.Tfree then [{ tag := "grid minmax 0", atoms := minmaxAtoms g (c.pt.T / (N : α)) }] else []))
      else []
    mm ++ fixed
  | .geometric _ _ _ =>
    -- the first and the last interval are bounded (the intervals are monotone in between)
    let mm : List (Row α) :=
      if g.locT then
        (if k = 0 || k = N - 1 then
          (if k = 0 && !c.o.Tfree then [] else [{ tag := s!"grid minmax {k}", atoms := minmaxAtoms g (Tl k) }])
        else [])
      else if c.o.Tfree then
        (if k = 0 then [{ tag := "grid minmax 0", atoms := minmaxAtoms g (c.pt.T * nz.getD 1 (nat 0)) }] else [])
        ++ (if k = N - 1 && decide (1 < N) then
              [{ tag := s!"grid minmax {k}", atoms := minmaxAtoms g (c.pt.T * (nz.getD N (nat 0) - nz.getD (N-1) (nat 0))) }]
            else [])
      else []
    mm ++ fixed
  | .free => [{ tag := s!"grid minmax {k}", atoms := minmaxAtoms g (Tl k) }] ++ fixed
  | .data _ => fixed

/-- `time_grid.bounds_finalize` -/
def finalizeRows : List (Row α) :=
  match c.o.method.grid.kind with
  | .free => let a := c.tau c.N; let b := c.pt.t0 + c.pt.T
             [{ tag := "grid finalize", atoms := [b - a, a - b] }]
  | _ => []

/-- `stage.subject_to(stage._T >= 0)` added when `T` is a `FreeTime` -/
def tposRows : List (Row α) :=
  if c.o.Tfree then [{ tag := "tpos", atoms := [c.pt.T] }] else []

def dynRows : List (Row α) :=
  match c.o.method.kind with
  | .ms => c.msDynRows
  | .ss => []
  | .dc => c.dcDynRows

/-- every method adds the coupling rows of every control interval -/
def gridRows : List (Row α) :=
  (List.range c.N).flatMap c.couplingRows ++ c.finalizeRows

def nlp : NLP α :=
  { f := c.objective, rows := c.dynRows ++ c.gridRows ++ c.tposRows ++ c.userRows }

end Ctx
end Rockit
