import RockitModel.Model.Ocp
/-!
# `Stage.der`: the time derivative of an expression along the declared dynamics
(mirror of `Stage.der`: `jtimes(expr, [x; xq; t], [ode; quad; 1])`, rejection of expressions that
depend on a control; `control(order=k)` is a chain of `k` states on top of a piecewise-constant control)
-/
namespace Rockit
variable {α : Type} [Scalar α]

/-- forward-mode tangent of an expression: value of the directional derivative of `e` at `env`
in the direction that moves every symbol `s` with velocity `dv s` (what `jtimes` computes) -/
def Expr.derVal (env : Env α) (dv : Sym → α) : Expr → α
  | .const _ _ => nat 0
  | .sym s => dv s
  | .add a b => a.derVal env dv + b.derVal env dv
  | .sub a b => a.derVal env dv - b.derVal env dv
  | .mul a b => a.derVal env dv * b.eval env + a.eval env * b.derVal env dv
  | .div a b => (a.derVal env dv * b.eval env - a.eval env * b.derVal env dv) / (b.eval env * b.eval env)
  | .neg a => - a.derVal env dv
  | .pow a n =>
      match n with
      | 0 => nat 0
      | m+1 => (nat (m+1) : α) * npow (a.eval env) m * a.derVal env dv

/-- the same as a symbolic expression: `dsym s` is the expression for the velocity of symbol `s` -/
def Expr.der (dsym : Sym → Expr) : Expr → Expr
  | .const _ _ => .const 0 1
  | .sym s => dsym s
  | .add a b => .add (a.der dsym) (b.der dsym)
  | .sub a b => .sub (a.der dsym) (b.der dsym)
  | .mul a b => .add (.mul (a.der dsym) b) (.mul a (b.der dsym))
  | .div a b => .div (.sub (.mul (a.der dsym) b) (.mul a (b.der dsym))) (.mul b b)
  | .neg a => .neg (a.der dsym)
  | .pow a n =>
      match n with
      | 0 => .const 0 1
      | m+1 => .mul (.mul (.const (Int.ofNat (m+1)) 1) (.pow a m)) (a.der dsym)

def isU : Sym → Bool
  | .u _ => true
  | _ => false

inductive DerReject where
  /-- "Dependency on controls not supported yet for stage.der" -/
  | dependsOnControl
deriving DecidableEq, Repr

namespace Ocp
variable (o : Ocp α)

/-- velocities `Stage.der` seeds `jtimes` with: the declared right-hand side for every state and
quadrature state, `1` for time, nothing for anything else (parameters, variables are constants) -/
def derSym : Sym → Expr
  | .x i => if h : i < o.nx then o.ode[i] else .const 0 1
  | .xq i => if h : i < o.nxq then o.quad[i] else .const 0 1
  | .t => .const 1 1
  | _ => .const 0 1

/-- `Stage.der(expr)` -/
def der (e : Expr) : Except DerReject Expr :=
  if e.mentions isU then .error .dependsOnControl else .ok (e.der o.derSym)

/-- `der` applied `j` times -/
def derIter (e : Expr) : Nat → Except DerReject Expr
  | 0 => .ok e
  | j+1 => do let d ← derIter e j; o.der d

end Ocp

/-- the states `control(order=k)` creates, starting at state index `c`, on top of control `ui`:
`x_c' = x_{c+1}, …, x_{c+k-1}' = u_ui` -/
def chainOde (c k ui : Nat) (i : Nat) : Expr :=
  if i + 1 < k then .sym (.x (c + i + 1)) else .sym (.u ui)

end Rockit
