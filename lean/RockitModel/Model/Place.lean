import RockitModel.Model.Basic
/-!
# Where constraints are placed (mirror of the loops of `add_constraints` in
`multiple_shooting.py`, `single_shooting.py`, `direct_collocation.py` and of the offset
handling in `SamplingMethod.eval_at_control`)
-/
namespace Rockit

/-- a point of a constraint grid -/
inductive Pt where
  | node (q : Node)
  | step (k i : Nat)
  | root (k i j : Nat)
deriving DecidableEq, Repr, Inhabited

/-- `eval_at_control(expr, k)` with an operand shifted by `o`: can the operand be resolved?
  (`k + offset < 0 → IndexError`, `X[k+offset]` beyond the list → `IndexError`; the final node
  `k = -1` is node `N`: a positive offset leaves the horizon, a non-positive one is resolved at
  node `N + offset`). -/
def offsetOk (N : Nat) : Node → Int → Bool
  | .final, o => decide (o ≤ 0) && decide (0 ≤ (N : Int) + o)
  | .at k, o => decide (0 ≤ (k : Int) + o) && decide ((k : Int) + o ≤ N)

/-- index of the node a shifted operand is evaluated at -/
def shiftTarget (N : Nat) : Node → Int → Nat
  | .final, o => ((N : Int) + o).toNat
  | .at k, o => ((k : Int) + o).toNat

/-- node index → node as the code treats it (`k == N` behaves like the final node) -/
def nodeOfIdx (N k : Nat) : Node := if k = N then .final else .at k

/-- the `for k in range(N)` loop with its `include_first` test, then the `include_last` pass -/
def ctrlNodes (N : Nat) (first last : Bool) : List Node :=
  ((List.range N).filter (fun k => !(k == 0 && !first))).map Node.at
    ++ (if last then [Node.final] else [])

/-- instances of a control-grid constraint that survive the `try … except IndexError` -/
def ctrlPlaced (N : Nat) (first last : Bool) (offs : List Int) : List Node :=
  (ctrlNodes N first last).filter (fun q => offs.all (offsetOk N q))

/-- the `for k … for l in range(M)` loop with `k==0 and l==0 and not include_first`, then the
`include_last` pass at the final node -/
def intgPts (N M : Nat) (first last : Bool) : List Pt :=
  ((List.range N).flatMap (fun k => (List.range M).filterMap (fun l =>
      if k == 0 && l == 0 && !first then none else some (Pt.step k l))))
    ++ (if last then [Pt.node .final] else [])

/-- `integrator_roots`: every collocation time of every step -/
def rootPts (N M d : Nat) : List Pt :=
  (List.range N).flatMap (fun k => (List.range M).flatMap (fun i =>
    (List.range d).map (fun j => Pt.root k i j)))

end Rockit
