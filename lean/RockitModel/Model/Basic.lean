/-!
# Scalars and vectors the model is generic over

The model is executable over `Rat` (driver) and the theorems are stated over an
arbitrary field `K` (hence over ℝ, the domain the properties quantify over).
Model files are import-free.
-/
namespace Rockit

/-- The operations rockit's transcription performs on numbers. -/
class Scalar (α : Type) extends Add α, Sub α, Mul α, Div α, Neg α, NatCast α

/-- Vectors (states, quadratures, …) over a scalar type. -/
class VecSpace (α : Type) (V : Type) extends Add V, Sub V, Neg V, Zero V, SMul α V

instance : Scalar Rat := {}

/-- fixed-size vectors of scalars are vectors (executable instance used by the driver) -/
instance instVecSpaceVector {α : Type} [Scalar α] {n : Nat} : VecSpace α (Vector α n) where
  add a b := Vector.zipWith (· + ·) a b
  sub a b := Vector.zipWith (· - ·) a b
  neg a := a.map (- ·)
  zero := Vector.replicate n ((0 : Nat) : α)
  smul c a := a.map (c * ·)

/-- Python-style node index: an interval start `k` or the final node (`k = -1`). -/
inductive Node where
  | at (k : Nat)
  | final
deriving DecidableEq, Repr, Inhabited

/-- numerals in generic scalar code -/
abbrev nat {α : Type} [Scalar α] (n : Nat) : α := (n : α)

end Rockit
