import RockitModel.Model.Expr
import RockitModel.Model.Grid
/-!
# Structural description of an OCP + method, and a numeric decision point
(the data both the real rockit builder and this model are driven by)
-/
namespace Rockit

inductive Rel where | le | eq | two
deriving DecidableEq, Repr, Inhabited

inductive CGrid where | control | integrator | roots | point | inf
deriving DecidableEq, Repr, Inhabited

/-- an operand of an `inf` constraint that is not an ordinary symbol (`Sym.off i` refers to entry `i`) -/
inductive InfOp where
  /-- `ocp.inf_inert(e)`: `e` evaluated at the control node, treated as constant over the step -/
  | inert (e : Expr)
  /-- `ocp.inf_der(x_i)`: the time derivative of the state polynomial -/
  | der (state : Nat)
deriving Inhabited

/-- one scalar row of a declared constraint: `a ≤ b`, `a == b` or `a ≤ b ≤ c` -/
structure Con (α : Type) where
  id : Nat
  rel : Rel
  a : Expr
  b : Expr
  c : Expr := .const 0 1
  grid : CGrid
  first : Bool := true
  last : Bool := true
  scale : α
  /-- shifted operands `(expr, offset)`; `Sym.off i` in `a b c` refers to entry `i` -/
  offs : List (Expr × Int) := []
  /-- special operands of a `grid='inf'` constraint -/
  infOps : List InfOp := []

inductive PhKind where
  | atT0 | atTf | sum | sumPlus | intControl
  /-- `integral(e)`: the value at `tf` of the quadrature state with this index -/
  | integral (q : Nat)
deriving DecidableEq, Repr, Inhabited

structure Ph where
  kind : PhKind
  e : Expr
deriving Inhabited

inductive IntgKind where | rk | euler | next
deriving DecidableEq, Repr, Inhabited

inductive MethodKind where | ms | ss | dc
deriving DecidableEq, Repr, Inhabited

structure Method (α : Type) where
  kind : MethodKind
  N : Nat
  M : Nat
  intg : IntgKind := .rk
  /-- collocation points `τ₁ … τ_d` (DirectCollocation) -/
  tau : List α := []
  grid : GridSpec α

structure Ocp (α : Type) where
  nx : Nat
  nxq : Nat
  nz : Nat := 0
  /-- right-hand sides (or update rules under `set_next`) of the states -/
  ode : Vector Expr nx
  /-- integrands of quadrature states: declared ones first, then those created by `integral` -/
  quad : Vector Expr nxq
  alg : Array Expr := #[]
  cons : List (Con α) := []
  phs : Array Ph := #[]
  objective : Expr := .const 0 1
  /-- `T` (`t0`) is a decision variable created from `FreeTime` -/
  Tfree : Bool := false
  t0free : Bool := false
  scaleX : Array α := #[]
  scaleDer : Array α := #[]
  scaleZ : Array α := #[]
  method : Method α

/-- physical values of every decision quantity and parameter at one NLP point -/
structure Point (α : Type) (nx : Nat) where
  X : Array (Vector α nx)
  U : Array (Array α) := #[]
  V : Array α := #[]
  Vc : Array (Array α) := #[]
  Vcp : Array (Array α) := #[]
  Vs : Array (Array α) := #[]
  T : α
  t0 : α
  t0l : Array α := #[]
  Tl : Array α := #[]
  /-- DirectCollocation: start state of step `(k,i)` at index `k*M+i` -/
  Xi : Array (Vector α nx) := #[]
  /-- DirectCollocation: helper states of step `(k,i)`: `d` vectors at index `k*M+i` -/
  Xc : Array (Array (Vector α nx)) := #[]
  /-- DirectCollocation: algebraic values of step `(k,i)`: `d` arrays at index `k*M+i` -/
  Zc : Array (Array (Array α)) := #[]
  P : Array α := #[]
  Pc : Array (Array α) := #[]
  Pcp : Array (Array α) := #[]

/-- one NLP row in canonical form: every atom must be `≥ 0` at a feasible point
(`a ≤ b` gives `[b-a]`, `a == b` gives `[b-a, a-b]`, `a ≤ b ≤ c` gives `[b-a, c-b]`), divided by the scale -/
structure Row (α : Type) where
  tag : String
  atoms : List α

structure NLP (α : Type) where
  f : α
  rows : List (Row α)

end Rockit
