import RockitModel.Model.Basic
/-!
# List polynomials and collocation coefficients (mirror of `casadi.collocation_coeff`
as used by `DirectCollocation.__init__`, and of the `np.poly1d` Lagrange basis built in
`DirectCollocation.add_constraints`)
-/
namespace Rockit
namespace LP
variable {α : Type} [Scalar α]

/-- coefficients lowest degree first -/
def eval : List α → α → α
  | [], _ => nat 0
  | a :: p, s => a + s * eval p s

def add : List α → List α → List α
  | [], q => q
  | p, [] => p
  | a :: p, b :: q => (a + b) :: add p q

def smul (c : α) (p : List α) : List α := p.map (c * ·)

/-- multiply by `b0 + b1·X` -/
def mulLin (b0 b1 : α) : List α → List α
  | [] => []
  | a :: p => add (smul b0 (a :: p)) (nat 0 :: smul b1 (a :: p))

/-- derivative: `[a0,a1,a2,…] ↦ [a1, 2a2, 3a3, …]` -/
def derivAux : Nat → List α → List α
  | _, [] => []
  | n, a :: p => ((n : α) * a) :: derivAux (n+1) p

def deriv : List α → List α
  | [] => []
  | _ :: p => derivAux 1 p

/-- `∫₀¹ p` -/
def integ01Aux : Nat → List α → α
  | _, [] => nat 0
  | n, a :: p => a / ((n+1 : Nat) : α) + integ01Aux (n+1) p

def integ01 (p : List α) : α := integ01Aux 0 p

/-- Lagrange basis polynomial: `∏_{m ∈ others} (X - x_m)/(x_r - x_m)` -/
def lagrange (xr : α) (others : List α) : List α :=
  others.foldl (fun acc xm => mulLin (-xm / (xr - xm)) (nat 1 / (xr - xm)) acc) [nat 1]

/-- the list without its r-th entry -/
def others (nodes : List α) (r : Nat) : List α := nodes.eraseIdx r

/-- r-th Lagrange basis polynomial over `nodes` -/
def basis (nodes : List α) (r : Nat) : List α :=
  lagrange (nodes.getD r (nat 0)) (others nodes r)

end LP

variable {α : Type} [Scalar α]

/-- collocation data derived from `tau` (the `d` collocation points in (0,1]) over the `d+1`
nodes `0, τ₁ … τ_d` -/
structure CollocCoeff (α : Type) where
  /-- `C[r][j] = ℓ_r'(τ_{j+1})`, `r ≤ d`, `j < d` -/
  C : List (List α)
  /-- `D[r] = ℓ_r(1)` -/
  D : List α
  /-- quadrature weights on the collocation points: `B[j] = ∫₀¹` of the j-th Lagrange basis
      polynomial through `τ₁ … τ_d` only (so that they sum to one for every scheme and degree) -/
  B : List α
  /-- power-basis coefficients of `ℓ_r`, `r ≤ d` (`poly`) -/
  poly : List (List α)
  /-- power-basis coefficients of the basis through `τ₁ … τ_d` only (`poly_z`) -/
  polyZ : List (List α)

def collocCoeff (tau : List α) : CollocCoeff α :=
  let nodes := nat 0 :: tau
  let d := tau.length
  let basis := (List.range (d+1)).map (LP.basis nodes)
  { C := basis.map (fun l => tau.map (fun tj => LP.eval (LP.deriv l) tj))
    D := basis.map (fun l => LP.eval l (nat 1))
    B := (List.range d).map (fun j => LP.integ01 (LP.basis tau j))
    poly := basis
    polyZ := (List.range d).map (LP.basis tau) }

end Rockit
