import RockitModel.Model.Colloc
/-!
# Direct-collocation residuals on abstract vectors (mirror of the inner loop of
`DirectCollocation.add_constraints`)
-/
namespace Rockit
variable {α V : Type} [Scalar α] [VecSpace α V]

/-- `Σ_r c_r • v_r` (`mtimes(Xc, c)`) -/
def lincomb : List α → List V → V
  | c :: cs, v :: vs => c • v + lincomb cs vs
  | _, _ => 0

/-- column `j` of a coefficient table given as rows -/
def column (C : List (List α)) (j : Nat) : List α := C.map (fun row => row.getD j (nat 0))

/-- `Pidot_j = mtimes(Xc, C[:,j]) / dt` -/
def collocSlope (C : List (List α)) (Xc : List V) (j : Nat) (dt : α) : V :=
  (nat 1 / dt : α) • lincomb (column C j) Xc

/-- `mtimes(Xc, D)` : end value of the collocation polynomial -/
def collocEnd (D : List α) (Xc : List V) : V := lincomb D Xc

/-- running sum `Σ_{m<n} f m` (`self.q = self.q + …` across the steps) -/
def cumSum (f : Nat → V) : Nat → V
  | 0 => 0
  | n+1 => cumSum f n + f n

end Rockit
