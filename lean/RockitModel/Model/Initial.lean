import RockitModel.Model.Sample
/-!
# The starting point of the NLP in physical units (what `set_initial` calls amount to:
mirror of `Stage.set_initial`, `SamplingMethod.set_initial`, `DirectCollocation.set_initial`,
the phase-2 sequence of `SamplingMethod.transcribe`, FreeTime guesses)

A guess is kept per scalar component of a symbol (the last call for a symbol wins).
-/
namespace Rockit
variable {α : Type} [Scalar α]

inductive Guess (α : Type) where
  | const (c : α)
  /-- one value per interval / node: `N` or `N+1` columns -/
  | cols (cs : List α)
  /-- an expression of time (and `T`, `t0`, parameters) -/
  | expr (e : Expr)

/-- last call wins: the guess in effect for slot `i` after a list of `(slot, guess)` calls -/
def guessOf {β : Type} (calls : List (Nat × β)) (i : Nat) : Option β :=
  (calls.reverse.find? (fun c => c.1 == i)).map (·.2)

structure Guesses (α : Type) where
  x : List (Nat × Guess α) := []
  u : List (Nat × Guess α) := []
  z : List (Nat × Guess α) := []
  v : List (Nat × Guess α) := []
  vc : List (Nat × Guess α) := []
  vcp : List (Nat × Guess α) := []

/-- writes `(slot, value)` applied in order to an all-zero store: the value a slot ends up with -/
def lastWrite (writes : List (Nat × α)) (j : Nat) : α :=
  ((writes.reverse.find? (fun w => w.1 == j)).map (·.2)).getD (nat 0)

namespace Ctx
variable (c : Ctx α)

/-- the guessed control grid: `time_grid(t0_init, T_init, N)` — the nominal (non-localized) formula -/
def tauHat (k : Nat) : α :=
  match c.o.method.grid.kind with
  | .free => c.pt.t0 + ((k : α) / (c.N : α)) * c.pt.T
  | _ => c.pt.t0 + (c.o.method.grid.normalized c.N).getD k (nat 0) * c.pt.T

def envHat (t : α) : Env α :=
  { t := t, T := c.pt.T, t0 := c.pt.t0, DT := nat 0, DTc := nat 0, p := c.pt.P }

/-- value of a guess at column index `col` (clamped to the last column) and time `t` -/
def guessVal (g : Option (Guess α)) (col : Nat) (t : α) : α :=
  match g with
  | none => nat 0
  | some (.const v) => v
  | some (.cols cs) => cs.getD (if col < cs.length then col else cs.length - 1) (nat 0)
  | some (.expr e) => e.eval (c.envHat t)

/-- node-sampled quantity (states, `include_last` variables): node `k ≤ N` at the node's guessed time -/
def startNode (calls : List (Nat × Guess α)) (i k : Nat) : α :=
  c.guessVal (guessOf calls i) k (c.tauHat k)

/-- interval-sampled quantity (controls, per-interval variables): the code's loop `for k in [-1, 0 … N-1]`
writes `U[N-1]` first with the final-node value and then every interval with its own value -/
def intervalWrites (calls : List (Nat × Guess α)) (i : Nat) : List (Nat × α) :=
  let g := guessOf calls i
  let ncols := match g with | some (.cols cs) => cs.length | _ => 0
  (c.N - 1, c.guessVal g (ncols - 1) (c.tauHat c.N)) ::
    (List.range c.N).map (fun k => (k, c.guessVal g k (c.tauHat k)))

def startInterval (calls : List (Nat × Guess α)) (i k : Nat) : α :=
  lastWrite (c.intervalWrites calls i) k

/-- DirectCollocation helper states: integrator point `(k,l)` and root `(k,l,j)` at their guessed times,
array guesses taking the interval's column -/
def startIntg (calls : List (Nat × Guess α)) (i k l : Nat) : α :=
  c.guessVal (guessOf calls i) k (intgTime c.tauHat c.M k l)

def startRoot (calls : List (Nat × Guess α)) (i k l j : Nat) : α :=
  c.guessVal (guessOf calls i) k
    (intgTime c.tauHat c.M k l + ((c.tauHat (k+1) - c.tauHat k) / (c.M : α)) * c.o.method.tau.getD j (nat 0))

/-- localized grid variables start on the guessed grid -/
def startT0local (k : Nat) : α := c.tauHat k
def startTlocal (k : Nat) : α := c.tauHat (k+1) - c.tauHat k

end Ctx
end Rockit
