/-!
# Distributing a flattened value vector over the symbols of a concatenation
(mirror of `casadi_helpers.for_all_primitives` and `casadi_helpers.get_ranges_dict`)

`set_value(vertcat(A, b), values)` flattens `values` and walks the primitives with a running offset: primitive `p` receives
`values[offset : offset + size p]` and the offset advances by `size p`. `get_ranges_dict` gives every algebraic symbol the rows
`offset … offset + size − 1` of the stacked vector in the same way. The size is the number of ENTRIES of the symbol (`nnz`).
-/
namespace Rockit

/-- the offset loop of `for_all_primitives`: one slice per size -/
def splitBy {α : Type} : List Nat → List α → List (List α)
  | [], _ => []
  | n :: ns, vals => vals.take n :: splitBy ns (vals.drop n)

/-- the offset loop of `get_ranges_dict`: the rows of every symbol -/
def rangesFrom : Nat → List Nat → List (List Nat)
  | _, [] => []
  | off, n :: ns => (List.range' off n) :: rangesFrom (off + n) ns

def rangesBy (sizes : List Nat) : List (List Nat) := rangesFrom 0 sizes

/-- a loop whose offset advances by a DIFFERENT amount than the slice it hands out (what a wrong stride does) -/
def splitByStride {α : Type} : List (Nat × Nat) → List α → List (List α)
  | [], _ => []
  | (n, stride) :: ns, vals => vals.take n :: splitByStride ns (vals.drop stride)

end Rockit
