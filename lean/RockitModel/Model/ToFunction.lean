import RockitModel.Model.Initial
/-!
# `to_function`: which NLP data the returned function hands to the solver
(mirror of `DirectMethod.to_function` = `opti.to_function(name, [stage.value(a) for a in args], results)`
and of `DirectCollocation.to_function`, which adds the helper states as hidden arguments bound to
`Xc_vars0 = repmat(X[k], …)`)

An argument that is a parameter sets the parameter's value; an argument that is a sampled decision
quantity sets the starting value of exactly those decision variables; everything not listed keeps the
value it has at the time `to_function` is called.
-/
namespace Rockit
variable {α : Type} [Scalar α]

/-- where a component of a state lives in the decision vector -/
inductive XSlot where
  /-- `X[k]`, `k ≤ N` -/
  | node (k : Nat)
  /-- DirectCollocation: start state of integrator step `(k,l)`, `l ≥ 1` -/
  | intg (k l : Nat)
  /-- DirectCollocation: helper state `j` of step `(k,l)` -/
  | root (k l j : Nat)
deriving DecidableEq, Repr

/-- starting value `to_function` gives to the slots of a state when `sample(x, grid='control')[1]` is an
argument with the `N+1` columns `cols`: the node variables are the argument itself; under
DirectCollocation the helper states of interval `k` are the hidden argument `Xc_vars0`, every column
of which is `X[k]` -/
def tfStateStart (cols : List α) : XSlot → α
  | .node k => cols.getD k (nat 0)
  | .intg k _ => cols.getD k (nat 0)
  | .root k _ _ => cols.getD k (nat 0)

/-- starting value of `U[k]` when `sample(u, grid='control-')[1]` is an argument -/
def tfControlStart (cols : List α) (k : Nat) : α := cols.getD k (nat 0)

/-- the binding of `to_function`: listed slots take the argument, the others keep the current value -/
def tfBind {β : Type} [DecidableEq β] (current : β → α) (listed : List (β × α)) (s : β) : α :=
  match listed.reverse.find? (fun a => a.1 == s) with
  | some a => a.2
  | none => current s

/-- the imperative pipeline on the same store: `set_value` / `set_initial` calls in order -/
def impBind {β : Type} [DecidableEq β] (current : β → α) (calls : List (β × α)) (s : β) : α :=
  calls.foldl (fun cur (a : β × α) => fun s' => if s' = a.1 then a.2 else cur s') current s

end Rockit
