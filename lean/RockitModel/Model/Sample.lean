import RockitModel.Model.Transcribe
/-!
# Sampling (mirror of `Stage._grid_control`, `_grid_integrator`, `_grid_integrator_roots`,
`_grid_intg_fine`, `Stage.sampler`, `casadi_helpers.DM2numpy`)
-/
namespace Rockit
variable {α : Type} [Scalar α]

namespace Ctx
variable (c : Ctx α)

/-- `_grid_control`: `ks = [0 if include_first] + [1 … N-1] + [-1 if include_last]` -/
def ctrlSampleNodes (first last : Bool) : List Node :=
  (if first then [Node.at 0] else []) ++ ((List.range (c.N - 1)).map (fun k => Node.at (k+1)))
    ++ (if last then [Node.final] else [])

def nodeTime : Node → α
  | .final => c.tau c.N
  | .at k => c.tau k

/-- `(time, value)` pairs of `sample(e, grid='control')` (and `'control-'`, `'-control'`) -/
def sampleControl (e : Expr) (first last : Bool) : List (α × α) :=
  (c.ctrlSampleNodes first last).map (fun q => (c.nodeTime q, e.eval (c.envNode q #[])))

/-- `sample(e, grid='integrator')`: every step start, then the final node -/
def sampleIntegrator (e : Expr) : List (α × α) :=
  ((List.range c.N).flatMap (fun k => (List.range c.M).map (fun i =>
      (intgTime c.tau c.M k i, e.eval (c.envStep k i)))))
    ++ [(c.tau c.N, e.eval (c.envNode .final #[]))]

/-- `sample(e, grid='integrator_roots')` -/
def sampleRoots (e : Expr) : List (α × α) :=
  (List.range c.N).flatMap (fun k => (List.range c.M).flatMap (fun i => (List.range c.d).map (fun j =>
    (c.rootTime k i j, e.eval (c.envRoot k i j)))))

/-! ### dense output -/

def pw (a : α) : Nat → α
  | 0 => nat 1
  | n+1 => pw a n * a

/-- `poly_coeff[k*M+l]`: power-basis coefficients of the state on step `(k,l)` in local physical time -/
def stateCoeff (k l : Nat) : List (Vector α c.o.nx) :=
  match c.o.method.kind with
  | .dc =>
    let dt := c.hStep k
    (List.range (c.d + 1)).map (fun i =>
      lincomb (c.cc.poly.map (fun p => p.getD i (nat 0) / pw dt i)) (c.XcFull k l))
  | _ => (c.ds k).coeffs.getD l []

/-- quadrature polynomial of step `(k,l)`: `horzcat(xqk[k*M+l], poly_coeff_q[k*M+l])` (shooting only) -/
def quadCoeff (k l : Nat) : List (Vector α c.o.nxq) :=
  c.qStep k l :: (c.ds k).coeffsq.getD l []

/-- `poly_coeff_z[k*M+l]` (collocation only) -/
def algCoeff (k l : Nat) (r : Nat) : List α :=
  let dt := c.hStep k
  (List.range c.d).map (fun i =>
    (List.range c.d).foldl (fun acc j => acc + (c.ZcDC k l j).getD r (nat 0) * ((c.cc.polyZ.getD j []).getD i (nat 0) / pw dt i)) (nat 0))

def polyEval (cs : List α) (s : α) : α :=
  (cs.foldl (fun (acc : α × α) ci => (acc.1 + ci * acc.2, acc.2 * s)) (nat 0, nat 1)).1

/-- environment at local time `s` inside step `(k,l)` for refined sampling -/
def envFine (k l : Nat) (s tabs : α) : Env α :=
  let base := c.envStep k l
  { base with
    x := (densePoly (c.stateCoeff k l) s).toArray
    xq := (match c.o.method.kind with | .dc => base.xq | _ => (densePoly (c.quadCoeff k l) s).toArray)
    z := (match c.o.method.kind with
          | .dc => Array.ofFn (n := c.o.nz) (fun r => polyEval (c.algCoeff k l r) s)
          | _ => base.z)
    t := tabs }

/-- the last refined point: end of the last step polynomial, with the parameters of `get_p_sys(-1)` -/
def envFineFinal : Env α :=
  let k := c.N - 1
  let l := c.M - 1
  let dt := c.hStep k
  let e := c.envFine k l dt (c.tau c.N)
  { e with pcp := arr2 c.pt.Pcp c.N, vcp := arr2 c.pt.Vcp c.N }

/-- `sample(e, grid='integrator', refine=r)` -/
def sampleFine (e : Expr) (refine : Nat) : List (α × α) :=
  ((List.range c.N).flatMap (fun (k : Nat) => (List.range c.M).flatMap (fun (l : Nat) =>
    (List.range refine).map (fun (r : Nat) =>
      let dt := c.hStep k
      let s := ((r : Nat) : α) * (dt / ((refine : Nat) : α))
      let tabs := (c.tau k + ((l : Nat) : α) * dt) + s
      (tabs, e.eval (c.envFine k l s tabs))))))
  ++ [(c.tau c.N, e.eval c.envFineFinal)]

end Ctx

/-- CasADi `low(v, t)`: largest `i ≤ n-2` with `v[i] ≤ t` (0 if none) -/
def lowIdx [LE α] [DecidableLE α] (v : Nat → α) (n : Nat) (t : α) : Nat :=
  (List.range (n - 1)).foldl (fun acc i => if v i ≤ t then i else acc) 0

namespace Ctx
variable (c : Ctx α) [LE α] [DecidableLE α]

/-- flattened integrator grid `vcat(integrator_grid)`: index `m = k*M+i`, and `N*M ↦ t_f` -/
def flatIntgTime (m : Nat) : α :=
  if m = c.N * c.M then c.tau c.N else intgTime c.tau c.M (m / c.M) (m % c.M)

/-- `sampler(e)(gist, t)` for an expression of `t, x, z, u` -/
def samplerAt (e : Expr) (t : α) : α :=
  let k := lowIdx c.tau (c.N + 1) t
  let m := lowIdx c.flatIntgTime (c.N * c.M + 1) t
  let s := t - c.flatIntgTime m
  let kk := m / c.M
  let l := m % c.M
  let env := c.envFine kk l s t
  e.eval { env with u := arr2 c.pt.U k }

end Ctx

/-- `DM2numpy`: position in the returned array (C order, shape `(n, r, c)` with singleton
dimensions removed) of element `(a,b)` of the `r×c` expression at time index `i`, given that
CasADi stored it at row `a`, column `i*c + b` of the `r × (n·c)` matrix -/
def dm2numpyFlat (r cdim i a b : Nat) : Nat := (i * r + a) * cdim + b

end Rockit
