import RockitModel.Model.Glue
/-! the offset loops hand every symbol exactly its own entries -/
namespace Rockit

/-- **every symbol of a concatenation receives its own values**: splitting the concatenation of the parts by the parts' sizes gives
the parts back -/
theorem splitBy_flatten {α : Type} (parts : List (List α)) : splitBy (parts.map List.length) parts.flatten = parts := by
  induction parts with
  | nil => rfl
  | cons p ps ih =>
    simp only [List.map_cons, List.flatten_cons, splitBy]
    rw [List.take_left' rfl, List.drop_left' rfl, ih]

theorem splitBy_length {α : Type} (sizes : List Nat) (vals : List α) : (splitBy sizes vals).length = sizes.length := by
  induction sizes generalizing vals with
  | nil => rfl
  | cons n ns ih => simp [splitBy, ih]

theorem rangesFrom_flatten (off : Nat) (sizes : List Nat) : (rangesFrom off sizes).flatten = List.range' off sizes.sum := by
  induction sizes generalizing off with
  | nil => simp [rangesFrom]
  | cons n ns ih =>
    simp only [rangesFrom, List.flatten_cons, ih, List.sum_cons]
    rw [List.range'_append_1]

/-- **the rows of the symbols tile the stacked vector**: consecutive, disjoint, nothing left over -/
theorem rangesBy_flatten (sizes : List Nat) : (rangesBy sizes).flatten = List.range sizes.sum := by
  rw [rangesBy, rangesFrom_flatten, List.range_eq_range']

theorem rangesFrom_lengths (off : Nat) (sizes : List Nat) : (rangesFrom off sizes).map List.length = sizes := by
  induction sizes generalizing off with
  | nil => rfl
  | cons n ns ih => simp [rangesFrom, ih]

/-- the same loop with the offset advanced by the number of ROWS of a 2×2 matrix instead of its entries hands the next symbol
values of the matrix (the concrete shape of the seeded changes C09_4 / C19_4) -/
theorem wrong_stride_witness :
    splitByStride [(4, 2), (1, 1)] [11, 21, 12, 22, 7] = [[11, 21, 12, 22], [12]] ∧
    splitBy [4, 1] [11, 21, 12, 22, 7] = [[11, 21, 12, 22], [7]] := by decide

end Rockit
