import RockitModel.Proofs.Bridge
import RockitModel.Model.DC
import Mathlib.Tactic.Ring
import Mathlib.Tactic.FieldSimp
import Mathlib.Algebra.BigOperators.Group.List.Basic
import Mathlib.Algebra.BigOperators.Ring.List
import Mathlib.Algebra.Field.Basic
/-! list polynomials: evaluation homomorphisms, Lagrange basis -/
set_option linter.unusedSectionVars false
namespace Rockit
namespace LP
variable {K : Type} [Field K]

@[simp] theorem eval_nil (s : K) : eval ([] : List K) s = 0 := by simp [eval]
@[simp] theorem eval_cons (a : K) (p : List K) (s : K) : eval (a :: p) s = a + s * eval p s := rfl

theorem eval_add (p q : List K) (s : K) : eval (add p q) s = eval p s + eval q s := by
  induction p generalizing q with
  | nil => simp [add]
  | cons a p ih =>
    cases q with
    | nil => simp [add]
    | cons b q => simp [add, ih]; ring

theorem eval_smul (c : K) (p : List K) (s : K) : eval (smul c p) s = c * eval p s := by
  induction p with
  | nil => simp [smul]
  | cons a p ih => simp only [smul, List.map_cons, eval_cons] at *; rw [ih]; ring

theorem eval_mulLin (b0 b1 : K) (p : List K) (s : K) :
    eval (mulLin b0 b1 p) s = (b0 + b1 * s) * eval p s := by
  cases p with
  | nil => simp [mulLin]
  | cons a p => simp only [mulLin, eval_add, eval_smul, eval_cons, nat_eq, Nat.cast_zero]; ring

theorem eval_lagrange (xr : K) (others : List K) (s : K) (h : ∀ xm ∈ others, xr ≠ xm) :
    eval (lagrange xr others) s = (others.map (fun xm => (s - xm) / (xr - xm))).prod := by
  unfold lagrange
  suffices H : ∀ (acc : List K),
      eval (others.foldl (fun acc xm => mulLin (-xm / (xr - xm)) (nat 1 / (xr - xm)) acc) acc) s
      = eval acc s * (others.map (fun xm => (s - xm) / (xr - xm))).prod by
    simpa using H [nat 1]
  induction others with
  | nil => intro acc; simp
  | cons xm rest ih =>
    intro acc
    have hne : xr - xm ≠ 0 := sub_ne_zero.mpr (h xm (by simp))
    simp only [List.foldl_cons, List.map_cons, List.prod_cons]
    rw [ih (fun y hy => h y (by simp [hy])), eval_mulLin]
    simp only [nat_eq, Nat.cast_one]
    field_simp
    ring

theorem lagrange_at_other (xr : K) (others : List K) (xj : K) (hj : xj ∈ others)
    (h : ∀ xm ∈ others, xr ≠ xm) : eval (lagrange xr others) xj = 0 := by
  rw [eval_lagrange xr others xj h]
  apply List.prod_eq_zero
  simp only [List.mem_map]
  exact ⟨xj, hj, by simp⟩

theorem lagrange_at_self (xr : K) (others : List K)
    (h : ∀ xm ∈ others, xr ≠ xm) : eval (lagrange xr others) xr = 1 := by
  rw [eval_lagrange xr others xr h]
  apply List.prod_eq_one
  intro y hy
  simp only [List.mem_map] at hy
  obtain ⟨xm, hm, rfl⟩ := hy
  exact div_self (sub_ne_zero.mpr (h xm hm))

end LP
end Rockit
