import RockitModel.Proofs.Bridge
import RockitModel.Model.Grid
import Mathlib.Algebra.Order.Field.Basic
import Mathlib.Tactic.Ring
import Mathlib.Tactic.Linarith
import Mathlib.Tactic.FieldSimp
import Mathlib.Tactic.Positivity
import Mathlib.Data.List.Basic
/-! helper lemmas about grids -/
set_option linter.unusedSectionVars false
namespace Rockit
variable {K : Type} [Field K]

theorem getD_map_range (f : Nat → K) (n k : Nat) (hk : k < n) (d : K) :
    ((List.range n).map f).getD k d = f k := by
  simp [List.getD_eq_getElem?_getD, hk]

/-- partial geometric sums `1 + g + … + g^(k-1)` -/
def geoSum (g : K) : Nat → K
  | 0 => 0
  | k+1 => geoSum g k + g ^ k

theorem geomRaw_spec (g : K) (n : Nat) :
    (geomRaw g n).2.1 = geoSum g n ∧ (geomRaw g n).2.2 = g ^ n ∧ (geomRaw g n).1.length = n + 1 ∧
    ∀ k, k ≤ n → (geomRaw g n).1.getD k 0 = geoSum g k := by
  induction n with
  | zero => simp [geomRaw, geoSum]
  | succ n ih =>
    obtain ⟨h1, h2, h3, h4⟩ := ih
    simp only [geomRaw]
    refine ⟨?_, ?_, ?_, ?_⟩
    · simp [h1, h2, geoSum]
    · simp [h2, pow_succ]
    · simp [h3]
    · intro k hk
      by_cases hkn : k ≤ n
      · have : k < (geomRaw g n).1.length := by omega
        simp [List.getD_eq_getElem?_getD, List.getElem?_append_left this]
        have := h4 k hkn
        simpa [List.getD_eq_getElem?_getD] using this
      · have hk' : k = n + 1 := by omega
        subst hk'
        have : (geomRaw g n).1.length ≤ n + 1 := by omega
        simp [List.getD_eq_getElem?_getD, h3, h1, h2, geoSum]

theorem geomNormalized_getD (g : K) (N k : Nat) (hk : k ≤ N) :
    (geomNormalized g N).getD k 0 = geoSum g k / geoSum g N := by
  obtain ⟨h1, _, h3, h4⟩ := geomRaw_spec g N
  unfold geomNormalized
  have hlt : k < (geomRaw g N).1.length := by omega
  have := h4 k hk
  simp only [List.getD_eq_getElem?_getD, List.getElem?_map] at *
  rw [List.getElem?_eq_getElem hlt] at *
  simp at this ⊢
  rw [this, h1]

end Rockit
