import RockitModel.Proofs.Bridge
import RockitModel.Model.Intg
import RockitModel.Generated.RK
import Mathlib.Algebra.BigOperators.Group.List.Basic
import Mathlib.Algebra.Order.Field.Basic
import Mathlib.Tactic.Ring
import Mathlib.Tactic.FieldSimp
import Mathlib.Tactic.Module
import Mathlib.Tactic.NormNum
/-!
# From the source text of `intg_rk` / `intg_expl_euler` to the model's step maps

`tools/extract.py` reads every assignment of the two functions as a linear form (Generated/RK.lean).
Here those forms are interpreted and shown to be the model's `rk4Step` / `eulerStep`: stage
arguments, result, quadrature output and dense-output coefficients.
-/
set_option linter.unusedSectionVars false
namespace Rockit.RKTie
open Rockit Rockit.Generated
variable {K V Q : Type} [Field K] [CharZero K] [AddCommGroup V] [Module K V] [AddCommGroup Q] [Module K Q]

/-- coefficient of a term: `(num/den) · DT^dt · DT_control^dtc` -/
noncomputable def coef (t : Term) (DT DTc : K) : K :=
  ((t.num : Int) : K) / (t.den : K) * DT ^ t.dt * DTc ^ t.dtc

/-- value of a linear form, given the value of every symbol -/
noncomputable def interp {W : Type} [AddCommGroup W] [Module K W] (ts : List Term) (val : String → W) (DT DTc : K) : W :=
  (ts.map (fun t => coef t DT DTc • val t.sym)).sum

/-- the classical tableau and dense-output formulas, as the extractor would print them -/
def expectedRk4StageX : List (List Term) :=
  [[⟨"X", 1, 1, 0, 0⟩], [⟨"X", 1, 1, 0, 0⟩, ⟨"k1.ode", 1, 2, 1, 0⟩], [⟨"X", 1, 1, 0, 0⟩, ⟨"k2.ode", 1, 2, 1, 0⟩],
   [⟨"X", 1, 1, 0, 0⟩, ⟨"k3.ode", 1, 1, 1, 0⟩]]
def expectedRk4StageT : List (List Term) :=
  [[⟨"t0", 1, 1, 0, 0⟩], [⟨"1", 1, 2, 1, 0⟩, ⟨"t0", 1, 1, 0, 0⟩], [⟨"1", 1, 2, 1, 0⟩, ⟨"t0", 1, 1, 0, 0⟩], [⟨"1", 1, 1, 1, 0⟩, ⟨"t0", 1, 1, 0, 0⟩]]
def expectedRk4Xf : List Term :=
  [⟨"X", 1, 1, 0, 0⟩, ⟨"k1.ode", 1, 6, 1, 0⟩, ⟨"k2.ode", 1, 3, 1, 0⟩, ⟨"k3.ode", 1, 3, 1, 0⟩, ⟨"k4.ode", 1, 6, 1, 0⟩]
def expectedRk4Qf : List Term :=
  [⟨"k1.quad", 1, 6, 1, 0⟩, ⟨"k2.quad", 1, 3, 1, 0⟩, ⟨"k3.quad", 1, 3, 1, 0⟩, ⟨"k4.quad", 1, 6, 1, 0⟩]
def expectedRk4Coeff : List (List Term) :=
  [[⟨"X", 1, 1, 0, 0⟩], [⟨"k1.ode", 1, 1, 0, 0⟩], [⟨"k1.ode", -1, 1, -1, 0⟩, ⟨"k2.ode", 1, 1, -1, 0⟩],
   [⟨"k2.ode", -2, 3, -2, 0⟩, ⟨"k3.ode", 2, 3, -2, 0⟩], [⟨"k1.ode", 1, 6, -3, 0⟩, ⟨"k3.ode", -1, 3, -3, 0⟩, ⟨"k4.ode", 1, 6, -3, 0⟩]]
def expectedRk4CoeffQ : List (List Term) :=
  [[⟨"k1.quad", 1, 1, 0, 0⟩], [⟨"k1.quad", -1, 1, -1, 0⟩, ⟨"k2.quad", 1, 1, -1, 0⟩],
   [⟨"k2.quad", -2, 3, -2, 0⟩, ⟨"k3.quad", 2, 3, -2, 0⟩], [⟨"k1.quad", 1, 6, -3, 0⟩, ⟨"k3.quad", -1, 3, -3, 0⟩, ⟨"k4.quad", 1, 6, -3, 0⟩]]

/-- **what the source says is the classical scheme** (decided over the regenerated table) -/
theorem source_is_expected_rk4 :
    rk4Parsed = true ∧ rk4StageX = expectedRk4StageX ∧ rk4StageT = expectedRk4StageT ∧ rk4Xf = expectedRk4Xf ∧
    rk4Qf = expectedRk4Qf ∧ rk4Coeff = expectedRk4Coeff ∧ rk4CoeffQ = expectedRk4CoeffQ := by decide

theorem source_is_expected_euler :
    eulerParsed = true ∧ eulerStageX = [[⟨"X", 1, 1, 0, 0⟩]] ∧ eulerStageT = [[⟨"t0", 1, 1, 0, 0⟩]] ∧
    eulerXf = [⟨"X", 1, 1, 0, 0⟩, ⟨"k.ode", 1, 1, 1, 0⟩] ∧ eulerQf = [⟨"k.quad", 1, 1, 1, 0⟩] ∧
    eulerCoeff = [[⟨"X", 1, 1, 0, 0⟩], [⟨"k.ode", 1, 1, 0, 0⟩]] ∧ eulerCoeffQ = [[⟨"k.quad", 1, 1, 0, 0⟩]] := by decide

/-- the values the symbols of the forms take during one step of `intg_rk` -/
structure Stages (V Q : Type) where
  k1 : V × Q
  k2 : V × Q
  k3 : V × Q
  k4 : V × Q

def odeVal (x : V) (s : Stages V Q) : String → V
  | "X" => x | "k1.ode" => s.k1.1 | "k2.ode" => s.k2.1 | "k3.ode" => s.k3.1 | "k4.ode" => s.k4.1 | _ => 0

def quadVal (s : Stages V Q) : String → Q
  | "k1.quad" => s.k1.2 | "k2.quad" => s.k2.2 | "k3.quad" => s.k3.2 | "k4.quad" => s.k4.2 | _ => 0

def timeVal (t0 : K) : String → K
  | "1" => 1 | "t0" => t0 | _ => 0

/-- run the scheme the forms describe: stage `i` calls `f` at the interpreted state and time arguments -/
noncomputable def runStages (sx st : List (List Term)) (f : V → K → V × Q) (x : V) (t0 DT DTc : K) : Stages V Q :=
  let z : V × Q := (0, 0)
  let s0 : Stages V Q := ⟨z, z, z, z⟩
  let k1 := f (interp (sx.getD 0 []) (odeVal x s0) DT DTc) (interp (st.getD 0 []) (timeVal t0) DT DTc)
  let s1 : Stages V Q := ⟨k1, z, z, z⟩
  let k2 := f (interp (sx.getD 1 []) (odeVal x s1) DT DTc) (interp (st.getD 1 []) (timeVal t0) DT DTc)
  let s2 : Stages V Q := ⟨k1, k2, z, z⟩
  let k3 := f (interp (sx.getD 2 []) (odeVal x s2) DT DTc) (interp (st.getD 2 []) (timeVal t0) DT DTc)
  let s3 : Stages V Q := ⟨k1, k2, k3, z⟩
  let k4 := f (interp (sx.getD 3 []) (odeVal x s3) DT DTc) (interp (st.getD 3 []) (timeVal t0) DT DTc)
  ⟨k1, k2, k3, k4⟩

theorem interp_cons {W : Type} [AddCommGroup W] [Module K W] (t : Term) (ts : List Term) (val : String → W) (DT DTc : K) :
    interp (t :: ts) val DT DTc = coef t DT DTc • val t.sym + interp ts val DT DTc := by
  simp [interp]

theorem interp_nil {W : Type} [AddCommGroup W] [Module K W] (val : String → W) (DT DTc : K) :
    interp ([] : List Term) val DT DTc = 0 := by simp [interp]

/-- **the scheme read off the source IS the model's RK4 step**: stages, result and quadrature output -/
theorem rk4_source_is_model (f : V → K → V × Q) (x : V) (t0 DT DTc : K) :
    let s := runStages (K := K) expectedRk4StageX expectedRk4StageT f x t0 DT DTc
    interp expectedRk4Xf (odeVal x s) DT DTc = (rk4Step f x t0 DT DTc).xf ∧
    interp expectedRk4Qf (quadVal s) DT DTc = (rk4Step f x t0 DT DTc).qf := by
  simp only [runStages, expectedRk4StageX, expectedRk4StageT, expectedRk4Xf, expectedRk4Qf, List.getD_cons_zero, List.getD_cons_succ,
    interp_cons, interp_nil, coef, odeVal, quadVal, timeVal, Int.cast_one, Int.cast_ofNat, zpow_zero, zpow_one, rk4Step, nat_eq, add_zero, mul_one,
    Nat.cast_one, Nat.cast_ofNat, div_one, one_smul, smul_eq_mul, one_mul]
  have e1 : (1:K) / 2 * DT = DT / 2 := by ring
  have e2 : (1:K) / 2 * DT * 1 + t0 = t0 + DT / 2 := by ring
  have e3 : DT * 1 + t0 = t0 + DT := by ring
  simp only [e1, e2, e3]
  push_cast
  rw [add_comm (DT / 2) t0, add_comm DT t0]
  constructor <;> module


/-- … and its dense-output columns (`poly_coeff`, `poly_coeff_q`) -/
theorem rk4_source_coeffs_are_model (f : V → K → V × Q) (x : V) (t0 DT DTc : K) (hDT : DT ≠ 0) :
    let s := runStages (K := K) expectedRk4StageX expectedRk4StageT f x t0 DT DTc
    expectedRk4Coeff.map (fun ts => interp ts (odeVal x s) DT DTc) = (rk4Step f x t0 DT DTc).coeff ∧
    expectedRk4CoeffQ.map (fun ts => interp ts (quadVal s) DT DTc) = (rk4Step f x t0 DT DTc).coeffq := by
  simp only [runStages, expectedRk4StageX, expectedRk4StageT, expectedRk4Coeff, expectedRk4CoeffQ, List.getD_cons_zero, List.getD_cons_succ,
    List.map_cons, List.map_nil, interp_cons, interp_nil, coef, odeVal, quadVal, timeVal, Int.cast_one, Int.cast_ofNat, Int.cast_neg, zpow_zero, zpow_one,
    rk4Step, nat_eq, add_zero, mul_one, Nat.cast_one, Nat.cast_ofNat, div_one, one_smul, smul_eq_mul, one_mul]
  have e1 : (1:K) / 2 * DT = DT / 2 := by ring
  have e2 : (1:K) / 2 * DT * 1 + t0 = t0 + DT / 2 := by ring
  have e3 : DT * 1 + t0 = t0 + DT := by ring
  simp only [e1, e2, e3]
  push_cast
  rw [add_comm (DT / 2) t0, add_comm DT t0]
  have z1 : DT ^ (-1 : ℤ) = 1 / DT := by rw [zpow_neg, zpow_one]; simp
  have z2 : DT ^ (-2 : ℤ) = 1 / (DT * DT) := by rw [zpow_neg]; norm_num [zpow_ofNat, pow_two]
  have z3 : DT ^ (-3 : ℤ) = 1 / (DT * DT * DT) := by rw [zpow_neg]; norm_num [zpow_ofNat, pow_succ]
  simp only [z1, z2, z3]
  constructor <;>
  · simp only [List.cons.injEq, true_and, and_true]
    refine ⟨?_, ?_, ?_⟩ <;> (match_scalars <;> field_simp <;> ring)

/-- the explicit Euler scheme read off the source is the model's `eulerStep` -/
theorem euler_source_is_model (f : V → K → V × Q) (x : V) (t0 DT DTc : K) :
    let k := f x t0
    interp ([⟨"X", 1, 1, 0, 0⟩, ⟨"k.ode", 1, 1, 1, 0⟩] : List Term) (fun s => if s = "X" then x else if s = "k.ode" then k.1 else 0) DT DTc
        = (eulerStep f x t0 DT DTc).xf ∧
    interp ([⟨"k.quad", 1, 1, 1, 0⟩] : List Term) (fun s => if s = "k.quad" then k.2 else 0) DT DTc = (eulerStep f x t0 DT DTc).qf := by
  simp [interp_cons, interp_nil, coef, eulerStep]

end Rockit.RKTie
