import RockitModel.Proofs.Bridge
import RockitModel.Model.Shooting
import RockitModel.Spec.Shooting
import Mathlib.Tactic.Ring
import Mathlib.Tactic.Module
import Mathlib.Tactic.FieldSimp
import Mathlib.Algebra.CharZero.Defs
/-!
Helper lemmas: the loop of `discrete_system` (accumulated local time) computes the closed-form
propagation.  Only field arithmetic on *times* is used; nothing is assumed about the vectors.
-/
set_option linter.unusedSectionVars false
namespace Rockit
variable {K V Q : Type} [Field K] [VecSpace K V] [VecSpace K Q]

/-- loop invariant of `discrete_system` -/
theorem dsLoop_spec (step : Step K V Q) (M : Nat) (x0 : V) (t0 T : K) :
    ∀ (j i : Nat) (a : DSAcc K V Q),
      a.t = t0 + (i : K) * (T / (M : K)) →
      a.x = (Spec.propagate step M x0 t0 T i).1 →
      a.quad = (Spec.propagate step M x0 t0 T i).2 →
      (dsLoop step (T / (M : K)) T j a).x = (Spec.propagate step M x0 t0 T (i + j)).1 ∧
      (dsLoop step (T / (M : K)) T j a).quad = (Spec.propagate step M x0 t0 T (i + j)).2 ∧
      (dsLoop step (T / (M : K)) T j a).t = t0 + ((i + j : Nat) : K) * (T / (M : K)) := by
  intro j
  induction j with
  | zero => intro i a ht hx hq; simp [dsLoop, ht, hx, hq]
  | succ j ih =>
    intro i a ht hx hq
    have h := ih (i + 1) (dsBody step (T / (M : K)) T a)
      (by simp only [dsBody, ht]; push_cast; ring)
      (by simp only [dsBody, Spec.propagate, ht, hx])
      (by simp only [dsBody, Spec.propagate, ht, hx, hq])
    have e : i + 1 + j = i + (j + 1) := by omega
    rw [e] at h
    simpa [dsLoop] using h

theorem discreteSystem_xf (step : Step K V Q) (M : Nat) (x0 : V) (t0 T : K) :
    (discreteSystem step M x0 t0 T).xf = (Spec.propagate step M x0 t0 T M).1 := by
  have h := dsLoop_spec step M x0 t0 T M 0
    { x := x0, t := t0, quad := 0, Xi := [x0], Qi := [], coeffs := [], coeffsq := [] }
    (by simp) rfl rfl
  simpa [discreteSystem] using h.1

theorem discreteSystem_qf (step : Step K V Q) (M : Nat) (x0 : V) (t0 T : K) :
    (discreteSystem step M x0 t0 T).qf = (Spec.propagate step M x0 t0 T M).2 := by
  have h := dsLoop_spec step M x0 t0 T M 0
    { x := x0, t := t0, quad := 0, Xi := [x0], Qi := [], coeffs := [], coeffsq := [] }
    (by simp) rfl rfl
  simpa [discreteSystem] using h.2.1

end Rockit
