import RockitModel.Proofs.Colloc
import Mathlib.Data.List.Nodup
import Mathlib.LinearAlgebra.Lagrange
/-!
# The collocation quadrature weights sum to one, for every degree and every set of pairwise distinct points

`B_j = ∫₀¹ ℓ_j` with `ℓ_j` the Lagrange basis through the collocation points. The list polynomials of the
model are mapped to `Polynomial K`; `Σ_j ℓ_j` has degree `< d` and takes the value one at the `d` points, so it
IS the constant one (`Polynomial.eq_of_degrees_lt_of_eval_finset_eq`), and `∫₀¹` is additive.
-/
set_option linter.unusedSectionVars false
namespace Rockit
namespace LP
open Polynomial
variable {K : Type} [Field K]

/-- the list polynomial as a `Polynomial` -/
noncomputable def toPoly : List K → K[X]
  | [] => 0
  | a :: p => C a + X * toPoly p

@[simp] theorem toPoly_nil : toPoly ([] : List K) = 0 := rfl
@[simp] theorem toPoly_cons (a : K) (p : List K) : toPoly (a :: p) = C a + X * toPoly p := rfl

theorem eval_toPoly (p : List K) (s : K) : (toPoly p).eval s = eval p s := by
  induction p with
  | nil => simp
  | cons a p ih => simp [ih]

theorem degree_toPoly_lt (p : List K) : (toPoly p).degree < p.length := by
  induction p with
  | nil => simp
  | cons a p ih =>
    simp only [toPoly_cons, List.length_cons, Nat.cast_add, Nat.cast_one]
    refine lt_of_le_of_lt (degree_add_le _ _) (max_lt ?_ ?_)
    · exact lt_of_le_of_lt degree_C_le (by
        have : (0 : WithBot ℕ) ≤ (p.length : WithBot ℕ) := by exact_mod_cast Nat.zero_le _
        exact lt_of_le_of_lt this (by exact_mod_cast Nat.lt_succ_self _))
    · by_cases hp : toPoly p = 0
      · simp [hp]
      · rw [degree_mul, degree_X, add_comm]
        exact_mod_cast (WithBot.add_lt_add_right (by simp) ih)

theorem toPoly_add (p q : List K) : toPoly (add p q) = toPoly p + toPoly q := by
  induction p generalizing q with
  | nil => simp [add]
  | cons a p ih =>
    cases q with
    | nil => simp [add]
    | cons b q => simp [add, ih]; ring

theorem toPoly_smul (c : K) (p : List K) : toPoly (smul c p) = C c * toPoly p := by
  induction p with
  | nil => simp [smul]
  | cons a p ih => simp only [smul, List.map_cons, toPoly_cons] at *; rw [ih]; simp; ring

theorem length_add (p q : List K) : (add p q).length = max p.length q.length := by
  induction p generalizing q with
  | nil => simp [add]
  | cons a p ih =>
    cases q with
    | nil => simp [add]
    | cons b q => simp [add, ih]

theorem length_mulLin (b0 b1 : K) (p : List K) (hp : p ≠ []) : (mulLin b0 b1 p).length = p.length + 1 := by
  cases p with
  | nil => exact absurd rfl hp
  | cons a p => simp [mulLin, length_add, smul]

theorem mulLin_ne_nil (b0 b1 : K) (p : List K) (hp : p ≠ []) : mulLin b0 b1 p ≠ [] := by
  intro h
  have := length_mulLin b0 b1 p hp
  rw [h] at this
  simp at this

theorem length_lagrange (xr : K) (others : List K) : (lagrange xr others).length = others.length + 1 := by
  unfold lagrange
  suffices H : ∀ (acc : List K), acc ≠ [] →
      (others.foldl (fun acc xm => mulLin (-xm / (xr - xm)) (nat 1 / (xr - xm)) acc) acc).length = acc.length + others.length ∧
      (others.foldl (fun acc xm => mulLin (-xm / (xr - xm)) (nat 1 / (xr - xm)) acc) acc) ≠ [] by
    have := (H [nat 1] (by simp)).1
    simpa [add_comm] using this
  induction others with
  | nil => intro acc h; simpa using h
  | cons xm rest ih =>
    intro acc h
    simp only [List.foldl_cons, List.length_cons]
    have := ih _ (mulLin_ne_nil (-xm / (xr - xm)) (nat 1 / (xr - xm)) acc h)
    rw [length_mulLin _ _ _ h] at this
    exact ⟨by omega, this.2⟩

/-- `∫₀¹` on `Polynomial`, as a linear map: `Σ_k a_k/(k+1)` -/
noncomputable def pinteg : K[X] →ₗ[K] K :=
  Polynomial.lsum (fun k => (((k + 1 : ℕ) : K)⁻¹) • (LinearMap.id : K →ₗ[K] K))

theorem pinteg_monomial (n : ℕ) (a : K) : pinteg (monomial n a) = a / ((n + 1 : ℕ) : K) := by
  unfold pinteg
  rw [Polynomial.lsum_apply, sum_monomial_index _ _ (by simp)]
  simp [div_eq_inv_mul]

theorem pinteg_one [CharZero K] : pinteg (1 : K[X]) = 1 := by
  have : (1 : K[X]) = monomial 0 1 := by simp
  rw [this, pinteg_monomial]
  simp

/-- shifting by `X^n`: the integral functional sees coefficient `k` at position `n+k` -/
theorem integ01Aux_eq (n : Nat) (p : List K) : integ01Aux n p = pinteg (X ^ n * toPoly p) := by
  induction p generalizing n with
  | nil => simp [integ01Aux]
  | cons a p ih =>
    simp only [integ01Aux, toPoly_cons, ih (n + 1)]
    have e : X ^ n * (C a + X * toPoly p) = C a * X ^ n + X ^ (n + 1) * toPoly p := by ring
    rw [e, map_add, C_mul_X_pow_eq_monomial, pinteg_monomial]

theorem integ01_eq (p : List K) : integ01 p = pinteg (toPoly p) := by
  unfold integ01
  rw [integ01Aux_eq]
  simp

theorem basis_delta' (nodes : List K) (hn : nodes.Nodup) (r j : Nat) (hr : r < nodes.length) (hj : j < nodes.length) :
    eval (basis nodes r) nodes[j] = if r = j then 1 else 0 := by
  unfold basis others
  have hrr : nodes.getD r (nat 0) = nodes[r] := by simp [List.getD_eq_getElem?_getD, hr]
  rw [hrr]
  have hdist : ∀ xm ∈ nodes.eraseIdx r, nodes[r] ≠ xm := by
    intro xm hm
    rw [List.mem_eraseIdx_iff_getElem] at hm
    obtain ⟨i, hi, hne, rfl⟩ := hm
    intro h
    exact hne ((hn.getElem_inj_iff).mp h).symm
  split
  · next h => subst h; exact lagrange_at_self _ _ hdist
  · next h =>
    apply lagrange_at_other _ _ _ _ hdist
    rw [List.mem_eraseIdx_iff_getElem]
    exact ⟨j, hj, fun e => h e.symm, rfl⟩

theorem length_basis (nodes : List K) (r : Nat) (hr : r < nodes.length) : (basis nodes r).length = nodes.length := by
  unfold basis others
  rw [length_lagrange, List.length_eraseIdx_of_lt hr]
  omega

/-- **interpolation is exact**: a polynomial with at most as many coefficients as there are pairwise distinct nodes
is the combination of the Lagrange basis with its own node values -/
theorem interp_toPoly (nodes : List K) (hn : nodes.Nodup) (q : List K) (hq : q.length ≤ nodes.length) (hne : nodes ≠ []) :
    ((List.range nodes.length).map (fun r => C (eval q (nodes.getD r 0)) * toPoly (basis nodes r))).sum = toPoly q := by
  classical
  have hcard : nodes.toFinset.card = nodes.length := List.toFinset_card_of_nodup hn
  have hpos : 0 < nodes.length := List.length_pos_iff.mpr hne
  apply eq_of_degrees_lt_of_eval_finset_eq nodes.toFinset
  · rw [hcard]
    have : ∀ (l : List ℕ), (∀ r ∈ l, r < nodes.length) →
        ((l.map (fun r => C (eval q (nodes.getD r 0)) * toPoly (basis nodes r))).sum).degree < (nodes.length : WithBot ℕ) := by
      intro l
      induction l with
      | nil => intro _; simp
      | cons r l ih =>
        intro h
        simp only [List.map_cons, List.sum_cons]
        refine lt_of_le_of_lt (degree_add_le _ _) (max_lt ?_ (ih (fun x hx => h x (by simp [hx]))))
        have := degree_toPoly_lt (basis nodes r)
        rw [length_basis nodes r (h r (by simp))] at this
        rw [← smul_eq_C_mul]
        exact lt_of_le_of_lt (degree_smul_le _ _) this
    exact this _ (by intro r hr; simpa using hr)
  · rw [hcard]
    exact lt_of_lt_of_le (degree_toPoly_lt q) (by exact_mod_cast hq)
  · intro x hx
    rw [List.mem_toFinset] at hx
    obtain ⟨j, hj, rfl⟩ := List.getElem_of_mem hx
    rw [eval_toPoly]
    have hsum : ∀ (l : List ℕ), (∀ r ∈ l, r < nodes.length) → l.Nodup →
        ((l.map (fun r => C (eval q (nodes.getD r 0)) * toPoly (basis nodes r))).sum).eval nodes[j] = if j ∈ l then eval q nodes[j] else 0 := by
      intro l
      induction l with
      | nil => intro _ _; simp
      | cons r l ih =>
        intro h hnd
        simp only [List.map_cons, List.sum_cons, Polynomial.eval_add, Polynomial.eval_mul, Polynomial.eval_C, eval_toPoly]
        rw [ih (fun x hx => h x (by simp [hx])) (List.nodup_cons.mp hnd).2, basis_delta' nodes hn r j (h r (by simp)) hj]
        by_cases hrj : r = j
        · subst hrj
          have hr := h r (by simp)
          simp [(List.nodup_cons.mp hnd).1, List.getD_eq_getElem?_getD, hr]
        · have : j ≠ r := fun e => hrj e.symm
          simp [hrj, this]
    rw [hsum _ (by intro r hr; simpa using hr) List.nodup_range]
    simp [hj]

/-- **the Lagrange basis through pairwise distinct points sums to the constant one** -/
theorem sum_basis_toPoly (nodes : List K) (hn : nodes.Nodup) (hne : nodes ≠ []) :
    ((List.range nodes.length).map (fun r => toPoly (basis nodes r))).sum = 1 := by
  have h := interp_toPoly nodes hn [1] (by simpa using Nat.succ_le_of_lt (List.length_pos_iff.mpr hne)) hne
  simpa using h

/-- **interpolatory quadrature is exact up to the number of points**: `Σ_j (∫₀¹ ℓ_j) q(x_j) = ∫₀¹ q` for every polynomial `q` with
at most as many coefficients as there are pairwise distinct points -/
theorem quadrature_exact (nodes : List K) (hn : nodes.Nodup) (q : List K) (hq : q.length ≤ nodes.length) (hne : nodes ≠ []) :
    ((List.range nodes.length).map (fun j => integ01 (basis nodes j) * eval q (nodes.getD j 0))).sum = integ01 q := by
  have h : ∀ (l : List ℕ), (l.map (fun j => integ01 (basis nodes j) * eval q (nodes.getD j 0))).sum =
      pinteg ((l.map (fun r => C (eval q (nodes.getD r 0)) * toPoly (basis nodes r))).sum) := by
    intro l
    induction l with
    | nil => simp
    | cons r l ih =>
      rw [List.map_cons, List.sum_cons, List.map_cons, List.sum_cons, map_add, ih, integ01_eq, ← smul_eq_C_mul, map_smul, smul_eq_mul, mul_comm]
  rw [h, interp_toPoly nodes hn q hq hne, integ01_eq]

/-- **the quadrature weights `∫₀¹ ℓ_j` of any pairwise distinct points sum to one** -/
theorem sum_integ01_basis [CharZero K] (nodes : List K) (hn : nodes.Nodup) (hne : nodes ≠ []) :
    ((List.range nodes.length).map (fun j => integ01 (basis nodes j))).sum = 1 := by
  have h := quadrature_exact nodes hn [1] (by simpa using Nat.succ_le_of_lt (List.length_pos_iff.mpr hne)) hne
  simpa [integ01, integ01Aux] using h

/-- the derivative of list polynomials is the derivative of polynomials -/
theorem toPoly_derivAux (n : Nat) (p : List K) :
    derivative (X ^ (n + 1) * toPoly p) = X ^ n * toPoly (derivAux (n + 1) p) := by
  induction p generalizing n with
  | nil => simp [derivAux]
  | cons a p ih =>
    have e : X ^ (n + 1) * toPoly (a :: p) = C a * X ^ (n + 1) + X ^ (n + 1 + 1) * toPoly p := by
      simp only [toPoly_cons]; ring
    rw [e, derivative_add, ih (n + 1), derivative_C_mul_X_pow]
    simp only [derivAux, toPoly_cons, Nat.add_sub_cancel, Nat.cast_add, Nat.cast_one, map_mul, map_add, map_natCast, map_one]
    ring

theorem toPoly_deriv (p : List K) : toPoly (deriv p) = derivative (toPoly p) := by
  cases p with
  | nil => simp [deriv]
  | cons a p =>
    have h := toPoly_derivAux 0 p
    simp only [zero_add, pow_one, pow_zero, one_mul] at h
    simp [deriv, h]

/-- interpolation is exact, evaluated: `Σ_r q(x_r) ℓ_r(s) = q(s)` -/
theorem interp_exact_eval (nodes : List K) (hn : nodes.Nodup) (q : List K) (hq : q.length ≤ nodes.length) (hne : nodes ≠ []) (s : K) :
    ((List.range nodes.length).map (fun r => eval q (nodes.getD r 0) * eval (basis nodes r) s)).sum = eval q s := by
  have h := congrArg (Polynomial.evalRingHom s) (interp_toPoly nodes hn q hq hne)
  rw [map_list_sum, List.map_map] at h
  simpa [eval_toPoly, Function.comp_def] using h

/-- … and so is its derivative: `Σ_r q(x_r) ℓ_r'(s) = q'(s)` -/
theorem interp_exact_deriv (nodes : List K) (hn : nodes.Nodup) (q : List K) (hq : q.length ≤ nodes.length) (hne : nodes ≠ []) (s : K) :
    ((List.range nodes.length).map (fun r => eval q (nodes.getD r 0) * eval (deriv (basis nodes r)) s)).sum = eval (deriv q) s := by
  have h := congrArg (fun P => Polynomial.eval s (derivative P)) (interp_toPoly nodes hn q hq hne)
  rw [map_list_sum, ← Polynomial.coe_evalRingHom, map_list_sum, List.map_map, List.map_map] at h
  simpa [eval_toPoly, toPoly_deriv, Function.comp_def, ← toPoly_deriv] using h

/-- antiderivative vanishing at zero: `[a0,a1,…] ↦ [0, a0/1, a1/2, …]` -/
def antiAux : Nat → List K → List K
  | _, [] => []
  | n, a :: p => (a / ((n + 1 : ℕ) : K)) :: antiAux (n + 1) p

def anti (p : List K) : List K := 0 :: antiAux 0 p

theorem length_antiAux (n : Nat) (p : List K) : (antiAux n p).length = p.length := by
  induction p generalizing n with
  | nil => rfl
  | cons a p ih => simp [antiAux, ih]

theorem length_anti (p : List K) : (anti p).length = p.length + 1 := by simp [anti, length_antiAux]

theorem derivAux_antiAux [CharZero K] (n : Nat) (p : List K) : derivAux (n + 1) (antiAux n p) = p := by
  induction p generalizing n with
  | nil => rfl
  | cons a p ih =>
    simp only [antiAux, derivAux, ih (n + 1)]
    congr 1
    have : ((n + 1 : ℕ) : K) ≠ 0 := by exact_mod_cast Nat.succ_ne_zero n
    field_simp

theorem deriv_anti [CharZero K] (p : List K) : deriv (anti p) = p := by
  simp only [anti, deriv]
  have := derivAux_antiAux 0 p
  simpa using this

theorem eval_antiAux_one (n : Nat) (p : List K) : eval (antiAux n p) 1 = integ01Aux n p := by
  induction p generalizing n with
  | nil => simp [antiAux, integ01Aux]
  | cons a p ih => simp [antiAux, integ01Aux, ih]

theorem eval_anti_one (p : List K) : eval (anti p) 1 = integ01 p := by
  simp [anti, integ01, eval_antiAux_one]

theorem eval_anti_zero (p : List K) : eval (anti p) 0 = 0 := by simp [anti]

end LP
end Rockit
