import RockitModel.Model.Place
import RockitModel.Spec.Place
import Mathlib.Data.List.Basic
import Mathlib.Data.List.Range
import Mathlib.Data.List.Nodup
import Mathlib.Tactic.Ring
/-! helper lemmas for C04 -/
namespace Rockit
open Rockit

theorem offsetOk_at (N k : Nat) (o : Int) : offsetOk N (.at k) o = Spec.inHorizon N k o := rfl

theorem offsetOk_final (N : Nat) (o : Int) : offsetOk N .final o = Spec.inHorizon N N o := by
  simp only [offsetOk, Spec.inHorizon]
  by_cases h1 : o ≤ 0 <;> by_cases h2 : 0 ≤ (N:Int) + o <;> simp [h1, h2]

theorem ctrlNodes_eq (N : Nat) (hN : 0 < N) (first last : Bool) :
    ctrlNodes N first last =
      ((List.range (N+1)).filter (fun k => (k != 0 || first) && (k != N || last))).map (nodeOfIdx N) := by
  simp only [ctrlNodes, List.range_succ, List.filter_append, List.map_append]
  congr 1
  · have h1 : ∀ k ∈ List.range N,
        ((k != 0 || first) && (k != N || last)) = !(k == 0 && !first) := by
      intro k hk
      have : k ≠ N := Nat.ne_of_lt (List.mem_range.mp hk)
      cases first <;> simp [bne, this]
    rw [List.filter_congr h1]
    apply List.map_congr_left
    intro k hk
    have : k ≠ N := Nat.ne_of_lt (List.mem_range.mp (List.mem_of_mem_filter hk))
    simp [nodeOfIdx, this]
  · cases last <;> simp [nodeOfIdx, Nat.ne_of_gt hN]

theorem offs_ok_nodeOfIdx (N k : Nat) (offs : List Int) :
    offs.all (offsetOk N (nodeOfIdx N k)) = offs.all (Spec.inHorizon N k) := by
  unfold nodeOfIdx
  split
  · next h => subst h; congr 1; funext o; exact offsetOk_final k o
  · rfl

end Rockit
