import RockitModel.Proofs.Colloc
import RockitModel.Model.Inf
import Mathlib.Algebra.BigOperators.Ring.Finset
import Mathlib.Algebra.BigOperators.Intervals
import Mathlib.Algebra.Order.BigOperators.Ring.Finset
import Mathlib.Data.Nat.Choose.Sum
import Mathlib.Algebra.Order.Field.Basic
import Mathlib.Tactic.Ring
import Mathlib.Tactic.FieldSimp
import Mathlib.Tactic.Linarith
import Mathlib.Tactic.Positivity
import Mathlib.Tactic.LinearCombination
/-! helper lemmas for C15: list polynomials (product, padding, argument scaling), the Bernstein basis -/
set_option linter.unusedSectionVars false
namespace Rockit
open Finset

section lists
variable {K : Type} [Field K]

/-- a `foldl` that adds `f i` over `List.range m` is the finite sum -/
theorem foldl_range_add (f : Nat → K) (m : Nat) (z : K) :
    (List.range m).foldl (fun acc i => acc + f i) z = z + ∑ i ∈ range m, f i := by
  induction m with
  | zero => simp
  | succ m ih => rw [List.range_succ, List.foldl_append, ih, sum_range_succ]; simp [add_assoc]

namespace LP

theorem eval_neg (p : List K) (s : K) : eval (neg p) s = - eval p s := by
  induction p with
  | nil => simp [neg]
  | cons a p ih => simp only [neg, List.map_cons, eval_cons] at *; rw [ih]; ring

theorem eval_mul (p q : List K) (s : K) : eval (mul p q) s = eval p s * eval q s := by
  induction p with
  | nil => simp [mul]
  | cons a p ih => simp only [mul, eval_add, eval_smul, eval_cons, ih, nat_eq, Nat.cast_zero]; ring

theorem eval_replicate_zero (n : Nat) (s : K) : eval (List.replicate n (0 : K)) s = 0 := by
  induction n with
  | zero => simp
  | succ n ih => simp only [List.replicate_succ, eval_cons, ih]; ring

theorem eval_append (p q : List K) (s : K) : eval (p ++ q) s = eval p s + s ^ p.length * eval q s := by
  induction p with
  | nil => simp
  | cons a p ih => simp only [List.cons_append, eval_cons, ih, List.length_cons, pow_succ]; ring

theorem eval_padTo (n : Nat) (p : List K) (s : K) : eval (padTo n p) s = eval p s := by
  simp only [padTo, eval_append, nat_eq, Nat.cast_zero, eval_replicate_zero]; ring

theorem eval_scaleArgAux (σ w : K) (p : List K) (s : K) :
    eval (scaleArgAux σ w p) s = w * eval p (σ * s) := by
  induction p generalizing w with
  | nil => simp [scaleArgAux]
  | cons a p ih => simp only [scaleArgAux, eval_cons, ih]; ring

/-- multiplying coefficient `i` by `σ^i` composes the polynomial with `s ↦ σ·s` -/
theorem eval_scaleArg (σ : K) (p : List K) (s : K) : eval (scaleArg σ p) s = eval p (σ * s) := by
  simp [scaleArg, eval_scaleArgAux]

/-- a list polynomial is the sum of its monomials -/
theorem eval_eq_sum (p : List K) (s : K) : eval p s = ∑ j ∈ range p.length, p.getD j 0 * s ^ j := by
  induction p with
  | nil => simp
  | cons a p ih =>
    rw [eval_cons, ih, List.length_cons, sum_range_succ', mul_sum]
    simp only [List.getD_cons_succ, List.getD_cons_zero, pow_zero, mul_one, pow_succ]
    rw [add_comm]
    congr 1
    apply sum_congr rfl
    intro j _
    ring

end LP
end lists

section bernstein
variable {K : Type} [Field K]

theorem binom_eq_choose (n k : Nat) : binom n k = Nat.choose n k := by
  induction n generalizing k with
  | zero => cases k <;> simp [binom]
  | succ n ih => cases k with
    | zero => simp [binom]
    | succ k => simp [binom, ih, Nat.choose_succ_succ]

theorem npowS_eq_pow (a : K) (n : Nat) : bernsteinEval.npowS a n = a ^ n := by
  induction n with
  | zero => simp [bernsteinEval.npowS]
  | succ n ih => simp [bernsteinEval.npowS, ih, pow_succ]

/-- weight of the `i`-th Bernstein basis function of degree `n` -/
def bw (n i : Nat) (s : K) : K := (Nat.choose n i : K) * (s ^ i * (1 - s) ^ (n - i))

theorem bernsteinEval_eq_sum (b : List K) (s : K) :
    bernsteinEval b s = ∑ i ∈ range b.length, b.getD i 0 * bw (b.length - 1) i s := by
  unfold bernsteinEval
  simp only []
  rw [foldl_range_add]
  simp only [nat_eq, Nat.cast_zero, zero_add, npowS_eq_pow, binom_eq_choose, Nat.cast_one, bw]
  apply sum_congr rfl
  intro i _
  ring

/-- the Bernstein basis functions of degree `n` sum to one (binomial theorem) -/
theorem bw_sum (n : Nat) (s : K) : ∑ i ∈ range (n + 1), bw n i s = 1 := by
  have h := add_pow s (1 - s) n
  simp only [add_sub_cancel, one_pow] at h
  rw [h]
  apply sum_congr rfl
  intro i _
  simp [bw]; ring

end bernstein


section conversion
variable {K : Type} [Field K] [CharZero K]

/-- a monomial in the Bernstein basis of degree `n`:
`s^j = Σ_{i=j}^{n} C(i,j)/C(n,j) · C(n,i) s^i (1-s)^(n-i)` -/
theorem mono_expand (n j : Nat) (hj : j ≤ n) (s : K) :
    ∑ i ∈ Ico j (n + 1), (Nat.choose i j : K) / (Nat.choose n j : K) * bw n i s = s ^ j := by
  have hc : (Nat.choose n j : K) ≠ 0 := by
    exact_mod_cast (Nat.choose_pos hj).ne'
  rw [sum_Ico_eq_sum_range]
  have hlen : n + 1 - j = (n - j) + 1 := by omega
  rw [hlen]
  calc ∑ m ∈ range (n - j + 1), (Nat.choose (j + m) j : K) / (Nat.choose n j : K) * bw n (j + m) s
      = ∑ m ∈ range (n - j + 1), s ^ j * bw (n - j) m s := by
        apply sum_congr rfl
        intro m hm
        have hm' : m ≤ n - j := by simpa [Nat.lt_succ_iff] using hm
        have key : (Nat.choose n (j + m) : K) * (Nat.choose (j + m) j : K) = (Nat.choose n j : K) * (Nat.choose (n - j) m : K) := by
          have := Nat.choose_mul (n := n) (k := j + m) (s := j) (by omega)
          rw [Nat.add_sub_cancel_left] at this
          exact_mod_cast this
        have e1 : n - (j + m) = n - j - m := by omega
        simp only [bw, e1, pow_add]
        field_simp
        linear_combination (s ^ j * s ^ m * (1 - s) ^ (n - j - m)) * key
    _ = s ^ j := by rw [← mul_sum, bw_sum, mul_one]

theorem toBernstein_length (a : List K) : (toBernstein a).length = a.length := by
  simp [toBernstein]

theorem toBernstein_getD (a : List K) (i : Nat) (hi : i < a.length) :
    (toBernstein a).getD i 0 =
      ∑ j ∈ range (i + 1), (Nat.choose i j : K) / (Nat.choose (a.length - 1) j : K) * a.getD j 0 := by
  unfold toBernstein
  simp only [List.getD_eq_getElem?_getD, List.getElem?_map, List.getElem?_range hi, Option.map_some, Option.getD_some]
  rw [foldl_range_add]
  simp [binom_eq_choose]

/-- **the power → Bernstein conversion represents the same polynomial**, for every degree -/
theorem toBernstein_repr (a : List K) (s : K) : bernsteinEval (toBernstein a) s = LP.eval a s := by
  rw [bernsteinEval_eq_sum, toBernstein_length, LP.eval_eq_sum]
  cases hlen : a.length with
  | zero => simp
  | succ n =>
    simp only [Nat.add_sub_cancel]
    have h1 : ∀ i ∈ range (n + 1), (toBernstein a).getD i 0 * bw n i s =
        ∑ j ∈ range (i + 1), a.getD j 0 * ((Nat.choose i j : K) / (Nat.choose n j : K) * bw n i s) := by
      intro i hi
      rw [toBernstein_getD a i (by rw [hlen]; simpa using hi), hlen, Nat.add_sub_cancel, sum_mul]
      apply sum_congr rfl
      intro j _
      ring
    rw [sum_congr rfl h1]
    rw [sum_comm' (s' := fun j => Ico j (n + 1)) (t' := range (n + 1))
      (h := by
        intro i j
        simp only [mem_range, mem_Ico]
        omega)]
    apply sum_congr rfl
    intro j hj
    rw [← mul_sum, mono_expand n j (by simpa [Nat.lt_succ_iff] using hj)]

end conversion

section scaled_coefficients
variable {K : Type} [Field K]

theorem scaleArgAux_length (σ w : K) (p : List K) : (LP.scaleArgAux σ w p).length = p.length := by
  induction p generalizing w with
  | nil => rfl
  | cons a p ih => simp [LP.scaleArgAux, ih]

theorem scaleArgAux_getD (σ w : K) (p : List K) (j : Nat) : (LP.scaleArgAux σ w p).getD j 0 = p.getD j 0 * (w * σ ^ j) := by
  induction p generalizing w j with
  | nil => simp [LP.scaleArgAux]
  | cons a p ih =>
    cases j with
    | zero => simp [LP.scaleArgAux]
    | succ j => simp only [LP.scaleArgAux, List.getD_cons_succ, ih, pow_succ]; ring

theorem scaleArg_length (σ : K) (p : List K) : (LP.scaleArg σ p).length = p.length := scaleArgAux_length σ _ p

/-- coefficient `j` of `p(σ·s)` is `p_j σ^j` -/
theorem scaleArg_getD (σ : K) (p : List K) (j : Nat) : (LP.scaleArg σ p).getD j 0 = p.getD j 0 * σ ^ j := by
  unfold LP.scaleArg
  rw [scaleArgAux_getD]
  simp

end scaled_coefficients

section ordered
variable {K : Type} [Field K] [LinearOrder K] [IsStrictOrderedRing K]

theorem bw_nonneg (n i : Nat) (s : K) (h0 : 0 ≤ s) (h1 : s ≤ 1) : 0 ≤ bw n i s := by
  unfold bw
  have : 0 ≤ 1 - s := by linarith
  positivity

/-- a convex combination of the coefficients: bounded above by any upper bound of the coefficients … -/
theorem bernstein_le (b : Nat → K) (n : Nat) (ub s : K) (h0 : 0 ≤ s) (h1 : s ≤ 1)
    (hb : ∀ i, i ≤ n → b i ≤ ub) : ∑ i ∈ range (n + 1), b i * bw n i s ≤ ub := by
  calc ∑ i ∈ range (n + 1), b i * bw n i s ≤ ∑ i ∈ range (n + 1), ub * bw n i s := by
        apply sum_le_sum
        intro i hi
        exact mul_le_mul_of_nonneg_right (hb i (by simpa [Nat.lt_succ_iff] using hi)) (bw_nonneg n i s h0 h1)
    _ = ub := by rw [← mul_sum, bw_sum, mul_one]

/-- … and below by any lower bound -/
theorem bernstein_ge (b : Nat → K) (n : Nat) (lb s : K) (h0 : 0 ≤ s) (h1 : s ≤ 1)
    (hb : ∀ i, i ≤ n → lb ≤ b i) : lb ≤ ∑ i ∈ range (n + 1), b i * bw n i s := by
  calc lb = ∑ i ∈ range (n + 1), lb * bw n i s := by rw [← mul_sum, bw_sum, mul_one]
    _ ≤ ∑ i ∈ range (n + 1), b i * bw n i s := by
        apply sum_le_sum
        intro i hi
        exact mul_le_mul_of_nonneg_right (hb i (by simpa [Nat.lt_succ_iff] using hi)) (bw_nonneg n i s h0 h1)

end ordered
end Rockit
