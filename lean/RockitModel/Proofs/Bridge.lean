import RockitModel.Model.Basic
import Mathlib.Algebra.Module.Defs
import Mathlib.Algebra.Field.Basic
/-!
# Every field is a `Scalar`, every module a `VecSpace`

so that the generic model definitions can be reasoned about with Mathlib's algebra.
-/
namespace Rockit

instance fieldScalar {K : Type} [Field K] : Scalar K := {}

instance moduleVecSpace {K V : Type} [Field K] [AddCommGroup V] [Module K V] : VecSpace K V := {}

@[simp] theorem nat_eq {K : Type} [Field K] (n : Nat) : (nat n : K) = (n : K) := rfl

end Rockit
