import RockitModel.Proofs.Shooting
import RockitModel.Model.Transcribe
import Mathlib.Algebra.BigOperators.Group.List.Basic
/-! helper lemmas for C05: folds that accumulate are sums -/
set_option linter.unusedSectionVars false
namespace Rockit

theorem foldl_add_eq_sum {A : Type} [AddCommMonoid A] {ι : Type} (l : List ι) (g : ι → A) (a : A) :
    l.foldl (fun acc k => acc + g k) a = a + (l.map g).sum := by
  induction l generalizing a with
  | nil => simp
  | cons x xs ih => simp [List.foldl_cons, ih, add_assoc]

variable {K V Q : Type} [Field K]

/-- `Q[N]` is the sum over the intervals of the scheme's quadrature output -/
theorem quadNode_sum [VecSpace K V] [AddCommGroup Q] [Module K Q]
    (step : Nat → Step K V Q) (M : Nat) (tau : Nat → K) (X : Nat → V) (N : Nat) :
    quadNode step M tau X N =
      ((List.range N).map (fun k => (dsFrom step M tau k (X k)).qf)).sum := by
  induction N with
  | zero => rfl
  | succ n ih =>
    simp only [quadNode, List.range_succ, List.map_append, List.sum_append, List.map_cons, List.map_nil,
      List.sum_cons, List.sum_nil, add_zero]
    rw [← ih]

end Rockit
