import RockitModel.Model.Intg
/-!
# Specification of "M successive steps of the scheme with absolute stage times"

Closed form: step `j` starts at `t₀ + j·(T/M)` (not accumulated), has length `T/M`, and sees
`DT_control = T`.  Textbook forms of the two explicit schemes.
-/
namespace Rockit.Spec
open Rockit
variable {α V Q : Type} [Scalar α] [VecSpace α V] [VecSpace α Q]

/-- state and accumulated quadrature after `j` steps -/
def propagate (step : Step α V Q) (M : Nat) (x0 : V) (t0 T : α) : Nat → V × Q
  | 0 => (x0, 0)
  | j+1 =>
    let s := propagate step M x0 t0 T j
    let r := step s.1 (t0 + (j : α) * (T / (M : α))) (T / (M : α)) T
    (r.xf, s.2 + r.qf)

/-- classical RK4 in Butcher form: stages at `t + cᵢ h`, `c = (0, ½, ½, 1)`, weights `(⅙, ⅓, ⅓, ⅙)` -/
def rk4 (f : V → α → V) (x : V) (t h : α) : V :=
  let k1 := f x t
  let k2 := f (x + (h * (nat 1 / nat 2 : α)) • k1) (t + (nat 1 / nat 2 : α) * h)
  let k3 := f (x + (h * (nat 1 / nat 2 : α)) • k2) (t + (nat 1 / nat 2 : α) * h)
  let k4 := f (x + h • k3) (t + h)
  x + h • ((nat 1 / nat 6 : α) • k1 + (nat 1 / nat 3 : α) • k2 + (nat 1 / nat 3 : α) • k3 + (nat 1 / nat 6 : α) • k4)

/-- explicit Euler -/
def euler (f : V → α → V) (x : V) (t h : α) : V := x + h • f x t

end Rockit.Spec
