import RockitModel.Model.Basic
/-!
# Specification of constraint placement: the set of points a declared constraint lives on
-/
namespace Rockit.Spec
open Rockit

/-- is node index `k + o` inside the horizon `[0, N]` -/
def inHorizon (N k : Nat) (o : Int) : Bool := decide (0 ≤ (k : Int) + o) && decide ((k : Int) + o ≤ N)

/-- node indices `0 … N` at which a control-grid constraint is imposed: all of them, except the
first/last when excluded, except those where a shifted operand would leave the horizon -/
def ctrlIdx (N : Nat) (first last : Bool) (offs : List Int) : List Nat :=
  (List.range (N+1)).filter (fun k =>
    (k != 0 || first) && (k != N || last) && offs.all (inHorizon N k))

end Rockit.Spec
