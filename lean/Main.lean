import RockitModel.Model.Initial
import RockitModel.Model.Der
import RockitModel.Model.Inf
import RockitModel.Model.Stages
import RockitModel.Model.BSpline
/-!
Line-protocol driver: reads an OCP description, a decision point and `run …` requests from
stdin, evaluates the model over `Rat`, prints canonical answers.
Run with `lake env lean --run Main.lean`.
-/
open Rockit

def parseRat (s : String) : Option Rat :=
  match s.splitOn "/" with
  | [n] => n.toInt?.map (fun i => (i : Rat))
  | [n, d] => do
      let n ← n.toInt?
      let d ← d.toNat?
      if d = 0 then none else some (mkRat n d)
  | _ => none

def showRat (r : Rat) : String :=
  if r.den = 1 then toString r.num else s!"{r.num}/{r.den}"

partial def parseExpr : List String → Option (Expr × List String)
  | "c" :: r :: rest => do
      let q ← parseRat r
      some (.const q.num q.den, rest)
  | "t" :: rest => some (.sym .t, rest)
  | "T" :: rest => some (.sym .T, rest)
  | "t0" :: rest => some (.sym .t0, rest)
  | "DT" :: rest => some (.sym .DT, rest)
  | "DTc" :: rest => some (.sym .DTc, rest)
  | "neg" :: rest => do
      let (a, rest) ← parseExpr rest
      some (.neg a, rest)
  | "pow" :: n :: rest => do
      let n ← n.toNat?
      let (a, rest) ← parseExpr rest
      some (.pow a n, rest)
  | op :: rest =>
      if op ∈ ["+", "-", "*", "/"] then do
        let (a, rest) ← parseExpr rest
        let (b, rest) ← parseExpr rest
        some ((match op with | "+" => .add a b | "-" => .sub a b | "*" => .mul a b | _ => .div a b), rest)
      else match rest with
        | i :: rest => do
            let i ← i.toNat?
            let s : Sym ← (match op with
              | "x" => some (.x i) | "u" => some (.u i) | "z" => some (.z i) | "xq" => some (.xq i)
              | "p" => some (.p i) | "pc" => some (.pc i) | "pcp" => some (.pcp i)
              | "v" => some (.v i) | "vc" => some (.vc i) | "vcp" => some (.vcp i) | "vs" => some (.vs i)
              | "off" => some (.off i) | "ph" => some (.ph i) | _ => none)
            some (.sym s, rest)
        | [] => none
  | [] => none

def parseExprAll (toks : List String) : Except String Expr :=
  match parseExpr toks with
  | some (e, []) => .ok e
  | some (_, r) => .error s!"trailing tokens {r}"
  | none => .error s!"bad expression {toks}"

def parseRats (toks : List String) : Except String (Array Rat) :=
  toks.foldlM (fun acc s => match parseRat s with
    | some r => .ok (acc.push r) | none => .error s!"bad number {s}") #[]

structure B where
  nx : Nat := 0
  nxq : Nat := 0
  nz : Nat := 0
  kind : MethodKind := .ms
  N : Nat := 1
  M : Nat := 1
  intg : IntgKind := .rk
  tau : List Rat := []
  gkind : GridKind Rat := .uniform
  locT0 : Bool := false
  locT : Bool := false
  gmin : Rat := 0
  gmax : Option Rat := none
  gdefault : Bool := true
  ode : Array Expr := #[]
  quad : Array Expr := #[]
  alg : Array Expr := #[]
  cons : Array (Con Rat) := #[]
  phs : Array Ph := #[]
  obj : Expr := .const 0 1
  Tfree : Bool := false
  t0free : Bool := false
  scaleX : Array Rat := #[]
  scaleDer : Array Rat := #[]
  scaleZ : Array Rat := #[]
  X : Array (Array Rat) := #[]
  U : Array (Array Rat) := #[]
  V : Array Rat := #[]
  Vc : Array (Array Rat) := #[]
  Vcp : Array (Array Rat) := #[]
  Vs : Array (Array Rat) := #[]
  T : Rat := 1
  t0 : Rat := 0
  t0l : Array Rat := #[]
  Tl : Array Rat := #[]
  Xi : Array (Array Rat) := #[]
  Xc : Array (Array (Array Rat)) := #[]
  Zc : Array (Array (Array Rat)) := #[]
  P : Array Rat := #[]
  Pc : Array (Array Rat) := #[]
  Pcp : Array (Array Rat) := #[]
  gs : Guesses Rat := {}
  /-- a standalone evaluation environment (`e <kind> values…` lines) -/
  env : Env Rat := { t := 0, T := 0, t0 := 0, DT := 0, DTc := 0 }
  /-- multi-stage state: survives `begin` (which starts the next child stage), reset by `mbegin` -/
  mstages : Array (Ctx Rat) := #[]
  mrefs : Array StageRef := #[]
  mV : Array Rat := #[]
  mP : Array Rat := #[]
  mcons : Array (Con Rat) := #[]
  mobj : Expr := .const 0 1
  /-- grid of a B-spline (`bs …` line) -/
  bsxi : List Rat := []

def setAt {β : Type} (a : Array β) (i : Nat) (v : β) (dflt : β) : Array β :=
  let a := if a.size ≤ i then a ++ Array.replicate (i + 1 - a.size) dflt else a
  a.set! i v

def toVec (n : Nat) (a : Array Rat) : Except String (Vector Rat n) :=
  if h : a.size = n then .ok ⟨a, h⟩ else .error s!"vector of size {a.size}, expected {n}"

def flag (s : String) : Bool := s == "1"

def B.build (b : B) : Except String (Ctx Rat) := do
  if h1 : b.ode.size = b.nx then
    if h2 : b.quad.size = b.nxq then
      let X ← b.X.mapM (toVec b.nx)
      let Xi ← b.Xi.mapM (toVec b.nx)
      let Xc ← b.Xc.mapM (fun a => a.mapM (toVec b.nx))
      let o : Ocp Rat :=
        { nx := b.nx, nxq := b.nxq, nz := b.nz, ode := ⟨b.ode, h1⟩, quad := ⟨b.quad, h2⟩, alg := b.alg
          cons := b.cons.toList, phs := b.phs, objective := b.obj, Tfree := b.Tfree, t0free := b.t0free
          scaleX := b.scaleX, scaleDer := b.scaleDer, scaleZ := b.scaleZ
          method := { kind := b.kind, N := b.N, M := b.M, intg := b.intg, tau := b.tau
                      grid := { kind := b.gkind, localizeT0 := b.locT0, localizeT := b.locT
                                min := b.gmin, max := b.gmax, defaultBounds := b.gdefault } } }
      let pt : Point Rat o.nx :=
        { X := X, U := b.U, V := b.V, Vc := b.Vc, Vcp := b.Vcp, Vs := b.Vs, T := b.T, t0 := b.t0
          t0l := b.t0l, Tl := b.Tl, Xi := Xi, Xc := Xc, Zc := b.Zc, P := b.P, Pc := b.Pc, Pcp := b.Pcp }
      return { o := o, pt := pt }
    else throw s!"quad count {b.quad.size} ≠ nxq {b.nxq}"
  else throw s!"ode count {b.ode.size} ≠ nx {b.nx}"

def showRats (l : List Rat) : String := " ".intercalate (l.map showRat)

def runCmd (b : B) (what : List String) : Except String (List String) := do
  let c ← b.build
  match what with
  | ["nlp"] =>
      let n := c.nlp
      match c.infRows with
      | none => return ["reject inf", "end"]
      | some ir =>
      return [s!"f {showRat n.f}"] ++ (n.rows ++ ir).map (fun r => "row " ++ r.tag ++ " | " ++ showRats r.atoms) ++ ["end"]
  | ["obj"] => return [s!"f {showRat c.objective}", "end"]
  | ["grid"] =>
      return [s!"tau {showRats ((List.range (c.N+1)).map c.tau)}"] ++
        (List.range c.N).map (fun k => s!"intg {k} {showRats ((List.range (c.M+1)).map (intgTime c.tau c.M k))}") ++
        [s!"dtnode {showRats (((List.range c.N).map Node.at ++ [Node.final]).map (fun q => (c.envNode q #[]).DT))}",
         s!"dtcnode {showRats (((List.range c.N).map Node.at ++ [Node.final]).map (fun q => (c.envNode q #[]).DTc))}",
         s!"dtstep {showRats ((List.range c.N).flatMap (fun k => (List.range c.M).map (fun i => (c.envStep k i).DT)))}",
         s!"roots {showRats ((List.range c.N).flatMap (fun k => (List.range c.M).flatMap (fun i => (List.range c.d).map (fun j => c.rootTime k i j))))}",
         s!"dtcstep {showRats ((List.range c.N).flatMap (fun k => (List.range c.M).map (fun i => (c.envStep k i).DTc)))}"] ++ ["end"]
  | ["states"] =>
      return (List.range (c.N+1)).map (fun k => s!"X {k} {showRats (c.Xn k).toList}") ++
        (List.range (c.N+1)).map (fun k => s!"Q {k} {showRats (c.Qn k).toList}") ++
        ((List.range c.N).flatMap fun k => (List.range c.M).map fun i =>
            "xs " ++ toString k ++ " " ++ toString i ++ " " ++ showRats (c.xStep k i).toList ++ " | " ++ showRats (c.qStep k i).toList) ++
        (List.range (c.N+1)).map (fun k => s!"Z {k} {showRats (c.Znode k).toList}") ++
        ((List.range c.N).flatMap fun k => (List.range c.M).map fun i =>
            "zs " ++ toString k ++ " " ++ toString i ++ " " ++ showRats (c.envStep k i).z.toList) ++ ["end"]
  | ["ph"] => return [s!"ph {showRats c.phValues.toList}", "end"]
  | "sample" :: "control" :: f :: l :: e =>
      let e ← parseExprAll e
      return (c.sampleControl e (flag f) (flag l)).map (fun p => "s " ++ showRat p.1 ++ " " ++ showRat p.2) ++ ["end"]
  | "sample" :: "integrator" :: e =>
      let e ← parseExprAll e
      return (c.sampleIntegrator e).map (fun p => "s " ++ showRat p.1 ++ " " ++ showRat p.2) ++ ["end"]
  | "sample" :: "roots" :: e =>
      let e ← parseExprAll e
      return (c.sampleRoots e).map (fun p => "s " ++ showRat p.1 ++ " " ++ showRat p.2) ++ ["end"]
  | "sample" :: "fine" :: r :: e =>
      let e ← parseExprAll e
      return (c.sampleFine e r.toNat!).map (fun p => "s " ++ showRat p.1 ++ " " ++ showRat p.2) ++ ["end"]
  | "sampler" :: t :: e =>
      let e ← parseExprAll e
      let t ← parseRats [t]
      return ["s " ++ showRat t[0]! ++ " " ++ showRat (c.samplerAt e t[0]!), "end"]
  | "der" :: j :: e =>
      let e ← parseExprAll e
      match c.o.derIter e j.toNat! with
      | .error _ => return ["reject", "end"]
      | .ok d =>
          return ["v " ++ showRat (d.eval b.env), "end"]
  | "eval" :: e =>
      let e ← parseExprAll e
      return ["v " ++ showRat (e.eval b.env), "end"]
  | _ => throw s!"unknown run {what}"

def stepLine (b : B) (line : String) : Except String (B × List String) := do
  let toks := (line.splitOn " ").filter (· ≠ "")
  match toks with
  | [] => return (b, [])
  | ["begin"] => return ({ mstages := b.mstages, mrefs := b.mrefs, mV := b.mV, mP := b.mP, mcons := b.mcons, mobj := b.mobj, bsxi := b.bsxi }, [])
  | ["mbegin"] => return ({}, [])
  | "bs" :: r => return ({ b with bsxi := (← parseRats r).toList }, [])
  | ["run", "bs", "basis", d, x] =>
      let x ← parseRats [x]
      return (b, ["v " ++ showRats (basisAt b.bsxi d.toNat! x[0]!), "end"])
  | "run" :: "bs" :: "eval" :: d :: x :: c =>
      let x ← parseRats [x]
      let c ← parseRats c
      return (b, ["v " ++ showRat (splineEval b.bsxi d.toNat! c.toList x[0]!), "end"])
  | "run" :: "bs" :: "deriv" :: d :: m :: T :: c =>
      let T ← parseRats [T]
      let c ← parseRats c
      return (b, ["v " ++ showRats (signalDerIter b.bsxi T[0]! d.toNat! m.toNat! c.toList), "end"])
  | ["run", "bs", "greville", d] =>
      return (b, ["v " ++ showRats (greville b.bsxi d.toNat!), "end"])
  | ["stage_push"] =>
      let c ← b.build
      return ({ b with mstages := b.mstages.push c }, [])
  | ["mref", "ph", i, j] => return ({ b with mrefs := b.mrefs.push (.ph i.toNat! j.toNat!) }, [])
  | ["mref", "T", i] => return ({ b with mrefs := b.mrefs.push (.T i.toNat!) }, [])
  | ["mref", "t0", i] => return ({ b with mrefs := b.mrefs.push (.t0 i.toNat!) }, [])
  | ["mref", "tf", i] => return ({ b with mrefs := b.mrefs.push (.tf i.toNat!) }, [])
  | "mV" :: r => return ({ b with mV := (← parseRats r) }, [])
  | "mP" :: r => return ({ b with mP := (← parseRats r) }, [])
  | ["mcon", cid, rel, scale] =>
      let rel ← (match rel with | "le" => pure Rel.le | "eq" => pure .eq | "two" => pure .two | _ => throw "bad rel")
      let s ← parseRats [scale]
      let k : Con Rat := { id := cid.toNat!, rel := rel, a := .const 0 1, b := .const 0 1, grid := .point, scale := s[0]! }
      return ({ b with mcons := b.mcons.push k }, [])
  | "ma" :: e =>
      let e ← parseExprAll e
      return ({ b with mcons := b.mcons.modify (b.mcons.size - 1) (fun k => { k with a := e }) }, [])
  | "mb" :: e =>
      let e ← parseExprAll e
      return ({ b with mcons := b.mcons.modify (b.mcons.size - 1) (fun k => { k with b := e }) }, [])
  | "mcc" :: e =>
      let e ← parseExprAll e
      return ({ b with mcons := b.mcons.modify (b.mcons.size - 1) (fun k => { k with c := e }) }, [])
  | "mobj" :: e => return ({ b with mobj := (← parseExprAll e) }, [])
  | ["run", "multi"] =>
      let m : Multi Rat := { stages := b.mstages.toList, refs := b.mrefs, V := b.mV, P := b.mP, cons := b.mcons.toList, objective := b.mobj }
      let n := m.nlp
      return (b, [s!"f {showRat n.f}"] ++ n.rows.map (fun r => "row " ++ r.tag ++ " | " ++ showRats r.atoms) ++ ["end"])
  | ["dims", nx, nxq, nz] => return ({ b with nx := nx.toNat!, nxq := nxq.toNat!, nz := nz.toNat! }, [])
  | ["method", k, n, m, ig] =>
      let kind ← (match k with | "ms" => pure MethodKind.ms | "ss" => pure .ss | "dc" => pure .dc | _ => throw "bad method")
      let intg ← (match ig with | "rk" => pure IntgKind.rk | "euler" => pure .euler | "next" => pure .next | _ => throw "bad intg")
      return ({ b with kind := kind, N := n.toNat!, M := m.toNat!, intg := intg }, [])
  | "tau" :: r => return ({ b with tau := (← parseRats r).toList }, [])
  | ["grid", "uniform"] => return ({ b with gkind := .uniform }, [])
  | ["grid", "free"] => return ({ b with gkind := .free }, [])
  | ["grid", "geometric", g, l, ge] =>
      let r ← parseRats [g, ge]
      return ({ b with gkind := .geometric r[0]! (flag l) r[1]! }, [])
  | "grid" :: "data" :: r => return ({ b with gkind := .data (← parseRats r).toList }, [])
  | ["gridopts", l0, lT, mn, mx, df] =>
      let mn ← parseRats [mn]
      let mx ← (if mx == "inf" then pure none else do let r ← parseRats [mx]; pure (some r[0]!))
      return ({ b with locT0 := flag l0, locT := flag lT, gmin := mn[0]!, gmax := mx, gdefault := flag df }, [])
  | "ode" :: e => return ({ b with ode := b.ode.push (← parseExprAll e) }, [])
  | "quad" :: e => return ({ b with quad := b.quad.push (← parseExprAll e) }, [])
  | "alg" :: e => return ({ b with alg := b.alg.push (← parseExprAll e) }, [])
  | ["con", cid, rel, grid, first, last, scale] =>
      let rel ← (match rel with | "le" => pure Rel.le | "eq" => pure .eq | "two" => pure .two | _ => throw "bad rel")
      let grid ← (match grid with | "control" => pure CGrid.control | "integrator" => pure .integrator | "roots" => pure .roots | "point" => pure .point | "inf" => pure .inf | _ => throw "bad grid")
      let s ← parseRats [scale]
      let k : Con Rat := { id := cid.toNat!, rel := rel, a := .const 0 1, b := .const 0 1, grid := grid,
                           first := flag first, last := flag last, scale := s[0]! }
      return ({ b with cons := b.cons.push k }, [])
  | "a" :: e =>
      let e ← parseExprAll e
      return ({ b with cons := b.cons.modify (b.cons.size - 1) (fun k => { k with a := e }) }, [])
  | "b" :: e =>
      let e ← parseExprAll e
      return ({ b with cons := b.cons.modify (b.cons.size - 1) (fun k => { k with b := e }) }, [])
  | "cc" :: e =>
      let e ← parseExprAll e
      return ({ b with cons := b.cons.modify (b.cons.size - 1) (fun k => { k with c := e }) }, [])
  | "off" :: o :: e =>
      let e ← parseExprAll e
      let o ← (match o.toInt? with | some o => pure o | none => throw "bad offset")
      return ({ b with cons := b.cons.modify (b.cons.size - 1) (fun k => { k with offs := k.offs ++ [(e, o)] }) }, [])
  | ["iop", "der", i] =>
      return ({ b with cons := b.cons.modify (b.cons.size - 1) (fun k => { k with infOps := k.infOps ++ [InfOp.der i.toNat!] }) }, [])
  | "iop" :: "inert" :: e =>
      let e ← parseExprAll e
      return ({ b with cons := b.cons.modify (b.cons.size - 1) (fun k => { k with infOps := k.infOps ++ [InfOp.inert e] }) }, [])
  | "ph" :: kind :: rest =>
      let (kind, rest) ← (match kind, rest with
        | "at_t0", r => pure (PhKind.atT0, r) | "at_tf", r => pure (.atTf, r) | "sum", r => pure (.sum, r)
        | "sum_plus", r => pure (.sumPlus, r) | "int_control", r => pure (.intControl, r)
        | "integral", q :: r => pure (.integral q.toNat!, r)
        | _, _ => throw "bad placeholder")
      let e ← parseExprAll rest
      return ({ b with phs := b.phs.push { kind := kind, e := e } }, [])
  | "obj" :: e => return ({ b with obj := (← parseExprAll e) }, [])
  | ["flags", tf, t0f] => return ({ b with Tfree := flag tf, t0free := flag t0f }, [])
  | "scalex" :: r => return ({ b with scaleX := (← parseRats r) }, [])
  | "scaleder" :: r => return ({ b with scaleDer := (← parseRats r) }, [])
  | "scalez" :: r => return ({ b with scaleZ := (← parseRats r) }, [])
  | "X" :: k :: r => return ({ b with X := setAt b.X k.toNat! (← parseRats r) #[] }, [])
  | "U" :: k :: r => return ({ b with U := setAt b.U k.toNat! (← parseRats r) #[] }, [])
  | "V" :: r => return ({ b with V := (← parseRats r) }, [])
  | "Vc" :: k :: r => return ({ b with Vc := setAt b.Vc k.toNat! (← parseRats r) #[] }, [])
  | "Vcp" :: k :: r => return ({ b with Vcp := setAt b.Vcp k.toNat! (← parseRats r) #[] }, [])
  | "Vs" :: k :: r => return ({ b with Vs := setAt b.Vs k.toNat! (← parseRats r) #[] }, [])
  | ["T", r] => return ({ b with T := (← parseRats [r])[0]! }, [])
  | ["t0", r] => return ({ b with t0 := (← parseRats [r])[0]! }, [])
  | "t0l" :: r => return ({ b with t0l := (← parseRats r) }, [])
  | "Tl" :: r => return ({ b with Tl := (← parseRats r) }, [])
  | "Xi" :: k :: r => return ({ b with Xi := setAt b.Xi k.toNat! (← parseRats r) #[] }, [])
  | "Xc" :: k :: j :: r =>
      let v ← parseRats r
      let k := k.toNat!
      let cur := b.Xc.getD k #[]
      return ({ b with Xc := setAt b.Xc k (setAt cur j.toNat! v #[]) #[] }, [])
  | "Zc" :: k :: j :: r =>
      let v ← parseRats r
      let k := k.toNat!
      let cur := b.Zc.getD k #[]
      return ({ b with Zc := setAt b.Zc k (setAt cur j.toNat! v #[]) #[] }, [])
  | "P" :: r => return ({ b with P := (← parseRats r) }, [])
  | "Pc" :: k :: r => return ({ b with Pc := setAt b.Pc k.toNat! (← parseRats r) #[] }, [])
  | "Pcp" :: k :: r => return ({ b with Pcp := setAt b.Pcp k.toNat! (← parseRats r) #[] }, [])
  | "e" :: kind :: r =>
      let v ← parseRats r
      let en := b.env
      let en ← (match kind with
        | "x" => pure { en with x := v } | "u" => pure { en with u := v } | "z" => pure { en with z := v }
        | "xq" => pure { en with xq := v } | "p" => pure { en with p := v } | "pc" => pure { en with pc := v }
        | "pcp" => pure { en with pcp := v } | "v" => pure { en with v := v } | "vc" => pure { en with vc := v }
        | "vcp" => pure { en with vcp := v } | "vs" => pure { en with vs := v }
        | "t" => pure { en with t := v[0]! } | "T" => pure { en with T := v[0]! } | "t0" => pure { en with t0 := v[0]! }
        | "DT" => pure { en with DT := v[0]! } | "DTc" => pure { en with DTc := v[0]! }
        | _ => throw "bad env kind")
      return ({ b with env := en }, [])
  | "g" :: kind :: i :: form :: rest =>
      let i := i.toNat!
      let g : Guess Rat ← (match form with
        | "const" => do let r ← parseRats rest; pure (Guess.const r[0]!)
        | "cols" => do let r ← parseRats rest; pure (Guess.cols r.toList)
        | "expr" => do let e ← parseExprAll rest; pure (Guess.expr e)
        | _ => throw "bad guess form")
      let gs := b.gs
      let gs ← (match kind with
        | "x" => pure { gs with x := gs.x ++ [(i, g)] } | "u" => pure { gs with u := gs.u ++ [(i, g)] }
        | "z" => pure { gs with z := gs.z ++ [(i, g)] } | "v" => pure { gs with v := gs.v ++ [(i, g)] }
        | "vc" => pure { gs with vc := gs.vc ++ [(i, g)] } | "vcp" => pure { gs with vcp := gs.vcp ++ [(i, g)] }
        | _ => throw "bad guess kind")
      return ({ b with gs := gs }, [])
  | ["run", "start", nu, nv, nvc, nvcp] =>
      let c ← b.build
      let gs := b.gs
      let nu := nu.toNat!; let nv := nv.toNat!; let nvc := nvc.toNat!; let nvcp := nvcp.toNat!
      let rng := fun (n : Nat) => List.range n
      let out : List String :=
        (rng (c.N+1)).map (fun k => s!"X {k} {showRats ((rng c.o.nx).map (fun i => c.startNode gs.x i k))}") ++
        (rng c.N).map (fun k => s!"U {k} {showRats ((rng nu).map (fun i => c.startInterval gs.u i k))}") ++
        [s!"V {showRats ((rng nv).map (fun i => c.guessVal (guessOf gs.v i) 0 c.pt.t0))}"] ++
        (rng c.N).map (fun k => s!"Vc {k} {showRats ((rng nvc).map (fun i => c.startInterval gs.vc i k))}") ++
        (rng (c.N+1)).map (fun k => s!"Vcp {k} {showRats ((rng nvcp).map (fun i => c.startNode gs.vcp i k))}") ++
        ((rng c.N).flatMap fun k => (rng c.M).map fun l =>
            s!"Xi {k*c.M+l} {showRats ((rng c.o.nx).map (fun i => c.startIntg gs.x i k l))}") ++
        ((rng c.N).flatMap fun k => (rng c.M).flatMap fun l => (rng c.d).map fun j =>
            s!"Xc {k*c.M+l} {j} {showRats ((rng c.o.nx).map (fun i => c.startRoot gs.x i k l j))}") ++
        ((rng c.N).flatMap fun k => (rng c.M).flatMap fun l => (rng c.d).map fun j =>
            s!"Zc {k*c.M+l} {j} {showRats ((rng c.o.nz).map (fun i => c.startRoot gs.z i k l j))}") ++
        [s!"t0l {showRats ((rng (c.N+1)).map c.startT0local)}", s!"Tl {showRats ((rng c.N).map c.startTlocal)}", "end"]
      return (b, out)
  | "run" :: what => return (b, ← runCmd b what)
  | _ => throw s!"bad line: {line}"

partial def loop (h : IO.FS.Stream) (out : IO.FS.Stream) (b : B) : IO Unit := do
  let line ← h.getLine
  if line.isEmpty then return ()
  let line := line.trimAscii.toString
  match stepLine b line with
  | .ok (b', outs) =>
      for o in outs do out.putStrLn o
      if !outs.isEmpty then out.flush
      loop h out b'
  | .error e =>
      out.putStrLn s!"error {e}"
      out.putStrLn "end"
      out.flush
      loop h out b

def main : IO Unit := do
  loop (← IO.getStdin) (← IO.getStdout) {}
