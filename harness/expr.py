"""Expression AST shared by the rockit builder and the Lean driver.

An expression is a nested tuple:
  ('c', Fraction) | ('x', i) | ('u', i) | ('z', i) | ('xq', i) | ('t',) | ('T',) | ('t0',)
  | ('DT',) | ('DTc',) | ('p', i) | ('pc', i) | ('pcp', i) | ('v', i) | ('vc', i) | ('vcp', i)
  | ('vs', i) | ('off', i) | ('ph', i)
  | ('+', a, b) | ('-', a, b) | ('*', a, b) | ('/', a, b) | ('neg', a) | ('pow', a, n)
Indices are flattened (column-major over the declared symbols of that kind).
"""
from fractions import Fraction

LEAVES0 = ('t', 'T', 't0', 'DT', 'DTc')
LEAVES1 = ('x', 'u', 'z', 'xq', 'p', 'pc', 'pcp', 'v', 'vc', 'vcp', 'vs', 'off', 'ph')


def C(v):
    return ('c', Fraction(v))


def rat_str(r):
    r = Fraction(r)
    return str(r.numerator) if r.denominator == 1 else "%d/%d" % (r.numerator, r.denominator)


def to_tokens(e, out=None):
    top = out is None
    if top:
        out = []
    k = e[0]
    if k == 'c':
        out += ['c', rat_str(e[1])]
    elif k in LEAVES0:
        out.append(k)
    elif k in LEAVES1:
        out += [k, str(e[1])]
    elif k in ('+', '-', '*', '/'):
        out.append(k)
        to_tokens(e[1], out)
        to_tokens(e[2], out)
    elif k == 'neg':
        out.append('neg')
        to_tokens(e[1], out)
    elif k == 'pow':
        out += ['pow', str(e[2])]
        to_tokens(e[1], out)
    else:
        raise ValueError("bad expr %r" % (e,))
    return " ".join(out) if top else out


def mentions(e, kinds):
    k = e[0]
    if k in kinds:
        return True
    if k in ('+', '-', '*', '/'):
        return mentions(e[1], kinds) or mentions(e[2], kinds)
    if k in ('neg', 'pow'):
        return mentions(e[1], kinds)
    return False


def leaves(e, acc=None):
    if acc is None:
        acc = set()
    k = e[0]
    if k in LEAVES0:
        acc.add((k,))
    elif k in LEAVES1:
        acc.add((k, e[1]))
    elif k in ('+', '-', '*', '/'):
        leaves(e[1], acc)
        leaves(e[2], acc)
    elif k in ('neg', 'pow'):
        leaves(e[1], acc)
    return acc


def evaluate(e, env):
    """exact evaluation with Fractions; env maps leaf tuples to Fractions"""
    k = e[0]
    if k == 'c':
        return e[1]
    if k in LEAVES0:
        return env[(k,)]
    if k in LEAVES1:
        return env[(k, e[1])]
    if k == '+':
        return evaluate(e[1], env) + evaluate(e[2], env)
    if k == '-':
        return evaluate(e[1], env) - evaluate(e[2], env)
    if k == '*':
        return evaluate(e[1], env) * evaluate(e[2], env)
    if k == '/':
        return evaluate(e[1], env) / evaluate(e[2], env)
    if k == 'neg':
        return -evaluate(e[1], env)
    if k == 'pow':
        return evaluate(e[1], env) ** e[2]
    raise ValueError(k)


def to_casadi(e, sym):
    """sym(kind, index_or_None) -> casadi scalar expression"""
    import casadi as ca
    k = e[0]
    if k == 'pinf':
        return ca.MX(float('inf'))
    if k == 'ninf':
        return ca.MX(float('-inf'))
    if k == 'c':
        f = e[1]
        if f.denominator == 1:
            return ca.MX(float(f.numerator))
        return ca.MX(float(f.numerator)) / float(f.denominator) if False else ca.MX(f.numerator / f.denominator)
    if k in LEAVES0:
        return sym(k, None)
    if k in LEAVES1:
        return sym(k, e[1])
    if k == '+':
        return to_casadi(e[1], sym) + to_casadi(e[2], sym)
    if k == '-':
        return to_casadi(e[1], sym) - to_casadi(e[2], sym)
    if k == '*':
        return to_casadi(e[1], sym) * to_casadi(e[2], sym)
    if k == '/':
        return to_casadi(e[1], sym) / to_casadi(e[2], sym)
    if k == 'neg':
        return -to_casadi(e[1], sym)
    if k == 'pow':
        return to_casadi(e[1], sym) ** e[2]
    raise ValueError(k)
