"""Talk to the Lean driver and compare its answers with the implementation's."""
import os
import subprocess
import sys
from fractions import Fraction

from . import expr as E
from .walk import close

LEAN_DIR = os.path.join(os.path.dirname(os.path.dirname(os.path.abspath(__file__))), "lean")
sys.set_int_max_str_digits(0)


class DriverDied(BaseException):
    """the Lean driver process is gone: an infrastructure failure, never a verdict about rockit
    (a BaseException so that no `except Exception` around rockit calls can mistake it for a rockit error)"""


class Driver:
    def __init__(self):
        import tempfile
        self.errfile = tempfile.NamedTemporaryFile(prefix="lean-driver-", suffix=".err", dir="/var/tmp", delete=False)
        self.lines_sent = 0
        # start under the build lock and wait until Main.lean is elaborated and every .olean is loaded: a concurrent
        # `lake build` of another check (only after a source change) must not replace files under a starting driver
        from . import leanproj as LP

        def start():
            self.p = subprocess.Popen(["lake", "env", "lean", "--run", "Main.lean"], cwd=LEAN_DIR,
                                      stdin=subprocess.PIPE, stdout=subprocess.PIPE, stderr=self.errfile, text=True, bufsize=1 << 20)
            self.p.stdin.write("mbegin\nrun ping\n")
            self.p.stdin.flush()
            while True:
                line = self.p.stdout.readline()
                if not line:
                    raise self._dead()
                if line.strip() == "end":
                    break
        LP._locked(start)

    def _dead(self):
        try:
            self.errfile.flush()
            tail = open(self.errfile.name).read()[-1500:]
        except Exception:
            tail = ""
        return DriverDied("Lean driver died (exit %s) after %d lines; stderr: %s" % (self.p.poll(), self.lines_sent, tail))

    def send(self, lines):
        try:
            self.p.stdin.write("\n".join(lines) + "\n")
        except (BrokenPipeError, OSError):
            raise self._dead()
        self.lines_sent += len(lines)

    def run(self, what):
        try:
            self.p.stdin.write("run " + what + "\n")
            self.p.stdin.flush()
        except (BrokenPipeError, OSError):
            raise self._dead()
        out = []
        while True:
            line = self.p.stdout.readline()
            if not line:
                raise self._dead()
            line = line.rstrip("\n")
            if line == "end":
                break
            out.append(line)
        for l in out:
            if l.startswith("error "):
                raise RuntimeError("Lean driver: " + l)
        return out

    def close(self):
        try:
            self.p.stdin.close()
            self.p.wait(timeout=10)
        except Exception:
            self.p.kill()
        try:
            self.errfile.close()
            os.unlink(self.errfile.name)
        except Exception:
            pass


def frac(s):
    if "/" in s:
        n, d = s.split("/")
        return Fraction(int(n), int(d))
    return Fraction(int(s))


R = E.rat_str


def rats(vals):
    return " ".join(R(v) for v in vals)


def n_integrals(desc):
    return sum(1 for k, _ in desc['phs'] if k == 'integral')


def desc_lines(desc, method_obj=None):
    """the structural part of the description"""
    m = desc['method']
    nx = sum(desc['states'])
    nz = sum(desc['algs'])
    nq = desc['nq']
    integrands = [e for k, e in desc['phs'] if k == 'integral']
    L = ["begin", "dims %d %d %d" % (nx, nq + len(integrands), nz)]
    intg = 'next' if desc.get('next') else m['intg']
    L.append("method %s %d %d %s" % (m['kind'], m['N'], m['M'], intg))
    g = m['grid']
    if m['kind'] == 'dc':
        import casadi as ca
        tau = ca.collocation_points(m['degree'], m['scheme'])
        L.append("tau " + rats(Fraction(t) for t in tau))
    if g['kind'] == 'uniform':
        L.append("grid uniform")
    elif g['kind'] == 'free':
        L.append("grid free")
    elif g['kind'] == 'geometric':
        growth = float(g['growth'])
        N = m['N']
        geff = growth ** (1.0 / (N - 1)) if (not g.get('local') and N > 1) else growth
        L.append("grid geometric %s %d %s" % (R(Fraction(growth)), 1 if g.get('local') else 0, R(Fraction(geff))))
    elif g['kind'] == 'data':
        L.append("grid data " + rats(Fraction(float(v)) for v in g['nz']))
    elif g['kind'] in ('density_poly', 'dense_edges'):
        L.append("grid data " + rats(Fraction(float(v)) for v in g['nz_runtime']))
    gmin = Fraction(float(g.get('min', 0)))
    gmax = "inf" if 'max' not in g else R(Fraction(float(g['max'])))
    default = 1 if (float(g.get('min', 0)) == 0 and 'max' not in g) else 0
    L.append("gridopts %d %d %s %s %d" % (1 if g.get('localize_t0') else 0, 1 if g.get('localize_T') else 0, R(gmin), gmax, default))
    for e in desc['ode']:
        L.append("ode " + E.to_tokens(e))
    for e in desc['quad']:
        L.append("quad " + E.to_tokens(e))
    for e in integrands:
        L.append("quad " + E.to_tokens(e))
    for e in desc['alg']:
        L.append("alg " + E.to_tokens(e))
    for cid, con in enumerate(desc['cons']):
        nrows = len(con['a'])
        sc = con.get('scale') or [1]
        for r in range(nrows):
            s = sc[r] if len(sc) > 1 else sc[0]
            rel = con['rel']
            a, b_ = con['a'][r], con['b'][r]
            if rel == 'ge':
                rel, a, b_ = 'le', b_, a
            cc_ = con['c'][r] if rel == 'two' else None
            if rel == 'two':
                # infinite entries of a bound vector: that side of the row does not exist
                if a[0] == 'ninf' and cc_[0] == 'pinf':
                    continue
                if a[0] == 'ninf':
                    rel, a, b_ = 'le', b_, cc_
                elif cc_[0] == 'pinf':
                    rel = 'le'
            L.append("con %d %s %s %d %d %s" % (cid, rel, con['grid'], 1 if con.get('first', True) else 0,
                                                 1 if con.get('last', True) else 0, R(Fraction(float(s)))))
            L.append("a " + E.to_tokens(a))
            L.append("b " + E.to_tokens(b_))
            if rel == 'two':
                L.append("cc " + E.to_tokens(cc_))
            for (e, o) in con.get('offs', []):
                L.append("off %d %s" % (int(o), E.to_tokens(e)))
            if con['grid'] == 'inf':
                for op in con.get('infops', []):
                    if op[0] == 'inert':
                        L.append("iop inert " + E.to_tokens(op[1]))
                    else:
                        L.append("iop der %d" % int(op[1]))
    qi = nq
    for kind, e in desc['phs']:
        if kind == 'integral':
            L.append("ph integral %d c 0" % qi)
            qi += 1
        else:
            L.append("ph %s %s" % (kind, E.to_tokens(e)))
    if desc['obj'] is not None:
        L.append("obj " + E.to_tokens(desc['obj']))
    L.append("flags %d %d" % (1 if desc['T'][0] == 'free' else 0, 1 if desc['t0'][0] == 'free' else 0))
    fl = lambda v: Fraction(float(v))
    if desc.get('scale_x'):
        L.append("scalex " + rats(fl(v) for v in desc['scale_x']))
    if desc.get('scale_der') or desc.get('scale_x'):
        sx = desc.get('scale_x') or [1] * nx
        sd = desc.get('scale_der') or [1] * nx
        # set_der(scale=) is "extra scaling after scaling of state has been applied": see Stage.set_der
        L.append("scaleder " + rats(fl(v) for v in sd))
    if desc.get('scale_z'):
        L.append("scalez " + rats(fl(v) for v in desc['scale_z']))
    return L


def point_lines(desc, phys):
    m = desc['method']
    N, M = m['N'], m['M']
    L = []
    X = phys['X']
    if m['kind'] == 'ss':
        L.append("X 0 " + rats(X[0]))
    else:
        for k in range(N + 1):
            L.append("X %d %s" % (k, rats(X[k])))
    for name in ('U', 'Vc', 'Vcp', 'Pc', 'Pcp'):
        if name in phys:
            for k, col in enumerate(phys[name]):
                L.append("%s %d %s" % (name, k, rats(col)))
    for name in ('V', 'P'):
        if name in phys:
            L.append("%s %s" % (name, rats(phys[name][0])))
    L.append("T " + R(phys['T'][0][0]))
    L.append("t0 " + R(phys['t0'][0][0]))
    if 't0l' in phys:
        L.append("t0l " + rats(phys['t0l'][0]))
    if 'Tl' in phys:
        L.append("Tl " + rats(phys['Tl'][0]))
    if m['kind'] == 'dc':
        d = m['degree']
        for idx in range(N * M):
            L.append("Xi %d %s" % (idx, rats(phys['Xi'][idx])))
            for j in range(d):
                L.append("Xc %d %d %s" % (idx, j, rats(phys['Xc'][idx * d + j])))
                if 'Zc' in phys:
                    L.append("Zc %d %d %s" % (idx, j, rats(phys['Zc'][idx * d + j])))
    return L


def parse_nlp(lines):
    f = None
    rows = []
    for l in lines:
        if l.startswith("f "):
            f = frac(l[2:].strip())
        elif l.startswith("row "):
            tag, _, at = l[4:].partition(" | ")
            rows.append((tag.strip(), [frac(t) for t in at.split()]))
    return f, rows


def match_atoms(model_atoms, impl_atoms, rtol=None):
    """model_atoms: list of (tag, [Fraction per point]); impl_atoms: list of [(Fraction, mag) per point].
    Best-first assignment: all admissible pairs (equal at every point under the tolerance of
    walk.distance) sorted by distance, assigned greedily.
    Returns (unmatched_model, unmatched_impl_indices, n_exact)."""
    from .walk import distance
    pairs = []
    for i, (tag, vec) in enumerate(model_atoms):
        for j, iv in enumerate(impl_atoms):
            dmax = 0.0
            for mv, (v, mag) in zip(vec, iv):
                dd = distance(mv, v, mag)
                if dd > dmax:
                    dmax = dd
                    if dmax > 1.0:
                        break
            if dmax <= 1.0:
                pairs.append((dmax, i, j))
    pairs.sort()
    um = [True] * len(model_atoms)
    ui = [True] * len(impl_atoms)
    exact = 0
    for dd, i, j in pairs:
        if um[i] and ui[j]:
            um[i] = False
            ui[j] = False
            if dd == 0.0:
                exact += 1
    return [model_atoms[i] for i in range(len(model_atoms)) if um[i]], [j for j in range(len(impl_atoms)) if ui[j]], exact
