"""Per-property checks, second file: C16 (der), C15 (grid='inf'), C12 (stages), C18 (save/load),
C19 (to_function), C03 (convergence), C17 (B-splines)."""
import copy
import math
from fractions import Fraction as Fr

from .checks import NlpCheck, Check, register
from . import gen as G
from . import build as B
from . import model as Mo
from . import engine as En
from . import expr as E
from .walk import Walker, close, distance


# ---------------------------------------------------------------------------------------------
# helpers shared by the checks of this file
def rich_expr(rng, atoms, depth=3, must=None):
    """random expression tree with + - * / pow neg over the atoms; denominators are 1 + a^2 (never zero)"""
    def go(d):
        if d == 0 or rng.random() < 0.25:
            if rng.random() < 0.2:
                return E.C(G.coef(rng))
            return rng.choice(atoms)
        k = rng.choice(['+', '-', '*', '*', '/', 'pow', 'neg', '+'])
        if k in ('+', '-', '*'):
            return (k, go(d - 1), go(d - 1))
        if k == '/':
            den = ('+', E.C(1), ('pow', go(d - 1), 2))
            return ('/', go(d - 1), den)
        if k == 'pow':
            return ('pow', go(d - 1), rng.choice([2, 2, 3]))
        return ('neg', go(d - 1))
    e = go(depth)
    if must:
        lv = E.leaves(e)
        if not any(a in lv for a in must):
            e = ('+', e, ('*', E.C(G.coef(rng)), rng.choice(must)))
    return e


def dual_eval(e, env, denv):
    """exact forward-mode: (value, directional derivative) with Fractions.
    env / denv map leaf tuples to the value / velocity of that symbol (missing velocity = 0).
    Independent of both rockit and the Lean model: the oracle of 'd/dt of e along the dynamics'."""
    k = e[0]
    if k == 'c':
        return e[1], Fr(0)
    if k in E.LEAVES0:
        return env[(k,)], denv.get((k,), Fr(0))
    if k in E.LEAVES1:
        return env[(k, e[1])], denv.get((k, e[1]), Fr(0))
    if k == 'neg':
        a, da = dual_eval(e[1], env, denv)
        return -a, -da
    if k == 'pow':
        a, da = dual_eval(e[1], env, denv)
        n = e[2]
        if n == 0:
            return Fr(1), Fr(0)
        return a ** n, n * a ** (n - 1) * da
    a, da = dual_eval(e[1], env, denv)
    b_, db = dual_eval(e[2], env, denv)
    if k == '+':
        return a + b_, da + db
    if k == '-':
        return a - b_, da - db
    if k == '*':
        return a * b_, da * b_ + a * db
    if k == '/':
        return a / b_, (da * b_ - a * db) / (b_ * b_)
    raise ValueError(k)


def rnd(rng, pos=False):
    v = 0
    while v == 0:
        v = rng.randint(1 if pos else -6, 6)
    return Fr(v, rng.choice([1, 2, 4]))


ENV_KINDS = ('x', 'xq', 'u', 'z', 'p', 'pc', 'pcp', 'v', 'vc', 'vcp')


def env_sizes(desc):
    return {'x': sum(desc['states']), 'xq': desc['nq'], 'u': sum(desc['controls']), 'z': sum(desc['algs']),
            'p': sum(desc['params']['']), 'pc': sum(desc['params']['control']), 'pcp': sum(desc['params']['control+']),
            'v': sum(desc['vars']['']), 'vc': sum(desc['vars']['control']), 'vcp': sum(desc['vars']['control+'])}


def rand_env(rng, desc):
    """values for every primitive symbol at one evaluation point"""
    sz = env_sizes(desc)
    env = {}
    for k in ENV_KINDS:
        for i in range(sz[k]):
            env[(k, i)] = rnd(rng)
    env[('t',)] = rnd(rng)
    env[('T',)] = rnd(rng, True)
    env[('t0',)] = rnd(rng)
    env[('DT',)] = rnd(rng, True)
    env[('DTc',)] = rnd(rng, True)
    return env


def env_lines(desc, env):
    sz = env_sizes(desc)
    L = []
    for k in ENV_KINDS:
        L.append("e %s %s" % (k, Mo.rats(env[(k, i)] for i in range(sz[k]))))
    for k in ('t', 'T', 't0', 'DT', 'DTc'):
        L.append("e %s %s" % (k, Mo.R(env[(k,)])))
    return L


def env_function(b, outs):
    """CasADi function of the primitive symbols of a built (untranscribed) OCP, in ENV_KINDS order + t"""
    import casadi as ca

    def cat(syms):
        return ca.vertcat(*[ca.vec(s) for s in syms]) if syms else ca.MX(0, 1)
    ocp = b.ocp
    ins = [cat(b.states), cat(b.qstates), cat(b.controls), cat(b.algs), cat(b.params['']), cat(b.params['control']),
           cat(b.params['control+']), cat(b.vars['']), cat(b.vars['control']), cat(b.vars['control+']), ocp.t]
    return ca.Function('envf', ins, outs)


def env_args(desc, env):
    sz = env_sizes(desc)
    return [[env[(k, i)] for i in range(sz[k])] for k in ENV_KINDS] + [[env[('t',)]]]


# ---------------------------------------------------------------------------------------------
@register
class C16(Check):
    pid = "C16"
    slices = ["der-values", "der-rejects-controls", "control-chain"]

    def explanation(self):
        return ("theorems: the symbolic derivative evaluates to the forward-mode tangent (eval_der); the tangent is linear in its seed, so "
                "der(e) = de/dt + grad_x e . ode + grad_xq e . quad at every point (total_derivative); chain rule by induction over the "
                "expression with HasDerivAt over the reals: along any path that moves every symbol with its declared velocity, e(path) is "
                "differentiable with derivative the value of der(e) (der_along_solutions), divisors non-vanishing; expressions depending on "
                "a control are rejected; der applied j<=k times to an order-k control walks down its chain and once more is rejected; the RK4 "
                "dense output of a chain of order <=4 is its Taylor polynomial. correspondence: ocp.der(e) (exact walk of the CasADi graph) "
                "vs the Lean model vs an independent exact dual-number oracle, for generated ODEs and rational expressions of states, "
                "quadrature states, time, parameters, variables (vector valued, iterated der); exceptions for control dependence; real "
                "control(order=k) chains: der^j(u) sampled on the refined integrator grid equals the exact derivative of the polynomial "
                "through the refined samples of der^(j-1)(u)")

    def gen(self, extra=None):
        prof = {'methods': [('ms', 'rk')], 'grids': ['uniform'], 'horizon': ['num'], 'obj_kinds': ['at_tf'], 'ncons': (0, 0),
                'features': {'qstate': 0.6, 'p': 0.7, 'pc': 0.4, 'pcp': 0.3, 'v': 0.5, 'vc': 0.3, 'vcp': 0.3, 'time': 0.9},
                'Ns': [2], 'Ms': [1], 'nxs': [1, 2, 2, 3, 4], 'nus': [0, 1, 2]}
        if extra:
            prof.update(extra)
        d = G.gen_case(self.rng, prof)
        # richer right-hand sides: rational terms with positive denominators
        s = G.symbols(d)
        for i in range(len(d['ode'])):
            if self.rng.random() < 0.4:
                d['ode'][i] = ('+', d['ode'][i], ('/', self.rng.choice(s['x'] + [('t',)]), ('+', E.C(1), ('pow', self.rng.choice(s['x']), 2))))
        if d['nq'] and self.rng.random() < 0.5:
            d['nq'] = 2
            d['quad'] = d['quad'] + [G.poly(self.rng, s['x'] + [('t',)] + s['u'], (1, 2), 2)]
        return d

    def correspondence(self):
        self.values_slice()
        self.rejects_slice()
        self.chain_slice()

    # -- slice 1 ---------------------------------------------------------------------------------
    def der_atoms(self, desc):
        s = G.symbols(desc)
        at = s['x'] + [('t',)] + s['p'] + s['v'] + s['pc'] + s['pcp'] + s['vc'] + s['vcp']
        at = at + [('xq', i) for i in range(desc['nq'])]
        return at

    def velocities(self, desc, env):
        """the declared velocity of every symbol at env: states and quadrature states move with their right-hand side,
        time with 1, everything else is constant"""
        denv = {('t',): Fr(1)}
        for i, e in enumerate(desc['ode']):
            denv[('x', i)] = E.evaluate(e, env)
        for i in range(desc['nq']):
            denv[('xq', i)] = E.evaluate(desc['quad'][i], env)
        return denv

    def spec_der(self, desc, e, env, j):
        """j-th derivative along the dynamics by exact dual numbers of order j (nested): returns the value"""
        if j == 1:
            return dual_eval(e, env, self.velocities(desc, env))[1]
        # second derivative: differentiate the map env -> der(e)(env) once more along the dynamics, with truncated
        # second-order Taylor arithmetic (jets (a0, a1, a2) = value, d/dt, d²/dt² / 2)
        return jet2_der(desc, e, env)

    def values_slice(self):
        import casadi as ca
        name = "der-values"
        n = 40 if self.tier == 'quick' else 500
        for it in range(n):
            j = self.rng.choice([1, 1, 1, 2])
            # a second derivative exists only if the first one is free of controls: control-free dynamics
            desc = self.gen({'nus': [0]} if j == 2 else None)
            b = B.build(desc, transcribe=False, solver=False)
            at = self.der_atoms(desc)
            must = [a for a in at if a[0] in ('x', 't', 'xq')]
            rows = [rich_expr(self.rng, at, depth=self.rng.choice([1, 2, 3]), must=must) for _ in range(self.rng.choice([1, 1, 2, 3]))]
            with B.quiet():
                ce = ca.vertcat(*[E.to_casadi(e, b.sym_base) for e in rows])
                try:
                    de = ce
                    for _ in range(j):
                        de = b.ocp.der(de)
                except Exception as ex:
                    self.slice_ok[name] = False
                    self.violation("ocp.der raised on an expression of states, time and parameters: %s: %s" % (type(ex).__name__, str(ex)[:200]),
                                   {"desc": desc, "rows": rows, "j": j}, {"kind": "der-exception"})
                    return
                W = Walker(env_function(b, [ca.densify(ca.vec(ca.MX(de)))]))
            dl = Mo.desc_lines(desc)
            bad = None
            for _ in range(2):
                env = rand_env(self.rng, desc)
                try:
                    got = W(env_args(desc, env))[0]
                    want = [self.spec_der(desc, e, env, j) for e in rows]
                except (ZeroDivisionError, OverflowError):
                    continue
                self.driver.send(dl)
                self.driver.send(env_lines(desc, env))
                mod = []
                for e in rows:
                    out = self.driver.run("der %d %s" % (j, E.to_tokens(e)))
                    mod.append(Mo.frac(out[0].split()[1]) if out and out[0].startswith("v ") else None)
                self.evaluations += 1
                for r, e in enumerate(rows):
                    gv, mg = got[r]
                    ok_spec = close(want[r], gv, max(mg, 1.0))
                    ok_model = mod[r] is not None and close(mod[r], gv, max(mg, 1.0))
                    if gv == want[r]:
                        self.exact_rows += 1
                    if not ok_spec:
                        bad = ("ocp.der applied %d time(s) to e = %s evaluates to %s; the derivative of e along the declared dynamics "
                               "(de/dt + grad e . rhs, exact dual numbers) is %s" % (j, E.to_tokens(e), float(gv), float(want[r])),
                               {"desc": desc, "expr": e, "j": j, "env": sorted(env.items()), "impl": gv, "spec": want[r]},
                               {"kind": "der-value", "mentions_xq": E.mentions(e, {'xq'})}, True)
                        break
                    if not ok_model:
                        bad = ("model and implementation disagree on der (j=%d) of e = %s: model %s, rockit %s (spec oracle agrees with rockit)"
                               % (j, E.to_tokens(e), None if mod[r] is None else float(mod[r]), float(gv)),
                               {"desc": desc, "expr": e, "j": j, "env": sorted(env.items()), "correspondence": "C16 der-values"},
                               {"kind": "der-model"}, False)
                        break
                if bad:
                    break
            self.record_case(desc, True, {"ode": [E.to_tokens(e) for e in desc['ode']], "expr": [E.to_tokens(e) for e in rows], "j": j})
            self.count("der-order:%d" % j)
            self.count("rows:%d" % len(rows))
            for e in rows:
                for kk in ('xq', 't', 'p', 'v', '/', 'pow'):
                    if E.mentions(e, {kk}):
                        self.count("expr-mentions:" + kk)
            if bad:
                self.slice_ok[name] = False
                self.violation(bad[0], bad[1], bad[2], found_input=bad[3])
                if not bad[2].get("mentions_xq"):
                    return

    def replay(self, payload):
        import casadi as ca
        from .checks import desc_from_json
        p = payload["payload"]
        if "desc" not in p or "expr" not in p:
            self.correspondence()
            return
        desc = desc_from_json(p["desc"])

        def tup(e):
            return tuple(tup(x) for x in e) if isinstance(e, list) else e
        e = tup(p["expr"])
        j = int(p.get("j", 1))
        env = {tup(k): v for k, v in p["env"]}
        b = B.build(desc, transcribe=False, solver=False)
        with B.quiet():
            de = E.to_casadi(e, b.sym_base)
            for _ in range(j):
                de = b.ocp.der(de)
            W = Walker(env_function(b, [ca.densify(ca.vec(ca.MX(de)))]))
        gv, mg = W(env_args(desc, env))[0][0]
        want = self.spec_der(desc, e, env, j)
        if not close(want, gv, max(mg, 1.0)):
            self.violation("replay: ocp.der^%d(e) = %s, derivative along the dynamics = %s (e = %s)" % (j, float(gv), float(want), E.to_tokens(e)),
                           p, {"kind": "der-value", "mentions_xq": E.mentions(e, {'xq'})})

    # -- slice 2 ---------------------------------------------------------------------------------
    def rejects_slice(self):
        import casadi as ca
        name = "der-rejects-controls"
        n = 10 if self.tier == 'quick' else 80
        for it in range(n):
            desc = self.gen({'nus': [1, 2]})
            b = B.build(desc, transcribe=False, solver=False)
            s = G.symbols(desc)
            e = rich_expr(self.rng, self.der_atoms(desc) + s['u'], depth=2, must=s['u'])
            raised = False
            with B.quiet():
                try:
                    b.ocp.der(E.to_casadi(e, b.sym_base))
                except Exception:
                    raised = True
            self.driver.send(Mo.desc_lines(desc))
            self.driver.send(env_lines(desc, rand_env(self.rng, desc)))
            out = self.driver.run("der 1 " + E.to_tokens(e))
            self.evaluations += 1
            self.count("control-dependent")
            if not raised:
                self.slice_ok[name] = False
                self.violation("ocp.der(e) with e depending on a piecewise-constant control did not raise (e = %s)" % E.to_tokens(e),
                               {"desc": desc, "expr": e}, {"kind": "der-no-raise"})
                return
            if out[0] != "reject":
                self.slice_ok[name] = False
                self.violation("model accepts der of a control-dependent expression", {"desc": desc, "expr": e, "correspondence": "C16 rejects"},
                               {"kind": "der-model"}, found_input=False)
                return

    # -- slice 3 ---------------------------------------------------------------------------------
    def chain_slice(self):
        """real control(order=k): der^j(u) for j<=k exists, der^(k+1) raises; on the refined integrator grid the samples of
        der^j(u) are the exact derivative of the polynomial through the samples of der^(j-1)(u) (rk: exact for k<=4;
        collocation of degree >= k: exact)"""
        import casadi as ca
        rockit = B.import_rockit()
        name = "control-chain"
        n = 8 if self.tier == 'quick' else 60
        for it in range(n):
            k = self.rng.choice([1, 2, 2, 3, 3, 4])
            meth = self.rng.choice(['ms', 'ss', 'dc'])
            N = self.rng.choice([1, 2, 3])
            M = self.rng.choice([1, 2])
            T = Fr(self.rng.randint(1, 6), 2)
            gk = self.rng.choice(['uniform', 'geometric'])
            with B.quiet():
                ocp = rockit.Ocp(t0=0.5, T=float(T))
                x = ocp.state()
                u = ocp.control(order=k)
                w = ocp.control()
                ocp.set_der(x, -x + u * w + ocp.t)
                ocp.add_objective(ocp.at_tf(x) ** 2 + ocp.integral(u ** 2))
                ocp.subject_to(ocp.at_t0(x) == 1)
                grid = rockit.UniformGrid() if gk == 'uniform' else rockit.GeometricGrid(2)
                deg = max(k, 2)
                if meth == 'ms':
                    ocp.method(rockit.MultipleShooting(N=N, M=M, intg='rk', grid=grid))
                elif meth == 'ss':
                    ocp.method(rockit.SingleShooting(N=N, M=M, intg='rk', grid=grid))
                else:
                    ocp.method(rockit.DirectCollocation(N=N, M=M, degree=deg, scheme=self.rng.choice(['radau', 'legendre']), grid=grid))
                ocp.solver('ipopt', {'ipopt.print_level': 0, 'print_time': False, 'ipopt.max_iter': 0, 'ipopt.sb': 'yes'})
                ders = [u]
                err = None
                try:
                    for j in range(k):
                        ders.append(ocp.der(ders[-1]))
                except Exception as ex:
                    err = "der^%d of an order-%d control raised: %s" % (len(ders), k, str(ex)[:200])
                too_far = False
                if err is None:
                    try:
                        ocp.der(ders[-1])
                        too_far = True
                    except Exception:
                        pass
            self.evaluations += 1
            self.count("chain-order:%d" % k)
            self.count("chain-method:%s" % meth)
            self.signatures.add("chain-%d-%s-%d-%d-%s" % (k, meth, N, M, gk))
            feats = {"kind": "chain", "order": k, "method": meth}
            payload = {"order": k, "method": meth, "N": N, "M": M, "grid": gk, "T": T}
            if err:
                self.slice_ok[name] = False
                self.violation(err, payload, feats)
                return
            if too_far:
                self.slice_ok[name] = False
                self.violation("der applied %d times to an order-%d control did not raise" % (k + 1, k), payload, feats)
                return
            # the k-th derivative is the piecewise-constant decision: one of ocp.controls
            if not any(ders[-1].is_symbolic() and ca.is_equal(ders[-1], c, 2) for c in ocp.controls):
                self.slice_ok[name] = False
                self.violation("the %d-th derivative of an order-%d control is not the piecewise-constant control decision" % (k, k), payload, feats)
                return
            if meth == 'dc':
                continue      # at an infeasible point the collocation helper states are unrelated; the relation is C02's on feasible points
            # refined samples: the k+1 points of a step strictly before its right end determine the degree-k piece exactly
            # (the right end of a step is the start of the next piece, which at an arbitrary NLP point is a different value)
            r = k + 1
            with B.quiet():
                outs = []
                for dj in ders:
                    ts, vs = ocp.sample(dj, grid='integrator', refine=r)
                    outs += [ca.vec(ca.MX(ts)), ca.vec(ca.MX(vs))]
                opti = ocp._method.opti
                W = Walker(ca.Function('s', [opti.x, opti.p], outs))
            xv = [rnd(self.rng) for _ in range(opti.x.numel())]
            pv = [rnd(self.rng, True) for _ in range(opti.p.numel())]
            res = W([xv, pv])
            tsv = [v[0] for v in res[0]]
            nsteps = N * M
            for j in range(1, k + 1):
                hi = res[2 * (j - 1) + 1]
                lo = res[2 * j + 1]
                for st in range(nsteps):
                    idx = list(range(st * r, st * r + r))
                    tt = [tsv[i] for i in idx]
                    yy = [hi[i][0] for i in idx]
                    for ii, i in enumerate(idx):
                        d = lagrange_derivative(tt, yy, tt[ii])
                        gv, mg = lo[i]
                        mag = max(mg, 1.0, max(abs(float(y)) for y in yy) / max(float(tt[-1] - tt[0]), 1e-9))
                        if not close(d, gv, mag):
                            self.slice_ok[name] = False
                            self.violation("order-%d control under %s: sample of der^%d(u) at t=%s is %s but the derivative of the piecewise polynomial "
                                           "der^%d(u) there is %s" % (k, meth, j, float(tt[ii]), float(gv), j - 1, float(d)),
                                           dict(payload, x=xv, p=pv, j=j, step=st), feats)
                            return
                        self.exact_rows += 1 if d == gv else 0


def lagrange_derivative(ts, ys, t):
    """derivative at t of the polynomial through (ts, ys), exact"""
    n = len(ts)
    total = Fr(0)
    for i in range(n):
        # derivative of the i-th Lagrange basis at t
        s = Fr(0)
        for m in range(n):
            if m == i:
                continue
            prod = Fr(1)
            for l in range(n):
                if l == i or l == m:
                    continue
                prod *= (t - ts[l]) / (ts[i] - ts[l])
            s += prod / (ts[i] - ts[m])
        total += ys[i] * s
    return total


# second-order jets for the iterated derivative oracle ---------------------------------------
def jet_eval(e, env3):
    """env3 maps leaves to jets (a0, a1, a2): value, first and second Taylor coefficient in time; returns a jet"""
    k = e[0]
    if k == 'c':
        return (e[1], Fr(0), Fr(0))
    if k in E.LEAVES0:
        return env3[(k,)]
    if k in E.LEAVES1:
        return env3[(k, e[1])]
    if k == 'neg':
        a = jet_eval(e[1], env3)
        return (-a[0], -a[1], -a[2])
    if k == 'pow':
        a = jet_eval(e[1], env3)
        out = (Fr(1), Fr(0), Fr(0))
        for _ in range(e[2]):
            out = jmul(out, a)
        return out
    a = jet_eval(e[1], env3)
    b_ = jet_eval(e[2], env3)
    if k == '+':
        return (a[0] + b_[0], a[1] + b_[1], a[2] + b_[2])
    if k == '-':
        return (a[0] - b_[0], a[1] - b_[1], a[2] - b_[2])
    if k == '*':
        return jmul(a, b_)
    if k == '/':
        # c = a / b : c0 = a0/b0 ; c1 = (a1 - c0 b1)/b0 ; c2 = (a2 - c0 b2 - c1 b1)/b0
        c0 = a[0] / b_[0]
        c1 = (a[1] - c0 * b_[1]) / b_[0]
        c2 = (a[2] - c0 * b_[2] - c1 * b_[1]) / b_[0]
        return (c0, c1, c2)
    raise ValueError(k)


def jmul(a, b_):
    return (a[0] * b_[0], a[0] * b_[1] + a[1] * b_[0], a[0] * b_[2] + a[1] * b_[1] + a[2] * b_[0])


def jet2_der(desc, e, env):
    """second time derivative of e along the dynamics: Taylor coefficients of the solution through env up to order 2
    (x(t+s) = x + s f + s²/2 f' …), then the s² coefficient of e times 2"""
    # first-order velocities
    v1 = {('t',): Fr(1)}
    for i, f in enumerate(desc['ode']):
        v1[('x', i)] = E.evaluate(f, env)
    for i in range(desc['nq']):
        v1[('xq', i)] = E.evaluate(desc['quad'][i], env)
    # second Taylor coefficient of the states: (d/dt rhs)/2
    a2 = {}
    for i, f in enumerate(desc['ode']):
        a2[('x', i)] = dual_eval(f, env, v1)[1] / 2
    for i in range(desc['nq']):
        a2[('xq', i)] = dual_eval(desc['quad'][i], env, v1)[1] / 2
    env3 = {}
    for key, val in env.items():
        env3[key] = (val, v1.get(key, Fr(0)), a2.get(key, Fr(0)))
    return 2 * jet_eval(e, env3)[2]
