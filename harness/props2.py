"""Per-property checks, second file: C16 (der), C15 (grid='inf'), C12 (stages), C18 (save/load),
C19 (to_function), C03 (convergence), C17 (B-splines)."""
import copy
import math
from fractions import Fraction as Fr

from .checks import NlpCheck, Check, register
from . import gen as G
from . import build as B
from . import model as Mo
from . import engine as En
from . import expr as E
from .walk import Walker, close, distance, fl


# ---------------------------------------------------------------------------------------------
# helpers shared by the checks of this file
def rich_expr(rng, atoms, depth=3, must=None):
    """random expression tree with + - * / pow neg over the atoms; denominators are 1 + a^2 (never zero)"""
    def go(d):
        if d == 0 or rng.random() < 0.25:
            if rng.random() < 0.2:
                return E.C(G.coef(rng))
            return rng.choice(atoms)
        k = rng.choice(['+', '-', '*', '*', '/', 'pow', 'neg', '+'])
        if k in ('+', '-', '*'):
            return (k, go(d - 1), go(d - 1))
        if k == '/':
            den = ('+', E.C(1), ('pow', go(d - 1), 2))
            return ('/', go(d - 1), den)
        if k == 'pow':
            return ('pow', go(d - 1), rng.choice([2, 2, 3]))
        return ('neg', go(d - 1))
    e = go(depth)
    if must:
        lv = E.leaves(e)
        if not any(a in lv for a in must):
            e = ('+', e, ('*', E.C(G.coef(rng)), rng.choice(must)))
    return e


def dual_eval(e, env, denv):
    """exact forward-mode: (value, directional derivative) with Fractions.
    env / denv map leaf tuples to the value / velocity of that symbol (missing velocity = 0).
    Independent of both rockit and the Lean model: the oracle of 'd/dt of e along the dynamics'."""
    k = e[0]
    if k == 'c':
        return e[1], Fr(0)
    if k in E.LEAVES0:
        return env[(k,)], denv.get((k,), Fr(0))
    if k in E.LEAVES1:
        return env[(k, e[1])], denv.get((k, e[1]), Fr(0))
    if k == 'neg':
        a, da = dual_eval(e[1], env, denv)
        return -a, -da
    if k == 'pow':
        a, da = dual_eval(e[1], env, denv)
        n = e[2]
        if n == 0:
            return Fr(1), Fr(0)
        return a ** n, n * a ** (n - 1) * da
    a, da = dual_eval(e[1], env, denv)
    b_, db = dual_eval(e[2], env, denv)
    if k == '+':
        return a + b_, da + db
    if k == '-':
        return a - b_, da - db
    if k == '*':
        return a * b_, da * b_ + a * db
    if k == '/':
        return a / b_, (da * b_ - a * db) / (b_ * b_)
    raise ValueError(k)


def rnd(rng, pos=False):
    v = 0
    while v == 0:
        v = rng.randint(1 if pos else -6, 6)
    return Fr(v, rng.choice([1, 2, 4]))


ENV_KINDS = ('x', 'xq', 'u', 'z', 'p', 'pc', 'pcp', 'v', 'vc', 'vcp')


def env_sizes(desc):
    return {'x': sum(desc['states']), 'xq': desc['nq'], 'u': sum(desc['controls']), 'z': sum(desc['algs']),
            'p': sum(desc['params']['']), 'pc': sum(desc['params']['control']), 'pcp': sum(desc['params']['control+']),
            'v': sum(desc['vars']['']), 'vc': sum(desc['vars']['control']), 'vcp': sum(desc['vars']['control+'])}


def rand_env(rng, desc):
    """values for every primitive symbol at one evaluation point"""
    sz = env_sizes(desc)
    env = {}
    for k in ENV_KINDS:
        for i in range(sz[k]):
            env[(k, i)] = rnd(rng)
    env[('t',)] = rnd(rng)
    env[('T',)] = rnd(rng, True)
    env[('t0',)] = rnd(rng)
    env[('DT',)] = rnd(rng, True)
    env[('DTc',)] = rnd(rng, True)
    return env


def env_lines(desc, env):
    sz = env_sizes(desc)
    L = []
    for k in ENV_KINDS:
        L.append("e %s %s" % (k, Mo.rats(env[(k, i)] for i in range(sz[k]))))
    for k in ('t', 'T', 't0', 'DT', 'DTc'):
        L.append("e %s %s" % (k, Mo.R(env[(k,)])))
    return L


def env_function(b, outs):
    """CasADi function of the primitive symbols of a built (untranscribed) OCP, in ENV_KINDS order + t"""
    import casadi as ca

    def cat(syms):
        return ca.vertcat(*[ca.vec(s) for s in syms]) if syms else ca.MX(0, 1)
    ocp = b.ocp
    ins = [cat(b.states), cat(b.qstates), cat(b.controls), cat(b.algs), cat(b.params['']), cat(b.params['control']),
           cat(b.params['control+']), cat(b.vars['']), cat(b.vars['control']), cat(b.vars['control+']), ocp.t]
    return ca.Function('envf', ins, outs)


def env_args(desc, env):
    sz = env_sizes(desc)
    return [[env[(k, i)] for i in range(sz[k])] for k in ENV_KINDS] + [[env[('t',)]]]


# ---------------------------------------------------------------------------------------------
@register
class C16(Check):
    pid = "C16"
    uses_generated = True
    slices = ["der-values", "der-of-declared-symbols", "der-rejects-controls", "control-chain", "der-of-signal-expressions"]

    def explanation(self):
        return ("theorems: the symbolic derivative evaluates to the forward-mode tangent (eval_der); the tangent is linear in its seed, so "
                "der(e) = de/dt + grad_x e . ode + grad_xq e . quad at every point (total_derivative); chain rule by induction over the "
                "expression with HasDerivAt over the reals: along any path that moves every symbol with its declared velocity, e(path) is "
                "differentiable with derivative the value of der(e) (der_along_solutions), divisors non-vanishing; expressions depending on "
                "a control are rejected; der applied j<=k times to an order-k control walks down its chain and once more is rejected; the RK4 "
                "dense output of a chain of order <=4 is its Taylor polynomial. correspondence: ocp.der(e) (exact walk of the CasADi graph) "
                "vs the Lean model vs an independent exact dual-number oracle, for generated ODEs and rational expressions of states, "
                "quadrature states, time, parameters, variables (vector valued, iterated der); exceptions for control dependence; real "
                "control(order=k) chains: der^j(u) sampled on the refined integrator grid equals the exact derivative of the polynomial "
                "through the refined samples of der^(j-1)(u)")

    def gen(self, extra=None):
        prof = {'methods': [('ms', 'rk')], 'grids': ['uniform'], 'horizon': ['num'], 'obj_kinds': ['at_tf'], 'ncons': (0, 0),
                'features': {'qstate': 0.6, 'p': 0.7, 'pc': 0.4, 'pcp': 0.3, 'v': 0.5, 'vc': 0.3, 'vcp': 0.3, 'time': 0.9},
                'Ns': [2], 'Ms': [1], 'nxs': [1, 2, 2, 3, 4], 'nus': [0, 1, 2]}
        if extra:
            prof.update(extra)
        d = G.gen_case(self.rng, prof)
        # richer right-hand sides: rational terms with positive denominators
        s = G.symbols(d)
        for i in range(len(d['ode'])):
            if self.rng.random() < 0.4:
                d['ode'][i] = ('+', d['ode'][i], ('/', self.rng.choice(s['x'] + [('t',)]), ('+', E.C(1), ('pow', self.rng.choice(s['x']), 2))))
        if d['nq'] and self.rng.random() < 0.5:
            d['nq'] = 2
            d['quad'] = d['quad'] + [G.poly(self.rng, s['x'] + [('t',)] + s['u'], (1, 2), 2)]
        return d

    def correspondence(self):
        self.values_slice()
        self.bare_symbol_slice()
        self.rejects_slice()
        self.chain_slice()
        self.signal_slice()

    def bare_symbol_slice(self):
        """der of a declared state (or quadrature state) SYMBOL itself — the whole symbol object, vector valued or not, which rockit
        treats in a branch of its own — equals the declared right-hand side at the same time, states, controls and parameters"""
        import casadi as ca
        name = "der-of-declared-symbols"
        n = 12 if self.tier == 'quick' else 120
        for it in range(n):
            extra = {'features': {'qstate': 0.5, 'p': 0.7, 'pc': 0.4, 'v': 0.5, 'time': 1.0}}
            if it % 2 == 0:
                # the dynamics declared in one set_der call on a concatenation of state symbols of DIFFERENT sizes
                extra['state_splits'] = [[2, 1], [1, 2, 1], [2, 1, 2], [1, 1, 2], [3, 1]]
            desc = self.gen(extra)
            desc['concat_der'] = it % 2 == 0
            s_ = G.symbols(desc)
            # every right-hand side depends on time explicitly (a right-hand side evaluated at a wrong time must show)
            for i in range(len(desc['ode'])):
                desc['ode'][i] = ('+', desc['ode'][i], ('*', E.C(G.coef(self.rng)), ('*', ('t',), self.rng.choice(s_['x'] + [('t',)]))))
            try:
                b = B.build(desc, transcribe=False, solver=False)
            except Exception as ex:
                self.slice_ok[name] = False
                self.violation("declaring the dynamics (%s) raised: %s: %s" % ("one set_der on the concatenation of the states, sizes %s" % desc['states'] if desc['concat_der'] else "per symbol",
                                                                            type(ex).__name__, str(ex)[:200].replace("\n", " ")), {"desc": desc}, {"kind": "der-exception", "where": "declaration"})
                return
            offs = []
            off = 0
            for sz in desc['states']:
                offs.append(off)
                off += sz
            k = self.rng.randrange(len(b.states)) if not desc['concat_der'] else (it // 2) % len(b.states)
            self.count("bare-symbol-declared:" + ("concatenation" if desc['concat_der'] else "per-symbol"))
            try:
                with B.quiet():
                    de = b.ocp.der(b.states[k])
                    W = Walker(env_function(b, [ca.densify(ca.vec(ca.MX(de)))]))
            except Exception as ex:
                self.slice_ok[name] = False
                self.violation("ocp.der of a declared state symbol raised: %s: %s" % (type(ex).__name__, str(ex)[:200]), {"desc": desc, "state": k}, {"kind": "der-exception"})
                return
            for _ in range(2):
                env = rand_env(self.rng, desc)
                try:
                    got = W(env_args(desc, env))[0]
                    want = [E.evaluate(desc['ode'][offs[k] + r], env) for r in range(desc['states'][k])]
                except (ZeroDivisionError, OverflowError):
                    continue
                self.evaluations += 1
                self.count("bare-symbol")
                self.signatures.add("bare-%d-%d" % (it, k))
                for r in range(len(want)):
                    gv, mg = got[r]
                    if not close(want[r], gv, max(mg, 1.0)):
                        self.slice_ok[name] = False
                        self.violation("ocp.der(state %d) component %d evaluates to %s, the declared right-hand side %s at the same point is %s"
                                       % (k, r, float(gv), E.to_tokens(desc['ode'][offs[k] + r]), float(want[r])),
                                       {"desc": desc, "state": k, "env": sorted(env.items())}, {"kind": "der-bare-symbol"})
                        return

    def signal_slice(self):
        """B-spline signals: der(e) and der(der(e)) of expressions of signals and time, sampled under SplineMethod, against the exact
        first/second time derivative of e along the splines (2-jets of the expression over the exact spline derivatives)"""
        import casadi as ca
        rockit = B.import_rockit()
        name = "der-of-signal-expressions"
        n = 5 if self.tier == 'quick' else 50
        for it in range(n):
            rng = self.rng
            t0 = Fr(rng.randint(-2, 3), 2)
            T = Fr(rng.choice([2, 3, 5, 6]), 2)      # never 1: a lost factor T would be invisible
            N = rng.randint(2, 4)
            orders = [rng.randint(2, 3), rng.randint(2, 3)]
            with B.quiet():
                ocp = rockit.Ocp(t0=float(t0), T=float(T))
                sp = ocp.parameter(grid='bspline', order=orders[0])
                sv = ocp.variable(grid='bspline', order=orders[1])
                pvals = [Fr(rng.randint(-8, 8), 4) for _ in range(N + orders[0])]
                ocp.set_value(sp, ca.DM([[float(v) for v in pvals]]))
                sigs = [sp, sv]
                atoms = [('vs', 0), ('vs', 1), ('t',)]
                e = rich_expr(rng, atoms, depth=2, must=[('vs', 0), ('vs', 1)])

                def sym(kind, i):
                    return ocp.t if kind == 't' else sigs[i]
                ce = E.to_casadi(e, sym)
                try:
                    d1 = ocp.der(ce)
                    d2 = ocp.der(d1)
                except Exception as ex:
                    self.slice_ok[name] = False
                    self.violation("ocp.der of an expression of B-spline signals raised: %s" % str(ex)[:200], {"expr": e, "orders": orders}, {"kind": "signal-der-exception"})
                    return
                # a derivative that does not exist: der applied order+1 times to a signal (alone, and inside an expression) must raise
                for si, sg in enumerate(sigs):
                    for wrap in (lambda v: v, lambda v: v ** 2 + ocp.t * v):
                        dk = wrap(sg)
                        raised = False
                        try:
                            for _k in range(orders[si] + 1):
                                dk = ocp.der(dk)
                        except Exception:
                            raised = True
                        self.count("signal-der-beyond-order")
                        if not raised:
                            self.slice_ok[name] = False
                            self.violation("der applied %d times to a B-spline signal of order %d did not raise (no such derivative exists)" % (orders[si] + 1, orders[si]),
                                           {"orders": orders, "signal": si}, {"kind": "signal-der-no-raise"})
                            return
                ocp.add_objective(ocp.sum(ca.sumsqr(sv) + ca.sumsqr(sp), include_last=True))
                ocp.method(rockit.SplineMethod(N=N, grid=rockit.UniformGrid() if rng.random() < 0.5 else rockit.GeometricGrid(2)))
                ocp.solver('ipopt', {'ipopt.print_level': 0, 'print_time': False, 'ipopt.max_iter': 0, 'ipopt.sb': 'yes'})
                ocp._transcribed
                opti = ocp._method.opti
                r = 3
                outs = [ca.vec(ca.MX(ocp.sample(sv, grid='control')[0]))]
                for sg in sigs:
                    outs.append(ca.vec(ca.MX(ocp.sample(sg, grid='gist')[1])))
                for ex_ in (d1, d2):
                    tr, vr = ocp.sample(ex_, grid='control', refine=r)
                    outs += [ca.densify(ca.vec(ca.MX(tr))), ca.densify(ca.vec(ca.MX(vr)))]
                W = Walker(ca.Function('s', [opti.x, opti.p], outs))
                pcur = ca.DM(opti.debug.value(opti.p, opti.initial())).full().flatten().tolist() if opti.p.numel() else []
            xv = [rnd(rng) for _ in range(opti.x.numel())]
            try:
                res = W([xv, [Fr(v) for v in pcur]])
            except (ZeroDivisionError, OverflowError):
                continue
            tcv = [v[0] for v in res[0]]
            coefs = [[v[0] for v in res[1]], [v[0] for v in res[2]]]
            self.evaluations += 1
            self.count("signal-expressions")
            self.signatures.add("sigexpr-%s-%s-%d-%s" % (T, orders, N, E.to_tokens(e)))
            tr = [v[0] for v in res[3]]
            own = []
            for k in range(N):
                for jj in range(r):
                    own.append(tcv[k] + (tcv[k + 1] - tcv[k]) * Fr(jj, r))
            own.append(tcv[N])
            for which, (ti, vi) in ((1, (3, 4)), (2, (5, 6))):
                times = own        # the values belong to these times (that the returned time vector says so too is C17's business)
                vals = res[vi]
                for pi, x in enumerate(times[:-1]):     # the last point is evaluated from the left; interior points suffice
                    try:
                        env3 = {('t',): (x, Fr(1), Fr(0))}
                        for si in range(2):
                            d = orders[si]
                            env3[('vs', si)] = (bs_eval(tcv, d, coefs[si], x), bs_piece_derivative(tcv, d, coefs[si], x, 1),
                                                bs_piece_derivative(tcv, d, coefs[si], x, 2) / 2)
                        jet = jet_eval(e, env3)
                    except ZeroDivisionError:
                        continue
                    want = jet[1] if which == 1 else 2 * jet[2]
                    got, mg = vals[pi]
                    if not close(want, got, max(mg, 1.0) * (1.0 + abs(fl(want)))):
                        self.slice_ok[name] = False
                        self.violation("der applied %d time(s) to e = %s (B-spline signals of order %s, T=%s): sample at t=%s is %s, the %s time derivative of e along "
                                       "the splines is %s" % (which, E.to_tokens(e), orders, T, float(x), float(got), "first" if which == 1 else "second", float(want)),
                                       {"expr": e, "orders": orders, "T": T, "t0": t0, "N": N, "x": xv}, {"kind": "signal-der", "which": which})
                        return

    # -- slice 1 ---------------------------------------------------------------------------------
    def der_atoms(self, desc):
        s = G.symbols(desc)
        at = s['x'] + [('t',)] + s['p'] + s['v'] + s['pc'] + s['pcp'] + s['vc'] + s['vcp']
        at = at + [('xq', i) for i in range(desc['nq'])]
        return at

    def velocities(self, desc, env):
        """the declared velocity of every symbol at env: states and quadrature states move with their right-hand side,
        time with 1, everything else is constant"""
        denv = {('t',): Fr(1)}
        for i, e in enumerate(desc['ode']):
            denv[('x', i)] = E.evaluate(e, env)
        for i in range(desc['nq']):
            denv[('xq', i)] = E.evaluate(desc['quad'][i], env)
        return denv

    def spec_der(self, desc, e, env, j):
        """j-th derivative along the dynamics by exact dual numbers of order j (nested): returns the value"""
        if j == 1:
            return dual_eval(e, env, self.velocities(desc, env))[1]
        # second derivative: differentiate the map env -> der(e)(env) once more along the dynamics, with truncated
        # second-order Taylor arithmetic (jets (a0, a1, a2) = value, d/dt, d²/dt² / 2)
        return jet2_der(desc, e, env)

    def values_slice(self):
        import casadi as ca
        name = "der-values"
        n = 40 if self.tier == 'quick' else 500
        for it in range(n):
            j = self.rng.choice([1, 1, 1, 2])
            # a second derivative exists only if the first one is free of controls: control-free dynamics
            desc = self.gen({'nus': [0]} if j == 2 else None)
            b = B.build(desc, transcribe=False, solver=False)
            at = self.der_atoms(desc)
            must = [a for a in at if a[0] in ('x', 't', 'xq')]
            rows = [rich_expr(self.rng, at, depth=self.rng.choice([1, 2, 3]), must=must) for _ in range(self.rng.choice([1, 1, 2, 3]))]
            with B.quiet():
                ce = ca.vertcat(*[E.to_casadi(e, b.sym_base) for e in rows])
                try:
                    de = ce
                    for _ in range(j):
                        de = b.ocp.der(de)
                except Exception as ex:
                    self.slice_ok[name] = False
                    self.violation("ocp.der raised on an expression of states, time and parameters: %s: %s" % (type(ex).__name__, str(ex)[:200]),
                                   {"desc": desc, "rows": rows, "j": j}, {"kind": "der-exception"})
                    return
                W = Walker(env_function(b, [ca.densify(ca.vec(ca.MX(de)))]))
            dl = Mo.desc_lines(desc)
            bad = None
            for _ in range(2):
                env = rand_env(self.rng, desc)
                try:
                    got = W(env_args(desc, env))[0]
                    want = [self.spec_der(desc, e, env, j) for e in rows]
                except (ZeroDivisionError, OverflowError):
                    continue
                self.driver.send(dl)
                self.driver.send(env_lines(desc, env))
                mod = []
                for e in rows:
                    out = self.driver.run("der %d %s" % (j, E.to_tokens(e)))
                    mod.append(Mo.frac(out[0].split()[1]) if out and out[0].startswith("v ") else None)
                self.evaluations += 1
                for r, e in enumerate(rows):
                    gv, mg = got[r]
                    ok_spec = close(want[r], gv, max(mg, 1.0))
                    ok_model = mod[r] is not None and close(mod[r], gv, max(mg, 1.0))
                    if gv == want[r]:
                        self.exact_rows += 1
                    if not ok_spec:
                        bad = ("ocp.der applied %d time(s) to e = %s evaluates to %s; the derivative of e along the declared dynamics "
                               "(de/dt + grad e . rhs, exact dual numbers) is %s" % (j, E.to_tokens(e), float(gv), float(want[r])),
                               {"desc": desc, "expr": e, "j": j, "env": sorted(env.items()), "impl": gv, "spec": want[r]},
                               {"kind": "der-value", "mentions_xq": E.mentions(e, {'xq'})}, True)
                        break
                    if not ok_model:
                        bad = ("model and implementation disagree on der (j=%d) of e = %s: model %s, rockit %s (spec oracle agrees with rockit)"
                               % (j, E.to_tokens(e), None if mod[r] is None else float(mod[r]), float(gv)),
                               {"desc": desc, "expr": e, "j": j, "env": sorted(env.items()), "correspondence": "C16 der-values"},
                               {"kind": "der-model"}, False)
                        break
                if bad:
                    break
            self.record_case(desc, True, {"ode": [E.to_tokens(e) for e in desc['ode']], "expr": [E.to_tokens(e) for e in rows], "j": j})
            self.count("der-order:%d" % j)
            self.count("rows:%d" % len(rows))
            for e in rows:
                for kk in ('xq', 't', 'p', 'v', '/', 'pow'):
                    if E.mentions(e, {kk}):
                        self.count("expr-mentions:" + kk)
            if bad:
                self.slice_ok[name] = False
                self.violation(bad[0], bad[1], bad[2], found_input=bad[3])
                if not bad[2].get("mentions_xq"):
                    return

    def replay(self, payload):
        import casadi as ca
        from .checks import desc_from_json
        p = payload["payload"]
        if "desc" not in p or "expr" not in p:
            self.correspondence()
            return
        desc = desc_from_json(p["desc"])

        def tup(e):
            return tuple(tup(x) for x in e) if isinstance(e, list) else e
        e = tup(p["expr"])
        j = int(p.get("j", 1))
        env = {tup(k): v for k, v in p["env"]}
        b = B.build(desc, transcribe=False, solver=False)
        with B.quiet():
            de = E.to_casadi(e, b.sym_base)
            for _ in range(j):
                de = b.ocp.der(de)
            W = Walker(env_function(b, [ca.densify(ca.vec(ca.MX(de)))]))
        gv, mg = W(env_args(desc, env))[0][0]
        want = self.spec_der(desc, e, env, j)
        if not close(want, gv, max(mg, 1.0)):
            self.violation("replay: ocp.der^%d(e) = %s, derivative along the dynamics = %s (e = %s)" % (j, float(gv), float(want), E.to_tokens(e)),
                           p, {"kind": "der-value", "mentions_xq": E.mentions(e, {'xq'})})

    # -- slice 2 ---------------------------------------------------------------------------------
    def rejects_slice(self):
        import casadi as ca
        name = "der-rejects-controls"
        n = 10 if self.tier == 'quick' else 80
        for it in range(n):
            desc = self.gen({'nus': [1, 2]})
            b = B.build(desc, transcribe=False, solver=False)
            s = G.symbols(desc)
            e = rich_expr(self.rng, self.der_atoms(desc) + s['u'], depth=2, must=s['u'])
            raised = False
            with B.quiet():
                if not ca.depends_on(E.to_casadi(e, b.sym_base), ca.vertcat(*[ca.vec(u_) for u_ in b.controls])):
                    self.count("rejects-skipped(control cancels out of the expression)")
                    continue
                try:
                    b.ocp.der(E.to_casadi(e, b.sym_base))
                except Exception:
                    raised = True
            self.driver.send(Mo.desc_lines(desc))
            self.driver.send(env_lines(desc, rand_env(self.rng, desc)))
            out = self.driver.run("der 1 " + E.to_tokens(e))
            self.evaluations += 1
            self.count("control-dependent")
            if not raised:
                self.slice_ok[name] = False
                self.violation("ocp.der(e) with e depending on a piecewise-constant control did not raise (e = %s)" % E.to_tokens(e),
                               {"desc": desc, "expr": e}, {"kind": "der-no-raise"})
                return
            if out[0] != "reject":
                self.slice_ok[name] = False
                self.violation("model accepts der of a control-dependent expression", {"desc": desc, "expr": e, "correspondence": "C16 rejects"},
                               {"kind": "der-model"}, found_input=False)
                return

    # -- slice 3 ---------------------------------------------------------------------------------
    def chain_slice(self):
        """real control(order=k): der^j(u) for j<=k exists, der^(k+1) raises; on the refined integrator grid the samples of
        der^j(u) are the exact derivative of the polynomial through the samples of der^(j-1)(u) (rk: exact for k<=4;
        collocation of degree >= k: exact)"""
        import casadi as ca
        rockit = B.import_rockit()
        name = "control-chain"
        n = 8 if self.tier == 'quick' else 60
        for it in range(n):
            k = self.rng.choice([1, 2, 2, 3, 3, 4])
            meth = self.rng.choice(['ms', 'ss', 'dc'])
            N = self.rng.choice([1, 2, 3])
            M = self.rng.choice([1, 2])
            T = Fr(self.rng.randint(1, 6), 2)
            gk = self.rng.choice(['uniform', 'geometric'])
            with B.quiet():
                ocp = rockit.Ocp(t0=0.5, T=float(T))
                x = ocp.state()
                u = ocp.control(order=k)
                w = ocp.control()
                ocp.set_der(x, -x + u * w + ocp.t)
                ocp.add_objective(ocp.at_tf(x) ** 2 + ocp.integral(u ** 2))
                ocp.subject_to(ocp.at_t0(x) == 1)
                grid = rockit.UniformGrid() if gk == 'uniform' else rockit.GeometricGrid(2)
                deg = max(k, 2)
                if meth == 'ms':
                    ocp.method(rockit.MultipleShooting(N=N, M=M, intg='rk', grid=grid))
                elif meth == 'ss':
                    ocp.method(rockit.SingleShooting(N=N, M=M, intg='rk', grid=grid))
                else:
                    ocp.method(rockit.DirectCollocation(N=N, M=M, degree=deg, scheme=self.rng.choice(['radau', 'legendre']), grid=grid))
                ocp.solver('ipopt', {'ipopt.print_level': 0, 'print_time': False, 'ipopt.max_iter': 0, 'ipopt.sb': 'yes'})
                ders = [u]
                err = None
                try:
                    for j in range(k):
                        ders.append(ocp.der(ders[-1]))
                except Exception as ex:
                    err = "der^%d of an order-%d control raised: %s" % (len(ders), k, str(ex)[:200])
                too_far = False
                if err is None:
                    try:
                        ocp.der(ders[-1])
                        too_far = True
                    except Exception:
                        pass
            self.evaluations += 1
            self.count("chain-order:%d" % k)
            self.count("chain-method:%s" % meth)
            self.signatures.add("chain-%d-%s-%d-%d-%s" % (k, meth, N, M, gk))
            feats = {"kind": "chain", "order": k, "method": meth}
            payload = {"order": k, "method": meth, "N": N, "M": M, "grid": gk, "T": T}
            if err:
                self.slice_ok[name] = False
                self.violation(err, payload, feats)
                return
            if too_far:
                self.slice_ok[name] = False
                self.violation("der applied %d times to an order-%d control did not raise" % (k + 1, k), payload, feats)
                return
            # the k-th derivative is the piecewise-constant decision: one of ocp.controls
            if not any(ders[-1].is_symbolic() and ca.is_equal(ders[-1], c, 2) for c in ocp.controls):
                self.slice_ok[name] = False
                self.violation("the %d-th derivative of an order-%d control is not the piecewise-constant control decision" % (k, k), payload, feats)
                return
            if meth == 'dc':
                continue      # at an infeasible point the collocation helper states are unrelated; the relation is C02's on feasible points
            # refined samples: the k+1 points of a step strictly before its right end determine the degree-k piece exactly
            # (the right end of a step is the start of the next piece, which at an arbitrary NLP point is a different value)
            r = k + 1
            with B.quiet():
                outs = []
                for dj in ders:
                    ts, vs = ocp.sample(dj, grid='integrator', refine=r)
                    outs += [ca.vec(ca.MX(ts)), ca.vec(ca.MX(vs))]
                opti = ocp._method.opti
                W = Walker(ca.Function('s', [opti.x, opti.p], outs))
            xv = [rnd(self.rng) for _ in range(opti.x.numel())]
            pv = [rnd(self.rng, True) for _ in range(opti.p.numel())]
            res = W([xv, pv])
            tsv = [v[0] for v in res[0]]
            nsteps = N * M
            for j in range(1, k + 1):
                hi = res[2 * (j - 1) + 1]
                lo = res[2 * j + 1]
                for st in range(nsteps):
                    idx = list(range(st * r, st * r + r))
                    tt = [tsv[i] for i in idx]
                    yy = [hi[i][0] for i in idx]
                    for ii, i in enumerate(idx):
                        d = lagrange_derivative(tt, yy, tt[ii])
                        gv, mg = lo[i]
                        mag = max(mg, 1.0, max(abs(float(y)) for y in yy) / max(float(tt[-1] - tt[0]), 1e-9))
                        if not close(d, gv, mag):
                            self.slice_ok[name] = False
                            self.violation("order-%d control under %s: sample of der^%d(u) at t=%s is %s but the derivative of the piecewise polynomial "
                                           "der^%d(u) there is %s" % (k, meth, j, float(tt[ii]), float(gv), j - 1, float(d)),
                                           dict(payload, x=xv, p=pv, j=j, step=st), feats)
                            return
                        self.exact_rows += 1 if d == gv else 0


def lagrange_value(ts, ys, t):
    """value at t of the polynomial through (ts, ys), exact"""
    total = Fr(0)
    for i in range(len(ts)):
        w = Fr(1)
        for l in range(len(ts)):
            if l != i:
                w *= (t - ts[l]) / (ts[i] - ts[l])
        total += ys[i] * w
    return total


def lagrange_derivative(ts, ys, t):
    """derivative at t of the polynomial through (ts, ys), exact"""
    n = len(ts)
    total = Fr(0)
    for i in range(n):
        # derivative of the i-th Lagrange basis at t
        s = Fr(0)
        for m in range(n):
            if m == i:
                continue
            prod = Fr(1)
            for l in range(n):
                if l == i or l == m:
                    continue
                prod *= (t - ts[l]) / (ts[i] - ts[l])
            s += prod / (ts[i] - ts[m])
        total += ys[i] * s
    return total


# second-order jets for the iterated derivative oracle ---------------------------------------
def jet_eval(e, env3):
    """env3 maps leaves to jets (a0, a1, a2): value, first and second Taylor coefficient in time; returns a jet"""
    k = e[0]
    if k == 'c':
        return (e[1], Fr(0), Fr(0))
    if k in E.LEAVES0:
        return env3[(k,)]
    if k in E.LEAVES1:
        return env3[(k, e[1])]
    if k == 'neg':
        a = jet_eval(e[1], env3)
        return (-a[0], -a[1], -a[2])
    if k == 'pow':
        a = jet_eval(e[1], env3)
        out = (Fr(1), Fr(0), Fr(0))
        for _ in range(e[2]):
            out = jmul(out, a)
        return out
    a = jet_eval(e[1], env3)
    b_ = jet_eval(e[2], env3)
    if k == '+':
        return (a[0] + b_[0], a[1] + b_[1], a[2] + b_[2])
    if k == '-':
        return (a[0] - b_[0], a[1] - b_[1], a[2] - b_[2])
    if k == '*':
        return jmul(a, b_)
    if k == '/':
        # c = a / b : c0 = a0/b0 ; c1 = (a1 - c0 b1)/b0 ; c2 = (a2 - c0 b2 - c1 b1)/b0
        c0 = a[0] / b_[0]
        c1 = (a[1] - c0 * b_[1]) / b_[0]
        c2 = (a[2] - c0 * b_[2] - c1 * b_[1]) / b_[0]
        return (c0, c1, c2)
    raise ValueError(k)


def jmul(a, b_):
    return (a[0] * b_[0], a[0] * b_[1] + a[1] * b_[0], a[0] * b_[2] + a[1] * b_[1] + a[2] * b_[0])


def jet2_der(desc, e, env):
    """second time derivative of e along the dynamics: Taylor coefficients of the solution through env up to order 2
    (x(t+s) = x + s f + s²/2 f' …), then the s² coefficient of e times 2"""
    # first-order velocities
    v1 = {('t',): Fr(1)}
    for i, f in enumerate(desc['ode']):
        v1[('x', i)] = E.evaluate(f, env)
    for i in range(desc['nq']):
        v1[('xq', i)] = E.evaluate(desc['quad'][i], env)
    # second Taylor coefficient of the states: (d/dt rhs)/2
    a2 = {}
    for i, f in enumerate(desc['ode']):
        a2[('x', i)] = dual_eval(f, env, v1)[1] / 2
    for i in range(desc['nq']):
        a2[('xq', i)] = dual_eval(desc['quad'][i], env, v1)[1] / 2
    env3 = {}
    for key, val in env.items():
        env3[key] = (val, v1.get(key, Fr(0)), a2.get(key, Fr(0)))
    return 2 * jet_eval(e, env3)[2]


# ---------------------------------------------------------------------------------------------
INF_METHODS = [('ms', 'rk'), ('ss', 'rk'), ('dc', 'rk')]
INF_GRIDS = ['uniform', 'uniform', 'geometric', 'geometric_local', 'data', 'free', 'uniform_locT', 'geometric_locT']


def gen_inf_case(rng, plain=False, extra=None):
    """OCP with scalar states and one grid='inf' constraint: polynomial of degree <= 2 in the states (sums, products),
    frozen coefficients (parameters, controls), inf_der / inf_inert operands unless `plain`"""
    prof = {'methods': INF_METHODS, 'grids': INF_GRIDS, 'horizon': ['num', 'num', 'freeT'], 'obj_kinds': ['at_tf'], 'ncons': (0, 0),
            'features': {'qstate': 0.0, 'p': 0.7, 'pc': 0.3, 'pcp': 0.0, 'v': 0.0, 'vc': 0.0, 'vcp': 0.0, 'time': 0.7},
            'Ns': [1, 2, 2, 3], 'Ms': [1, 2, 2, 3], 'nxs': [1, 2, 2, 3], 'nus': [0, 1, 1, 2], 'degrees': [4], 'schemes': ['radau', 'legendre']}
    if extra:
        prof.update(extra)
    d = G.gen_case(rng, prof)
    nx = sum(d['states'])
    d['states'] = [1] * nx
    d['controls'] = [1] * sum(d['controls'])
    s = G.symbols(d)
    frozen = s['p'] + s['u'] + s['pc']
    ops = []
    terms = []
    used = set()
    for _ in range(rng.randint(1, 3)):
        kind = rng.choice(['lin', 'lin', 'quad', 'sq', 'frozen', 'cube'] + ([] if plain is True else ['der', 'der'] if plain == 'der' else ['der', 'inert', 'inert_coef']))
        c = E.C(G.coef(rng))
        xi = rng.choice(s['x'])
        xj = rng.choice(s['x'])
        # generator rule (DESIGN 4.1): no two terms with the same monomial (they could cancel into a constant-false row)
        key = {'lin': ('m', xi), 'sq': ('m', xi, xi), 'cube': ('m', xi, xi, xi), 'quad': ('m',) + tuple(sorted([xi, xj]))}.get(kind)
        if key is not None:
            if key in used:
                continue
            used.add(key)
        if kind == 'lin':
            terms.append(('*', c, xi))
        elif kind == 'quad':
            terms.append(('*', ('*', c, xi), xj))
        elif kind == 'sq':
            terms.append(('*', c, ('*', xi, xi)))
        elif kind == 'frozen' and frozen and not plain:
            # parameters and controls are not states: they enter through inf_inert (a bare parameter is a free symbol of
            # reinterpret_expr's function and is rejected)
            ops.append(('inert', rng.choice(frozen)))
            terms.append(('*', ('*', c, ('off', len(ops) - 1)), xi))
        elif kind == 'cube':
            terms.append(('*', c, ('pow', xi, 3)))
        elif kind == 'der':
            ops.append(('der', xi[1]))
            terms.append(('*', c, ('off', len(ops) - 1)))
        elif kind == 'inert':
            ops.append(('inert', G.poly(rng, s['x'] + s['p'], (1, 2), 2, must=s['x'])))
            terms.append(('*', c, ('off', len(ops) - 1)))
        elif kind == 'inert_coef':
            ops.append(('inert', rng.choice(s['x'])))
            terms.append(('*', ('*', c, ('off', len(ops) - 1)), xi))
        else:
            # a kind that does not apply here becomes a linear term: under the same no-duplicate rule
            if ('m', xi) in used:
                continue
            used.add(('m', xi))
            terms.append(('*', c, xi))
    if not terms:
        terms.append(('*', E.C(G.coef(rng)), rng.choice(s['x'])))
    body = terms[0]
    for t in terms[1:]:
        body = ('+', body, t)
    if not E.mentions(body, {'x'}):
        body = ('+', body, ('*', E.C(G.coef(rng)), rng.choice(s['x'])))
    # a number (or a frozen value) on the LEFT of a minus: `c - x1*x2`, as in `c - x1*x2 >= 0`
    r_ = rng.random()
    if r_ < 0.3:
        body = ('-', E.C(G.coef(rng)), body)
    elif r_ < 0.4 and not plain and s['p']:
        ops.append(('inert', rng.choice(s['p'])))
        body = ('-', ('off', len(ops) - 1), body)
    elif r_ < 0.5:
        body = ('-', body, E.C(G.coef(rng)))
    bound = E.C(G.coef(rng))
    if s['p'] and rng.random() < 0.3 and not plain:
        ops.append(('inert', rng.choice(s['p'])))
        bound = ('*', bound, ('off', len(ops) - 1))
    rel = rng.choice(['le', 'le', 'ge'] if plain else ['le', 'le', 'ge', 'two'])
    con = {'grid': 'inf', 'rel': rel, 'offs': [], 'infops': ops, 'first': True, 'last': True}
    if rel != 'two':
        # the same relation in every spelling Python offers: e <= c, e < c, c >= e, c > e (the solver sees no difference between < and <=)
        con['spelling'] = rng.choice([None, None, 'strict', 'flipped', 'flipped_strict'])
    if rel == 'two':
        con.update(a=[E.C(-abs(G.coef(rng)) - 1)], b=[body], c=[E.C(abs(G.coef(rng)) + 1)])
    else:
        con.update(a=[body], b=[bound])
    d['cons'] = [con]
    return d


@register
class C15(NlpCheck):
    pid = "C15"
    slices = ["inf-rows-vs-model", "sufficiency-on-rockit", "unsupported-rejected", "tightness-numeric"]
    uses_generated = True
    tags = ['inf']
    profiles = []
    R_quick, R_thorough = 2, 3

    def explanation(self):
        return ("theorems: Bernstein basis functions are non-negative on [0,1] and sum to one for every degree, so a bound on every "
                "Bernstein coefficient bounds the polynomial on [0,1]; the power->Bernstein conversion of the model represents the same "
                "polynomial (every degree) and the literal 5x5 matrix of add_inf_constraints (regenerated from the source) is that conversion "
                "for degree 4; polynomial sum/product/negation/derivative/argument scaling commute with evaluation, so the re-evaluated "
                "constraint (interval value) is the constraint along the step's state polynomial with every other symbol frozen; with the time "
                "scale equal to the integrator step (regenerated: infTscale = perStep, infDerDt = perStep) non-negative certificate rows imply the "
                "relation at every local time of the step, on any grid. correspondence: rows rockit generates for inf constraints vs the model's "
                "exact Bernstein coefficients (MS/SS rk, DC degree 4, all grids, M up to 3); the property itself on rockit: at random decision "
                "vectors, per integrator step, the smallest certificate slack never exceeds the smallest slack of the refined sample; "
                "unsupported problems (expl_euler, collocation degree != 4, equalities, division) raise; the certificate gap shrinks as M grows")

    def generated_obligations(self):
        from tools import extract
        tscale, dt, uses, matrix = extract.infcert()
        notes = ["infTscale=%s infDerDt=%s %s" % (tscale, dt, uses)]
        return 3, int(tscale == 'perStep') + int(dt == 'perStep') + int(all(uses.values()) and matrix is not None), notes

    def case_features(self, desc, kind, detail):
        m = desc['method']
        return {"kind": kind, "method": m['kind'], "grid": m['grid']['kind'], "uniform": m['grid']['kind'] == 'uniform'}

    def correspondence(self):
        for sl in (self.rows_slice, self.sufficiency_slice, self.rejected_slice, self.tightness_slice):
            for attempt in range(3):
                try:
                    sl()
                    break
                except OverflowError:
                    # an exact rational beyond the range of a double while formatting or comparing: not a finding; the slice is
                    # re-entered with the PRNG advanced (at most three times)
                    self.count("slice-restarted-after-overflow")

    def judge(self, desc, res):
        """rockit's Bernstein algebra multiplies and converts with basis-transformation matrices that it computes NUMERICALLY (float constants
        baked into the graph): for a cubic of a degree-4 step polynomial (degree 12) their rounding, amplified by the conditioning of the
        transformation, reaches 1e-8 of the row's size. The exact walk reproduces those constants as they are, the rational model has the exact
        ones. Rows left unmatched at the walk's 1e-9 tolerance get a second chance at 1e-6 of the row's size at every point; a row that is
        wrong (a seeded change moves it by O(1)) stays unmatched."""
        um = list(res.unmatched_model)
        ui = list(res.unmatched_impl)
        if um and len(um) <= len(ui) and all(t.startswith('inf') for t, _ in um):
            left = list(ui)
            ok = True
            for t, vec in um:
                hit = None
                for j, (idx, ivals) in enumerate(left):
                    if len(ivals) == len(vec) and all(abs(float(a) - float(b_)) <= 1e-6 * max(1.0, abs(float(a)), abs(float(b_))) for a, b_ in zip(vec, ivals)):
                        hit = j
                        break
                if hit is None:
                    ok = False
                    break
                left.pop(hit)
            if ok and len(left) == len(ui) - len(um) and not (self.whole and left):
                self.count("inf-rows-matched-at-float-noise", len(um))
                res.unmatched_model = []
                res.unmatched_impl = left
                res.problems = [(k, d) for k, d in res.problems if k != 'rows']
        return NlpCheck.judge(self, desc, res)

    def rows_slice(self):
        R = self.R_quick if self.tier == 'quick' else self.R_thorough
        n = 40 if self.tier == 'quick' else 500
        fails = 0
        for _ in range(n):
            desc = gen_inf_case(self.rng)
            self.count("inf-rel:%s" % desc['cons'][0]['rel'])
            for op in desc['cons'][0]['infops']:
                self.count("inf-op:%s" % op[0])
            if not self.handle(desc, R, "inf-rows-vs-model"):
                fails += 1
                if fails >= 2:
                    break

    # ------------------------------------------------------------------------------------------
    def inf_atoms_by_step(self, desc, b, pts, exact=True):
        """atoms of the rows the inf constraint generated, grouped per integrator step, at each point of pts.
        Found without any model: the rows of the twin problem (same OCP without the inf constraint) are a subsequence
        of the rows of the full problem; both are evaluated exactly, so equal rows are equal numbers."""
        twin = copy.deepcopy(desc)
        twin['cons'] = []
        b2 = B.build(twin)
        if b2.nx_opti != b.nx_opti or b2.np_opti != b.np_opti:
            return None
        per_pt = []
        for xv, pv in pts:
            if exact:
                f, g, lbg, ubg = B.eval_nlp(b, xv, pv)
                f2, g2, lbg2, ubg2 = B.eval_nlp(b2, xv, pv)
            else:
                def num(bb):
                    r = bb.Fnlp([float(v) for v in xv], [float(v) for v in pv])
                    return [[(float(v), abs(float(v))) for v in r[i].full().flatten()] for i in (1, 2, 3)]
                g, lbg, ubg = num(b)
                g2, lbg2, ubg2 = num(b2)
            rows = list(zip(g, lbg, ubg))
            rows2 = list(zip(g2, lbg2, ubg2))
            per_pt.append((rows, rows2))

        def same(u, v):
            if exact:
                return u == v
            return u == v or abs(u - v) <= 1e-12 * max(abs(u), abs(v))
        # align on the first point, confirm on the others
        rows, rows2 = per_pt[0]
        ptr = 0
        inf_idx = []
        for i, r in enumerate(rows):
            if ptr < len(rows2) and all(same(per_pt[q][0][i][0][0], per_pt[q][1][ptr][0][0]) and same(per_pt[q][0][i][1][0], per_pt[q][1][ptr][1][0])
                                        and same(per_pt[q][0][i][2][0], per_pt[q][1][ptr][2][0]) for q in range(len(pts))):
                ptr += 1
            else:
                inf_idx.append(i)
        if ptr != len(rows2):
            return None
        m = desc['method']
        nsteps = m['N'] * m['M']
        if not inf_idx or len(inf_idx) % nsteps:
            return {"count": len(inf_idx), "steps": nsteps, "chunks": None}
        per = len(inf_idx) // nsteps
        out = []
        for q in range(len(pts)):
            rws = per_pt[q][0]
            chunks = []
            for st in range(nsteps):
                at = []
                for i in inf_idx[st * per:(st + 1) * per]:
                    at += B.atoms_of_impl([rws[i][0]], [rws[i][1]], [rws[i][2]])
                chunks.append(at)
            out.append(chunks)
        return {"count": len(inf_idx), "steps": nsteps, "chunks": out}

    def sufficiency_case(self, desc, refine=10, npts=2):
        """→ None | (what, payload) : the property itself on rockit"""
        import casadi as ca
        b = B.build(desc)
        con = desc['cons'][0]
        pts = []
        for _ in range(npts):
            xv, pv, fv = En.rand_point(self.rng, b)
            pts.append((xv, pv))
        try:
            info = self.inf_atoms_by_step(desc, b, pts)
        except (ZeroDivisionError, OverflowError):
            return None
        if info is None:
            return None
        if info["chunks"] is None:
            return ("grid='inf' constraint produced %d rows for %d integrator steps (not a whole number per step)" % (info["count"], info["steps"]),
                    {"desc": desc})
        # slack of the declared relation: b - a >= 0  (ge: a - b)
        a, bb = con['a'][0], con['b'][0]
        slack = ('-', bb, a) if con['rel'] == 'le' else ('-', a, bb)
        has_der = bool(con.get('infops'))
        m = desc['method']
        nsteps = m['N'] * m['M']
        nx = sum(desc['states'])
        with B.quiet():
            if has_der:
                # inf_der(x_i) is the time derivative of the step's own state polynomial (degree 4): recover it exactly from
                # refine+... samples of the state inside the step (5 points before the right end determine the quartic)
                assert refine >= 5 and all(op[0] == 'der' for op in con['infops'])
                ts, vs = b.ocp.sample(b.Xsym, grid='integrator', refine=refine)
            else:
                ts, vs = b.ocp.sample(E.to_casadi(slack, b.sym_base), grid='integrator', refine=refine)
            W = Walker(ca.Function('s', [b.opti.x, b.opti.p], [ca.vec(ca.MX(ts)), ca.vec(ca.MX(vs))]))
        for q, (xv, pv) in enumerate(pts):
            try:
                res = W([xv, pv])
            except (ZeroDivisionError, OverflowError):
                continue
            tv, sv = res[0], res[1]
            if has_der:
                npt = len(tv)
                xs = [[sv[i * nx + r][0] for r in range(nx)] for i in range(npt)]
                out = [None] * npt
                for st in range(nsteps):
                    base = list(range(st * refine, st * refine + 5))
                    tt = [tv[i][0] for i in base]
                    for i in list(range(st * refine, (st + 1) * refine)):
                        env = {('x', r): lagrange_value(tt, [xs[j][r] for j in base], tv[i][0]) for r in range(nx)}
                        for mi, op in enumerate(con['infops']):
                            env[('off', mi)] = lagrange_derivative(tt, [xs[j][op[1]] for j in base], tv[i][0])
                        out[i] = (E.evaluate(slack, env), 1.0 + sum(abs(fl(v)) for v in env.values()) ** 2)
                out[npt - 1] = out[npt - 2]      # the final point is covered by the theorem; not re-derived here
                sv = out
            for st in range(nsteps):
                atoms = info["chunks"][q][st]
                cert = min(a_[0] for a_ in atoms)
                idx = list(range(st * refine, (st + 1) * refine)) + ([nsteps * refine] if st == nsteps - 1 else [])
                for i in idx:
                    val, mg = sv[i]
                    tol = 1e-7 * (1.0 + mg + max(a_[1] for a_ in atoms))
                    if fl(val) < fl(cert) - tol:
                        return ("the smallest slack of the grid='inf' rows of integrator step %d is %s, but the refined sample of the constrained expression "
                                "at t=%s (inside that step) has slack %s: rows satisfied with that margin do not imply the constraint there"
                                % (st, fl(cert), fl(tv[i][0]), fl(val)),
                                {"desc": desc, "x": xv, "p": pv, "step": st, "t": tv[i][0], "certificate_min": cert, "sample_slack": val})
        return None

    def sufficiency_slice(self):
        name = "sufficiency-on-rockit"
        n = 25 if self.tier == 'quick' else 300
        for _ in range(n):
            with_der = self.rng.random() < 0.35
            desc = gen_inf_case(self.rng, plain='der' if with_der else True)
            try:
                bad = self.sufficiency_case(desc, refine=6 if desc['cons'][0].get('infops') else 10)
            except OverflowError:
                continue
            except Exception as ex:
                self.slice_ok[name] = False
                self.violation("rockit raised on a supported grid='inf' problem: %s: %s" % (type(ex).__name__, str(ex)[:300]), {"desc": desc},
                               {"kind": "exception", "method": desc['method']['kind']})
                return
            self.record_case(desc, True, {"method": desc['method'], "constraint": E.to_tokens(desc['cons'][0]['a'][0]), "rel": desc['cons'][0]['rel']})
            self.count("sufficiency-checked")
            if bad:
                self.slice_ok[name] = False
                # shrink: fewer intervals / steps while it still fails
                cur = desc
                for _ in range(6):
                    improved = False
                    for key in ('N', 'M'):
                        if cur['method'][key] > 1 and cur['method']['grid']['kind'] != 'data':
                            c2 = copy.deepcopy(cur)
                            c2['method'][key] -= 1
                            try:
                                b2 = self.sufficiency_case(c2, refine=6 if c2['cons'][0].get('infops') else 10)
                            except Exception:
                                b2 = None
                            if b2:
                                cur, bad, improved = c2, b2, True
                                break
                    if not improved:
                        break
                self.violation(bad[0], bad[1], self.case_features(cur, "inf-not-sufficient", None))
                return

    def rejected_slice(self):
        name = "unsupported-rejected"
        n = 8 if self.tier == 'quick' else 60
        for _ in range(n):
            kind = self.rng.choice(['euler', 'dc_degree', 'eq', 'division', 'time', 'time'])
            if kind == 'euler':
                desc = gen_inf_case(self.rng, plain=True, extra={'methods': [('ms', 'euler'), ('ss', 'euler')]})
            elif kind == 'dc_degree':
                desc = gen_inf_case(self.rng, plain=True, extra={'methods': [('dc', 'rk')], 'degrees': [1, 2, 3, 5]})
            elif kind == 'time':
                # a symbol that varies INSIDE a control interval and is not a state (time itself): freezing it at the interval start
                # would not bound the constraint between grid points, so it must be rejected like any other unsupported operand
                desc = gen_inf_case(self.rng, plain=True)
                c = desc['cons'][0]
                if self.rng.random() < 0.5:
                    c['a'] = [('+', c['a'][0], ('*', E.C(G.coef(self.rng)), ('t',)))]
                else:
                    c['a'] = [('+', c['a'][0], ('*', ('*', E.C(G.coef(self.rng)), ('t',)), ('x', 0)))]
            elif kind == 'eq':
                desc = gen_inf_case(self.rng, plain=True)
                desc['cons'][0]['rel'] = 'eq'
            else:
                desc = gen_inf_case(self.rng, plain=True)
                c = desc['cons'][0]
                x0 = ('x', 0)
                c['a'] = [('/', c['a'][0], ('+', E.C(1), ('*', x0, x0)))]
            self.evaluations += 1
            self.count("unsupported:" + kind)
            raised = False
            try:
                if kind in ('eq', 'division', 'time'):
                    b = B.build(desc)
                    bad = None
                else:
                    bad = self.sufficiency_case(desc)
            except Exception:
                raised = True
                bad = None
            # model must reject as well (euler / dc degree: wrong coefficient count is a rejection of the matrix product)
            if raised:
                continue
            if kind in ('eq', 'division', 'time'):
                self.slice_ok[name] = False
                self.violation("a grid='inf' constraint with %s was accepted: no sufficient condition can be produced for it and it was not rejected"
                               % ({"eq": "an equality", "division": "a division", "time": "an explicit dependence on ocp.t"}[kind]), {"desc": desc}, {"kind": "inf-accepted", "what": kind})
                return
            if bad:
                self.slice_ok[name] = False
                self.violation("unsupported configuration accepted and not sufficient: " + bad[0], bad[1], {"kind": "inf-accepted", "what": kind})
                return

    def tightness_slice(self):
        """numeric support (a test, not a theorem): the gap between the certificate and the true extremum shrinks as M grows"""
        import casadi as ca
        name = "tightness-numeric"
        n = 3 if self.tier == 'quick' else 20
        for _ in range(n):
            base = gen_inf_case(self.rng, plain=True, extra={'methods': [('ms', 'rk')], 'grids': ['uniform', 'geometric'], 'Ns': [2], 'horizon': ['num'],
                                                             'features': {'p': 0.0, 'pc': 0.0, 'qstate': 0.0, 'time': 0.5}})
            if E.mentions(base['cons'][0]['a'][0], {'pow'}):
                continue      # degree-12 Bernstein forms: rockit's numeric basis transformation is too noisy for a gap measurement
            base['T'] = ('num', Fr(1, 2))      # a short horizon: the steps reach the asymptotic regime within the M range used
            gaps = []
            xv = None
            for M in (1, 4, 16):
                d = copy.deepcopy(base)
                d['method']['M'] = M
                try:
                    b = B.build(d)
                except Exception:
                    gaps = None
                    break
                if xv is None:
                    # a tame point: small states and controls (single shooting: x0 and the controls are the decision vector)
                    xv = [Fr(self.rng.randint(-3, 3), 4) for _ in range(b.nx_opti)]
                    pv = [Fr(1) for _ in range(b.np_opti)]
                if len(xv) != b.nx_opti:
                    gaps = None
                    break
                try:
                    info = self.inf_atoms_by_step(d, b, [(xv, pv)], exact=True)
                except (ZeroDivisionError, OverflowError):
                    gaps = None
                    break
                if not info or not info.get("chunks"):
                    gaps = None
                    break
                con = d['cons'][0]
                a, bb = con['a'][0], con['b'][0]
                slack = ('-', bb, a) if con['rel'] == 'le' else ('-', a, bb)
                with B.quiet():
                    ts, vs = b.ocp.sample(E.to_casadi(slack, b.sym_base), grid='integrator', refine=16)
                    try:
                        F = ca.Function('s', [b.opti.x, b.opti.p], [ca.vec(ca.MX(vs))])
                    except RuntimeError:
                        gaps = None      # an inactive decision variable (in neither f nor g) is not part of opti.x
                        break
                sv = [float(v) for v in F([float(v) for v in xv], [float(v) for v in pv]).full().flatten()]
                nsteps = d['method']['N'] * M
                gap = 0.0
                for st in range(nsteps):
                    coeffs = [fl(a_[0]) for a_ in info["chunks"][0][st]]
                    cert = min(coeffs)
                    # the 16 refined samples of a step leave out its end point (the next sample belongs to the next step, and under
                    # multiple shooting to another state): the first and last Bernstein coefficients ARE the values at the two ends
                    # (C15.first_coefficient_is_start_value, last_coefficient_is_end_value), so they join the samples — without them the measured gap has an O(h) floor
                    true = min(sv[st * 16:(st + 1) * 16 + (1 if st == nsteps - 1 else 0)] + [coeffs[0], coeffs[-1]])
                    gap = max(gap, true - cert)
                gaps.append(gap)
            self.evaluations += 1
            if not gaps:
                continue
            self.count("tightness-runs")
            # the gap must have dropped by M=16 (it is quadratic in the step for smooth data: a factor 256 in the limit; demand 2)
            if max(gaps[0], gaps[1]) > 1e-5 and not (gaps[2] <= 0.5 * max(gaps[0], gaps[1]) + 1e-7):
                self.slice_ok[name] = False
                self.violation("certificate gap does not shrink as M grows: gaps for M=1,4,16 are %s" % gaps, {"desc": base, "gaps": gaps},
                               {"kind": "inf-not-tight"})
                return


# ---------------------------------------------------------------------------------------------
# C12: stage trees
def rebind(tb, stage, desc):
    """a Built for a clone: shares the template's symbols, bound to the clone stage"""
    b = B.Built()
    b.desc = desc
    b.ocp = stage
    for k in ('states', 'qstates', 'controls', 'algs', 'params', 'vars', 'fx', 'fu', 'fz', 'fq', 'fp', 'fv'):
        setattr(b, k, getattr(tb, k))
    fx, fu, fz, fq, fp, fv = b.fx, b.fu, b.fz, b.fq, b.fp, b.fv

    def sym_base(kind, i):
        tab = {'x': fx, 'u': fu, 'z': fz, 'xq': fq, 'p': fp[''], 'pc': fp['control'], 'pcp': fp['control+'],
               'v': fv[''], 'vc': fv['control'], 'vcp': fv['control+']}
        if kind in tab:
            return tab[kind][i]
        return {'t': stage.t, 'T': stage.T, 't0': stage.t0, 'DT': stage.DT, 'DTc': stage.DT_control}[kind]
    b.sym_base = sym_base
    return b


def stage_fingerprint(st):
    """what a template is, as far as the public accessors and declared lists show"""
    return {
        'states': len(st.states), 'qstates': len(st.qstates), 'controls': len(st.controls), 'algebraics': len(st.algebraics),
        'parameters': {k: len(v) for k, v in st.parameters.items() if len(v)},
        'variables': {k: len(v) for k, v in st.variables.items() if len(v)},
        'constraints': {k: [str(c) for c, _, _ in v] for k, v in st._constraints.items() if len(v)},
        'objective': str(st._objective), 'ders': sorted(str(v) for v in st._state_der.values()),
        'placeholders': len(st._placeholders), 'T': str(st._T), 't0': str(st._t0), 'stages': len(st._stages),
        'param_vals': len(st._param_vals), 'initial': len(st._initial),
    }


STAGE_PROF = {'methods': [('ms', 'rk'), ('ms', 'euler'), ('ss', 'rk'), ('dc', 'rk'), ('ms', 'next')], 'grids': ['uniform', 'geometric', 'free', 'uniform_locT', 'data'],
              'horizon': ['num', 'freeT', 'freet0', 'freeboth'], 'obj_kinds': ['at_tf', 'integral', 'sum', 'at_t0'], 'ncons': (0, 2),
              'con_grids': ['control', 'integrator', 'point'],
              'features': {'qstate': 0.4, 'p': 0.5, 'pc': 0.3, 'pcp': 0.2, 'v': 0.4, 'vc': 0.3, 'vcp': 0.2, 'time': 0.8, 'dae': 0.2},
              'Ns': [1, 2, 3], 'Ms': [1, 2], 'nxs': [1, 2, 3], 'nus': [0, 1, 2], 'degrees': [1, 2, 3], 'horizon_in_signals': 0.3}


def gen_multi(rng, extra=None):
    prof = dict(STAGE_PROF)
    if extra:
        prof.update(extra)
    md = {'templates': [], 'stages': [], 'refs': [], 'pvars': rng.choice([0, 1, 1, 2]), 'pparams': rng.choice([0, 1, 1]), 'pcons': [], 'pobj': None}
    n = rng.choice([2, 2, 3])
    use_template = rng.random() < 0.6
    if use_template:
        md['templates'].append(G.gen_case(rng, prof))
        if rng.random() < 0.6:
            # a guess on the TEMPLATE, written in the template's own time: every instance must evaluate it on its own time grid
            td0 = md['templates'][0]
            i0 = rng.randrange(len(td0['states']))
            td0['initial_list'] = [('x', i0, ('expr', [('+', ('*', E.C(G.coef(rng)), ('t',)), E.C(G.coef(rng))) for _r in range(td0['states'][i0])]))]
    for i in range(n):
        if use_template and (i < 2 and rng.random() < 0.8):
            td = md['templates'][0]
            d = copy.deepcopy(td)
            ov = []
            for key in ('t0', 'T'):
                if rng.random() < 0.6:
                    ov.append(key)
                    if rng.random() < 0.4:
                        d[key] = ('free', Fr(rng.randint(1, 6), 2))
                    else:
                        d[key] = ('num', Fr(rng.randint(1, 8), 2))
            md['stages'].append({'desc': d, 'clone_of': 0, 'override': ov})
        else:
            md['stages'].append({'desc': G.gen_case(rng, prof), 'clone_of': None})
    descs = [s['desc'] for s in md['stages']]

    def ref(r):
        md['refs'].append(r)
        return ('ph', len(md['refs']) - 1)

    def stage_ph(i, kind):
        """a fresh placeholder at_t0/at_tf(x_j) of stage i"""
        d = descs[i]
        nx = sum(d['states'])
        e = ('x', rng.randrange(nx))
        if rng.random() < 0.3:
            e = ('*', E.C(G.coef(rng)), ('*', e, ('x', rng.randrange(nx))))
        return ref(('ph', i, kind, e))
    pv = [('v', j) for j in range(md['pvars'])]
    pp = [('p', j) for j in range(md['pparams'])]
    # coupling pattern: consecutive stages are joined in state; in time when one side is free
    for i in range(n - 1):
        if rng.random() < 0.85:
            md['pcons'].append({'rel': 'eq', 'a': stage_ph(i, 'at_tf'), 'b': stage_ph(i + 1, 'at_t0')})
        free_side = descs[i + 1]['t0'][0] == 'free' or descs[i]['T'][0] == 'free' or descs[i]['t0'][0] == 'free'
        if free_side and rng.random() < 0.8:
            md['pcons'].append({'rel': 'eq', 'a': ref(('t0', i + 1)), 'b': ref(('tf', i))})
    if pv:
        for v in pv:
            i = rng.randrange(n)
            bound = E.C(G.coef(rng))
            if pp and rng.random() < 0.7:
                bound = ('*', bound, rng.choice(pp))       # the parent's own parameter next to the parent's own variable
            md['pcons'].append({'rel': rng.choice(['le', 'eq']), 'a': ('+', v, ('*', E.C(G.coef(rng)), stage_ph(i, rng.choice(['at_tf', 'at_t0'])))),
                                'b': bound})
    elif pp:
        i = rng.randrange(n)
        md['pcons'].append({'rel': 'le', 'a': stage_ph(i, 'at_tf'), 'b': ('*', E.C(abs(G.coef(rng)) + 1), pp[0])})
    terms = []
    for i in range(n):
        if descs[i]['T'][0] == 'free' and rng.random() < 0.7:
            terms.append(('*', E.C(abs(G.coef(rng))), ref(('T', i))))
        if rng.random() < 0.4:
            r = stage_ph(i, 'at_tf')
            terms.append(('*', E.C(G.coef(rng)), ('*', r, r)))
    for v in pv:
        terms.append(('*', v, v))
        if pp:
            terms.append(('*', rng.choice(pp), v))
    if terms:
        e = terms[0]
        for t in terms[1:]:
            e = ('+', e, t)
        md['pobj'] = e
    return md


class MultiBuilt:
    pass


TREE_EDITS = ['child_subject_to', 'child_add_objective', 'child_set_T', 'child_clear_constraints', 'add_clone', 'add_direct_stage']


def apply_tree_edit(mb, edit, pick, rockit):
    """one specification change made through a CHILD stage object (or by adding a stage) of a built tree"""
    import casadi as ca
    i = pick % len(mb.bs)
    b = mb.bs[i]
    st = b.ocp
    x0 = b.states[0][0]
    if edit == 'child_subject_to':
        st.subject_to(x0 <= 123.5)
    elif edit == 'child_add_objective':
        st.add_objective(3 * st.at_tf(x0) ** 2)
    elif edit == 'child_set_T':
        if b.desc['T'][0] != 'num':
            st.subject_to(x0 <= 77.25)
        else:
            st.set_T(float(b.desc['T'][1]) * 1.5)
    elif edit == 'child_clear_constraints':
        st.clear_constraints()
        st.subject_to(st.at_t0(x0) == 0.5)
    elif edit == 'add_clone':
        if mb.templates:
            mb.ocp.stage(mb.templates[0].ocp, t0=0.25, T=1.75)
        else:
            st.subject_to(x0 >= -321.0)
    elif edit == 'add_direct_stage':
        s2 = mb.ocp.stage(t0=0, T=2)
        y = s2.state()
        w = s2.control()
        s2.set_der(y, -y + w)
        s2.add_objective(s2.integral(y ** 2 + w ** 2))
        s2.subject_to(s2.at_t0(y) == 1)
        s2.method(rockit.MultipleShooting(N=2, M=1, intg='rk'))


def dae_shooting_history_slice(chk, name):
    """histories on a DAE under a shooting method with a CasADi DAE integrator (idas): guesses for the algebraic variable are
    parameters of the NLP there (the integrator's starting point for z). [set_initial z]; solve; set_initial of some symbol (live);
    a specification change; transcribe — against the same declarations without the intermediate solve (both real rockit)."""
    import casadi as ca
    rockit = B.import_rockit()
    n = 4 if chk.tier == 'quick' else 40
    for it in range(n):
        rng = chk.rng
        desc = gen_smooth_ode(rng, nx=rng.choice([1, 2]), control=True, dae=True)
        desc['method'] = {'kind': rng.choice(['ms', 'ss']), 'N': rng.choice([2, 3]), 'M': 1, 'intg': 'idas', 'degree': 2, 'scheme': 'radau', 'grid': {'kind': 'uniform'}}
        desc['t0'] = ('num', Fr(1, 2))
        desc['T'] = ('num', Fr(rng.randint(2, 4), 2))
        zg = rng.randint(2, 9) / 2.0
        live = rng.choice(['x', 'u', 'z'])
        lv = rng.randint(-4, 4) / 2.0 or 0.5
        change = rng.choice(['subject_to', 'add_objective'])

        def declare(with_solve):
            b = B.build(copy.deepcopy(desc), transcribe=False)
            o = b.ocp
            with B.quiet():
                o.subject_to(o.at_t0(b.states[0]) == 0.5)
                o.set_initial(b.algs[0], zg)
                if with_solve:
                    try:
                        o.solve_limited()
                    except Exception:
                        pass
                tgt = {'x': b.states[0], 'u': b.controls[0], 'z': b.algs[0]}[live]
                o.set_initial(tgt, lv)
                if change == 'subject_to':
                    o.subject_to(b.states[0] <= 100.0)
                else:
                    o.add_objective(o.at_tf(b.states[0]) ** 2)
            return o
        try:
            evolved = declare(True)
            fresh = declare(False)
            msg = nlp_compare_ocps(evolved, fresh, rng, "DAE under %s(intg='idas'): 'set_initial(z); solve; set_initial(%s); %s; transcribe' vs the same calls without the solve"
                                   % (desc['method']['kind'], live, change))
        except Exception as ex:
            chk.slice_ok[name] = False
            chk.violation("DAE-shooting history raised: %s: %s" % (type(ex).__name__, str(ex)[:250].replace("\n", " ")), {"desc": desc},
                          {"kind": "dae-history-exception"})
            return
        chk.evaluations += 1
        chk.count("dae-shooting-history:%s" % live)
        chk.signatures.add("dae-history-%d" % it)
        if msg:
            chk.slice_ok[name] = False
            chk.violation(msg, {"desc": desc, "z_guess": zg, "live": live, "change": change}, {"kind": "dae-history", "live": live})
            return


def tree_history_slice(chk, name):
    """solve (or query); ONE change made through a child stage object or by adding a stage; solve — against the same calls made
    before the first transcription (both through the real rockit): the NLP the second solve works on must be the same"""
    rockit = B.import_rockit()
    n = 6 if chk.tier == 'quick' else 60
    for it in range(n):
        md = gen_multi(chk.rng, {'features': {'qstate': 0.2, 'p': 0.3, 'pc': 0.2, 'pcp': 0.0, 'v': 0.3, 'vc': 0.2, 'vcp': 0.0, 'time': 0.6, 'dae': 0.0}})
        if it % 3 == 1 and not md['templates']:
            md = gen_multi(chk.rng)
        edit = TREE_EDITS[it % len(TREE_EDITS)]
        pick = chk.rng.randrange(8)
        try:
            evolved = build_multi(copy.deepcopy(md), transcribe=False)
            fresh = build_multi(copy.deepcopy(md), transcribe=False)
            with B.quiet():
                if it % 2 == 0:
                    try:
                        evolved.ocp.solve_limited()
                    except Exception:
                        pass
                else:
                    evolved.ocp._transcribed
                apply_tree_edit(evolved, edit, pick, rockit)
                apply_tree_edit(fresh, edit, pick, rockit)
            msg = nlp_compare_ocps(evolved.ocp, fresh.ocp, chk.rng, "tree after 'transcribe; %s; transcribe' vs the same calls before the first transcription" % edit)
        except (ZeroDivisionError, OverflowError):
            continue
        except Exception as ex:
            chk.slice_ok[name] = False
            chk.violation("stage-tree history '%s' raised: %s: %s" % (edit, type(ex).__name__, str(ex)[:250].replace("\n", " ")), {"md": md, "edit": edit},
                          {"kind": "tree-history-exception", "edit": edit})
            return
        chk.evaluations += 1
        chk.count("tree-history:" + edit)
        chk.signatures.add("tree-history-%d-%s" % (it, edit))
        if msg:
            chk.slice_ok[name] = False
            chk.violation(msg, {"md": md, "edit": edit, "pick": pick}, {"kind": "tree-history", "edit": edit})
            return


def declared_nx(opti):
    """number of decision variables DECLARED on the Opti stack (opti.nx counts only those that occur in f or g)"""
    import casadi as ca
    adv = opti.advanced
    return sum(s.numel() for s in adv.symvar() if adv.get_meta(s).type == ca.OPTI_VAR)


def build_multi(md, transcribe=True):
    import casadi as ca
    rockit = B.import_rockit()
    mb = MultiBuilt()
    mb.md = md
    with B.quiet():
        ocp = rockit.Ocp()
        mb.ocp = ocp
        mb.templates = [B.build(td, stage_factory=lambda **kw: rockit.Stage(**kw)) for td in md['templates']]
        mb.fp_before = [stage_fingerprint(tb.ocp) for tb in mb.templates]
        mb.bs = []
        for sd in md['stages']:
            if sd.get('clone_of') is not None:
                tb = mb.templates[sd['clone_of']]
                st = ocp.stage(tb.ocp, **B.horizon_kwargs(sd['desc'], keys=sd['override']))
                b = rebind(tb, st, sd['desc'])
            else:
                b = B.build(sd['desc'], stage_factory=ocp.stage)
            mb.bs.append(b)
        mb.fp_after_clone = [stage_fingerprint(tb.ocp) for tb in mb.templates]
        # every child gets ITS OWN values for its global parameters, assigned after all children exist (instances of one template
        # must not share a value store)
        mb.child_pvals = []
        for i, b in enumerate(mb.bs):
            vals = []
            for j, q in enumerate(b.params['']):
                v = ca.DM([0.25 * (1 + i) + 0.5 * j + 0.125 * r for r in range(q.numel())])
                b.ocp.set_value(q, v)
                vals += [float(x_) for x_ in v.full().flatten()]
            mb.child_pvals.append(vals)
        mb.pv = [ocp.variable() for _ in range(md['pvars'])]
        mb.pp = [ocp.parameter() for _ in range(md.get('pparams', 0))]
        for q in mb.pp:
            ocp.set_value(q, 1.5)
        ref_syms = []
        for r in md['refs']:
            if r[0] == 'ph':
                _, i, kind, e = r
                st = mb.bs[i].ocp
                ce = E.to_casadi(e, mb.bs[i].sym_base)
                ref_syms.append(st.at_tf(ce) if kind == 'at_tf' else st.at_t0(ce))
            else:
                st = mb.bs[r[1]].ocp
                ref_syms.append({'T': st.T, 't0': st.t0, 'tf': st.tf}[r[0]])

        def sym_parent(kind, i):
            if kind == 'ph':
                return ref_syms[i]
            if kind == 'v':
                return mb.pv[i]
            if kind == 'p':
                return mb.pp[i]
            raise KeyError(kind)
        for c in md['pcons']:
            A = E.to_casadi(c['a'], sym_parent)
            Bv = E.to_casadi(c['b'], sym_parent)
            ocp.subject_to(A == Bv if c['rel'] == 'eq' else A <= Bv)
        if md['pobj'] is not None:
            ocp.add_objective(E.to_casadi(md['pobj'], sym_parent))
        ocp.solver('ipopt', {'ipopt.print_level': 0, 'print_time': False, 'ipopt.max_iter': 0, 'ipopt.sb': 'yes'})
        if not transcribe:
            return mb
        ocp._transcribed
        aug = ocp._augmented
        for i, b in enumerate(mb.bs):
            B.finish(b, master=ocp, meth=aug._stages[i]._method)
        mb.fp_after_transcribe = [stage_fingerprint(tb.ocp) for tb in mb.templates]
        opti = ocp._method.opti
        mb.opti = opti
        mb.nx_opti = opti.x.numel()
        mb.np_opti = opti.p.numel()
        mb.nx_declared = declared_nx(opti)
        mb.Wnlp = Walker(ca.Function('nlp', [opti.x, opti.p], [opti.f, opti.g, opti.lbg, opti.ubg]))
        if mb.pv:
            mb.Wpv = Walker(ca.Function('pv', [opti.x, opti.p], [ca.vertcat(*[ocp.value(v) for v in mb.pv])]))
        if mb.pp:
            mb.Wpp = Walker(ca.Function('pp', [opti.x, opti.p], [ca.vertcat(*[ocp.value(v) for v in mb.pp])]))
    return mb


def stage_model_desc(md, i):
    """the description of child i as the model sees it: its own description plus the placeholders the parent created on it"""
    d = copy.deepcopy(md['stages'][i]['desc'])
    idx = {}
    for k, r in enumerate(md['refs']):
        if r[0] == 'ph' and r[1] == i:
            d['phs'] = list(d['phs']) + [(r[2], r[3])]
            idx[k] = len(d['phs']) - 1
    return d, idx


def multi_lines(md, physs, pvals, ppvals=()):
    L = ["mbegin"]
    ref_idx = {}
    for i in range(len(md['stages'])):
        d, idx = stage_model_desc(md, i)
        ref_idx.update(idx)
        L += Mo.desc_lines(d)
        L += Mo.point_lines(d, physs[i])
        L.append("stage_push")
    for k, r in enumerate(md['refs']):
        if r[0] == 'ph':
            L.append("mref ph %d %d" % (r[1], ref_idx[k]))
        else:
            L.append("mref %s %d" % (r[0], r[1]))
    L.append("mV " + Mo.rats(pvals))
    L.append("mP " + Mo.rats(ppvals))
    for cid, c in enumerate(md['pcons']):
        L.append("mcon %d %s 1" % (cid, c['rel']))
        L.append("ma " + E.to_tokens(c['a']))
        L.append("mb " + E.to_tokens(c['b']))
    if md['pobj'] is not None:
        L.append("mobj " + E.to_tokens(md['pobj']))
    return L


def compare_multi(md, mb, driver, rng, R=2):
    """→ (problems, n_model_atoms, n_impl_atoms, exact): whole-multiset comparison of the tree's NLP"""
    pts = []
    impl_pts, model_pts, fpairs = [], [], []
    for _ in range(R):
        for attempt in range(20):
            xv = [rnd(rng) for _ in range(mb.nx_opti)]
            pv = [rnd(rng, True) for _ in range(mb.np_opti)]
            try:
                f, g, lbg, ubg = mb.Wnlp([xv, pv])
                physs = []
                for b in mb.bs:
                    fv = [rnd(rng) for _ in range(sum(s.numel() for s in b.free))] if b.free else None
                    physs.append(B.eval_phys(b, xv, pv, fv))
                pvals = [v[0] for v in mb.Wpv([xv, pv])[0]] if mb.pv else []
                ppvals = [v[0] for v in mb.Wpp([xv, pv])[0]] if getattr(mb, 'pp', None) else []
                break
            except ZeroDivisionError:
                if attempt == 19:
                    raise
        pts.append((xv, pv))
        impl_pts.append(B.atoms_of_impl(g, lbg, ubg))
        driver.send(multi_lines(md, physs, pvals, ppvals))
        mf, rows = Mo.parse_nlp(driver.run('multi'))
        model_pts.append(rows)
        fpairs.append((mf, f[0]))
    problems = []
    exact = 0
    for mf, (fi, mag) in fpairs:
        if mf == fi:
            exact += 1
        elif not close(mf, fi, mag):
            problems.append(('objective', {'model': float(mf), 'impl': float(fi)}))
            break
    n_imp = len(impl_pts[0])
    if any(len(a) != n_imp for a in impl_pts):
        problems.append(('rows', {'why': 'atom count varies between points'}))
        return problems, 0, n_imp, exact, pts
    impl_atoms = [[impl_pts[r][i] for r in range(R)] for i in range(n_imp)]
    model_atoms = []
    for ri, (tag, at) in enumerate(model_pts[0]):
        for ai in range(len(at)):
            model_atoms.append((tag, [model_pts[r][ri][1][ai] for r in range(R)]))
    um, ui, ex = Mo.match_atoms(model_atoms, impl_atoms)
    um = [(t, v) for t, v in um if not (all(x == v[0] for x in v) and v[0] >= 0)]
    if um or ui:
        problems.append(('rows', {'model_only': [(t, [float(x) for x in v]) for t, v in um][:8],
                                  'impl_only': [(i, [float(v[0]) for v in impl_atoms[i]]) for i in ui][:8]}))
    return problems, len(model_atoms), n_imp, exact + ex, pts


@register
class C12(Check):
    pid = "C12"
    slices = ["tree-nlp-vs-model", "template-unchanged", "solution-readback", "tree-histories", "one-method-object-for-several-stages", "each-stage-on-its-own-grid"]
    uses_generated = True

    def explanation(self):
        return ("theorems: the NLP of a stage tree is the concatenation of the children's NLPs and the parent's own rows, the objective the sum; "
                "a child's rows and placeholder values are functions of that child's description and point only (frame: replacing another "
                "child changes nothing); parent expressions see a child only through its placeholders, T, t0, tf; clone = direct declaration "
                "with the overridden horizon; over the regenerated table of Stage.clone: every specification container is carried over, nested "
                "containers are deep-copied, every container that can mention the template's time placeholders goes through the substitution. "
                "correspondence: EQUALITY of the whole atom multiset and of the objective between rockit's multi-stage NLP and the model's tree "
                "NLP (children on different methods/grids/horizons, templates with integrals, quadrature states, time in right-hand sides, "
                "several clones, parent variables, state and time coupling), children's physical quantities read back through stage.sample; "
                "number of decision variables = sum over the children + parent; template fingerprints before/after cloning and transcription; "
                "sol(stage).sample vs the symbolic map")

    def generated_obligations(self):
        from tools import extract
        tab = extract.clonetable()
        bad = [k for k, (kind, sub) in tab.items() if not extract.clone_requirement_ok(k, kind, sub)]
        return len(tab), len(tab) - len(bad), ["clone table violations: %s" % bad] if bad else []

    def shared_method_slice(self):
        """each stage transcribes on its own method: ONE method object handed to several stages (ocp.method is documented not to modify its
        argument) gives the same NLP as separate, equal method objects"""
        import casadi as ca
        rockit = B.import_rockit()
        name = "one-method-object-for-several-stages"
        n = 3 if self.tier == 'quick' else 24
        rng = self.rng
        for it in range(n):
            kind = ['ms', 'dc', 'ss'][it % 3]
            N, M = rng.randint(2, 3), rng.randint(1, 2)
            nst = rng.choice([2, 2, 3])
            objk = ['sum', 'integral'][it % 2]

            def build(shared):
                def mk():
                    return {'ms': rockit.MultipleShooting(N=N, M=M, intg='rk'), 'ss': rockit.SingleShooting(N=N, M=M, intg='rk'),
                            'dc': rockit.DirectCollocation(N=N, M=M, degree=2)}[kind]
                with B.quiet():
                    ocp = rockit.Ocp()
                    one = mk()
                    stages = []
                    for si in range(nst):
                        st = ocp.stage(t0=float(si), T=1.0 + 0.5 * si)
                        x = st.state(); u = st.control()
                        st.set_der(x, -(1 + si) * x + u)
                        st.add_objective(st.sum(u ** 2 + x ** 2) + st.at_tf(x) ** 2 if objk == 'sum' else st.integral(u ** 2 + (si + 1) * x ** 2))
                        st.subject_to(-2 <= (u <= 2))
                        if si == 0:
                            st.subject_to(st.at_t0(x) == 1)
                        st.method(one if shared else mk())
                        stages.append((st, x))
                    for (a, xa), (b_, xb) in zip(stages, stages[1:]):
                        ocp.subject_to(a.at_tf(xa) == b_.at_t0(xb))
                    ocp.solver('ipopt', {'ipopt.print_level': 0, 'print_time': False, 'ipopt.max_iter': 0, 'ipopt.sb': 'yes'})
                return ocp
            try:
                msg = nlp_compare_ocps(build(True), build(False), rng, "%d stages given ONE %s method object vs separate equal method objects" % (nst, kind))
            except Exception as ex:
                msg = "%d stages given ONE %s method object: %s: %s" % (nst, kind, type(ex).__name__, str(ex)[:250].replace("\n", " "))
            self.evaluations += 1
            self.signatures.add("shared-method-%d" % it)
            self.count("shared-method-object:" + kind)
            if msg:
                self.slice_ok[name] = False
                self.violation(msg, {"kind": kind, "N": N, "M": M, "stages": nst, "objective": objk}, {"kind": "shared-method-object"})
                return

    def correspondence(self):
        self.tree_slice()
        self.readback_slice()
        self.history_slice()
        self.shared_method_slice()
        self.density_siblings_slice()

    def density_siblings_slice(self):
        """each stage on its own grid: sibling stages with DensityGrid's of DIFFERENT densities and the SAME N (declared directly, or two
        instances of one template, the second given its own method) — the nodes of each stage equidistribute that stage's own density
        (closed-form cumulative density of a polynomial; a numeric test with the tolerance of C06's density check)"""
        import casadi as ca
        import numpy as np
        rockit = B.import_rockit()
        from rockit.sampling_method import DensityGrid
        name = "each-stage-on-its-own-grid"
        n = 2 if self.tier == 'quick' else 12
        rng = self.rng
        for it in range(n):
            templated = it % 2 == 1
            N = rng.choice([3, 4, 5])
            coefs = [(1.0, 0.0, float(rng.choice([6, 12, 20]))), (float(rng.choice([1, 2])), float(rng.choice([8, 16])), 0.0), (2.0, 1.0, 3.0)]
            rng.shuffle(coefs)
            coefs = coefs[:2] if templated else coefs
            spans = [(0.5 * i + 0.25, rng.choice([1.0, 2.0, 1.5])) for i in range(len(coefs))]
            info = {"templated": templated, "N": N, "densities": coefs, "spans": spans}

            def grid(c):
                t = ca.MX.sym('tau')
                return DensityGrid(c[0] + c[1] * t + c[2] * t * t)

            def declare(st, c):
                x = st.state(); u = st.control()
                st.set_der(x, -x + u)
                st.add_objective(st.integral(x ** 2 + u ** 2))
                st.subject_to(st.at_t0(x) == 1)
                st.method(rockit.MultipleShooting(N=N, M=1, intg='rk', grid=grid(c)))
                return x
            try:
                with B.quiet():
                    ocp = rockit.Ocp()
                    stages, xs = [], []
                    if templated:
                        tmpl = rockit.Stage(t0=0, T=1)
                        x = declare(tmpl, coefs[0])
                        for i, c in enumerate(coefs):
                            st = ocp.stage(tmpl, t0=spans[i][0], T=spans[i][1])
                            if i > 0:
                                st.method(rockit.MultipleShooting(N=N, M=1, intg='rk', grid=grid(c)))
                            stages.append(st); xs.append(x)
                    else:
                        for i, c in enumerate(coefs):
                            st = ocp.stage(t0=spans[i][0], T=spans[i][1])
                            xs.append(declare(st, c)); stages.append(st)
                    ocp.solver('ipopt', {'ipopt.print_level': 0, 'print_time': False, 'ipopt.max_iter': 0, 'ipopt.sb': 'yes'})
                    ocp._transcribed
                    opti = ocp._method.opti if hasattr(ocp._method, 'opti') else ocp.opti
                    times = [np.array(opti.debug.value(st.sample(x_, grid='control')[0], opti.initial())).flatten() for st, x_ in zip(stages, xs)]
            except Exception as ex:
                self.slice_ok[name] = False
                self.violation("sibling stages with density grids raised %s: %s" % (type(ex).__name__, str(ex)[:250].replace("\n", " ")), {"case": info}, {"kind": "exception", "what": "density-siblings"})
                return
            self.evaluations += 1
            self.signatures.add("density-siblings-%d" % it)
            self.count("density-siblings:" + ("template-instances" if templated else "direct"))
            for i, (c, ts) in enumerate(zip(coefs, times)):
                F = lambda t_: c[0] * t_ + c[1] * t_ ** 2 / 2 + c[2] * t_ ** 3 / 3
                t0_, T_ = spans[i]
                err = None
                if len(ts) != N + 1:
                    err = "stage %d has %d control nodes, N+1 = %d" % (i, len(ts), N + 1)
                else:
                    for k in range(N + 1):
                        nk = (ts[k] - t0_) / T_
                        if abs(F(nk) / F(1.0) - k / N) > 1e-4:
                            err = ("stage %d (density %s + %s tau + %s tau^2, N=%d): node %d at normalized time %.6f carries cumulative density %.6f, its own density demands %.6f"
                                   % (i, c[0], c[1], c[2], N, k, nk, F(nk) / F(1.0), k / N))
                            break
                if err:
                    self.slice_ok[name] = False
                    self.violation("sibling stages with different density grids and the same N: " + err, {"case": info, "times": [list(map(float, t)) for t in times]},
                                   {"kind": "density-siblings", "templated": templated})
                    return

    def history_slice(self):
        tree_history_slice(self, "tree-histories")

    def features(self, md, kind):
        return {"kind": kind, "clones": sum(1 for s in md['stages'] if s.get('clone_of') is not None),
                "methods": sorted(set(s['desc']['method']['kind'] for s in md['stages']))}

    def run_multi(self, md, R):
        mb = build_multi(md)
        problems, nm, ni, ex, pts = compare_multi(md, mb, self.driver, self.rng, R)
        return mb, problems, nm, ni, ex, pts

    def tree_slice(self):
        name = "tree-nlp-vs-model"
        n = 25 if self.tier == 'quick' else 300
        R = 2
        fails = 0
        for it in range(n):
            md = gen_multi(self.rng)
            try:
                mb, problems, nm, ni, ex, pts = self.run_multi(md, R)
            except (ZeroDivisionError, OverflowError):
                continue
            except Exception as ex_:
                self.slice_ok[name] = False
                feats = self.features(md, "exception")
                tds = md['templates']
                feats["template_time_dependent"] = bool(tds) and any(E.mentions(e, {'t'}) for e in tds[0]['ode'] + tds[0]['quad'] + [pe for k, pe in tds[0]['phs'] if k == 'integral'])
                feats["template_quadrature_state"] = bool(tds) and tds[0]['nq'] > 0
                self.violation("rockit raised on a well-posed stage tree: %s: %s" % (type(ex_).__name__, str(ex_)[:300].replace("\n", " ")),
                               {"md": md}, feats)
                fails += 1
                if fails >= 3:
                    return
                continue
            self.evaluations += 1
            self.exact_rows += ex
            self.signatures.add(repr([G.signature(s['desc']) for s in md['stages']] + [len(md['pcons']), md['pvars']])[:4000])
            self.count("stages:%d" % len(md['stages']))
            self.count("clones:%d" % sum(1 for s in md['stages'] if s.get('clone_of') is not None))
            for s in md['stages']:
                self.count("child-method:%s" % s['desc']['method']['kind'])
                self.count("child-T:%s" % s['desc']['T'][0])
            if len(self.samples) < 3:
                self.samples.append({"stages": [{"method": s['desc']['method'], "clone_of": s.get('clone_of'), "T": s['desc']['T'][0]} for s in md['stages']],
                                     "parent_constraints": len(md['pcons']), "model_atoms": nm, "impl_atoms": ni})
            # number of decision variables: nothing beyond the children's and the parent's
            msg = None
            if getattr(mb, 'pp', None):
                # the parent's own parameter reads back the value the user set, whatever the decision vector is
                # (a consistent swap of parent symbols would be invisible to the NLP comparison, which reads the values back)
                import casadi as ca
                with B.quiet():
                    pcur = [Fr(v) for v in ca.DM(mb.opti.debug.value(mb.opti.p, mb.opti.initial())).full().flatten().tolist()]
                xv = [rnd(self.rng) for _ in range(mb.nx_opti)]
                got = [v[0] for v in mb.Wpp([xv, pcur])[0]]
                if any(g != Fr(3, 2) for g in got):
                    msg = "ocp.value(q) of the parent's own parameter q (set to 1.5) evaluates to %s at a random decision vector" % [float(g) for g in got]
            if msg is None:
                # every child's own parameters read back the values given to THAT child
                import casadi as ca
                with B.quiet():
                    pcur = [Fr(v) for v in ca.DM(mb.opti.debug.value(mb.opti.p, mb.opti.initial())).full().flatten().tolist()]
                for i, b in enumerate(mb.bs):
                    if not mb.child_pvals[i] or 'P' not in getattr(b, 'phys_names', []):
                        continue
                    try:
                        xv = [rnd(self.rng) for _ in range(mb.nx_opti)]
                        fv = None
                        if b.free:
                            # a parameter that occurs in neither f nor g has no slot in opti.p; Opti still stores the value it was given
                            fv = []
                            with B.quiet():
                                for s_ in b.free:
                                    fv += [Fr(v) for v in ca.DM(mb.opti.debug.value(s_, mb.opti.initial())).full().flatten(order='F').tolist()]
                        got = [float(v) for v in B.eval_phys(b, xv, pcur, fv)['P'][0]]
                    except (ZeroDivisionError, OverflowError, KeyError, RuntimeError):
                        continue
                    self.count("child-parameter-values-read-back")
                    if len(got) != len(mb.child_pvals[i]) or any(abs(a - w) > 1e-12 for a, w in zip(got, mb.child_pvals[i])):
                        msg = "the parameters of child stage %d (%s) read back %s, the values given to that child are %s" % (
                            i, "instance of template %d" % md['stages'][i]['clone_of'] if md['stages'][i].get('clone_of') is not None else "declared directly",
                            got, mb.child_pvals[i])
                        break
            if msg is None:
                # an instance of a template starts where the same stage declared directly starts (guesses of the template included)
                import casadi as ca
                for i, b in enumerate(mb.bs):
                    sd = md['stages'][i]
                    if sd.get('clone_of') is None or not sd['desc'].get('initial_list'):
                        continue
                    try:
                        with B.quiet():
                            x0m = [Fr(v) for v in ca.DM(mb.opti.debug.value(mb.opti.x, mb.opti.initial())).full().flatten().tolist()]
                            pm = [Fr(v) for v in ca.DM(mb.opti.debug.value(mb.opti.p, mb.opti.initial())).full().flatten().tolist()]
                        def free_start(bb, opti_):
                            # a declared variable that is in neither f nor g has no slot in opti.x; Opti still stores its starting value
                            if not bb.free:
                                return None
                            out_ = []
                            with B.quiet():
                                for s_ in bb.free:
                                    out_ += [Fr(v) for v in ca.DM(opti_.debug.value(s_, opti_.initial())).full().flatten(order='F').tolist()]
                            return out_
                        fvm = free_start(b, mb.opti)
                        Xm = B.eval_phys(b, x0m, pm, fvm)['X']
                        dt_ = copy.deepcopy(sd['desc'])
                        dt_['param_values'] = {('', j): ca.DM([0.25 * (1 + i) + 0.5 * j + 0.125 * r for r in range(sz)]) for j, sz in enumerate(dt_['params'][''])}
                        bt = B.build(dt_)
                        with B.quiet():
                            x0t = [Fr(v) for v in ca.DM(bt.opti.debug.value(bt.opti.x, bt.opti.initial())).full().flatten().tolist()]
                            pt = [Fr(v) for v in ca.DM(bt.opti.debug.value(bt.opti.p, bt.opti.initial())).full().flatten().tolist()]
                        fvt = free_start(bt, bt.opti)
                        Xt = B.eval_phys(bt, x0t, pt, fvt)['X']
                    except (ZeroDivisionError, OverflowError, KeyError):
                        continue
                    self.count("instance-start-vs-direct-declaration")
                    try:
                        a_ = [float(v) for col in Xm for v in col]
                        b__ = [float(v) for col in Xt for v in col]
                    except OverflowError:
                        continue
                    if sd['desc']['method']['kind'] == 'ss':
                        n0 = sum(sd['desc']['states'])
                        a_, b__ = a_[:n0], b__[:n0]
                    if len(a_) != len(b__) or any(abs(u_ - v_) > 1e-9 * max(1.0, abs(v_)) for u_, v_ in zip(a_, b__)):
                        msg = "child stage %d (an instance of a template with a guess written in the template's time) starts its states at %s, the same stage declared directly at %s" % (i, a_, b__)
                        break
            if msg is None and problems:
                kind, det = problems[0]
                msg = ("multi-stage objective is not the parent's objective plus the children's: %s" % det) if kind == 'objective' else \
                      ("multi-stage NLP rows are not the disjoint union of the children's rows and the parent's: %s" % str(det)[:600])
            elif msg is None:
                exp_nx = self.expected_nx(md)
                if exp_nx is not None and exp_nx != mb.nx_declared:
                    msg = "the multi-stage NLP declares %d decision variables, the children and the parent account for %d" % (mb.nx_declared, exp_nx)
            if msg is None:
                for k, (f0, f1, f2) in enumerate(zip(mb.fp_before, mb.fp_after_clone, mb.fp_after_transcribe)):
                    if f0 != f1 or f0 != f2:
                        diff = [key for key in f0 if f0[key] != f1[key] or f0[key] != f2[key]]
                        self.slice_ok["template-unchanged"] = False
                        self.violation("cloning/transcribing changed the template: %s differ" % diff, {"md": md, "before": f0, "after_clone": f1, "after_transcribe": f2},
                                       self.features(md, "template-changed"))
                        return
            if msg:
                self.slice_ok[name] = False
                self.violation(msg, {"md": md, "points": pts}, self.features(md, "tree-nlp"))
                fails += 1
                if fails >= 2:
                    return

    def expected_nx(self, md):
        """decision variables of the children transcribed one by one, plus the parent's own"""
        total = md['pvars']
        for s in md['stages']:
            try:
                b = B.build(copy.deepcopy(s['desc']))
            except Exception:
                return None
            total += declared_nx(b.opti)
        return total

    def readback_slice(self):
        import casadi as ca
        import numpy as np
        name = "solution-readback"
        n = 4 if self.tier == 'quick' else 40
        for it in range(n):
            md = gen_multi(self.rng, {'methods': [('ms', 'rk'), ('dc', 'rk')], 'features': {'qstate': 0.0, 'dae': 0.0, 'time': 0.0, 'p': 0.3},
                                      'obj_kinds': ['at_tf'], 'ncons': (0, 0)})
            try:
                mb = build_multi(md)
            except Exception:
                continue
            with B.quiet():
                try:
                    sol = mb.ocp.solve_limited()
                except Exception:
                    sol = mb.ocp.non_converged_solution
                gist = np.array(sol.gist).flatten()
            for i, b in enumerate(mb.bs):
                with B.quiet():
                    tn, vn = sol(b.ocp).sample(b.Xsym, grid='control')
                    ts, vs = b.ocp.sample(b.Xsym, grid='control')
                    F = ca.Function('f', [mb.ocp.gist], [ts, vs])
                    tv, vv = F(gist)
                self.evaluations += 1
                self.count("readback-stage")
                a1 = np.array(vn).reshape(np.array(tn).shape[0], -1)
                a2 = np.array(vv).T.reshape(a1.shape)
                if not (np.allclose(np.array(tn).flatten(), np.array(tv).flatten(), rtol=1e-10, atol=1e-12) and np.allclose(a1, a2, rtol=1e-9, atol=1e-12)):
                    self.slice_ok[name] = False
                    self.violation("sol(stage %d).sample differs from that stage's symbolic samples at the solver's vector" % i, {"md": md, "stage": i},
                                   self.features(md, "readback"))
                    return


# ---------------------------------------------------------------------------------------------
def nlp_compare_ocps(ocpA, ocpB, rng, what):
    """two rockit Ocp objects: same NLP (objective, rows as a multiset), parameter vector, starting point?"""
    import casadi as ca
    import numpy as np
    with B.quiet():
        ocpA._transcribed
        ocpB._transcribed
    oA, oB = ocpA._method.opti, ocpB._method.opti
    if oA.x.numel() != oB.x.numel():
        return "%s: %d decision variables vs %d" % (what, oA.x.numel(), oB.x.numel())
    if oA.p.numel() != oB.p.numel():
        return "%s: %d parameters vs %d" % (what, oA.p.numel(), oB.p.numel())
    if oA.ng != oB.ng:
        return "%s: %d constraint rows vs %d" % (what, oA.ng, oB.ng)
    FA = ca.Function('nlpA', [oA.x, oA.p], [oA.f, oA.g, oA.lbg, oA.ubg])
    FB = ca.Function('nlpB', [oB.x, oB.p], [oB.f, oB.g, oB.lbg, oB.ubg])

    def vec(o, e):
        return ca.DM(o.debug.value(e, o.initial())).full().flatten().tolist() if e.numel() else []
    with B.quiet():
        pA, pB, xA0, xB0 = vec(oA, oA.p), vec(oB, oB.p), vec(oA, oA.x), vec(oB, oB.x)
    if any(abs(a - b_) > 1e-12 * max(1, abs(b_)) for a, b_ in zip(pA, pB)):
        return "%s: parameter values %s vs %s" % (what, pA, pB)
    if any(abs(a - b_) > 1e-12 * max(1, abs(b_)) for a, b_ in zip(xA0, xB0)):
        return "%s: starting point %s vs %s" % (what, xA0, xB0)
    for _ in range(2):
        xv = [rng.choice([-2, -1.5, -1, -0.5, 0.5, 1, 1.5, 2]) for _ in range(oB.x.numel())]
        pv = [rng.choice([0.5, 1, 1.5, 2]) for _ in range(oB.p.numel())]
        rA = [np.array(v).flatten() for v in FA(xv, pv)]
        rB = [np.array(v).flatten() for v in FB(xv, pv)]
        if not (np.all(np.isfinite(rA[0])) and np.all(np.isfinite(rB[0])) and np.all(np.isfinite(rA[1])) and np.all(np.isfinite(rB[1]))):
            continue
        if abs(rA[0][0] - rB[0][0]) > 1e-9 * max(1.0, abs(rB[0][0])):
            return "%s: objective %r vs %r at the same point" % (what, rA[0][0], rB[0][0])
        for name, a, b_ in (("g", rA[1], rB[1]), ("lbg", rA[2], rB[2]), ("ubg", rA[3], rB[3])):
            bad = [i for i in range(len(a)) if not (a[i] == b_[i] or abs(a[i] - b_[i]) <= 1e-9 * max(1.0, abs(a[i]), abs(b_[i])))]
            if bad:
                return "%s: %s[%d] = %r vs %r at the same point (%d entries differ)" % (what, name, bad[0], a[bad[0]], b_[bad[0]], len(bad))
    return None


def solver_settings(ocp):
    m = ocp._method
    return (getattr(m, '_solver', None), repr(sorted((getattr(m, '_solver_options', None) or {}).items())))


def accessors(ocp):
    def names(lst):
        return [(s.name(), tuple(s.shape)) for s in lst]
    out = {'states': names(ocp.states), 'qstates': names(ocp.qstates), 'controls': names(ocp.controls), 'algebraics': names(ocp.algebraics),
           'parameters': {k: names(v) for k, v in ocp.parameters.items() if len(v)},
           'variables': {k: names(v) for k, v in ocp.variables.items() if len(v)},
           'x': tuple(ocp.x.shape), 'u': tuple(ocp.u.shape), 'z': tuple(ocp.z.shape), 'nstages': len(ocp._stages)}
    out['children'] = [accessors_stage(s) for s in ocp._stages]
    return out


def accessors_stage(st):
    def names(lst):
        return [(s.name(), tuple(s.shape)) for s in lst]
    return {'states': names(st.states), 'qstates': names(st.qstates), 'controls': names(st.controls),
            'variables': {k: names(v) for k, v in st.variables.items() if len(v)}, 'method': type(st._method).__name__,
            'N': getattr(st._method, 'N', None), 'M': getattr(st._method, 'M', None)}


def method_settings(ocp):
    def one(st):
        m = st._method
        d = {'class': type(m).__name__}
        for k in ('N', 'M', 'intg', 'degree', 'scheme'):
            if hasattr(m, k):
                d[k] = repr(getattr(m, k))
        if hasattr(m, 'time_grid'):
            g = m.time_grid
            d['grid'] = type(g).__name__
            for k in ('_min', '_max', 'localize_t0', 'localize_T', '_growth_factor', 'local'):
                if hasattr(g, k):
                    d['grid.' + k] = repr(getattr(g, k))
        return d
    return [one(ocp)] + [one(s) for s in ocp._stages]


C18_PROF = {'methods': [('ms', 'rk'), ('ms', 'euler'), ('ss', 'rk'), ('dc', 'rk'), ('dc', 'rk'), ('ms', 'next')],
            'grids': ['uniform', 'geometric', 'geometric_local', 'data', 'free', 'uniform_locT', 'uniform_locT0', 'geometric_locT'],
            'horizon': ['num', 'freeT', 'freet0', 'freeboth', 'param'], 'obj_kinds': ['at_tf', 'at_t0', 'integral', 'sum', 'sum_plus', 'int_control'],
            'ncons': (0, 3), 'con_grids': ['control', 'integrator', 'point'], 'offset_prob': 0.3, 'scale_vars': 0.4, 'scale_prob': 0.3, 'minmax_prob': 0.3,
            'features': {'qstate': 0.5, 'p': 0.6, 'pc': 0.4, 'pcp': 0.3, 'v': 0.5, 'vc': 0.4, 'vcp': 0.3, 'time': 0.8, 'dae': 0.5},
            'Ns': [1, 2, 3], 'Ms': [1, 2], 'nxs': [1, 2, 3], 'nus': [0, 1, 2], 'degrees': [1, 2, 3, 4], 'horizon_in_signals': 0.3}


@register
class C18(Check):
    pid = "C18"
    level = "other"
    slices = ["roundtrip-single-stage", "roundtrip-multi-stage", "original-undamaged", "roundtrip-spline-method", "roundtrip-dae-shooting"]
    uses_generated = True

    def explanation(self):
        return ("PARTIAL. theorems (history model, table regenerated from the source): save untranscribes and writes no specification attribute; after "
                "any history, save, and any further history the original's next solve works on the specification the calls say (save_harmless); given "
                "that unpickling returns the pickled specification, the loaded object's first solve works on the problem the original's next solve "
                "works on, wherever in the history save happened (roundtrip). NOT a theorem: byte-level fidelity of pickle + CasADi's serializer — "
                "that is what the correspondence observes: Ocp.load(save(ocp)) vs a freshly built OCP of the same description and vs the original: "
                "objective, g, lbg, ubg entry by entry at random points, parameter vector, starting point, solver name and options, method/grid "
                "settings, accessor lists (names, shapes, order) — for every generated feature mix (all methods and grids, DAE, scaling, all "
                "parameter/variable kinds, free/parametric horizon, offsets, guesses, bare-symbol placeholders, multi-stage trees with clones) and "
                "save positions: before transcription, after transcription, after a solve, after a solve followed by a specification change; "
                "the original re-transcribes to the same NLP and solves afterwards")

    def gen(self):
        d = G.gen_case(self.rng, C18_PROF)
        s = G.symbols(d)
        # bare-symbol placeholders (at_tf of a quadrature state / algebraic / variable) in the objective
        extra = []
        if d['nq'] and self.rng.random() < 0.7:
            extra.append(('at_tf', ('xq', 0)))
        if s['z'] and self.rng.random() < 0.4:
            extra.append(('at_tf', s['z'][0]))
        if s['vcp'] and self.rng.random() < 0.5:
            extra.append(('at_tf', s['vcp'][0]))
        if self.rng.random() < 0.4:
            extra.append(('at_t0', s['x'][0]))
        for k, e in extra:
            d['phs'].append((k, e))
            t = ('*', E.C(G.coef(self.rng)), ('ph', len(d['phs']) - 1))
            d['obj'] = ('+', d['obj'], t) if d['obj'] is not None else t
        # a few constant guesses
        gl = []
        for i, n in enumerate(d['states']):
            if self.rng.random() < 0.5:
                gl.append(('x', i, ('num', [self.rng.randint(-8, 8) / 4.0 for _ in range(n)])))
        for i, n in enumerate(d['controls']):
            if self.rng.random() < 0.5:
                gl.append(('u', i, ('num', [self.rng.randint(-8, 8) / 4.0 for _ in range(n)])))
        d['initial_list'] = gl
        return d

    def correspondence(self):
        self.single_slice()
        self.multi_slice()
        self.spline_slice()
        self.dae_shooting_slice()

    def spline_slice(self):
        """SplineMethod problems (integrator chains, a bspline parameter and variable): the same round trip, every save position"""
        import casadi as ca
        rockit = B.import_rockit()
        name = "roundtrip-spline-method"
        n = 4 if self.tier == 'quick' else 24
        for it in range(n):
            rng = self.rng
            L = rng.randint(1, 3)
            N = rng.randint(2, 4)
            T = rng.choice([1.0, 2.0, 3.0])
            order = rng.randint(1, 3)
            pv = [rng.randint(-6, 6) / 4.0 for _ in range(N + order)]
            geo = rng.random() < 0.5
            position = self.POSITIONS[it % 4]

            def make():
                with B.quiet():
                    ocp = rockit.Ocp(t0=0.5, T=T)
                    xs = [ocp.state() for _ in range(L)]
                    u = ocp.control()
                    for a, b_ in zip(xs, xs[1:] + [u]):
                        ocp.set_der(a, b_)
                    sp = ocp.parameter(grid='bspline', order=order)
                    ocp.set_value(sp, ca.DM([pv]))
                    sv = ocp.variable(grid='bspline', order=2)
                    ocp.add_objective(ocp.sum(u ** 2 + (sv - sp) ** 2, include_last=False) + ocp.at_tf(sum(x ** 2 for x in xs)))
                    ocp.subject_to(ocp.at_t0(xs[0]) == 1)
                    ocp.subject_to(-3 <= (u <= 3), include_last=False)
                    ocp.method(rockit.SplineMethod(N=N, grid=rockit.GeometricGrid(2) if geo else rockit.UniformGrid()))
                    ocp.solver('ipopt', {'ipopt.print_level': 0, 'print_time': False, 'ipopt.max_iter': 0, 'ipopt.sb': 'yes'})
                return ocp
            try:
                msg = self.roundtrip(make, position, "spline")
            except (ZeroDivisionError, OverflowError):
                continue
            self.evaluations += 1
            self.signatures.add("spline-%d-%s" % (it, position))
            self.count("spline-position:" + position)
            if msg:
                self.slice_ok[name] = False
                self.violation("SplineMethod: " + msg, {"L": L, "N": N, "T": T, "order": order, "position": position}, {"kind": "roundtrip-spline", "position": position})
                return

    def dae_shooting_slice(self):
        """a DAE under a shooting method with a DAE integrator (the guess for the algebraic variable is a parameter of the NLP there):
        guess for z; transcribe / solve; a LIVE set_initial of some symbol (the warm start); save; load"""
        rockit = B.import_rockit()
        name = "roundtrip-dae-shooting"
        n = 4 if self.tier == 'quick' else 24
        for it in range(n):
            rng = self.rng
            desc = gen_smooth_ode(rng, nx=rng.choice([1, 2]), control=True, dae=True)
            desc['method'] = {'kind': rng.choice(['ms', 'ss']), 'N': rng.choice([2, 3]), 'M': 1, 'intg': ['idas', 'collocation'][it % 2], 'degree': 2, 'scheme': 'radau',
                              'grid': {'kind': 'uniform'}}
            desc['t0'] = ('num', Fr(1, 2))
            desc['T'] = ('num', Fr(rng.randint(2, 4), 2))
            zg = rng.randint(2, 9) / 2.0
            lives = [['u'], ['x'], ['z'], ['u', 'x']][(it // 2) % 4]
            lv = rng.randint(-4, 4) / 2.0 or 0.5
            position = ['after-transcribe', 'after-solve'][(it // 2) % 2]
            syms = {}

            def make(desc=desc, zg=zg):
                b = B.build(copy.deepcopy(desc), transcribe=False)
                o = b.ocp
                with B.quiet():
                    o.subject_to(o.at_t0(b.states[0]) == 0.5)
                    o.set_initial(b.algs[0], zg)
                syms[id(o)] = {'x': b.states[0], 'u': b.controls[0], 'z': b.algs[0]}
                return o

            def live(o, lives=lives, lv=lv):
                for k in lives:
                    o.set_initial(syms[id(o)][k], lv)
            try:
                msg = self.roundtrip(make, position, "dae-shooting", live=live)
            except (ZeroDivisionError, OverflowError):
                continue
            self.evaluations += 1
            self.signatures.add("dae-shooting-%d-%s" % (it, position))
            self.count("dae-shooting:%s:%s" % (desc['method']['intg'], "+".join(lives)))
            if msg:
                self.slice_ok[name] = False
                self.violation("DAE under %s(intg=%r), z guess, %s, live set_initial(%s), save/load: %s" % (desc['method']['kind'], desc['method']['intg'], position, lives, msg),
                               {"desc": desc, "z_guess": zg, "live": lives, "position": position}, {"kind": "roundtrip-dae-shooting", "position": position})
                return

    def roundtrip(self, make, position, label, remethod=None, live=None):
        """make() -> (ocp, extra_edit or None). → error message | None"""
        import casadi as ca
        rockit = B.import_rockit()
        ocp = make()
        ref = make()                 # the same description, never saved: the reference problem
        fname = "c18_%d.rockit" % self.evaluations
        with B.quiet():
            if position in ('after-transcribe', 'after-solve', 'after-solve-edit', 'after-solve-new-method'):
                ocp._transcribed
            if position in ('after-solve', 'after-solve-edit', 'after-solve-new-method'):
                for o in ((ocp,) if live is not None else (ocp, ref)):
                    try:
                        o.solve_limited()
                    except Exception:
                        pass
            if position == 'after-solve-edit':
                for o in (ocp, ref):
                    o.add_objective(o.at_tf(o.states[0][0]) if len(o.states) else 0 * o.T)
            if position == 'after-solve-new-method' and remethod is not None:
                for o in (ocp, ref):
                    remethod(o)
            if position in ('after-transcribe', 'after-solve') and len(ocp.parameters.get('', [])) >= 1:
                # parameter values replaced while the problem is transcribed (the MPC pattern): one symbol per call, or one call on a
                # concatenation of two symbols; the file must carry the NEW values
                ps = ocp.parameters['']
                two = len(ps) >= 2
                vals = [self.rng.randint(1, 12) / 4.0 for _ in range(ps[0].numel() + (ps[1].numel() if two else 0))]
                for o in (ocp, ref):
                    q = o.parameters['']
                    if two:
                        o.set_value(ca.vertcat(ca.vec(q[0]), ca.vec(q[1])), ca.DM(vals))
                    else:
                        o.set_value(q[0], ca.DM(vals))
                self.count("values-replaced-while-transcribed:" + ("concatenation" if two else "one-symbol"))
            if live is not None:
                # the reference receives the same calls as pure specification (it is never transcribed before the comparison)
                ocp._transcribed
                live(ocp)
                live(ref)
            set_before = solver_settings(ocp)
            acc_before = accessors(ocp)
            meth_before = method_settings(ocp)
            try:
                ocp.save(fname)
            except Exception as ex:
                return "ocp.save raised (%s): %s: %s" % (position, type(ex).__name__, str(ex)[:200].replace("\n", " "))
            try:
                ocp2 = rockit.Ocp.load(fname)
            except Exception as ex:
                return "Ocp.load raised (%s): %s: %s" % (position, type(ex).__name__, str(ex)[:200].replace("\n", " "))
        # the loaded OCP is compared with the reference transcribed afresh, as the loaded one is (save itself untranscribes the original):
        # what an already transcribed object does NOT refresh when values change is the business of C09/C10/C13, not of save/load
        with B.quiet():
            ref._untranscribe()
        # the loaded object must be usable through its own accessors like the original: the same calls on it and on the reference
        try:
            with B.quiet():
                for o in (ocp2, ref):
                    self.post_load_edits(o)
        except Exception as ex:
            return "the loaded OCP refused a call on its own symbols (%s): %s: %s" % (position, type(ex).__name__, str(ex)[:200].replace("\n", " "))
        try:
            msg = nlp_compare_ocps(ocp2, ref, self.rng, "loaded OCP vs the same problem never saved (%s)" % position)
        except Exception as ex:
            return "transcribing the loaded OCP raised (%s): %s: %s" % (position, type(ex).__name__, str(ex)[:200].replace("\n", " "))
        if msg:
            return msg
        if solver_settings(ocp2) != set_before:
            return "solver settings of the loaded OCP %s differ from the original's %s" % (solver_settings(ocp2), set_before)
        if method_settings(ocp2) != meth_before:
            return "method settings of the loaded OCP %s differ from the original's %s" % (method_settings(ocp2), meth_before)
        acc2 = accessors(ocp2)
        if acc2 != acc_before:
            diff = [k for k in acc_before if acc_before[k] != acc2.get(k)]
            return "accessors of the loaded OCP differ from the original's in %s: %s vs %s" % (diff, {k: acc2.get(k) for k in diff}, {k: acc_before[k] for k in diff})
        # the original is not damaged: same NLP as the reference (which received the post-load calls: make them on the original too),
        # and it still solves
        try:
            with B.quiet():
                self.post_load_edits(ocp)
            msg = nlp_compare_ocps(ocp, ref, self.rng, "original after save vs the same problem never saved (%s)" % position)
        except Exception as ex:
            return "re-transcribing the original after save raised (%s): %s: %s" % (position, type(ex).__name__, str(ex)[:200].replace("\n", " "))
        if msg:
            self.slice_ok["original-undamaged"] = False
            return msg
        with B.quiet():
            try:
                ocp.solve_limited()
            except Exception as ex:
                if "return_status" not in str(ex) and "Maximum" not in str(ex) and "Infeasible" not in str(ex) and "solver" not in str(ex).lower():
                    self.slice_ok["original-undamaged"] = False
                    return "solving the original after save raised: %s: %s" % (type(ex).__name__, str(ex)[:200])
        return None

    def post_load_edits(self, o):
        """calls that go through membership tests of the accessor lists (set_value on a parameter of each kind, set_initial on a
        state and a control), with values that differ from the ones saved; applied identically to the loaded OCP and the reference"""
        import casadi as ca
        stages = [o] + list(o._stages)
        for st in stages:
            for gk, plist in list(st.parameters.items()):
                for p_ in list(plist)[:1]:
                    cols = {'': 1, 'control': getattr(st._method, 'N', 1), 'control+': getattr(st._method, 'N', 1) + 1}.get(gk)
                    if cols is None:
                        continue
                    val = ca.DM.ones(p_.numel(), cols) * 1.25 if gk else ca.DM.ones(p_.numel(), 1) * 1.25
                    st.set_value(p_, val)
            for x_ in list(st.states)[:1]:
                st.set_initial(x_, ca.DM.ones(x_.numel(), 1) * 0.75)
            if type(st._method).__name__ == 'SplineMethod':
                continue    # only the head of an integrator chain carries decision variables there: a guess for a derivative is refused
            for u_ in list(st.controls)[:1]:
                st.set_initial(u_, ca.DM.ones(u_.numel(), 1) * (-0.5))

    POSITIONS = ['before', 'after-transcribe', 'after-solve', 'after-solve-edit', 'after-solve-new-method']

    def single_slice(self):
        name = "roundtrip-single-stage"
        n = 20 if self.tier == 'quick' else 250
        for it in range(n):
            desc = self.gen()
            position = self.POSITIONS[it % 5]

            def make(desc=desc):
                return B.build(copy.deepcopy(desc), transcribe=False).ocp

            def remethod(o, desc=desc):
                o.method(B.make_method(None, copy.deepcopy(desc['method'])))
            try:
                msg = self.roundtrip(make, position, "single", remethod=remethod)
            except (ZeroDivisionError, OverflowError):
                continue
            self.record_case(desc, True, {"method": desc['method'], "position": position, "states": desc['states'], "algs": desc['algs']})
            self.count("position:" + position)
            if msg:
                self.slice_ok[name] = False
                self.violation(msg, {"desc": desc, "position": position}, {"kind": "roundtrip", "position": position, "method": desc['method']['kind']})
                return

    def multi_slice(self):
        name = "roundtrip-multi-stage"
        n = 4 if self.tier == 'quick' else 40
        for it in range(n):
            md = gen_multi(self.rng)
            position = self.POSITIONS[it % 3]

            def make(md=md):
                return build_multi(copy.deepcopy(md), transcribe=False).ocp
            try:
                msg = self.roundtrip(make, position, "multi")
            except (ZeroDivisionError, OverflowError):
                continue
            self.evaluations += 1
            self.signatures.add("multi-%d-%s" % (it, position))
            self.count("multi-position:" + position)
            if msg:
                self.slice_ok[name] = False
                self.violation(msg, {"md": md, "position": position}, {"kind": "roundtrip-multi", "position": position})
                return


# ---------------------------------------------------------------------------------------------
def gen_lq(rng, kinds=('ms', 'ss', 'dc', 'dc_dae')):
    """solver-friendly (convex LQ) OCP in the standard description format"""
    d = B.default_desc()
    kind = rng.choice(list(kinds))
    nx = rng.choice([1, 2, 2])
    d['states'] = [1] * nx if rng.random() < 0.5 else [nx]
    d['controls'] = [1]
    d['params'][''] = [1, 1]          # p0: initial state value, p1: forcing coefficient
    xs = [('x', i) for i in range(nx)]
    u = ('u', 0)
    dae = kind == 'dc_dae'
    if dae:
        d['algs'] = [1]
        z = ('z', 0)
    ode = []
    for i in range(nx):
        e = ('*', E.C(Fr(rng.randint(-4, -1), 2)), xs[i])
        if nx > 1:
            e = ('+', e, ('*', E.C(Fr(rng.randint(-2, 2), 2) or Fr(1, 2)), xs[(i + 1) % nx]))
        if i == nx - 1:
            e = ('+', e, ('*', E.C(Fr(rng.randint(1, 3), 1)), u))
        e = ('+', e, ('*', E.C(Fr(rng.randint(1, 4), 4)), ('p', 1)))
        if dae and i == 0:
            e = ('+', e, ('*', E.C(Fr(1, 2)), z))
        ode.append(e)
    d['ode'] = ode
    if dae:
        # 0 = z - (x0 + u/2): linear, index 1
        d['alg'] = [('-', z, ('+', xs[0], ('*', E.C(Fr(1, 2)), u)))]
    integrand = ('*', E.C(Fr(rng.randint(1, 4), 2)), ('*', u, u))
    for x in xs:
        integrand = ('+', integrand, ('*', E.C(Fr(rng.randint(1, 4), 2)), ('*', x, x)))
    d['phs'] = [('integral', integrand), ('at_tf', xs[0]), ('at_t0', xs[0])]
    d['obj'] = ('+', ('ph', 0), ('*', E.C(Fr(rng.randint(1, 3))), ('*', ('ph', 1), ('ph', 1))))
    d['cons'] = [{'rel': 'eq', 'a': [('ph', 2)], 'b': [('p', 0)], 'grid': 'point'},
                 {'rel': 'two', 'a': [E.C(-3)], 'b': [u], 'c': [E.C(3)], 'grid': 'control', 'first': True, 'last': False, 'offs': []}]
    for i in range(1, nx):
        d['phs'].append(('at_t0', xs[i]))
        d['cons'].append({'rel': 'eq', 'a': [('ph', len(d['phs']) - 1)], 'b': [E.C(Fr(rng.randint(-2, 2), 2))], 'grid': 'point'})
    d['t0'] = ('num', Fr(rng.randint(0, 2), 2))
    d['T'] = ('num', Fr(rng.randint(2, 6), 2))
    mk = {'ms': 'ms', 'ss': 'ss', 'dc': 'dc', 'dc_dae': 'dc'}[kind]
    d['method'] = {'kind': mk, 'N': rng.choice([2, 3, 4]), 'M': rng.choice([1, 1, 2]), 'intg': 'rk', 'degree': rng.choice([2, 3]),
                   'scheme': rng.choice(['radau', 'legendre']), 'grid': {'kind': rng.choice(['uniform', 'uniform', 'geometric']), 'growth': 2, 'local': False}}
    if d['method']['grid']['kind'] == 'uniform':
        d['method']['grid'] = {'kind': 'uniform'}
    if rng.random() < 0.2:
        d['scale_x'] = [rng.choice([0.5, 2, 4]) for _ in range(nx)]
        d['scale_u'] = [rng.choice([0.5, 2])]
    d['lq_kind'] = kind
    return d


@register
class C19(Check):
    pid = "C19"
    level = "other"
    uses_generated = True
    slices = ["starting-data (max_iter=0)", "converged-results", "unlisted-keep-current", "parameters-of-every-shape", "interval-parameters"]

    def explanation(self):
        return ("PARTIAL (solver is a black box). theorems: binding a list of (slot, value) arguments gives every slot of the parameter vector / starting "
                "point the value the same set_value/set_initial calls give it, last one wins, unlisted slots keep their current value "
                "(bind_eq_imperative, unlisted_keeps_current, any store); with the sampled states as an argument, node variables and — under "
                "DirectCollocation — the integrator and helper states of every step (the hidden Xc_vars0 = repmat(X[k])) get exactly the starting "
                "values set_initial(x, array) gives them in the starting-point model of C10 (state_start_same), other components keep theirs "
                "(state_start_frame); controls likewise (control_start_same, the imperative loop order included). correspondence: the returned "
                "casadi.Function vs set_value + set_initial + solve + sample on a fresh OCP of the same description, for random argument values: "
                "(a) ipopt max_iter=0, where the results expose the data handed to the solver (states, controls, and helper states / algebraics "
                "at the collocation roots), (b) converged solves of convex LQ problems (1e-6), (c) arguments left out keep values set before "
                "to_function was called; MS, SS (parameters/controls only), DC, DC with algebraics ('z' argument first and last)")

    def pipeline(self, desc, opts, argspec, argvals, pre):
        """returns (function outputs, imperative outputs) as lists of flat float lists"""
        import casadi as ca
        import numpy as np
        N = desc['method']['N']

        def results_of(b):
            o = b.ocp
            X = ca.vertcat(*[ca.vec(s) for s in b.states])
            U = ca.vertcat(*[ca.vec(s) for s in b.controls])
            r = [(X, 'control'), (U, 'control-')]
            if desc['T'][0] == 'free' or desc['t0'][0] == 'free':
                r += [(o.T, 'value'), (o.t0, 'value')]
            if desc['method']['kind'] == 'dc':
                r.append((X, 'integrator_roots'))
                if b.algs:
                    r.append((ca.vertcat(*[ca.vec(s) for s in b.algs]), 'integrator_roots'))
            return r

        def prepare(b):
            with B.quiet():
                b.ocp.solver('ipopt', opts)
                for kind, val in pre:
                    self.apply(b, kind, val, N)

        # A: the function
        bA = B.build(copy.deepcopy(desc), transcribe=False)
        prepare(bA)
        with B.quiet():
            args = []
            for kind in argspec:
                if kind == 'p0':
                    args.append(bA.params[''][0])
                elif kind == 'p1':
                    args.append(bA.params[''][1])
                elif kind == 'x':
                    args.append(bA.ocp.sample(ca.vertcat(*[ca.vec(s) for s in bA.states]), grid='control')[1])
                elif kind == 'u':
                    args.append(bA.ocp.sample(bA.controls[0], grid='control-')[1])
                elif kind == 'z':
                    args.append("z")
                elif kind == 'T':
                    args.append(bA.ocp.value(bA.ocp.T))
                elif kind == 't0':
                    args.append(bA.ocp.value(bA.ocp.t0))
            res = [bA.ocp.value(e) if g == 'value' else bA.ocp.sample(e, grid=g)[1] for e, g in results_of(bA)]
            f = bA.ocp.to_function('f', args, res)
            outA = f(*[ca.DM(v) for v in argvals])
            if not isinstance(outA, (list, tuple)):
                outA = [outA]
            outA = [np.array(o).flatten(order='F').tolist() for o in outA]
        # B: the imperative calls
        bB = B.build(copy.deepcopy(desc), transcribe=False)
        prepare(bB)
        with B.quiet():
            for kind, val in zip(argspec, argvals):
                self.apply(bB, kind, val, N)
            try:
                sol = bB.ocp.solve()
            except Exception:
                sol = bB.ocp.non_converged_solution
            outB = []
            for e, g in results_of(bB):
                if g == 'value':
                    outB.append([float(sol.value(e))])
                    continue
                _, v = sol.sample(e, grid=g)
                v = np.array(v)
                # sol.sample returns (time, components): the function returns components x time
                outB.append(np.array(v).reshape(v.shape[0], -1).flatten(order='C').tolist())
        return outA, outB

    def apply(self, b, kind, val, N):
        import casadi as ca
        import numpy as np
        o = b.ocp
        if kind == 'p0':
            o.set_value(b.params[''][0], float(val))
        elif kind == 'p1':
            o.set_value(b.params[''][1], float(val))
        elif kind == 'x':
            arr = np.array(val, dtype=float)
            off = 0
            for s in b.states:
                n = s.numel()
                o.set_initial(s, arr[off:off + n, :] if n > 1 else arr[off, :])
                off += n
        elif kind == 'u':
            o.set_initial(b.controls[0], np.array(val, dtype=float).flatten())
        elif kind == 'z':
            # the "z" argument is the algebraic value at the N+1 nodes; a constant guess is used on both sides
            o.set_initial(b.algs[0], float(np.array(val).flatten()[0]))
        elif kind == 'T':
            o.set_initial(o.T, float(val))
        elif kind == 't0':
            o.set_initial(o.t0, float(val))

    def argvalue(self, kind, desc):
        import numpy as np
        N = desc['method']['N']
        nx = sum(desc['states'])
        q = lambda: self.rng.randint(-8, 8) / 4.0
        if kind in ('p0', 'p1'):
            return self.rng.randint(1, 8) / 4.0
        if kind == 'T':
            return self.rng.randint(3, 12) / 4.0
        if kind == 't0':
            return self.rng.randint(-6, 6) / 4.0
        if kind == 'x':
            return [[q() for _ in range(N + 1)] for _ in range(nx)]
        if kind == 'u':
            return [[q() for _ in range(N)]]
        if kind == 'z':
            c = q()
            return [[c] * (N + 1)]

    def compare(self, outA, outB, tol):
        for i, (a, b_) in enumerate(zip(outA, outB)):
            if len(a) != len(b_):
                return "result %d has %d entries from the function and %d from the imperative pipeline" % (i, len(a), len(b_))
            for j, (x, y) in enumerate(zip(a, b_)):
                if not (abs(x - y) <= tol * max(1.0, abs(x), abs(y))):
                    return "result %d entry %d: function %r, imperative pipeline %r" % (i, j, x, y)
        return None

    def matrix_parameter_slice(self):
        """parameters of every shape as arguments — a vector, a MATRIX, a scalar — given to the function as one concatenation (ocp.p) or one
        by one, and to the imperative pipeline through set_value on the concatenation or symbol by symbol: same results, and the values
        in effect (ocp.value of each parameter) are the ones passed"""
        import casadi as ca
        import numpy as np
        rockit = B.import_rockit()
        name = "parameters-of-every-shape"
        n = 4 if self.tier == 'quick' else 40
        rng = self.rng
        for it in range(n):
            meth = ['ms', 'dc', 'ss'][it % 3]
            fstyle = ['concat', 'symbols'][it % 2]
            istyle = ['concat', 'symbols'][(it // 2) % 2]
            N, M = rng.randint(2, 4), rng.randint(1, 2)
            vals = [rng.randint(-4, 4) / 4.0 for _ in range(2)] + [0.0, -rng.randint(1, 8) / 4.0, 1.0, -rng.randint(0, 4) / 8.0] + [float(rng.randint(2, 20))]
            info = {"method": meth, "N": N, "M": M, "function_arguments": fstyle, "imperative_calls": istyle, "values": vals}

            def build():
                ocp = rockit.Ocp(T=2)
                x = ocp.state(2)
                u = ocp.control()
                x0 = ocp.parameter(2)
                A = ocp.parameter(2, 2)
                q = ocp.parameter()
                ocp.set_der(x, ca.mtimes(A, x) + ca.vertcat(0, u))
                ocp.add_objective(ocp.integral(ca.sumsqr(x) + u ** 2) + q * ocp.at_tf(x[0]) ** 2)
                ocp.subject_to(ocp.at_t0(x) == x0)
                ocp.subject_to(-1 <= (u <= 1))
                ocp.solver('ipopt', {'ipopt.print_level': 0, 'print_time': False, 'ipopt.tol': 1e-10, 'ipopt.sb': 'yes'})
                ocp.method({'ms': rockit.MultipleShooting(N=N, M=M, intg='rk'), 'ss': rockit.SingleShooting(N=N, M=M, intg='rk'),
                            'dc': rockit.DirectCollocation(N=N, M=M, degree=2)}[meth])
                ocp.set_value(x0, [1, 0]); ocp.set_value(A, np.array([[0, 1], [-1, 0]])); ocp.set_value(q, 1)
                return ocp, x, u, x0, A, q
            try:
                with B.quiet():
                    ocp, x, u, x0, A, q = build()
                    res = [ocp.sample(x, grid='control')[1], ocp.sample(u, grid='control-')[1], ocp.value(x0), ca.vec(ocp.value(A)), ocp.value(q)]
                    if fstyle == 'concat':
                        f = ocp.to_function('f', [ocp.p], res)
                        outF = f(ca.DM(vals))
                    else:
                        f = ocp.to_function('f', [x0, A, q], res)
                        outF = f(ca.DM(vals[0:2]), ca.DM(vals[2:6]).reshape((2, 2)), vals[6])
                    outF = [np.array(o).flatten(order='F') for o in outF]
                    ocp2, x, u, x0, A, q = build()
                    if istyle == 'concat':
                        ocp2.set_value(ocp2.p, ca.DM(vals))
                    else:
                        ocp2.set_value(x0, ca.DM(vals[0:2])); ocp2.set_value(A, ca.DM(vals[2:6]).reshape((2, 2))); ocp2.set_value(q, vals[6])
                    sol = ocp2.solve()
                    xs = np.array(sol.sample(x, grid='control')[1])
                    outI = [xs.reshape(xs.shape[0], -1).flatten(order='C'), np.array(sol.sample(u, grid='control-')[1]).flatten(),
                            np.array(sol.value(x0)).flatten(), np.array(sol.value(A)).flatten(order='F'), np.array([float(sol.value(q))])]
            except Exception as ex:
                self.slice_ok[name] = False
                self.violation("to_function / imperative pipeline with a matrix-valued parameter raised: %s: %s" % (type(ex).__name__, str(ex)[:300].replace("\n", " ")),
                               {"case": info}, {"kind": "exception", "what": "matrix-parameter"})
                return
            self.evaluations += 1
            self.signatures.add(repr((meth, N, M, fstyle, istyle)))
            self.count("matrix-parameter:%s/%s" % (fstyle, istyle))
            names = ["sampled states", "sampled controls", "value of the vector parameter", "value of the matrix parameter", "value of the scalar parameter"]
            want = [None, None, vals[0:2], vals[2:6], [vals[6]]]
            for nm, a, b_, w in zip(names, outF, outI, want):
                bad = None
                if len(a) != len(b_) or np.abs(a - b_).max() > 1e-6 * max(1.0, np.abs(a).max()):
                    bad = "%s: function %s, imperative pipeline %s" % (nm, a.tolist(), b_.tolist())
                elif w is not None and np.abs(b_ - np.array(w)).max() > 1e-12:
                    bad = "%s in effect is %s, the value passed is %s" % (nm, b_.tolist(), w)
                if bad:
                    self.slice_ok[name] = False
                    self.violation("parameters as %s to the function / %s to set_value: %s" % (fstyle, istyle, bad), {"case": info}, {"kind": "matrix-parameter", "imperative": istyle})
                    return

    def correspondence(self):
        self.lq_slices()
        self.matrix_parameter_slice()
        self.interval_parameters_slice()

    def interval_parameters_slice(self):
        """per-interval parameters (grid='control' and grid='control+', one of each) as function arguments vs set_value AFTER the
        transcription (one number broadcast, or the whole row) followed by solve and sample; arguments not listed keep their values"""
        import casadi as ca
        import numpy as np
        rockit = B.import_rockit()
        name = "interval-parameters"
        n = 4 if self.tier == 'quick' else 32
        rng = self.rng
        for it in range(n):
            kind = ['ms', 'dc', 'ss', 'ms'][it % 4]
            N = rng.randint(2, 4)
            p0, q0 = rng.randint(1, 6) / 4.0, rng.randint(1, 6) / 2.0
            broadcast = it % 2 == 0
            qn = [rng.randint(-6, 6) / 2.0 or 1.5] * (N + 1) if broadcast else [rng.randint(-6, 6) / 2.0 for _ in range(N + 1)]
            pn = [rng.randint(-4, 4) / 4.0 for _ in range(N)]
            listed = ['q', 'p'] if (it // 2) % 2 == 0 else ['q']
            info = {"method": kind, "N": N, "p": p0, "q": q0, "q_new": qn, "p_new": pn, "listed": listed, "broadcast": broadcast}
            try:
                with B.quiet():
                    ocp = rockit.Ocp(t0=0.5, T=1.5)
                    x = ocp.state(); u = ocp.control()
                    p_ = ocp.parameter(grid='control'); q = ocp.parameter(grid='control+')
                    ocp.set_der(x, u + p_)
                    ocp.add_objective(ocp.integral(u ** 2) + ocp.sum((x - q) ** 2, include_last=True))
                    ocp.subject_to(ocp.at_t0(x) == 0)
                    ocp.set_value(p_, p0); ocp.set_value(q, q0)
                    ocp.solver('ipopt', {'ipopt.print_level': 0, 'print_time': False, 'ipopt.tol': 1e-10, 'ipopt.sb': 'yes'})
                    ocp.method({'ms': rockit.MultipleShooting(N=N, M=1, intg='rk'), 'ss': rockit.SingleShooting(N=N, M=1, intg='rk'),
                                'dc': rockit.DirectCollocation(N=N, M=1, degree=2)}[kind])
                    q_s = ocp.sample(q, grid='control')[1]; p_s = ocp.sample(p_, grid='control-')[1]
                    x_s = ocp.sample(x, grid='control')[1]; u_s = ocp.sample(u, grid='control-')[1]
                    f = ocp.to_function('f', [q_s, p_s] if 'p' in listed else [q_s], [x_s, u_s])
                    fx, fu = f(*([ca.DM([qn]), ca.DM([pn])] if 'p' in listed else [ca.DM([qn])]))
                    ocp.set_value(q, qn[0] if broadcast else ca.DM([qn]))
                    if 'p' in listed:
                        ocp.set_value(p_, ca.DM([pn]))
                    sol = ocp.solve()
                    xs = sol.sample(x, grid='control')[1]; us = sol.sample(u, grid='control-')[1]
                    qv = np.array(sol.sample(q, grid='control')[1]).flatten(); pv = np.array(sol.sample(p_, grid='control-')[1]).flatten()
            except Exception as ex:
                self.slice_ok[name] = False
                self.violation("per-interval parameters through to_function / set_value raised %s: %s" % (type(ex).__name__, str(ex)[:250].replace("\n", " ")), {"case": info},
                               {"kind": "exception", "what": "interval-parameters"})
                return
            self.evaluations += 1
            self.signatures.add("interval-parameters-%d" % it)
            self.count("interval-parameters:%s:%s" % (kind, "broadcast" if broadcast else "row"))
            err = None
            pw = pn if 'p' in listed else [p0] * N
            if np.abs(qv - np.array(qn)).max() > 1e-12:
                err = "after set_value(q, …) on the transcribed problem the solution was computed with q = %s, the value given is %s" % (qv.tolist(), qn)
            elif np.abs(pv - np.array(pw)).max() > 1e-12:
                err = "the solution was computed with p = %s, the value in effect should be %s" % (pv.tolist(), pw)
            elif np.abs(np.array(fx).flatten() - np.array(xs).flatten()).max() > 1e-6 or np.abs(np.array(fu).flatten() - np.array(us).flatten()).max() > 1e-6:
                err = "function results x=%s u=%s, imperative pipeline x=%s u=%s" % (np.array(fx).flatten().tolist(), np.array(fu).flatten().tolist(),
                                                                                   np.array(xs).flatten().tolist(), np.array(us).flatten().tolist())
            if err:
                self.slice_ok[name] = False
                self.violation("per-interval parameters (%s, listed %s): %s" % (kind, listed, err), {"case": info}, {"kind": "interval-parameters", "broadcast": broadcast})
                return

    def lq_slices(self):
        n = 24 if self.tier == 'quick' else 240
        opts0 = {'ipopt.print_level': 0, 'print_time': False, 'ipopt.max_iter': 0, 'ipopt.sb': 'yes'}
        optsC = {'ipopt.print_level': 0, 'print_time': False, 'ipopt.tol': 1e-10, 'ipopt.sb': 'yes'}
        kinds = ['dc_dae', 'ms', 'dc', 'ss']
        for it in range(n):
            # stratified: every method kind, every mode; for the DAE kind the 'z' argument first and last in turn
            kind = kinds[it % 4]
            desc = gen_lq(self.rng, kinds=(kind,))
            pool = ['p0', 'p1', 'u'] + ([] if kind == 'ss' else ['x']) + (['z'] if kind == 'dc_dae' else [])
            mode = ['start', 'unlisted', 'converged'][(it // 4) % 3]
            # free horizons (their guesses as arguments) where the answer does not hinge on the solver: the max_iter=0 modes
            hz = []
            if mode != 'converged' and ((it // 4) + it) % 2 == 0:
                fr = [['T', 't0'], ['t0'], ['T', 't0'], ['T']][(it // 8 + it) % 4]
                for key in fr:
                    desc[key] = ('free', Fr(self.rng.randint(2, 6), 2) if key == 'T' else Fr(self.rng.randint(-2, 2), 2))
                hz = fr
                pool = pool + hz
            argspec = [a for a in pool if a != 'z' and (a in hz or self.rng.random() < 0.75)] or ['p0']
            if hz and mode == 'unlisted':
                argspec = [a for a in argspec if a != hz[-1]] or ['p0']      # one horizon guess is given beforehand, not as an argument
            self.rng.shuffle(argspec)
            if kind == 'dc_dae':
                if (it // 4) % 2 == 0:
                    argspec.insert(0, 'z')
                else:
                    argspec.append('z')
            pre = []
            if mode == 'unlisted':
                left = [a for a in pool if a not in argspec]
                pre = [(a, self.argvalue(a, desc)) for a in left]
            # parameters need a value in any case
            for a in ('p0', 'p1'):
                if a not in argspec and a not in [k for k, _ in pre]:
                    pre.append((a, self.argvalue(a, desc)))
            argvals = [self.argvalue(a, desc) for a in argspec]
            name = {"start": "starting-data (max_iter=0)", "converged": "converged-results", "unlisted": "unlisted-keep-current"}[mode]
            try:
                outA, outB = self.pipeline(desc, optsC if mode == 'converged' else opts0, argspec, argvals, pre)
            except Exception as ex:
                self.slice_ok[name] = False
                self.violation("to_function / imperative pipeline raised: %s: %s" % (type(ex).__name__, str(ex)[:300].replace("\n", " ")),
                               {"desc": desc, "args": argspec, "mode": mode},
                               {"kind": "exception", "scaled": bool(desc.get('scale_x')), "guess_argument": any(a in ('x', 'u') for a in argspec),
                                "not_purely_symbolic": "purely symbolic" in str(ex)})
                return
            self.record_case(desc, True, {"method": desc['method'], "args": argspec, "mode": mode, "kind": kind})
            self.count("mode:" + mode)
            self.count("lq:" + kind)
            for a in argspec:
                self.count("arg:" + a)
            if argspec and argspec[0] == 'z':
                self.count("z-first")
            msg = self.compare(outA, outB, 1e-6 if mode == 'converged' else 1e-9)
            if msg:
                self.slice_ok[name] = False
                self.violation("to_function(args=%s) differs from set_value/set_initial/solve/sample (%s): %s" % (argspec, mode, msg),
                               {"desc": desc, "args": argspec, "argvals": argvals, "pre": pre, "mode": mode}, {"kind": "to_function", "mode": mode, "lq": kind})
                return


# ---------------------------------------------------------------------------------------------
# C17: B-splines
def bs_knots(xi, d):
    return [xi[0]] * d + list(xi) + [xi[-1]] * d


def bs_span(xi, d, x):
    j = 0
    for k in range(len(xi) - 1):
        if xi[k] <= x:
            j = k
    return d + j


def bs_basis(xi, d, x):
    """exact Cox-de Boor (triangular scheme on the active span): values of the N+d basis functions at x"""
    t = bs_knots(xi, d)
    j = bs_span(xi, d, x)
    n = len(xi) - 1 + d
    Nv = [Fr(0)] * (len(t) - 1)
    Nv[j] = Fr(1)
    for e in range(1, d + 1):
        new = [Fr(0)] * (len(t) - 1 - e)
        for i in range(len(new)):
            v = Fr(0)
            if t[i + e] != t[i] and Nv[i] != 0:
                v += (x - t[i]) / (t[i + e] - t[i]) * Nv[i]
            if t[i + e + 1] != t[i + 1] and Nv[i + 1] != 0:
                v += (t[i + e + 1] - x) / (t[i + e + 1] - t[i + 1]) * Nv[i + 1]
            new[i] = v
        Nv = new
    return Nv[:n]


def bs_eval(xi, d, c, x):
    return sum((ci * bi for ci, bi in zip(c, bs_basis(xi, d, x))), Fr(0))


def bs_piece_derivative(xi, d, c, x, m=1):
    """m-th derivative at x of the spline, from the polynomial piece of the span containing x (exact):
    interpolate the piece at d+1 points of its span and differentiate the interpolant m times"""
    j = bs_span(xi, d, x) - d
    a, b_ = xi[j], xi[j + 1]
    ts = [a + (b_ - a) * Fr(i, d + 1) for i in range(d + 1)]
    ys = [bs_eval(xi, d, c, t) for t in ts]
    # polynomial coefficients through (ts, ys) by Newton divided differences, then differentiate m times
    coef = newton_to_power(ts, ys)
    for _ in range(m):
        coef = [i * coef[i] for i in range(1, len(coef))] or [Fr(0)]
    return sum((co * x ** i for i, co in enumerate(coef)), Fr(0))


def newton_to_power(ts, ys):
    n = len(ts)
    dd = list(ys)
    for k in range(1, n):
        for i in range(n - 1, k - 1, -1):
            dd[i] = (dd[i] - dd[i - 1]) / (ts[i] - ts[i - k])
    # expand Newton form to power basis
    poly = [Fr(0)]
    basis = [Fr(1)]
    for k in range(n):
        poly = [(poly[i] if i < len(poly) else Fr(0)) + dd[k] * (basis[i] if i < len(basis) else Fr(0)) for i in range(max(len(poly), len(basis)))]
        basis = [Fr(0)] + basis
        for i in range(len(basis) - 1):
            basis[i] -= ts[k] * basis[i + 1]
    return poly


def rand_grid(rng, N, uniform=False):
    if uniform:
        return [Fr(k, N) for k in range(N + 1)]
    pts = sorted(rng.sample(range(1, 32), N - 1)) if N > 1 else []
    return [Fr(0)] + [Fr(p, 32) for p in pts] + [Fr(1)]


@register
class C17(Check):
    pid = "C17"
    slices = ["micro-spline-functions", "signals-are-splines", "der-of-signals", "spline-method-chains", "spline-method-constraints",
              "signals-under-sampling-methods", "spline-vs-shooting", "chain-links-with-a-gain"]

    def explanation(self):
        return ("PARTIAL. model: Cox-de Boor recursion on the clamped control-grid knots, spline evaluation, derivative coefficients "
                "c'_i = d (c_{i+1}-c_i)/(t_{i+d+1}-t_{i+1}) divided by the horizon for every derivative, Greville averages. theorems: see "
                "Props/C17. correspondence: eval_on_knots (knots and sub-grid points), bspline_derivative, get_greville_points vs the Lean "
                "model over Rat, vs an independent exact Cox-de Boor and vs scipy.interpolate.BSpline for orders 0..4, N 1..8, uniform and "
                "non-uniform grids, refine 1..5; under SplineMethod every state, control, bspline variable and parameter sampled at any "
                "refinement equals the Cox-de Boor evaluation of its 'gist' coefficients on the physical control grid, coefficient times are "
                "the Greville points; der^m of a bspline signal: gist coefficients and refined samples equal the exact m-th derivative in "
                "physical time (T != 1, t0 != 0); integrator-chain dynamics hold at every refined time at arbitrary decision vectors; "
                "optimal values of SplineMethod and MultipleShooting agree on chain problems both represent")

    def correspondence(self):
        self.micro_slice()
        self.spline_method_slice()
        self.constraints_slice()
        self.sampling_signal_slice()
        self.equivalence_slice()
        self.gain_slice()

    def gain_slice(self):
        """an integrator chain with a gain in a link (`der(v) = g*a`, `der(x) = -u`): SplineMethod either refuses the problem or the
        declared dynamics hold — at ANY decision vector the increments of v over the control intervals are g * a_k * dt_k"""
        import casadi as ca
        import numpy as np
        try:
            import networkx  # noqa
        except ImportError:
            return
        rockit = B.import_rockit()
        name = "chain-links-with-a-gain"
        n = 4 if self.tier == 'quick' else 24
        rng = self.rng
        for it in range(n):
            g = [2.5, -1.0, 0.5, 1.0, -2.0, 3.0][it % 6]
            N = rng.randint(2, 5)
            geo = rng.random() < 0.5
            t0, T = rng.randint(-2, 3) / 2.0, rng.randint(2, 6) / 2.0
            info = {"gain": g, "N": N, "grid": "geometric" if geo else "uniform", "t0": t0, "T": T}
            refused = False
            err = None
            try:
                with B.quiet():
                    ocp = rockit.Ocp(t0=t0, T=T)
                    p_ = ocp.state(); v = ocp.state(); a = ocp.control()
                    ocp.set_der(p_, v)
                    ocp.set_der(v, g * a if g != -1.0 else -a)
                    ocp.add_objective(ocp.sum(a ** 2, include_last=False) + ocp.at_tf(p_ ** 2))
                    ocp.subject_to(ocp.at_t0(p_) == 1)
                    ocp.method(rockit.SplineMethod(N=N, grid=rockit.GeometricGrid(1.7) if geo else rockit.UniformGrid()))
                    ocp.solver('ipopt', {'ipopt.print_level': 0, 'print_time': False, 'ipopt.max_iter': 0, 'ipopt.sb': 'yes'})
                    try:
                        ocp._transcribed
                    except (AssertionError, Exception) as ex:
                        refused = True
                    if not refused:
                        opti = ocp._method.opti
                        ts, vs = ocp.sample(v, grid='control')
                        as_ = ocp.sample(a, grid='control', )[1]
                        F = ca.Function('F', [opti.x, opti.p], [ca.vec(ca.MX(ts)), ca.vec(ca.MX(vs)), ca.vec(ca.MX(as_))])
                        xv = [rng.choice([-1.5, -0.5, 0.5, 1.0, 2.0]) for _ in range(opti.x.numel())]
                        pv = np.array(opti.debug.value(opti.p, opti.initial())).flatten() if opti.p.numel() else []
                        tt, vv, aa = [np.array(r).flatten() for r in F(xv, pv)]
                        for k in range(N):
                            want = g * aa[k] * (tt[k + 1] - tt[k])
                            if abs((vv[k + 1] - vv[k]) - want) > 1e-9 * max(1.0, abs(want)):
                                err = ("der(v) = %s*a was accepted, but over control interval %d v changes by %r while g*a*dt = %r (a = %r, dt = %r)"
                                       % (g, k, vv[k + 1] - vv[k], want, aa[k], tt[k + 1] - tt[k]))
                                break
            except Exception as ex:
                err = "a chain with gain %s raised outside the transcription: %s: %s" % (g, type(ex).__name__, str(ex)[:200])
            self.evaluations += 1
            self.signatures.add("gain-%d" % it)
            self.count("chain-gain:" + ("refused" if refused else "accepted"))
            if g == 1.0 and refused:
                err = "a pure integrator chain was refused by SplineMethod"
            if err:
                self.slice_ok[name] = False
                self.violation("SplineMethod: " + err, {"case": info}, {"kind": "chain-gain", "gain": g})
                return

    # -- micro_spline --------------------------------------------------------------------------
    def micro_slice(self):
        import casadi as ca
        import numpy as np
        from scipy.interpolate import BSpline
        B.import_rockit()
        from rockit.splines import micro_spline as ms
        name = "micro-spline-functions"
        n = 30 if self.tier == 'quick' else 400
        for it in range(n):
            N = self.rng.randint(1, 8)
            d = self.rng.randint(0, 4)
            r = self.rng.randint(1, 5)
            xi = rand_grid(self.rng, N, uniform=self.rng.random() < 0.4)
            xif = [float(v) for v in xi]
            self.evaluations += 1
            self.signatures.add("micro-%d-%d-%d-%s" % (N, d, r, xi))
            self.count("order:%d" % d)
            self.count("N:%d" % N)
            self.count("refine:%d" % r)
            with B.quiet():
                k, Bm = ms.eval_on_knots(ca.DM(xif).T, d, subsamples=r - 1)
                k = np.array(ca.DM(k)).flatten()
                Bm = np.array(ca.DM(Bm))
            nb = N + d
            feats = {"kind": "micro", "fn": "eval_on_knots", "order": d}
            if Bm.shape != (nb, len(k)) or len(k) != N * r + 1:
                self.slice_ok[name] = False
                self.violation("eval_on_knots(N=%d, d=%d, subsamples=%d) returns a %s matrix for %d points, expected %d x %d" % (N, d, r - 1, Bm.shape, len(k), nb, N * r + 1),
                               {"xi": xi, "d": d, "r": r}, feats)
                return
            knots = np.array(bs_knots(xif, d))
            self.driver.send(["bs " + Mo.rats(xi)])
            for col in range(len(k)):
                kk, ii = divmod(col, r)
                x = xi[kk] + (xi[kk + 1] - xi[kk]) * Fr(ii, r) if kk < N else xi[N]
                want = bs_basis(xi, d, x)
                out = self.driver.run("bs basis %d %s" % (d, Mo.R(x)))
                mod = [Mo.frac(v) for v in out[0].split()[1:]]
                got = Bm[:, col]
                if abs(k[col] - float(x)) > 1e-12:
                    self.slice_ok[name] = False
                    self.violation("eval_on_knots: sample point %d is %r, expected %r" % (col, k[col], float(x)), {"xi": xi, "d": d, "r": r}, feats)
                    return
                if mod != want:
                    self.slice_ok[name] = False
                    self.violation("Lean model and the independent Cox-de Boor disagree at x=%s" % x, {"xi": xi, "d": d, "x": x, "correspondence": "C17 micro"},
                                   {"kind": "model"}, found_input=False)
                    return
                if any(abs(float(w) - g) > 1e-9 for w, g in zip(want, got)):
                    self.slice_ok[name] = False
                    self.violation("eval_on_knots(N=%d, d=%d): basis column at x=%s is %s, Cox-de Boor gives %s" % (N, d, float(x), list(got), [float(w) for w in want]),
                                   {"xi": xi, "d": d, "r": r, "x": x}, feats)
                    return
                if d > 0 and kk < N:
                    # scipy as a second, independent oracle
                    sc = [float(BSpline(knots, np.eye(nb)[i], d, extrapolate=False)(float(x))) for i in range(nb)]
                    if any(abs(a - float(w)) > 1e-9 for a, w in zip(np.nan_to_num(sc), want)):
                        self.notes.append("scipy differs from exact Cox-de Boor at %s (not a finding about rockit)" % x)
            # derivative coefficients
            if d >= 1:
                c = [Fr(self.rng.randint(-8, 8), 2) for _ in range(nb)]
                with B.quiet():
                    dc = np.array(ca.DM(ms.bspline_derivative(ca.DM([float(v) for v in c]).T, ca.DM(xif).T, d))).flatten()
                out = self.driver.run("bs deriv %d 1 1 %s" % (d, Mo.rats(c)))
                mod = [Mo.frac(v) for v in out[0].split()[1:]]
                # oracle: the spline of degree d-1 with these coefficients is the derivative of the spline (checked pointwise, exact)
                for _ in range(3):
                    kk = self.rng.randrange(N)
                    x = xi[kk] + (xi[kk + 1] - xi[kk]) * Fr(self.rng.randint(1, 7), 8)
                    true = bs_piece_derivative(xi, d, c, x)
                    viamodel = bs_eval(xi, d - 1, mod, x)
                    if true != viamodel:
                        self.slice_ok[name] = False
                        self.violation("model derivative coefficients do not give the derivative of the spline at x=%s" % x, {"xi": xi, "d": d, "c": c, "correspondence": "C17 deriv"},
                                       {"kind": "model"}, found_input=False)
                        return
                if len(dc) != len(mod) or any(abs(float(m_) - g) > 1e-9 * max(1, abs(g)) for m_, g in zip(mod, dc)):
                    self.slice_ok[name] = False
                    self.violation("bspline_derivative(N=%d, d=%d) = %s but the derivative spline has coefficients %s" % (N, d, list(dc), [float(m_) for m_ in mod]),
                                   {"xi": xi, "d": d, "c": c}, {"kind": "micro", "fn": "bspline_derivative", "order": d})
                    return
            # Greville points
            with B.quiet():
                gv = np.array(ca.DM(ms.get_greville_points(ca.DM(xif).T, d))).flatten()
            out = self.driver.run("bs greville %d" % d)
            mod = [Mo.frac(v) for v in out[0].split()[1:]]
            t = bs_knots(xi, d)
            want = [sum(t[i + 1:i + d + 1], Fr(0)) / d for i in range(nb)] if d > 0 else [(xi[i] + xi[i + 1]) / 2 for i in range(N)]
            if mod != want:
                self.slice_ok[name] = False
                self.violation("Lean model Greville points differ from the knot averages", {"xi": xi, "d": d, "correspondence": "C17 greville"}, {"kind": "model"}, found_input=False)
                return
            if len(gv) != len(want) or any(abs(float(w) - g) > 1e-12 for w, g in zip(want, gv)):
                self.slice_ok[name] = False
                self.violation("get_greville_points(N=%d, d=%d) = %s, knot averages are %s" % (N, d, list(gv), [float(w) for w in want]), {"xi": xi, "d": d},
                               {"kind": "micro", "fn": "get_greville_points", "order": d})
                return

    # -- SplineMethod --------------------------------------------------------------------------
    def make_spline_ocp(self, force=None):
        """integrator-chain system (mixed chain lengths, vector states), bspline variable and parameter with their derivatives.
        force = (N, grid kind, growth): a long chain on that grid (several transcriptions in one process with the same N and different knots
        must not share anything that depends on the knots)"""
        import casadi as ca
        rockit = B.import_rockit()
        rng = self.rng
        t0 = Fr(rng.randint(-2, 3), 2)
        T = Fr(rng.choice([1, 2, 3, 5, 6]), 2)
        N = rng.randint(1, 5)
        gk = rng.choice(['uniform', 'geometric'])
        if force:
            N, gk = force[0], force[1]
        info = {"t0": t0, "T": T, "N": N, "grid": gk, "chains": [], "signals": []}
        with B.quiet():
            ocp = rockit.Ocp(t0=float(t0), T=float(T))
            obj = 0
            chains = []
            for ci in range(rng.randint(1, 2)):
                L = rng.randint(1, 3)
                if force and ci == 0:
                    L = 3
                n = rng.choice([1, 1, 2])
                members = [ocp.state(n) for _ in range(L)]
                u = ocp.control(n)
                for a, b_ in zip(members, members[1:] + [u]):
                    ocp.set_der(a, b_)
                chains.append((members, u, n))
                info["chains"].append({"length": L, "dim": n})
                obj = obj + ocp.at_tf(ca.sumsqr(members[0])) + ocp.sum(ca.sumsqr(u))
            sigs = []
            for si in range(rng.randint(1, 2)):
                d = rng.randint(1, 3)
                n = rng.choice([1, 2])
                kind = rng.choice(['variable', 'parameter'])
                if kind == 'variable':
                    s = ocp.variable(n, grid='bspline', order=d)
                    obj = obj + ocp.sum(ca.sumsqr(s - 1), include_last=True)
                    val = None
                else:
                    s = ocp.parameter(n, grid='bspline', order=d)
                    val = [[Fr(rng.randint(-8, 8), 4) for _ in range(N + d)] for _ in range(n)]
                    ocp.set_value(s, ca.DM([[float(v) for v in row] for row in val]))
                    obj = obj + ocp.sum(ca.sumsqr(s), include_last=True)     # keeps the parameter active in the NLP (opti.p lists active ones only)
                ders = [s]
                for m in range(d):
                    ders.append(ocp.der(ders[-1]))
                sigs.append((s, d, n, kind, ders, val))
                info["signals"].append({"order": d, "dim": n, "kind": kind})
            ocp.add_objective(obj)
            ocp.subject_to(ocp.at_t0(chains[0][0][0]) == 1)
            grid = rockit.UniformGrid() if gk == 'uniform' else rockit.GeometricGrid(force[2] if force else rng.choice([2, 3]))
            ocp.method(rockit.SplineMethod(N=N, grid=grid))
            ocp.solver('ipopt', {'ipopt.print_level': 0, 'print_time': False, 'ipopt.max_iter': 0, 'ipopt.sb': 'yes'})
            ocp._transcribed
        return ocp, chains, sigs, info

    def spline_method_slice(self):
        import casadi as ca
        n = 10 if self.tier == 'quick' else 120
        # the first cases form a history: the same N on a uniform, a geometric(2), a geometric(3) and again a uniform grid
        HIST = [(3, 'uniform', None), (3, 'geometric', 2), (3, 'geometric', 3), (3, 'uniform', None)]   # refine 1,1,2,2
        for it in range(n):
            try:
                ocp, chains, sigs, info = self.make_spline_ocp(force=HIST[it] if it < len(HIST) else None)
            except Exception as ex:
                self.slice_ok["signals-are-splines"] = False
                self.violation("SplineMethod raised on an integrator-chain problem: %s: %s" % (type(ex).__name__, str(ex)[:300].replace("\n", " ")),
                               {"note": "see seed/iteration", "iteration": it}, {"kind": "exception"})
                return
            N, T, t0 = info["N"], info["T"], info["t0"]
            r = self.rng.randint(1, 4)
            if it < len(HIST):
                r = [1, 1, 2, 2][it]      # the history shares its refinements too: every (N, refine) pair occurs on two different grids
            opti = ocp._method.opti
            items = []   # (label, expr, degree, dim, derivative order m of which base index)
            for ci, (members, u, nd) in enumerate(chains):
                L = len(members)
                for mi, s in enumerate(members):
                    items.append(("chain%d.x%d" % (ci, mi), s, L - mi, nd))
                items.append(("chain%d.u" % ci, u, 0, nd))
            for si, (s, d, nd, kind, ders, val) in enumerate(sigs):
                for m, e in enumerate(ders):
                    items.append(("sig%d.der%d" % (si, m), e, d - m, nd))
            outs = []
            with B.quiet():
                tc = ocp.sample(items[0][1], grid='control')[0]
                outs.append(ca.vec(ca.MX(tc)))
                for label, e, deg, nd in items:
                    tg, cg = ocp.sample(e, grid='gist')
                    tr, vr = ocp.sample(e, grid='control', refine=r)
                    outs += [ca.vec(ca.MX(tg)), ca.vec(ca.MX(cg)), ca.vec(ca.MX(tr)), ca.vec(ca.MX(vr))]
                try:
                    W = Walker(ca.Function('s', [opti.x, opti.p], outs))
                except RuntimeError as ex:
                    if 'are free' in str(ex):
                        self.count("skipped-inactive-variable")
                        self.notes.append(str(ex)[-200:])
                        continue
                    raise
            xv = [rnd(self.rng) for _ in range(opti.x.numel())]
            with B.quiet():
                pcur = ca.DM(opti.debug.value(opti.p, opti.initial())).full().flatten().tolist() if opti.p.numel() else []
            pv = [Fr(v) for v in pcur]
            res = W([xv, pv])
            tcv = [v[0] for v in res[0]]
            self.evaluations += 1
            self.signatures.add(repr(info))
            self.count("spline-N:%d" % N)
            self.count("spline-grid:%s" % info["grid"])
            vals = {}
            for idx, (label, e, deg, nd) in enumerate(items):
                tg = [v[0] for v in res[1 + 4 * idx]]
                cg = [v[0] for v in res[2 + 4 * idx]]
                tr = [v[0] for v in res[3 + 4 * idx]]
                vr = [v for v in res[4 + 4 * idx]]
                ncoef = N + deg
                feats = {"kind": "spline-signal", "what": label.split(".")[1], "degree": deg}
                if len(cg) != nd * ncoef:
                    self.slice_ok["signals-are-splines"] = False
                    self.violation("%s: %d gist coefficients for dimension %d, degree %d, N=%d (expected %d)" % (label, len(cg), nd, deg, N, nd * ncoef), {"info": info}, feats)
                    return
                # gist times are the Greville points in physical time
                t = bs_knots(tcv, deg)
                grev = [sum(t[i + 1:i + deg + 1], Fr(0)) / deg for i in range(ncoef)] if deg > 0 else [(tcv[i] + tcv[i + 1]) / 2 for i in range(N)]
                if len(tg) != len(grev) or any(not close(a, b_, 1.0 + abs(fl(a))) for a, b_ in zip(grev, tg)):
                    self.slice_ok["signals-are-splines"] = False
                    self.violation("%s: 'gist' times %s are not the Greville points %s" % (label, [float(v) for v in tg], [float(v) for v in grev]), {"info": info}, feats)
                    return
                # refined samples = Cox-de Boor of the gist coefficients
                want_t = []
                for k in range(N):
                    for j in range(r):
                        want_t.append(tcv[k] + (tcv[k + 1] - tcv[k]) * Fr(j, r))
                want_t.append(tcv[N])
                if len(tr) != len(want_t):
                    self.slice_ok["signals-are-splines"] = False
                    self.violation("%s: sample(grid='control', refine=%d) has %d points, expected %d" % (label, r, len(tr), len(want_t)), {"info": info}, feats)
                    return
                badt = [i for i, (a, b_) in enumerate(zip(want_t, tr)) if not close(a, b_, 1.0 + abs(fl(a)))]
                if badt:
                    self.slice_ok["signals-are-splines"] = False
                    self.violation("%s: the time vector of sample(grid='control', refine=%d) is not the control grid with every interval split in %d "
                                   "(entry %d is %s, expected %s; control grid %s): values and times do not belong together"
                                   % (label, r, r, badt[0], float(tr[badt[0]]), float(want_t[badt[0]]), [float(v) for v in tcv]),
                                   {"info": info}, {"kind": "refined-time-vector", "grid": info["grid"]})
                    return
                comp = [[cg[c_ * nd + a] for c_ in range(ncoef)] for a in range(nd)]   # column-major vec of an nd x ncoef matrix
                vals[label] = (deg, nd, comp, want_t)
                for pi, x in enumerate(want_t):
                    for a in range(nd):
                        got, mg = vr[pi * nd + a]
                        want = bs_eval(tcv, deg, comp[a], x)
                        if not close(want, got, max(mg, 1.0)):
                            self.slice_ok["signals-are-splines"] = False
                            self.violation("%s component %d: sample at t=%s (refine=%d) is %s, the degree-%d spline of its 'gist' coefficients gives %s"
                                           % (label, a, float(x), r, float(got), deg, float(want)), {"info": info, "x": xv}, feats)
                            return
                self.count("signal-checked:%s" % label.split(".")[1][:3])
            # derivatives of bspline signals: coefficients and values are the exact derivative in physical time
            for si, (s, d, nd, kind, ders, val) in enumerate(sigs):
                deg0, _, comp0, times = vals["sig%d.der0" % si]
                for m in range(1, d + 1):
                    degm, _, compm, _ = vals["sig%d.der%d" % (si, m)]
                    feats = {"kind": "signal-derivative", "m": m, "T_is_one": T == 1}
                    for a in range(nd):
                        # model: signalDerIter on the NORMALISED grid with the horizon T
                        xin = [(tk - tcv[0]) / (tcv[N] - tcv[0]) for tk in tcv]
                        self.driver.send(["bs " + Mo.rats(xin)])
                        out = self.driver.run("bs deriv %d %d %s %s" % (d, m, Mo.R(T), Mo.rats(comp0[a])))
                        mod = [Mo.frac(v) for v in out[0].split()[1:]]
                        for kk in range(N):
                            x = tcv[kk] + (tcv[kk + 1] - tcv[kk]) * Fr(self.rng.randint(1, 7), 8)
                            true = bs_piece_derivative(tcv, d, comp0[a], x, m)
                            got = bs_eval(tcv, degm, compm[a], x)
                            mag = 1.0 + abs(fl(true)) + sum(abs(fl(v)) for v in comp0[a]) / max(fl(tcv[kk + 1] - tcv[kk]), 1e-9) ** m
                            if not close(true, got, mag):
                                self.slice_ok["der-of-signals"] = False
                                self.violation("der^%d of a bspline %s of order %d (T=%s): its spline gives %s at t=%s, the %d-th time derivative of the signal is %s"
                                               % (m, kind, d, T, float(got), float(x), m, float(true)), {"info": info, "signal": si, "m": m}, feats)
                                return
                            viamodel = bs_eval(tcv, degm, mod, x) if len(mod) == N + degm else None
                            if viamodel is None or not close(true, viamodel, mag):
                                self.slice_ok["der-of-signals"] = False
                                self.violation("model derivative coefficients (signalDerIter) do not give the %d-th derivative" % m,
                                               {"info": info, "correspondence": "C17 der"}, {"kind": "model"}, found_input=False)
                                return
                    self.count("der-order:%d" % m)
            # chain dynamics hold identically in time: the derivative of each member's spline is the next member's spline
            for ci, (members, u, nd) in enumerate(chains):
                labels = ["chain%d.x%d" % (ci, mi) for mi in range(len(members))] + ["chain%d.u" % ci]
                for la, lb in zip(labels, labels[1:]):
                    dega, _, compa, _ = vals[la]
                    degb, _, compb, _ = vals[lb]
                    for a in range(nd):
                        for kk in range(N):
                            x = tcv[kk] + (tcv[kk + 1] - tcv[kk]) * Fr(self.rng.randint(1, 7), 8)
                            true = bs_piece_derivative(tcv, dega, compa[a], x, 1)
                            got = bs_eval(tcv, degb, compb[a], x)
                            mag = 1.0 + abs(fl(true)) + sum(abs(fl(v)) for v in compa[a]) / max(fl(tcv[kk + 1] - tcv[kk]), 1e-9)
                            if not close(true, got, mag):
                                self.slice_ok["spline-method-chains"] = False
                                self.violation("chain dynamics do not hold between grid points: d/dt %s = %s at t=%s but %s = %s" % (la, float(true), float(x), lb, float(got)),
                                               {"info": info, "x": xv}, {"kind": "chain-dynamics"})
                                return
                self.count("chains-checked")

    def constraints_slice(self):
        """path constraints under SplineMethod: control-grid constraints are imposed at every refined grid point (exactly the sampled
        values, each constraint with ITS OWN refine), grid='inf' constraints bound the B-spline coefficients (which, by
        convex_upper/lower, bounds the signal at all times)"""
        import casadi as ca
        rockit = B.import_rockit()
        name = "spline-method-constraints"
        n = 8 if self.tier == 'quick' else 80
        for it in range(n):
            rng = self.rng
            L = rng.randint(1, 3)
            N = rng.randint(1, 4)
            T = rng.choice([1.0, 2.0, 3.0])
            gk = rng.choice(['uniform', 'geometric'])
            # one constraint, or several path constraints with different refinements (stratified: the first cases have two
            # control-grid constraints, a refined one declared BEFORE an unrefined one and the other way round)
            ncon = 2 if it < 4 else rng.choice([1, 1, 2, 3])
            nd = 1 if it < 4 else rng.choice([1, 2, 2, 3])     # vector-valued chains; a constraint may name ONE component
            cons = []
            for ci in range(ncon):
                mode = 'control' if it < 4 else rng.choice(['control', 'control', 'inf'])
                r = rng.randint(1, 4)
                if it < 4:
                    r = [rng.randint(2, 4), 1][ci] if it % 2 == 0 else [1, rng.randint(2, 4)][ci]
                cons.append({"mode": mode, "refine": r, "target": rng.randrange(L + 1), "comp": rng.choice([None, 0, nd - 1]) if nd > 1 else None,
                             "lb": -rng.randint(1, 8) / 4.0 - ci, "ub": rng.randint(1, 8) / 4.0 + ci})
            optis = []
            keep = None
            for with_con in (True, False):
              try:
                with B.quiet():
                    ocp = rockit.Ocp(t0=0.5, T=T)
                    xs = [ocp.state(nd) for _ in range(L)]
                    u = ocp.control(nd)
                    for a, b_ in zip(xs, xs[1:] + [u]):
                        ocp.set_der(a, b_)
                    ocp.add_objective(ocp.sum(ca.sumsqr(u)) + ocp.at_tf(sum(ca.sumsqr(x) for x in xs)))
                    ocp.subject_to(ocp.at_t0(xs[0]) == 1)
                    if with_con:
                        for c_ in cons:
                            e = (xs + [u])[c_["target"]]
                            if c_["comp"] is not None:
                                e = e[c_["comp"]]
                            if c_["mode"] == 'control':
                                ocp.subject_to(c_["lb"] <= (e <= c_["ub"]), refine=c_["refine"])
                            else:
                                ocp.subject_to(c_["lb"] <= (e <= c_["ub"]), grid='inf')
                    ocp.method(rockit.SplineMethod(N=N, grid=rockit.UniformGrid() if gk == 'uniform' else rockit.GeometricGrid(2)))
                    ocp.solver('ipopt', {'ipopt.print_level': 0, 'print_time': False, 'ipopt.max_iter': 0, 'ipopt.sb': 'yes'})
                    ocp._transcribed
                    opti = ocp._method.opti
                    optis.append(opti)
                    if with_con:
                        keep = (ocp, xs + [u])
              except Exception as ex:
                self.slice_ok[name] = False
                self.violation("SplineMethod raised on an integrator-chain problem (dimension %d) with path constraints %s: %s: %s"
                               % (nd, [(c_["mode"], c_["target"], c_["comp"]) for c_ in cons] if with_con else [], type(ex).__name__, str(ex)[:200].replace("\n", " ")),
                               {"L": L, "N": N, "T": T, "grid": gk, "dim": nd, "constraints": cons},
                               {"kind": "spline-constraint-exception", "one_component": any(c_["comp"] is not None for c_ in cons)})
                return
            oA, oB = optis
            self.evaluations += 1
            for c_ in cons:
                self.count("spline-constraint:%s" % c_["mode"])
            self.count("spline-constraints-per-problem:%d" % ncon)
            if len(set(c_["refine"] for c_ in cons if c_["mode"] == 'control')) > 1:
                self.count("spline-constraints-with-different-refine")
            self.signatures.add("splcon-%d-%d-%s-%r" % (L, N, gk, [(c_["mode"], c_["refine"], c_["target"]) for c_ in cons]))
            feats = {"kind": "spline-constraint", "modes": sorted(set(c_["mode"] for c_ in cons)), "ncon": ncon}
            payload = {"L": L, "N": N, "T": T, "grid": gk, "dim": nd, "constraints": cons}
            if nd > 1:
                self.count("spline-constraint-vector-chain")
            if any(c_["comp"] is not None for c_ in cons):
                self.count("spline-constraint-on-one-component")
            if oA.x.numel() != oB.x.numel():
                continue
            ocp, members = keep
            with B.quiet():
                WA = Walker(ca.Function('a', [oA.x, oA.p], [oA.g, oA.lbg, oA.ubg]))
                WB = Walker(ca.Function('b', [oB.x, oB.p], [oB.g, oB.lbg, oB.ubg]))
                outs = []
                for c_ in cons:
                    e = members[c_["target"]]
                    if c_["comp"] is not None:
                        e = e[c_["comp"]]
                    if c_["mode"] == 'control':
                        _, vs = ocp.sample(e, grid='control', refine=c_["refine"])
                    else:
                        _, vs = ocp.sample(e, grid='gist')
                    _, fine = ocp.sample(e, grid='control', refine=7)
                    outs += [ca.vec(ca.MX(vs)), ca.vec(ca.MX(fine))]
                WS = Walker(ca.Function('s', [oA.x, oA.p], outs))
            xv = [rnd(rng) for _ in range(oA.x.numel())]
            pv = [rnd(rng, True) for _ in range(oA.p.numel())]
            gA, lA, uA = WA([xv, pv])
            gB, lB, uB = WB([xv, pv])
            rowsB = list(zip([v[0] for v in gB], [v[0] for v in lB], [v[0] for v in uB]))
            extra = []
            ptr = 0
            for row in zip(gA, lA, uA):
                key = (row[0][0], row[1][0], row[2][0])
                if ptr < len(rowsB) and key == rowsB[ptr]:
                    ptr += 1
                else:
                    extra.append(row)
            if ptr != len(rowsB):
                self.count("spline-constraint-skipped(rows-not-a-subsequence)")
                continue
            self.count("spline-constraint-compared")
            atoms = sorted(fl(a[0]) for a in B.atoms_of_impl([r_[0] for r_ in extra], [r_[1] for r_ in extra], [r_[2] for r_ in extra]))
            res = WS([xv, pv])
            want = []
            for ci, c_ in enumerate(cons):
                vals = res[2 * ci]
                want += [fl(v[0]) - c_["lb"] for v in vals] + [c_["ub"] - fl(v[0]) for v in vals]
            want.sort()
            if len(atoms) != len(want) or any(abs(a - w) > 1e-9 * max(1.0, abs(a), abs(w)) for a, w in zip(atoms, want)):
                self.slice_ok[name] = False
                self.violation("SplineMethod: the rows of the path constraints %s are not each constraint at every point of its own refined grid "
                               "(control) / on every B-spline coefficient (inf): %d row atoms vs %d expected, e.g. %s vs %s"
                               % ([(c_["mode"], "refine=%d" % c_["refine"]) for c_ in cons], len(atoms), len(want), atoms[:4], want[:4]), dict(payload, x=xv), feats)
                return
            # sufficiency for all times: no refined sample of an 'inf'-constrained signal is closer to a bound than the closest row
            if atoms and all(c_["mode"] == 'inf' for c_ in cons):
                worst = min(min(fl(v[0]) - c_["lb"], c_["ub"] - fl(v[0])) for ci, c_ in enumerate(cons) for v in res[2 * ci + 1])
                if worst < atoms[0] - 1e-9 * (1.0 + abs(atoms[0])):
                    self.slice_ok[name] = False
                    self.violation("SplineMethod grid='inf': the smallest row slack is %s but the signal comes within %s of a bound between grid points" % (atoms[0], worst),
                                   dict(payload, x=xv), feats)
                    return

    def sampling_signal_slice(self):
        """a bspline variable under MultipleShooting / DirectCollocation: its refined samples are a degree-d spline on the control grid:
        the sample values are linear in the decision vector, and the Jacobian columns of the N+d coefficient variables are the Cox-de Boor
        basis functions at the sample times"""
        import casadi as ca
        import numpy as np
        rockit = B.import_rockit()
        name = "signals-under-sampling-methods"
        n = 6 if self.tier == 'quick' else 60
        for it in range(n):
            rng = self.rng
            d = rng.randint(0, 3)
            N = rng.randint(1, 4)
            M = rng.randint(1, 2)
            r = rng.randint(1, 3) + d      # enough sample points inside every interval for all N+d coefficients to show
            meth = rng.choice(['ms', 'dc'])
            gk = rng.choice(['uniform', 'geometric'])
            with B.quiet():
                ocp = rockit.Ocp(t0=1.0, T=rng.choice([1.0, 2.0, 4.0]))
                x = ocp.state()
                w = ocp.variable(grid='bspline', order=d)
                ocp.set_der(x, -x + w)
                ocp.add_objective(ocp.integral(x ** 2 + w ** 2))
                ocp.subject_to(ocp.at_t0(x) == 1)
                grid = rockit.UniformGrid() if gk == 'uniform' else rockit.GeometricGrid(2)
                ocp.method(rockit.MultipleShooting(N=N, M=M, intg='rk', grid=grid) if meth == 'ms' else rockit.DirectCollocation(N=N, M=M, degree=2, grid=grid))
                ocp.solver('ipopt', {'ipopt.print_level': 0, 'print_time': False, 'ipopt.max_iter': 0, 'ipopt.sb': 'yes'})
                ocp._transcribed
                opti = ocp._method.opti
                ts, vs = ocp.sample(w, grid='integrator', refine=r)
                tc, _ = ocp.sample(w, grid='control')
                J = ca.Function('J', [opti.x, opti.p], [ca.jacobian(ca.vec(ca.MX(vs)), opti.x), ca.vec(ca.MX(ts)), ca.vec(ca.MX(tc)), ca.vec(ca.MX(vs))])
                x0 = [rng.randint(-4, 4) / 2.0 for _ in range(opti.x.numel())]
                p0 = [1.0] * opti.p.numel()
                Jv, tv, tcv, vv = J(x0, p0)
            Jv = np.array(ca.DM(Jv))
            tv = np.array(tv).flatten()
            tcv = [Fr(float(v)) for v in np.array(tcv).flatten()]
            self.evaluations += 1
            self.count("sampling-signal:%s" % meth)
            self.signatures.add("sampsig-%d-%d-%d-%d-%s-%s" % (d, N, M, r, meth, gk))
            feats = {"kind": "sampling-signal", "method": meth, "order": d}
            payload = {"order": d, "N": N, "M": M, "refine": r, "method": meth, "grid": gk}
            cols = [j for j in range(Jv.shape[1]) if np.any(np.abs(Jv[:, j]) > 1e-12)]
            if len(cols) != N + d:
                self.slice_ok[name] = False
                self.violation("a bspline variable of order %d on N=%d intervals depends on %d decision variables (expected N+d = %d coefficients)" % (d, N, len(cols), N + d),
                               payload, feats)
                return
            cols.sort(key=lambda j: (int(np.argmax(np.abs(Jv[:, j]) > 1e-12)), -int(np.argmax(np.abs(Jv[::-1, j]) > 1e-12))))
            for pi, t in enumerate(tv):
                want = bs_basis(tcv, d, Fr(float(t)))
                for ci, j in enumerate(cols):
                    if abs(Jv[pi, j] - float(want[ci])) > 1e-9:
                        self.slice_ok[name] = False
                        self.violation("bspline variable (order %d, %s): d sample(t=%s)/d coefficient %d = %r, Cox-de Boor basis value is %r" % (d, meth, t, ci, Jv[pi, j], float(want[ci])),
                                       payload, feats)
                        return

    def equivalence_slice(self):
        """numeric support (a test): same optimal value under SplineMethod and MultipleShooting for a chain problem both represent
        exactly (piecewise-constant control, objective and constraints on the control grid)"""
        import casadi as ca
        rockit = B.import_rockit()
        n = 2 if self.tier == 'quick' else 15
        for it in range(n):
            L = self.rng.randint(1, 3)
            N = self.rng.randint(2, 5)
            T = self.rng.choice([1.0, 2.0, 3.0])
            x0 = [self.rng.randint(-4, 4) / 2.0 for _ in range(L)]
            w = self.rng.choice([0.5, 1.0, 2.0])
            vals = []
            for meth in ('spline', 'ms'):
                with B.quiet():
                    ocp = rockit.Ocp(T=T)
                    xs = [ocp.state() for _ in range(L)]
                    u = ocp.control()
                    for a, b_ in zip(xs, xs[1:] + [u]):
                        ocp.set_der(a, b_)
                    ocp.add_objective(ocp.sum(w * u ** 2 + xs[0] ** 2, include_last=False) + 10 * ocp.at_tf(ca.sumsqr(ca.vertcat(*xs))))
                    for xx, v in zip(xs, x0):
                        ocp.subject_to(ocp.at_t0(xx) == v)
                    ocp.subject_to(-5 <= (u <= 5), include_last=False)
                    ocp.method(rockit.SplineMethod(N=N) if meth == 'spline' else rockit.MultipleShooting(N=N, M=1, intg='rk'))
                    ocp.solver('ipopt', {'ipopt.print_level': 0, 'print_time': False, 'ipopt.tol': 1e-10, 'ipopt.sb': 'yes'})
                    try:
                        sol = ocp.solve()
                        vals.append(float(sol.value(ocp.objective)))
                    except Exception as ex:
                        vals.append(None)
            self.evaluations += 1
            self.count("equivalence-runs")
            if None in vals:
                continue
            if abs(vals[0] - vals[1]) > 1e-6 * max(1.0, abs(vals[1])):
                self.slice_ok["spline-vs-shooting"] = False
                self.violation("optimal value under SplineMethod %r differs from MultipleShooting %r on an integrator chain of length %d (N=%d, T=%s)" % (vals[0], vals[1], L, N, T),
                               {"L": L, "N": N, "T": T, "x0": x0, "w": w}, {"kind": "equivalence"})
                return


# ---------------------------------------------------------------------------------------------
# C03: convergence (numeric support for the theorems of Props/C03.lean; every measurement here is a TEST, not a proof)
def gen_smooth_ode(rng, nx=None, control=True, dae=False):
    """smooth, mildly nonlinear, explicitly time-dependent ODE with a parameter, a control and a state-dependent integrand"""
    d = B.default_desc()
    nx = nx or rng.choice([1, 2, 2, 3])
    d['states'] = [1] * nx
    d['controls'] = [1] if control else []
    d['params'][''] = [1]
    xs = [('x', i) for i in range(nx)]
    q = lambda lo=-6, hi=6: E.C(Fr(rng.choice([v for v in range(lo, hi + 1) if v != 0]), 4))
    ode = []
    for i in range(nx):
        e = ('*', q(-6, -1), xs[i])                                       # stable linear part
        if nx > 1:
            e = ('+', e, ('*', q(), xs[(i + 1) % nx]))
        e = ('+', e, ('/', ('*', q(), ('*', xs[i], xs[(i + 1) % nx])), ('+', E.C(1), ('*', xs[i], xs[i]))))   # bounded nonlinearity
        e = ('+', e, ('*', q(), ('*', ('t',), ('p', 0))))                  # explicit time x parameter
        e = ('+', e, ('*', q(), ('*', ('t',), ('t',))))
        if control and i == nx - 1:
            e = ('+', e, ('*', q(), ('u', 0)))
        ode.append(e)
    d['ode'] = ode
    if dae:
        d['algs'] = [1]
        z = ('z', 0)
        d['alg'] = [('-', ('*', E.C(2), z), ('+', xs[0], ('*', E.C(Fr(1, 2)), ('t',))))]   # 2 z = x0 + t/2
        d['ode'][0] = ('+', d['ode'][0], ('*', q(), z))
    integrand = ('+', ('*', xs[0], xs[-1]), ('*', E.C(Fr(1, 2)), ('*', ('t',), xs[0])))
    d['phs'] = [('integral', integrand)]
    d['obj'] = ('ph', 0)
    d['integrand'] = integrand
    return d


def reference_flow(desc, x0, u, p, t0, T):
    """high-accuracy reference of the declared continuous-time model, independent of rockit: scipy DOP853 on the expression AST
    (the algebraic variable of the generated index-1 DAE is eliminated in closed form: 2 z = x0 + t/2)"""
    import numpy as np
    from scipy.integrate import solve_ivp
    nx = sum(desc['states'])

    def rhs(t, y):
        env = {('x', i): y[i] for i in range(nx)}
        env[('t',)] = t
        env[('p', 0)] = p
        if desc['controls']:
            env[('u', 0)] = u
        if desc['algs']:
            env[('z', 0)] = (y[0] + 0.5 * t) / 2.0
        return [float(E.evaluate(e, env)) for e in desc['ode']] + [float(E.evaluate(desc['integrand'], env))]
    sol = solve_ivp(rhs, (t0, t0 + T), list(x0) + [0.0], method='DOP853', rtol=1e-13, atol=1e-14)
    y = sol.y[:, -1]
    return y[:nx], y[nx]


EXPECTED_ORDER = {'rk': 4, 'expl_euler': 1}


@register
class C03(Check):
    pid = "C03"
    uses_generated = True
    slices = ["shooting-order", "collocation-order", "builtin-integrators", "sys_simulator", "interval-parameters"]

    def explanation(self):
        return ("PARTIAL. theorems: intg_rk is the Runge-Kutta method with the classical tableau, which satisfies all eight order conditions up to "
                "order 4 and fails the first of order 5; RK4 is exact for x' = cubic(t) (state and quadrature output) and its error for t^4 is "
                "exactly h^5/120; Euler's for affine is exactly -a1 h^2/2; stability functions and M-step propagation on x' = lambda x; discrete "
                "Gronwall and the global-error-from-local-error theorem (order p from local order p+1 and a Lipschitz one-step map); COMPLETE "
                "convergence proofs over the reals for the linear test equation: RK4 error <= |x0| e^{|lambda T|} |lambda|^5 |T|^5 / 100 / M^4, Euler "
                "<= |x0| e^{|lambda T|} lambda^2 T^2 / M; the time rescaling of intg_builtin / sys_simulator (HasDerivAt, vector valued). NOT proved: "
                "order conditions => local error for arbitrary smooth vector fields, collocation super-convergence, CasADi's integrators. numeric "
                "tests (labelled as such): observed order of the state transition AND of ocp.integral for generated smooth time-dependent ODEs "
                "with control and parameter, M in {1,2,4,8}, against a scipy DOP853 reference of the expression AST: rk >= 4, expl_euler >= 1, "
                "collocation radau 2d-1 / legendre 2d (d = 1..3, index-1 DAE included), errors decreasing; cvodes / collocation / idas within "
                "tolerance with t0 != 0 and explicit time dependence; sys_simulator and discrete_system give the same flow")

    def interval_parameter_slice(self):
        """the flow implied by a TRANSCRIPTION (not only by discrete_system) for every parameter value: global, per-interval and
        per-interval-with-final-node parameters all enter the right-hand side and the integrand with values that differ between intervals;
        the end state and ocp.integral of the solved (square) problem approach the piecewise reference as M grows"""
        import casadi as ca
        import numpy as np
        from scipy.integrate import solve_ivp
        rockit = B.import_rockit()
        name = "interval-parameters"
        n = 3 if self.tier == 'quick' else 24
        rng = self.rng
        for it in range(n):
            meth = ['ms', 'dc', 'ss'][it % 3]
            N = 2
            t0, T = rng.choice([0.5, -0.25, 1.0]), rng.choice([1.0, 1.5])
            x0 = rng.randint(-4, 4) / 4.0
            pg = rng.randint(1, 6) / 4.0
            av = [rng.randint(1, 8) / 4.0 for _ in range(N)]
            bv = [rng.randint(-8, 8) / 4.0 for _ in range(N + 1)]
            if av[0] == av[1]:
                av[1] += 0.75
            if bv[0] == bv[1]:
                bv[1] -= 1.25
            info = {"method": meth, "t0": t0, "T": T, "x0": x0, "p": pg, "a": av, "b": bv}

            def flow(M):
                with B.quiet():
                    ocp = rockit.Ocp(t0=t0, T=T)
                    x = ocp.state()
                    a = ocp.parameter(grid='control')
                    b_ = ocp.parameter(grid='control', include_last=True)
                    pp = ocp.parameter()
                    ocp.set_der(x, -a * x + b_ * ca.sin(x) + pp * ocp.t)
                    ocp.add_objective(ocp.integral(a * x ** 2 + b_ * ocp.t))
                    ocp.subject_to(ocp.at_t0(x) == x0)
                    ocp.set_value(a, ca.DM([av])); ocp.set_value(b_, ca.DM([bv])); ocp.set_value(pp, pg)
                    ocp.set_initial(x, x0)
                    ocp.method({'ms': rockit.MultipleShooting(N=N, M=M, intg='rk'), 'ss': rockit.SingleShooting(N=N, M=M, intg='rk'),
                                'dc': rockit.DirectCollocation(N=N, M=M, degree=2, scheme='legendre')}[meth])
                    ocp.solver('ipopt', {'ipopt.print_level': 0, 'print_time': False, 'ipopt.tol': 1e-13, 'ipopt.sb': 'yes', 'ipopt.max_iter': 200})
                    try:
                        sol = ocp.solve()
                    except Exception:
                        sol = ocp.non_converged_solution
                    return float(np.array(sol.sample(x, grid='control')[1]).flatten()[-1]), float(sol.value(ocp.objective))
            # reference: interval k uses a[k], b[k]
            y = [x0, 0.0]
            for k in range(N):
                ta, tb = t0 + k * T / N, t0 + (k + 1) * T / N
                r = solve_ivp(lambda t, y_, k=k: [-av[k] * y_[0] + bv[k] * np.sin(y_[0]) + pg * t, av[k] * y_[0] ** 2 + bv[k] * t], (ta, tb), y,
                              method='DOP853', rtol=1e-13, atol=1e-14)
                y = [r.y[0, -1], r.y[1, -1]]
            try:
                e = []
                for M in (2, 8):
                    xf, qf = flow(M)
                    e.append((abs(xf - y[0]), abs(qf - y[1])))
            except Exception as ex:
                self.slice_ok[name] = False
                self.violation("a problem with per-interval parameters in the dynamics raised %s: %s" % (type(ex).__name__, str(ex)[:200]), {"case": info}, {"kind": "exception", "what": "interval-parameters"})
                return
            self.evaluations += 1
            self.signatures.add("ipar-%d-%s" % (it, meth))
            self.count("interval-parameters:" + meth)
            for qi, what in ((0, "state transition"), (1, "ocp.integral")):
                e2, e8 = e[0][qi], e[1][qi]
                if e8 > 1e-5 * max(1.0, abs(y[qi])) and not (e8 < 0.3 * e2):
                    self.slice_ok[name] = False
                    self.violation("%s with per-interval parameters in the dynamics (%s): error %.3e at M=2 and %.3e at M=8 against the piecewise reference — it does not vanish as M grows"
                                   % (what, meth, e2, e8), {"case": info, "reference": y}, {"kind": "interval-parameters", "quantity": what, "method": meth})
                    return

    def correspondence(self):
        self.shooting_slice()
        self.interval_parameter_slice()
        self.collocation_slice()
        self.builtin_slice()
        self.simulator_slice()

    def point(self, desc):
        rng = self.rng
        nx = sum(desc['states'])
        x0 = [rng.randint(-4, 4) / 4.0 for _ in range(nx)]
        u = rng.randint(-4, 4) / 4.0
        p = rng.randint(1, 6) / 4.0
        t0 = rng.randint(-2, 4) / 4.0
        T = rng.choice([0.5, 0.75, 1.0])
        return x0, u, p, t0, T

    def order_verdict(self, errs, p, what, payload, feats, floor=1e-11):
        """errs: [e_1, e_2, e_4, e_8]. The error must shrink as M grows, at (at least) the classical order in the asymptotic regime."""
        errs = [max(e, 1e-300) for e in errs]
        pairs = [(errs[i], errs[i + 1]) for i in range(len(errs) - 1)]
        usable = [(a, b_) for a, b_ in pairs if b_ > floor]
        if errs[-1] > 0.9 * max(errs[:-1]) and max(errs) > 1e-9:
            return "%s: the error does not vanish as M grows: %s" % (what, ["%.3e" % e for e in errs])
        if not usable:
            return None
        a, b_ = usable[-1]
        # two-point estimates are noisy when error terms of consecutive orders cancel at one M: take the better of the
        # last pair and the average slope over the whole usable range (a scheme of lower order fails both)
        first = pairs.index(usable[0])
        last = pairs.index(usable[-1]) + 1
        rate = max(math.log(a / b_, 2), math.log(errs[first] / errs[last], 2) / (last - first))
        self.count("observed-order:%s:%d" % (feats.get("scheme", "?"), int(round(rate))))
        if rate < p - 0.75:
            return "%s: observed order %.2f (errors %s for M=1,2,4,8), classical order %d" % (what, rate, ["%.3e" % e for e in errs], p)
        return None

    def shooting_slice(self):
        import numpy as np
        rockit = B.import_rockit()
        name = "shooting-order"
        n = 6 if self.tier == 'quick' else 60
        for it in range(n):
            intg = ['rk', 'expl_euler'][it % 2]
            desc = gen_smooth_ode(self.rng)
            x0, u, p, t0, T = self.point(desc)
            xr, qr = reference_flow(desc, x0, u, p, t0, T)
            ex, eq = [], []
            for M in (1, 2, 4, 8):
                b = B.build(copy.deepcopy(desc), transcribe=False)
                with B.quiet():
                    cls = rockit.MultipleShooting if it % 4 < 2 else rockit.SingleShooting
                    b.ocp.method(cls(N=1, M=M, intg=intg))
                    F = b.ocp.discrete_system()
                    out = F(x0, [u], T, t0, [p], [])
                xf = np.array(out[0]).flatten()
                qf = float(np.array(out[3]).flatten()[0])
                ex.append(float(np.max(np.abs(xf - xr))))
                eq.append(abs(qf - qr))
            self.evaluations += 1
            self.record_case(desc, True, {"intg": intg, "T": T, "state_errors": ex, "integral_errors": eq})
            payload = {"desc": desc, "x0": x0, "u": u, "p": p, "t0": t0, "T": T}
            for errs, what in ((ex, "state transition"), (eq, "ocp.integral")):
                feats = {"kind": "order", "scheme": intg, "quantity": what}
                msg = self.order_verdict(errs, EXPECTED_ORDER[intg], "%s under intg='%s'" % (what, intg), payload, feats)
                if msg:
                    # an order estimate can be off when the horizon is not yet in the asymptotic regime: confirm on half the
                    # horizon with twice as many steps before reporting
                    T2 = T / 2.0
                    xr2, qr2 = reference_flow(desc, x0, u, p, t0, T2)
                    e2 = []
                    for M in (2, 4, 8, 16):
                        b = B.build(copy.deepcopy(desc), transcribe=False)
                        with B.quiet():
                            b.ocp.method(rockit.MultipleShooting(N=1, M=M, intg=intg))
                            out = b.ocp.discrete_system()(x0, [u], T2, t0, [p], [])
                        e2.append(float(np.max(np.abs(np.array(out[0]).flatten() - xr2))) if what == "state transition" else abs(float(np.array(out[3]).flatten()[0]) - qr2))
                    msg2 = self.order_verdict(e2, EXPECTED_ORDER[intg], "%s under intg='%s' (half horizon, M=2..16)" % (what, intg), payload, feats)
                    if msg2:
                        self.slice_ok[name] = False
                        self.violation(msg + " ; confirmed: " + msg2, dict(payload, errors=errs, errors_half_horizon=e2), feats)
                        return

    def dc_flow(self, desc, x0, p, t0, T, M, degree, scheme, geometric=False):
        """state at t0+T and integral implied by DirectCollocation: solve the (square) collocation system"""
        import numpy as np
        rockit = B.import_rockit()
        d = copy.deepcopy(desc)
        d['t0'] = ('num', Fr(t0))
        d['T'] = ('num', Fr(T))
        b = B.build(d, transcribe=False)
        with B.quiet():
            o = b.ocp
            for s, v in zip(b.states, x0):
                o.subject_to(o.at_t0(s) == v)
            o.set_value(b.params[''][0], p)
            if geometric:
                # two control intervals of unequal length: every interval must be integrated over ITS OWN times
                o.method(rockit.DirectCollocation(N=2, M=M, degree=degree, scheme=scheme, grid=rockit.GeometricGrid(3)))
            else:
                o.method(rockit.DirectCollocation(N=1, M=M, degree=degree, scheme=scheme))
            o.solver('ipopt', {'ipopt.print_level': 0, 'print_time': False, 'ipopt.tol': 1e-13, 'ipopt.sb': 'yes', 'ipopt.max_iter': 200})
            for s, v in zip(b.states, x0):
                o.set_initial(s, v)
            try:
                sol = o.solve()
            except Exception:
                sol = o.non_converged_solution
            xf = np.array([np.array(sol.sample(s, grid='control')[1]).flatten()[-1] for s in b.states])
            qf = float(sol.value(o.objective))
        return xf, qf

    def collocation_slice(self):
        import numpy as np
        name = "collocation-order"
        n = 4 if self.tier == 'quick' else 36
        for it in range(n):
            degree = [1, 2, 2, 3][it % 4]
            scheme = ['radau', 'legendre'][(it // 2) % 2] if self.tier != 'quick' else ['radau', 'legendre', 'legendre', 'radau'][it % 4]
            order = 2 * degree - 1 if scheme == 'radau' else 2 * degree
            desc = gen_smooth_ode(self.rng, nx=self.rng.choice([1, 2]), control=False, dae=(it % 3 == 2))
            x0, u, p, t0, T = self.point(desc)
            T = T * (2.0 if order >= 5 else 1.0)
            xr, qr = reference_flow(desc, x0, 0.0, p, t0, T)
            ex, eq = [], []
            geometric = it % 2 == 1
            for M in (1, 2, 4, 8):
                xf, qf = self.dc_flow(desc, x0, p, t0, T, M, degree, scheme, geometric)
                ex.append(float(np.max(np.abs(xf - xr))))
                eq.append(abs(qf - qr))
            self.evaluations += 1
            self.signatures.add("dc-%d-%s-%d" % (degree, scheme, it))
            self.count("collocation:%s-%d" % (scheme, degree))
            self.count("collocation-grid:%s" % ("geometric(N=2)" if geometric else "one interval"))
            payload = {"desc": desc, "x0": x0, "p": p, "t0": t0, "T": T, "degree": degree, "scheme": scheme, "geometric": geometric}
            for errs, what in ((ex, "state transition"), (eq, "ocp.integral")):
                feats = {"kind": "order", "scheme": "%s-%d" % (scheme, degree), "quantity": what}
                msg = self.order_verdict(errs, order, "%s under DirectCollocation(degree=%d, scheme='%s')" % (what, degree, scheme), payload, feats, floor=1e-10)
                if msg:
                    # high-order schemes reach the asymptotic regime late: confirm on a four times finer sequence before reporting
                    e2 = []
                    for M in (4, 8, 16, 32):
                        xf, qf = self.dc_flow(desc, x0, p, t0, T, M, degree, scheme, geometric)
                        e2.append(float(np.max(np.abs(xf - xr))) if what == "state transition" else abs(qf - qr))
                    msg2 = self.order_verdict(e2, order, "%s under DirectCollocation(degree=%d, scheme='%s'), M=4..32" % (what, degree, scheme), payload, feats, floor=1e-10)
                    if msg2:
                        self.slice_ok[name] = False
                        self.violation(msg + " ; confirmed: " + msg2, dict(payload, errors=errs, errors_finer=e2), feats)
                        return

    def builtin_slice(self):
        import numpy as np
        rockit = B.import_rockit()
        name = "builtin-integrators"
        n = 4 if self.tier == 'quick' else 30
        for it in range(n):
            intg = ['cvodes', 'collocation', 'idas', 'cvodes'][it % 4]
            dae = intg == 'idas'
            desc = gen_smooth_ode(self.rng, dae=dae)
            x0, u, p, t0, T = self.point(desc)
            xr, qr = reference_flow(desc, x0, u, p, t0, T)
            b = B.build(copy.deepcopy(desc), transcribe=False)
            opts = {'abstol': 1e-10, 'reltol': 1e-10} if intg in ('cvodes', 'idas') else {'number_of_finite_elements': 20, 'interpolation_order': 4}
            try:
                with B.quiet():
                    b.ocp.method(rockit.MultipleShooting(N=1, M=self.rng.choice([1, 2]), intg=intg, intg_options=opts))
                    F = b.ocp.discrete_system()
                    out = F(x0, [u], T, t0, [p], [0.0] * sum(desc['algs']))
            except Exception as ex:
                self.slice_ok[name] = False
                self.violation("intg='%s' raised: %s: %s" % (intg, type(ex).__name__, str(ex)[:300].replace("\n", " ")), {"desc": desc},
                               {"kind": "exception", "intg": intg})
                return
            xf = np.array(out[0]).flatten()
            err = float(np.max(np.abs(xf - xr)))
            self.evaluations += 1
            self.signatures.add("builtin-%s-%d" % (intg, it))
            self.count("builtin:%s" % intg)
            if err > 1e-6 * max(1.0, float(np.max(np.abs(xr)))):
                self.slice_ok[name] = False
                self.violation("intg='%s' (tolerance 1e-10): state at t0+T differs from the exact flow of the declared model by %.3e (t0=%s, explicit time "
                               "dependence)" % (intg, err, t0), {"desc": desc, "x0": x0, "u": u, "p": p, "t0": t0, "T": T, "impl": xf.tolist(), "reference": xr.tolist()},
                               {"kind": "tolerance", "intg": intg})
                return

    def simulator_slice(self):
        import numpy as np
        rockit = B.import_rockit()
        name = "sys_simulator"
        n = 3 if self.tier == 'quick' else 25
        for it in range(n):
            desc = gen_smooth_ode(self.rng)
            x0, u, p, t0, T = self.point(desc)
            # the simulator rescales time (t = t0 + tau*dt): a start time of 0 or a length of 1 would hide a wrong rescaling
            if t0 == 0:
                t0 = 0.75
            if T == 1.0:
                T = [0.5, 0.75, 1.25][it % 3]
            xr, qr = reference_flow(desc, x0, u, p, t0, T)
            b = B.build(copy.deepcopy(desc), transcribe=False)
            with B.quiet():
                b.ocp.method(rockit.MultipleShooting(N=1, M=16, intg='rk'))
                F = b.ocp.discrete_system()
                xd = np.array(F(x0, [u], T, t0, [p], [])[0]).flatten()
                sim = b.ocp.sys_simulator(intg='cvodes', intg_options={'abstol': 1e-11, 'reltol': 1e-11})
                xs = np.array(sim(x0, [u], [p], t0, T, [])[0]).flatten()
            self.evaluations += 1
            self.count("simulator-runs")
            self.signatures.add("sim-%d" % it)
            scale = max(1.0, float(np.max(np.abs(xr))))
            if float(np.max(np.abs(xs - xr))) > 1e-6 * scale:
                self.slice_ok[name] = False
                self.violation("ocp.sys_simulator() does not follow the declared model: differs from the exact flow by %.3e" % float(np.max(np.abs(xs - xr))),
                               {"desc": desc, "x0": x0, "u": u, "p": p, "t0": t0, "T": T}, {"kind": "simulator"})
                return
            if float(np.max(np.abs(xs - xd))) > 1e-4 * scale:
                self.slice_ok[name] = False
                self.violation("ocp.sys_simulator() and ocp.discrete_system() (rk, M=16) describe different flows: %.3e apart" % float(np.max(np.abs(xs - xd))),
                               {"desc": desc, "x0": x0, "u": u, "p": p, "t0": t0, "T": T}, {"kind": "simulator"})
                return
