"""Build a real rockit OCP from a structural description, transcribe it, and expose
 - the NLP (f, g, lbg, ubg) as an exactly evaluable function of (opti.x, opti.p)
 - the physical quantities (node states, controls, variables, T, t0, parameters, …) read back through
   the public sampling API as exactly evaluable functions of (opti.x, opti.p)
 - the protocol lines that describe the same OCP to the Lean driver.
"""
import os
import sys
import contextlib
from fractions import Fraction

import casadi as ca

from . import expr as E
from .walk import Walker

_DEPS = os.path.join(os.path.dirname(os.path.dirname(os.path.abspath(__file__))), ".deps")
if os.path.isdir(_DEPS) and _DEPS not in sys.path:
    sys.path.insert(0, _DEPS)


@contextlib.contextmanager
def quiet():
    """rockit prints debugging output on several paths; keep our stdout for protocol lines"""
    sys.stdout.flush()
    saved = os.dup(1)
    log = os.open(os.environ.get("VERIF_ROCKIT_LOG", os.devnull), os.O_WRONLY | os.O_CREAT | os.O_APPEND)
    try:
        os.dup2(log, 1)
        yield
    finally:
        sys.stdout.flush()
        os.dup2(saved, 1)
        os.close(saved)
        os.close(log)


def import_rockit():
    repo = os.environ.get("VERIF_REPO", "/repo")
    if repo not in sys.path:
        sys.path.insert(0, repo)
    import rockit
    assert os.path.abspath(rockit.__file__).startswith(os.path.abspath(repo)), rockit.__file__
    return rockit


def default_desc():
    return {
        'states': [], 'controls': [], 'algs': [], 'nq': 0,
        'params': {'': [], 'control': [], 'control+': []},
        'vars': {'': [], 'control': [], 'control+': []},
        'ode': [], 'quad': [], 'alg': [], 'next': False,
        'cons': [], 'phs': [], 'obj': None,
        't0': ('num', Fraction(0)), 'T': ('num', Fraction(1)),
        'scale_x': None, 'scale_der': None, 'scale_u': None, 'scale_z': None,
        'method': {'kind': 'ms', 'N': 2, 'M': 1, 'intg': 'rk', 'degree': 2, 'scheme': 'radau',
                   'grid': {'kind': 'uniform'}},
    }


class _NormalizedData:
    """the user function of a FunctionGrid: returns a fixed normalised vector (a class, not a lambda: picklable for save/load)"""
    def __init__(self, nz):
        self.nz = list(nz)

    def __call__(self, N):
        return list(self.nz)


def make_grid(rockit, g):
    import_rockit()
    from rockit import UniformGrid, GeometricGrid, FreeGrid
    from rockit.sampling_method import FunctionGrid
    kw = {}
    if g.get('localize_t0'):
        kw['localize_t0'] = True
    if g.get('localize_T'):
        kw['localize_T'] = True
    if 'min' in g:
        kw['min'] = float(g['min'])
    if 'max' in g:
        kw['max'] = float(g['max'])
    k = g['kind']
    if k == 'uniform':
        return UniformGrid(**kw)
    if k == 'geometric':
        return GeometricGrid(float(g['growth']), local=bool(g.get('local', False)), **kw)
    if k == 'free':
        return FreeGrid(**kw)
    if k == 'data':
        nz = [float(v) for v in g['nz']]
        return FunctionGrid(_NormalizedData(nz), **kw)
    if k == 'density_poly':
        from rockit.sampling_method import DensityGrid
        import casadi as ca
        t = ca.MX.sym('tau')
        a, b_, c = [float(v) for v in g['coef']]
        return DensityGrid(a + b_ * t + c * t * t, **kw)
    if k == 'dense_edges':
        from rockit.sampling_method import DenseEdgesGrid
        return DenseEdgesGrid(multiplier=float(g['multiplier']), edge_frac=float(g['edge_frac']), **kw)
    raise ValueError(k)


def make_method(rockit, m):
    rockit = import_rockit()
    grid = make_grid(rockit, m['grid'])
    kind = m['kind']
    if kind == 'ms':
        return rockit.MultipleShooting(N=m['N'], M=m['M'], intg={'rk': 'rk', 'euler': 'expl_euler', 'next': 'rk'}.get(m['intg'], m['intg']), grid=grid)
    if kind == 'ss':
        return rockit.SingleShooting(N=m['N'], M=m['M'], intg={'rk': 'rk', 'euler': 'expl_euler', 'next': 'rk'}.get(m['intg'], m['intg']), grid=grid)
    if kind == 'dc':
        return rockit.DirectCollocation(N=m['N'], M=m['M'], degree=m['degree'], scheme=m['scheme'], grid=grid)
    raise ValueError(kind)


class Built:
    pass


def flat_syms(syms):
    """list of MX symbols -> list of scalar MX entries (column-major per symbol)"""
    out = []
    for s in syms:
        for i in range(s.numel()):
            out.append(s[i])
    return out


def horizon_kwargs(desc, keys=('t0', 'T')):
    from rockit import FreeTime
    kw = {}
    for key in keys:
        kind = desc[key][0]
        if kind == 'num':
            kw[key] = float(desc[key][1])
        elif kind == 'free':
            kw[key] = FreeTime(float(desc[key][1]))
    return kw


def build(desc, transcribe=True, solver=True, extra_phys=False, stage_factory=None):
    """stage_factory(**horizon kwargs) -> Stage: declare the description on that stage (a child of a parent OCP or a
    free-standing template) instead of on a fresh Ocp; nothing is transcribed then"""
    rockit = import_rockit()
    from rockit import Ocp, FreeTime
    b = Built()
    b.desc = desc
    with quiet():
        kw = horizon_kwargs(desc)
        if stage_factory is not None:
            ocp = stage_factory(**kw)
            transcribe = False
            solver = False
        else:
            ocp = Ocp(**kw)
        b.ocp = ocp
        sx = desc.get('scale_x')
        b.states = []
        off = 0
        for n in desc['states']:
            sc = 1 if sx is None else ca.DM([float(v) for v in sx[off:off + n]])
            b.states.append(ocp.state(n, scale=sc))
            off += n
        b.qstates = [ocp.state(quad=True) for _ in range(desc['nq'])]
        su = desc.get('scale_u')
        b.controls = []
        off = 0
        for n in desc['controls']:
            sc = 1 if su is None else ca.DM([float(v) for v in su[off:off + n]])
            b.controls.append(ocp.control(n, scale=sc))
            off += n
        sz = desc.get('scale_z')
        b.algs = []
        off = 0
        for n in desc['algs']:
            sc = 1 if sz is None else ca.DM([float(v) for v in sz[off:off + n]])
            b.algs.append(ocp.algebraic(n, scale=sc))
            off += n
        b.params = {'': [], 'control': [], 'control+': []}
        for n in desc['params']['']:
            b.params[''].append(ocp.parameter(n))
        for n in desc['params']['control']:
            b.params['control'].append(ocp.parameter(n, grid='control'))
        for n in desc['params']['control+']:
            b.params['control+'].append(ocp.parameter(n, grid='control', include_last=True))
        b.vars = {'': [], 'control': [], 'control+': []}
        sv = desc.get('scale_v') or {}
        for gk, kwv in (('', {}), ('control', {'grid': 'control'}), ('control+', {'grid': 'control', 'include_last': True})):
            offv = 0
            for n in desc['vars'][gk]:
                sc = 1
                if gk in sv:
                    sc = ca.DM([float(v) for v in sv[gk][offv:offv + n]])
                b.vars[gk].append(ocp.variable(n, scale=sc, **kwv))
                offv += n
        fx = flat_syms(b.states)
        fu = flat_syms(b.controls)
        fz = flat_syms(b.algs)
        fq = flat_syms(b.qstates)
        fp = {k: flat_syms(v) for k, v in b.params.items()}
        fv = {k: flat_syms(v) for k, v in b.vars.items()}

        def sym_base(kind, i):
            if kind == 'x':
                return fx[i]
            if kind == 'u':
                return fu[i]
            if kind == 'z':
                return fz[i]
            if kind == 'xq':
                return fq[i]
            if kind == 't':
                return ocp.t
            if kind == 'T':
                return ocp.T
            if kind == 't0':
                return ocp.t0
            if kind == 'DT':
                return ocp.DT
            if kind == 'DTc':
                return ocp.DT_control
            if kind == 'p':
                return fp[''][i]
            if kind == 'pc':
                return fp['control'][i]
            if kind == 'pcp':
                return fp['control+'][i]
            if kind == 'v':
                return fv[''][i]
            if kind == 'vc':
                return fv['control'][i]
            if kind == 'vcp':
                return fv['control+'][i]
            raise KeyError(kind)
        b.sym_base = sym_base

        # horizon given by a parameter / variable
        for key, setter in (('t0', ocp.set_t0), ('T', ocp.set_T)):
            if desc[key][0] == 'p':
                setter(fp[''][desc[key][1]])
            elif desc[key][0] == 'v':
                setter(fv[''][desc[key][1]])

        # dynamics
        nx = len(fx)
        rhs = [E.to_casadi(e, sym_base) for e in desc['ode']]
        sder = desc.get('scale_der')
        off = 0
        concat = desc.get('concat_der') and sder is None and len(b.states) >= 2
        if concat:
            # the dynamics of all states declared in ONE call on the concatenation of the state symbols
            (ocp.set_next if desc.get('next') else ocp.set_der)(ca.vertcat(*b.states), ca.vertcat(*rhs))
        for si, s in enumerate([] if concat else b.states):
            n = s.numel()
            r = ca.vertcat(*rhs[off:off + n]) if n > 0 else ca.MX(0, 1)
            if desc.get('next'):
                ocp.set_next(s, r)
            else:
                if sder is None:
                    ocp.set_der(s, r)
                else:
                    ocp.set_der(s, r, scale=ca.DM([float(v) for v in sder[off:off + n]]))
            off += n
        for qi, q in enumerate(b.qstates):
            r = E.to_casadi(desc['quad'][qi], sym_base)
            if desc.get('next'):
                ocp.set_next(q, r)
            else:
                ocp.set_der(q, r)
        for e in desc['alg']:
            ocp.add_alg(E.to_casadi(e, sym_base))

        # placeholders
        b.ph_syms = []
        for kind, e in desc['phs']:
            ce = E.to_casadi(e, sym_base)
            if kind == 'at_t0':
                b.ph_syms.append(ocp.at_t0(ce))
            elif kind == 'at_tf':
                b.ph_syms.append(ocp.at_tf(ce))
            elif kind == 'sum':
                b.ph_syms.append(ocp.sum(ce))
            elif kind == 'sum_plus':
                b.ph_syms.append(ocp.sum(ce, include_last=True))
            elif kind == 'int_control':
                b.ph_syms.append(ocp.integral(ce, grid='control'))
            elif kind == 'integral':
                b.ph_syms.append(ocp.integral(ce))
            else:
                raise ValueError(kind)

        def sym_ph(kind, i):
            if kind == 'ph':
                return b.ph_syms[i]
            return sym_base(kind, i)
        b.sym_ph = sym_ph

        # constraints
        b.con_exprs = []
        for con in desc['cons']:
            offs = [ocp.offset(E.to_casadi(e, sym_base), int(o)) for (e, o) in con.get('offs', [])]
            if con['grid'] == 'inf':
                # special operands of an inf constraint: ('inert', expr) | ('der', state index)  (scalar states)
                offs = []
                for op in con.get('infops', []):
                    if op[0] == 'inert':
                        offs.append(ocp.inf_inert(E.to_casadi(op[1], sym_base)))
                    else:
                        offs.append(ocp.inf_der(b.states[op[1]]))

            def sym_con(kind, i, offs=offs):
                if kind == 'off':
                    return offs[i]
                return sym_ph(kind, i)
            A = ca.vertcat(*[E.to_casadi(e, sym_con) for e in con['a']])
            B = ca.vertcat(*[E.to_casadi(e, sym_con) for e in con['b']])
            sp = con.get('spelling')     # the same relation written another way: strict operator and/or operands swapped
            if con['rel'] == 'le':
                ce = {None: lambda: A <= B, 'strict': lambda: A < B, 'flipped': lambda: B >= A, 'flipped_strict': lambda: B > A}[sp]()
            elif con['rel'] == 'ge':
                ce = {None: lambda: A >= B, 'strict': lambda: A > B, 'flipped': lambda: B <= A, 'flipped_strict': lambda: B < A}[sp]()
            elif con['rel'] == 'eq':
                ce = A == B
            elif con['rel'] == 'two':
                Cc = ca.vertcat(*[E.to_casadi(e, sym_con) for e in con['c']])
                ce = (A <= (B <= Cc))
            else:
                raise ValueError(con['rel'])
            kwc = {}
            if con['grid'] != 'point':
                kwc['grid'] = {'roots': 'integrator_roots'}.get(con['grid'], con['grid'])
                if con['grid'] != 'inf':
                    kwc['include_first'] = bool(con.get('first', True))
                    kwc['include_last'] = bool(con.get('last', True))
            sc = con.get('scale')
            if sc is not None:
                kwc['scale'] = ca.DM([float(v) for v in sc]) if len(sc) > 1 else float(sc[0])
            ocp.subject_to(ce, **kwc)
            b.con_exprs.append(ce)

        if desc['obj'] is not None:
            ocp.add_objective(E.to_casadi(desc['obj'], sym_ph))

        for gk in ('', 'control', 'control+'):
            for i, p in enumerate(b.params[gk]):
                val = desc.get('param_values', {}).get((gk, i))
                if val is None:
                    cols = {'': 1, 'control': desc['method']['N'], 'control+': desc['method']['N'] + 1}[gk]
                    val = ca.DM.ones(p.numel(), cols) if gk else ca.DM.ones(p.numel(), 1)
                ocp.set_value(p, val)

        b.method = make_method(rockit, desc['method'])
        ocp.method(b.method)
        for g in desc.get('initial_list', []):
            apply_guess(b, g)
        if desc['method']['grid']['kind'] in ('density_poly', 'dense_edges'):
            # the normalised vector is data for the model: read it from the grid object rockit will use
            desc['method']['grid']['nz_runtime'] = [float(v) for v in ocp._method.time_grid.normalized(desc['method']['N'])]
        b.fx, b.fu, b.fz, b.fq, b.fp, b.fv = fx, fu, fz, fq, fp, fv
        if solver:
            ocp.solver('ipopt', {'ipopt.print_level': 0, 'print_time': False, 'ipopt.max_iter': 0, 'ipopt.sb': 'yes'})
        if transcribe:
            ocp._transcribed  # triggers transcription
            finish(b, extra_phys)
    return b


def guess_target(b, kind, idx):
    if kind == 'x':
        return b.states[idx]
    if kind == 'u':
        return b.controls[idx]
    if kind == 'z':
        return b.algs[idx]
    if kind == 'v':
        return b.vars[''][idx]
    if kind == 'vc':
        return b.vars['control'][idx]
    if kind == 'vcp':
        return b.vars['control+'][idx]
    if kind == 'T':
        return b.ocp.T
    if kind == 't0':
        return b.ocp.t0
    raise KeyError(kind)


def apply_guess(b, g):
    """g = (kind, index, ('num', rows) | ('expr', [expr per row]))"""
    kind, idx, (form, val) = g
    tgt = guess_target(b, kind, idx)
    if form == 'num':
        v = ca.DM(val)
    elif form == 'np':
        import numpy as np
        v = np.array(val)
        if v.shape[0] == 1 and tgt.is_scalar():
            v = v.flatten()
    else:
        v = ca.vertcat(*[E.to_casadi(e, b.sym_base) for e in val])
    b.ocp.set_initial(tgt, v)


def finish(b, extra_phys=False, master=None, meth=None):
    """after transcription: NLP function and physical read-back functions.
    master/meth: for a child stage, the parent Ocp (whose opti holds the NLP) and the transcribed child's method object"""
    ocp = b.ocp
    desc = b.desc
    opti = (master if master is not None else ocp)._method.opti
    b.opti = opti
    x, p = opti.x, opti.p
    b.nx_opti = x.numel()
    b.np_opti = p.numel()
    b.Fnlp = ca.Function('nlp', [x, p], [opti.f, opti.g, opti.lbg, opti.ubg])
    m = desc['method']
    N, M = m['N'], m['M']
    outs = {}
    X = ca.vertcat(*[ca.vec(s) for s in b.states]) if b.states else ca.MX(0, 1)
    b.Xsym = X
    ts, Xs = ocp.sample(X, grid='control')
    outs['tgrid'] = ts
    outs['X'] = Xs
    if b.controls:
        U = ca.vertcat(*[ca.vec(s) for s in b.controls])
        outs['U'] = ocp.sample(U, grid='control-')[1]
    if b.vars['']:
        outs['V'] = ocp.value(ca.vertcat(*[ca.vec(s) for s in b.vars['']]))
    if b.vars['control']:
        outs['Vc'] = ocp.sample(ca.vertcat(*[ca.vec(s) for s in b.vars['control']]), grid='control-')[1]
    if b.vars['control+']:
        outs['Vcp'] = ocp.sample(ca.vertcat(*[ca.vec(s) for s in b.vars['control+']]), grid='control')[1]
    if b.params['']:
        outs['P'] = ocp.value(ca.vertcat(*[ca.vec(s) for s in b.params['']]))
    if b.params['control']:
        outs['Pc'] = ocp.sample(ca.vertcat(*[ca.vec(s) for s in b.params['control']]), grid='control-')[1]
    if b.params['control+']:
        outs['Pcp'] = ocp.sample(ca.vertcat(*[ca.vec(s) for s in b.params['control+']]), grid='control')[1]
    if extra_phys:
        outs['DTnode'] = ocp.sample(ocp.DT, grid='control')[1]
        outs['DTcnode'] = ocp.sample(ocp.DT_control, grid='control')[1]
        outs['DTstep'] = ocp.sample(ocp.DT, grid='integrator')[1]
        outs['DTcstep'] = ocp.sample(ocp.DT_control, grid='integrator')[1]
        outs['tsamp'] = ocp.sample(ocp.t, grid='integrator')[1]
        try:
            # refined integrator grid: every integrator step split in 3 equal parts
            outs['tfine'], outs['tfinesamp'] = ocp.sample(ocp.t, grid='integrator', refine=3)
        except Exception:
            pass
    outs['T'] = ocp.value(ocp.T)
    outs['t0'] = ocp.value(ocp.t0)
    meth = meth if meth is not None else ocp._method
    g = m['grid']
    if g.get('localize_t0'):
        outs['t0l'] = ca.vertcat(*[ca.MX(e) for e in meth.t0_local])
    if g.get('localize_T') or g['kind'] == 'free':
        outs['Tl'] = ca.vertcat(*[ca.MX(e) for e in meth.T_local])
    outs['tintg'], outs['Xi'] = ocp.sample(X, grid='integrator')
    if m['kind'] == 'dc':
        outs['troots'], outs['Xc'] = ocp.sample(X, grid='integrator_roots')
        if b.algs:
            Z = ca.vertcat(*[ca.vec(s) for s in b.algs])
            outs['Zc'] = ocp.sample(Z, grid='integrator_roots')[1]
            outs['Zn'] = ocp.sample(Z, grid='control')[1]
            outs['Zi'] = ocp.sample(Z, grid='integrator')[1]
    b.phys_names = list(outs.keys())
    b.phys_exprs = {k: ca.MX(v) for k, v in outs.items()}
    b.phys_shapes = {k: ca.MX(v).shape for k, v in outs.items()}
    F = ca.Function('phys', [x, p], [ca.MX(v) for v in outs.values()], {'allow_free': True})
    b.free = []
    if F.has_free():
        b.free = F.free_mx()
        F = ca.Function('phys', [x, p, ca.vertcat(*[ca.vec(s) for s in b.free])], [ca.MX(v) for v in outs.values()])
    b.Fphys = F
    if master is None:
        b.Wnlp = Walker(b.Fnlp)
    b.Wphys = Walker(F)


def eval_nlp(b, xv, pv):
    f, g, lbg, ubg = b.Wnlp([xv, pv])
    return f[0], g, lbg, ubg


def eval_phys(b, xv, pv, freev=None):
    args = [xv, pv]
    if b.free:
        args.append(freev)
    res = b.Wphys(args)
    out = {}
    mags = {}
    for name, vals in zip(b.phys_names, res):
        r, c = b.phys_shapes[name]
        # dense column-major → list of columns
        out[name] = [[vals[j * r + i][0] for i in range(r)] for j in range(c)]
        mags[name] = [[vals[j * r + i][1] for i in range(r)] for j in range(c)]
    b.last_mags = mags
    return out


def atoms_of_impl(g, lbg, ubg):
    """canonical atoms (value, magnitude): each must be >= 0 at a feasible point"""
    import math
    atoms = []
    for gi, lo, hi in zip(g, lbg, ubg):
        lov, hiv = lo[0], hi[0]
        if not (isinstance(lov, float) and math.isinf(lov)):
            atoms.append((gi[0] - lov, gi[1] + lo[1]))
        if not (isinstance(hiv, float) and math.isinf(hiv)):
            atoms.append((hiv - gi[0], gi[1] + hi[1]))
    return atoms
