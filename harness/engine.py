"""Run one description through the implementation and the model, compare at the NLP boundary."""
import time
from fractions import Fraction as Fr

from . import build as B
from . import model as Mo
from .walk import close


def rand_point(rng, b):
    def rv(pos=False):
        v = 0
        while v == 0:
            v = rng.randint(1 if pos else -8, 8)
        return Fr(v, rng.choice([1, 2, 4]))
    xv = [rv() for _ in range(b.nx_opti)]
    pv = [rv(True) for _ in range(b.np_opti)]
    fv = None
    if b.free:
        n = sum(s.numel() for s in b.free)
        fv = [rv() for _ in range(n)]
    return xv, pv, fv


class CaseResult:
    def __init__(self):
        self.ok = True
        self.problems = []     # list of (kind, detail)
        self.n_model_atoms = 0
        self.n_impl_atoms = 0
        self.n_exact = 0
        self.f_exact = 0
        self.tags = {}
        self.points = []
        self.mags = []

    def add(self, kind, detail):
        self.ok = False
        self.problems.append((kind, detail))


def compare_case(desc, driver, rng, R=3, built=None, points=None, want=('rows', 'f'), extra_phys=False):
    """returns CaseResult; `points` (list of (xv,pv,fv)) can be supplied for replays"""
    res = CaseResult()
    b = built if built is not None else B.build(desc, extra_phys=extra_phys)
    res.built = b
    dl = Mo.desc_lines(desc)
    pts = points if points is not None else [rand_point(rng, b) for _ in range(R)]
    res.points = pts
    impl_atoms_pts = []
    model_rows_pts = []
    f_pairs = []
    phys_pts = []
    for pi in range(len(pts)):
        for attempt in range(20):
            xv, pv, fv = pts[pi]
            try:
                f, g, lbg, ubg = B.eval_nlp(b, xv, pv)
                break
            except ZeroDivisionError:
                if points is not None or attempt == 19:
                    raise
                pts[pi] = rand_point(rng, b)
        phys = B.eval_phys(b, xv, pv, fv)
        phys_pts.append(phys)
        res.mags.append(b.last_mags)
        impl_atoms_pts.append(B.atoms_of_impl(g, lbg, ubg))
        driver.send(dl)
        driver.send(Mo.point_lines(desc, phys))
        mf, rows = Mo.parse_nlp(driver.run('nlp'))
        model_rows_pts.append(rows)
        f_pairs.append((mf, f))
    res.phys = phys_pts
    res.f_pairs = f_pairs
    # objective
    if 'f' in want:
        for mf, (fi, mag) in f_pairs:
            if mf == fi:
                res.f_exact += 1
            elif not close(mf, fi, mag):
                res.add('objective', {'model': float(mf), 'impl': float(fi)})
    # rows: align across points by position
    n_imp = len(impl_atoms_pts[0])
    if any(len(a) != n_imp for a in impl_atoms_pts):
        res.add('rows', {'why': 'implementation atom count varies between points'})
        return res
    impl_atoms = [[impl_atoms_pts[r][i] for r in range(len(pts))] for i in range(n_imp)]
    model_atoms = []
    rows0 = model_rows_pts[0]
    for ri, (tag, at) in enumerate(rows0):
        for ai in range(len(at)):
            model_atoms.append((tag, [model_rows_pts[r][ri][1][ai] for r in range(len(pts))]))
    res.n_model_atoms = len(model_atoms)
    res.n_impl_atoms = n_imp
    for tag, _ in model_atoms:
        k = tag.split()[0]
        res.tags[k] = res.tags.get(k, 0) + 1
    um, ui, ex = Mo.match_atoms(model_atoms, impl_atoms)
    # a row whose body is constant at its point (e.g. `t*v >= -1/4` at t0 = 0) and true is dropped by rockit
    # (OptiWrapper.subject_to skips constant-true expressions): such atoms do not restrict anything
    if len(pts) >= 2:
        triv = [(t, v) for t, v in um if all(x == v[0] for x in v) and v[0] >= 0]
        um = [(t, v) for t, v in um if not (all(x == v[0] for x in v) and v[0] >= 0)]
        res.trivial_rows = len(triv)
    res.n_exact = ex
    res.unmatched_model = um
    res.unmatched_impl = [(i, [float(v[0]) for v in impl_atoms[i]]) for i in ui]
    if 'rows' in want and (um or ui):
        res.add('rows', {'model_only': [(t, [float(v) for v in vec]) for t, vec in um][:8],
                         'impl_only': res.unmatched_impl[:8]})
    return res
