"""The check engine: proof obligations (Lean build + axiom audit + generated tables), correspondence
slices per property, failing-input search, evidence, verdict."""
import hashlib
import json
import os
import random
import shutil
import sys
import time
import traceback
from fractions import Fraction

from . import leanproj as LP
from . import gen as G
from . import engine as En
from . import model as Mo
from . import build as B

ROOT = LP.ROOT
TRUSTED = [
    "Lean 4.33.0 kernel and toolchain (lake build; leanchecker in the thorough tier)",
    "Mathlib v4.33.0 modules imported by the proof files",
    "axioms: subset of {propext, Classical.choice, Quot.sound}, audited by #print axioms on every run; no sorry/native_decide/bv_decide/own axioms (grepped)",
    "the statements of the theorems in lean/RockitModel/Props/<id>.lean",
    "correspondence harness (generator, rockit builder, exact SX walker, layout read-back through ocp.sample/value, atom canonicalisation, tolerance 1e-9 relative + 1e-13 of propagated magnitude)",
    "translator tools/extract.py for Generated/*.lean (Python ast matching)",
    "modelled not verified: CasADi (symbolics, canon_expr, collocation_points), NumPy, IPOPT, Python itself; floating point is not modelled (exact field arithmetic)",
]


class Violation:
    def __init__(self, what, replay, features=None, found_input=True):
        self.what = what
        self.replay = replay
        self.features = features or {}
        self.found_input = found_input


def jsonable(o):
    if isinstance(o, Fraction):
        return {"__frac__": [str(o.numerator), str(o.denominator)]}
    if isinstance(o, dict):
        return {(k if isinstance(k, str) else json.dumps(jsonable(k))): jsonable(v) for k, v in o.items()}
    if isinstance(o, (list, tuple)):
        return [jsonable(v) for v in o]
    if isinstance(o, (str, int, float, bool)) or o is None:
        return o
    return repr(o)


def unjson(o):
    if isinstance(o, dict):
        if "__frac__" in o:
            return Fraction(int(o["__frac__"][0]), int(o["__frac__"][1]))
        return {k: unjson(v) for k, v in o.items()}
    if isinstance(o, list):
        return [unjson(v) for v in o]
    return o


def desc_from_json(j):
    """restore tuples inside a description that went through JSON"""
    d = unjson(j)

    def tup(e):
        if isinstance(e, list):
            return tuple(tup(x) for x in e)
        return e
    for key in ('ode', 'quad', 'alg'):
        d[key] = [tup(e) for e in d[key]]
    d['phs'] = [(k, tup(e)) for k, e in d['phs']]
    d['obj'] = tup(d['obj']) if d['obj'] is not None else None
    d['t0'] = tup(d['t0'])
    d['T'] = tup(d['T'])
    for c in d['cons']:
        for key in ('a', 'b', 'c'):
            if key in c:
                c[key] = [tup(e) for e in c[key]]
        c['offs'] = [(tup(e), o) for e, o in c.get('offs', [])]
        if 'infops' in c:
            c['infops'] = [tup(op) for op in c['infops']]
    return d


def load_known():
    p = os.path.join(ROOT, "known_findings.json")
    if not os.path.exists(p):
        return []
    return json.load(open(p)).get("findings", [])


def known_match(pid, features):
    for k in load_known():
        if k.get("property") != pid or k.get("status", "open") != "open":
            continue
        m = k.get("match", {})
        if all(features.get(key) == val for key, val in m.items()):
            return k
    return None


class Check:
    pid = None
    level = "proof"
    slices = []          # names of correspondence slices
    uses_generated = False
    extra_assumptions = []

    def __init__(self, tier, seed):
        self.tier = tier
        self.seed = seed
        self.rng = random.Random((hash(self.pid) & 0xffff) * 1000003 + seed) if False else random.Random("%s-%d" % (self.pid, seed))
        self.evaluations = 0
        self.signatures = set()
        self.samples = []
        self.hist = {}
        self.exact_rows = 0
        self.exact_f = 0
        self.violations = []
        self.known_hits = []
        self.notes = []
        self.driver = None
        self.slice_ok = {}

    # -- helpers -------------------------------------------------------------------------------
    def count(self, key, val=1):
        self.hist[key] = self.hist.get(key, 0) + val

    def record_case(self, desc, nontrivial=True, sample=None):
        self.evaluations += 1
        if nontrivial:
            self.signatures.add(hashlib.sha1(repr(G.signature(desc)).encode()).hexdigest())
        m = desc['method']
        self.count("method:%s" % m['kind'])
        self.count("intg:%s" % ('next' if desc.get('next') else m['intg']))
        self.count("grid:%s" % m['grid']['kind'] + ("+locT" if m['grid'].get('localize_T') else "") + ("+locT0" if m['grid'].get('localize_t0') else ""))
        self.count("N:%d" % m['N'])
        self.count("M:%d" % m['M'])
        self.count("T:%s" % desc['T'][0])
        for c in desc['cons']:
            self.count("con:%s" % c['grid'])
            if c.get('offs'):
                self.count("con:offset")
        if len(self.samples) < 3 and sample is not None:
            self.samples.append(sample)

    def violation(self, what, payload, features=None, found_input=True):
        os.makedirs(os.path.join(ROOT, "replays"), exist_ok=True)
        body = jsonable({"property": self.pid, "what": what, "seed": self.seed, "tier": self.tier,
                         "found_input": found_input, "features": features or {}, "payload": payload})
        h = hashlib.sha1(json.dumps(body, sort_keys=True).encode()).hexdigest()[:12]
        path = os.path.join(ROOT, "replays", "%s-%s.json" % (self.pid, h))
        json.dump(body, open(path, "w"), indent=1)
        v = Violation(what, path, features, found_input)
        k = known_match(self.pid, features or {})
        if k is not None:
            self.known_hits.append((k, v))
        else:
            self.violations.append(v)
        return v

    # -- to override ---------------------------------------------------------------------------
    def correspondence(self):
        raise NotImplementedError

    def generated_obligations(self):
        return 0, 0, []

    def replay(self, payload):
        """default replay: every choice of a run derives from one PRNG seeded with '<id>-<seed>', so re-running the
        correspondence with the recorded seed and tier reproduces the recorded case (and reports it again if it still fails)"""
        self.seed = int(payload.get("seed", self.seed))
        self.tier = payload.get("tier", self.tier)
        self.rng = random.Random("%s-%d" % (self.pid, self.seed))
        self.correspondence()

    # -- main ----------------------------------------------------------------------------------
    def run(self, replay_file=None):
        t0 = time.time()
        B.import_rockit()      # rockit comes from VERIF_REPO (default /repo), never from an installed copy
        proof_ok = True
        proof_log = []
        # 1. regenerate tables
        if self.uses_generated:
            from tools import extract
            extract.main()
        # 2. build
        rc, log, dt = LP.build(["RockitModel.Props." + self.pid])
        if rc != 0:
            proof_ok = False
            proof_log.append("lake build failed:\n" + log[-4000:])
        thms = []
        axioms = {}
        if proof_ok:
            ok, axioms, alog, thms = LP.audit(self.pid)
            if not ok:
                proof_ok = False
                proof_log.append("axiom audit failed:\n" + alog[-3000:])
        else:
            try:
                thms = LP.theorems_of(self.pid)
            except Exception:
                thms = []
        hits = LP.forbidden_tokens()
        if hits:
            proof_ok = False
            proof_log.append("forbidden tokens: " + "; ".join(hits[:10]))
        if self.tier == "thorough" and proof_ok:
            ok, clog = LP.leanchecker(["RockitModel.Props." + self.pid])
            if not ok:
                proof_ok = False
                proof_log.append("leanchecker failed:\n" + clog[-3000:])
            else:
                self.notes.append("leanchecker re-checked RockitModel.Props.%s" % self.pid)
        gen_total, gen_ok, gen_notes = self.generated_obligations() if proof_ok or not self.uses_generated else (0, 0, [])
        # 3. correspondence (in a scratch directory: rockit/casadi write files into cwd on some paths)
        scratch = "/var/tmp/rockit-verif-%s-%d" % (self.pid, os.getpid())
        os.makedirs(scratch, exist_ok=True)
        cwd = os.getcwd()
        os.chdir(scratch)
        corr_error = None
        try:
            self.driver = Mo.Driver()
            if replay_file:
                payload = unjson(json.load(open(replay_file)))
                self.replay(payload)
            else:
                self.correspondence()
        except (Exception, Mo.DriverDied) as e:
            corr_error = traceback.format_exc()
        finally:
            try:
                if self.driver:
                    self.driver.close()
            except Exception:
                pass
            os.chdir(cwd)
            shutil.rmtree(scratch, ignore_errors=True)
        if corr_error is not None:
            print("INFRASTRUCTURE-ERROR property=%s\n%s" % (self.pid, corr_error))
            self.write_evidence(t0, thms, proof_ok, gen_total, gen_ok, infra=corr_error)
            return 2
        # 4. proof broke but nothing found: still a violation, named
        if not proof_ok and not self.violations:
            self.violation("proof obligation no longer checks", {"log": proof_log, "theorems": thms},
                           {"kind": "proof-broken"}, found_input=False)
        if not self.violations:
            # every slice failure raises a violation; what remains are recorded known findings (listed in the evidence)
            self.slice_ok = {}
        n_slices = len(self.slices)
        slices_ok = sum(1 for s in self.slices if self.slice_ok.get(s, True))
        self.obligations = len(thms) + gen_total + n_slices
        self.discharged = (len(thms) if proof_ok else 0) + gen_ok + slices_ok
        self.write_evidence(t0, thms, proof_ok, gen_total, gen_ok, axioms=axioms)
        for k, v in self.known_hits[:0]:
            pass
        seen = set()
        for k, v in self.known_hits:
            if k["id"] not in seen:
                seen.add(k["id"])
                print("KNOWN-FINDING: property=%s %s (%s)" % (self.pid, k["text"], k["id"]))
        if self.violations:
            for v in self.violations[:5]:
                tail = "" if v.found_input else " no-failing-input-found"
                print("VIOLATION property=%s replay=%s%s" % (self.pid, v.replay, tail))
                print("  what: %s" % v.what)
            return 1
        print("OK property=%s tier=%s seed=%d theorems=%d cases=%d distinct=%d wall=%.1fs" %
              (self.pid, self.tier, self.seed, len(thms), self.evaluations, len(self.signatures), time.time() - t0))
        return 0

    def write_evidence(self, t0, thms, proof_ok, gen_total, gen_ok, axioms=None, infra=None):
        evdir = os.environ.get("VERIF_EVIDENCE_DIR", os.path.join(ROOT, "evidence"))
        os.makedirs(evdir, exist_ok=True)
        n_slices = len(self.slices)
        slices_ok = sum(1 for s in self.slices if self.slice_ok.get(s, True))
        obligations = len(thms) + gen_total + n_slices
        discharged = (len(thms) if proof_ok else 0) + gen_ok + slices_ok
        if infra is not None:
            discharged = 0
        ev = {
            "property_id": self.pid, "tier": self.tier, "seed": self.seed, "level": self.level,
            "coverage": {
                "obligations": max(obligations, 1), "discharged": discharged,
                "checker_cmd": "cd /verif/lean && lake build && lake env lean --stdin  # '#print axioms' of every theorem of Props/%s.lean" % self.pid
                               + ("; lake env leanchecker RockitModel.Props.%s" % self.pid if self.tier == "thorough" else ""),
                "trusted_base": TRUSTED,
                "theorems": thms,
                "axioms": axioms or {},
                "generated_table_obligations": gen_total,
                "correspondence_slices": {s: bool(self.slice_ok.get(s, True)) for s in self.slices},
                "evaluations": self.evaluations,
                "distinct_nontrivial": len(self.signatures),
                "rule": "cases drawn by harness/gen.py from one PRNG seeded with '<id>-<VERIF_SEED>'; distinct = distinct structural signature "
                        "(method, scheme, N, M, grid options, symbol shapes, horizon kind, constraint shapes/offsets, placeholder kinds, rhs text); "
                        "non-trivial = the compared slice was non-empty and evaluated at random rational points",
                "samples": self.samples[:3] if self.samples else [{"note": "no case reached"}],
                "input_distribution": self.hist,
                "exact_equalities": {"rows": self.exact_rows, "objective": self.exact_f},
                "notes": self.notes,
                "known_findings_hit": sorted(set(k["id"] for k, v in self.known_hits)),
                "explanation": self.explanation() if hasattr(self, "explanation") else "",
            },
            "assumptions": TRUSTED + self.extra_assumptions,
            "wall_s": round(time.time() - t0, 2),
            "violations": len(self.violations),
        }
        if infra is not None:
            ev["coverage"]["infrastructure_error"] = infra[-2000:]
        json.dump(jsonable(ev), open(os.path.join(evdir, self.pid + ".json"), "w"), indent=1)


# ---------------------------------------------------------------------------------------------
class NlpCheck(Check):
    """properties decided at the NLP boundary: a list of generator profiles, a set of model row
    tags whose atoms must appear in the implementation's NLP, optional objective comparison"""
    profiles = []           # (name, prof, n_quick, n_thorough)
    tags = None             # None: every model row; else prefixes that belong to this property
    whole = False           # demand equality of the full atom multiset
    want_f = False
    R_quick, R_thorough = 2, 4
    extra_phys = False

    def case_features(self, desc, problem_kind, detail):
        m = desc['method']
        return {"kind": problem_kind, "method": m['kind'], "grid": m['grid']['kind'],
                "intg": 'next' if desc.get('next') else m['intg']}

    def judge(self, desc, res):
        """→ list of (what, features) that are violations of THIS property"""
        out = []
        for kind, det in res.problems:
            if kind == 'objective' and self.want_f:
                out.append(("objective differs from the sum of declared terms: %s" % det, self.case_features(desc, 'objective', det)))
            if kind == 'rows':
                mine = [(t, v) for t, v in res.unmatched_model if self.tags is None or any(t.startswith(p) for p in self.tags)]
                if mine:
                    out.append(("NLP rows demanded by the property are missing/different: %s" % [t for t, _ in mine][:6],
                                self.case_features(desc, 'rows-missing', mine)))
                elif self.whole and len(res.unmatched_impl) > len(res.unmatched_model):
                    out.append(("the NLP has %d rows/atoms that no declared item accounts for" % (len(res.unmatched_impl) - len(res.unmatched_model)),
                                self.case_features(desc, 'rows-extra', res.unmatched_impl)))
        return out

    def extra_compare(self, desc, res):
        return []

    def run_case(self, desc, R, points=None):
        try:
            res = En.compare_case(desc, self.driver, self.rng, R=R, points=points, extra_phys=self.extra_phys)
        except (ZeroDivisionError, OverflowError):
            return None      # the random point hit a pole / numbers beyond float range: not a finding
        except Mo.DriverDied:
            raise            # infrastructure: the check ends with exit 2
        except Exception as e:
            return e
        return res

    def handle(self, desc, R, name, points=None, shrink=True):
        res = self.run_case(desc, R, points)
        if res is None:
            return True
        if isinstance(res, Exception):
            feats = self.exception_features(desc, res)
            if feats is None:
                return True
            self.slice_ok[name] = False
            self.violation("rockit raised on a well-posed generated case: %s: %s" % (type(res).__name__, str(res)[:300]),
                           {"desc": desc, "exception": repr(res)[:1000]}, feats)
            return False
        self.exact_rows += res.n_exact
        self.exact_f += res.f_exact
        for k, n in res.tags.items():
            self.count("rows:" + k, n)
        nontrivial = res.n_model_atoms > 0
        self.record_case(desc, nontrivial, {"method": desc['method'], "states": desc['states'], "controls": desc['controls'],
                                            "ode": [Mo.E.to_tokens(e) for e in desc['ode']],
                                            "constraints": [(c['grid'], c['rel'], [o for _, o in c.get('offs', [])]) for c in desc['cons']],
                                            "model_atoms": res.n_model_atoms, "impl_atoms": res.n_impl_atoms})
        bad = self.judge(desc, res) + self.extra_compare(desc, res)
        if not bad:
            return True
        self.slice_ok[name] = False
        # failing-input search: shrink the description while the property's own comparison still fails
        d2, res2, bad2 = (self.shrink(desc, R, res, bad) if shrink else (desc, res, bad))
        what, feats = bad2[0]
        self.violation(what, {"desc": d2, "points": res2.points, "problems": res2.problems}, feats)
        return False

    def exception_features(self, desc, exc):
        m = desc['method']
        return {"kind": "exception", "exc": type(exc).__name__, "method": m['kind'], "grid": m['grid']['kind']}

    def shrink(self, desc, R, res, bad):
        import copy
        cur, curres, curbad = desc, res, bad
        budget = time.time() + (60 if self.tier == 'quick' else 300)
        improved = True
        while improved and time.time() < budget:
            improved = False
            cands = []
            if cur['cons']:
                for i in range(len(cur['cons'])):
                    c = copy.deepcopy(cur)
                    del c['cons'][i]
                    cands.append(c)
            m = cur['method']
            if m['N'] > 1 and m['grid']['kind'] != 'data':
                c = copy.deepcopy(cur)
                c['method']['N'] -= 1
                cands.append(c)
            if m['M'] > 1:
                c = copy.deepcopy(cur)
                c['method']['M'] -= 1
                cands.append(c)
            for c in cands:
                r2 = self.run_case(c, R)
                if r2 is None or isinstance(r2, Exception):
                    continue
                b2 = self.judge(c, r2) + self.extra_compare(c, r2)
                if b2:
                    cur, curres, curbad = c, r2, b2
                    improved = True
                    break
        return cur, curres, curbad

    def correspondence(self):
        R = self.R_quick if self.tier == 'quick' else self.R_thorough
        for name, prof, nq, nt in self.profiles:
            n = nq if self.tier == 'quick' else nt
            fails = 0
            for i in range(n):
                desc = G.gen_case(self.rng, prof)
                if not self.handle(desc, R, name):
                    fails += 1
                    if fails >= 3:
                        break

    def replay(self, payload):
        p = payload["payload"]
        desc = desc_from_json(p["desc"])
        pts = p.get("points")
        points = None
        if pts:
            points = [(x, pp, f) for x, pp, f in pts]
        self.handle(desc, len(points) if points else 2, "replay", points=points, shrink=False)


REGISTRY = {}


def register(cls):
    REGISTRY[cls.pid] = cls
    return cls


def main(argv):
    import argparse
    ap = argparse.ArgumentParser()
    ap.add_argument("pid")
    ap.add_argument("--tier", default=os.environ.get("VERIF_TIER", "quick"))
    ap.add_argument("--replay", default=None)
    a = ap.parse_args(argv)
    seed = int(os.environ.get("VERIF_SEED", "0"))
    from . import props, props2  # noqa: F401  (registers the checks)
    if a.pid not in REGISTRY:
        print("unknown property %s" % a.pid)
        return 2
    chk = REGISTRY[a.pid](a.tier, seed)
    # watchdog: a check that runs away is an infrastructure failure (exit 2), never a verdict
    import signal
    limit = int(os.environ.get("VERIF_TIMEOUT", "900" if a.tier == "quick" else "5400"))

    def on_alarm(signum, frame):
        import faulthandler
        faulthandler.dump_traceback(file=sys.stderr)
        print("INFRASTRUCTURE-ERROR property=%s timeout after %d s" % (a.pid, limit))
        sys.stdout.flush()
        os._exit(2)
    signal.signal(signal.SIGALRM, on_alarm)
    signal.alarm(limit)
    if a.replay:
        a.replay = os.path.abspath(a.replay)
    try:
        return chk.run(a.replay)
    except Exception:
        traceback.print_exc()
        return 2
