"""Random structured OCP descriptions. One PRNG drives every choice."""
from fractions import Fraction as Fr
import random

from . import expr as E
from .build import default_desc


def coef(rng, dyadic=True):
    v = 0
    while v == 0:
        v = rng.randint(-6, 6)
    return Fr(v, rng.choice([1, 2, 4]) if dyadic else rng.choice([1, 2, 3, 4, 5]))


def nz_rat(rng, lo=-8, hi=8, den=(1, 2, 4)):
    v = 0
    while v == 0:
        v = rng.randint(lo, hi)
    return Fr(v, rng.choice(den))


def monomial(rng, atoms, maxdeg=2):
    k = rng.randint(1, min(maxdeg, len(atoms)))
    chosen = rng.sample(atoms, k)
    e = E.C(coef(rng))
    for a in chosen:
        e = ('*', e, a)
    return e, frozenset(chosen)


def poly(rng, atoms, nterms=(1, 3), maxdeg=2, must=None):
    """sum of monomials over distinct atom sets (no cancellation); `must`: atoms one of which must occur"""
    n = rng.randint(*nterms)
    seen = set()
    terms = []
    tries = 0
    while len(terms) < n and tries < 50:
        tries += 1
        m, key = monomial(rng, atoms, maxdeg)
        if key in seen:
            continue
        seen.add(key)
        terms.append(m)
    if must is not None and not any(E.mentions(t, {a[0] for a in must}) and any(_has(t, a) for a in must) for t in terms):
        a = rng.choice(must)
        key = frozenset([a])
        if key in seen:
            # replace that term's coefficient is fine: it already contains it
            pass
        else:
            terms.append(('*', E.C(coef(rng)), a))
    e = terms[0]
    for t in terms[1:]:
        e = ('+', e, t)
    return e


def _has(e, leaf):
    return leaf in E.leaves(e)


def symbols(desc):
    nx = sum(desc['states'])
    nu = sum(desc['controls'])
    s = {
        'x': [('x', i) for i in range(nx)],
        'u': [('u', i) for i in range(nu)],
        'z': [('z', i) for i in range(sum(desc['algs']))],
        'p': [('p', i) for i in range(sum(desc['params']['']))],
        'pc': [('pc', i) for i in range(sum(desc['params']['control']))],
        'pcp': [('pcp', i) for i in range(sum(desc['params']['control+']))],
        'v': [('v', i) for i in range(sum(desc['vars']['']))],
        'vc': [('vc', i) for i in range(sum(desc['vars']['control']))],
        'vcp': [('vcp', i) for i in range(sum(desc['vars']['control+']))],
    }
    return s


def split_sizes(rng, total):
    """split a flattened dimension into symbol sizes"""
    out = []
    while total > 0:
        n = rng.randint(1, total)
        out.append(n)
        total -= n
    return out


GRID_KINDS = ['uniform', 'geometric', 'geometric_local', 'data', 'free', 'uniform_locT', 'uniform_locT0',
              'geometric_locT', 'uniform_locboth', 'geometric_locT0', 'free_locT0']


def gen_grid(rng, kind, N):
    if kind == 'uniform':
        return {'kind': 'uniform'}
    if kind == 'geometric':
        return {'kind': 'geometric', 'growth': rng.choice([2, 3, 1.5, 4]), 'local': False}
    if kind == 'geometric_local':
        return {'kind': 'geometric', 'growth': rng.choice([2, 1.5, 3]), 'local': True}
    if kind == 'data':
        pts = sorted(rng.sample(range(1, 16), N - 1)) if N > 1 else []
        return {'kind': 'data', 'nz': [0.0] + [p / 16.0 for p in pts] + [1.0]}
    if kind == 'free':
        return {'kind': 'free'}
    if kind == 'free_locT0':
        return {'kind': 'free', 'localize_t0': True}
    if kind == 'density_poly':
        co = [rng.choice([0.5, 1, 2]), rng.choice([0, 1, 3]), rng.choice([0, 2, 6])]
        if co[1] == 0 and co[2] == 0:
            co[2] = 2        # DensityGrid needs an expression in one symbolic variable (a constant has none)
        return {'kind': 'density_poly', 'coef': co}
    if kind == 'dense_edges':
        return {'kind': 'dense_edges', 'multiplier': rng.choice([2, 5, 10, 20]), 'edge_frac': rng.choice([0.1, 0.2, 0.3])}
    if kind == 'uniform_locT':
        return {'kind': 'uniform', 'localize_T': True}
    if kind == 'uniform_locT0':
        return {'kind': 'uniform', 'localize_t0': True}
    if kind == 'uniform_locboth':
        return {'kind': 'uniform', 'localize_t0': True, 'localize_T': True}
    if kind == 'geometric_locT':
        return {'kind': 'geometric', 'growth': rng.choice([2, 1.5]), 'local': rng.random() < 0.5, 'localize_T': True}
    if kind == 'geometric_locT0':
        return {'kind': 'geometric', 'growth': rng.choice([2, 1.5]), 'local': rng.random() < 0.5, 'localize_t0': True}
    raise ValueError(kind)


def gen_case(rng, prof):
    """prof: dict of knobs
       methods: list of (kind, intg) ; grids: list of grid kinds; maxN, maxM; features flags"""
    d = default_desc()
    kind, intg = rng.choice(prof.get('methods', [('ms', 'rk')]))
    N = rng.choice(prof.get('Ns', [1, 2, 2, 3, 3, 4]))
    M = rng.choice(prof.get('Ms', [1, 1, 2, 2, 3]))
    nx = rng.choice(prof.get('nxs', [1, 2, 2, 3]))
    nu = rng.choice(prof.get('nus', [0, 1, 1, 2]))
    d['states'] = list(rng.choice(prof['state_splits'])) if prof.get('state_splits') else split_sizes(rng, nx)
    nx = sum(d['states'])
    d['controls'] = split_sizes(rng, nu)
    feat = prof.get('features', {})

    def on(name, p=0.5):
        return rng.random() < feat.get(name, p)
    if on('p', 0.5):
        d['params'][''] = split_sizes(rng, rng.randint(1, 2))
    if on('pc', 0.5):
        d['params']['control'] = split_sizes(rng, rng.randint(1, 2))
    if on('pcp', 0.4):
        d['params']['control+'] = [1]
    if on('v', 0.4):
        d['vars'][''] = [1]
    if on('vc', 0.4):
        d['vars']['control'] = [1]
    if on('vcp', 0.4):
        d['vars']['control+'] = [1]
    next_ = (intg == 'next')
    d['next'] = next_
    deg = rng.choice(prof.get('degrees', [1, 2, 3, 4]))
    scheme = rng.choice(prof.get('schemes', ['radau', 'legendre']))
    gk = rng.choice(prof.get('grids', ['uniform']))
    d['method'] = {'kind': kind, 'N': N, 'M': M, 'intg': 'rk' if next_ else intg, 'degree': deg, 'scheme': scheme,
                   'grid': gen_grid(rng, gk, N)}
    if rng.random() < prof.get('minmax_prob', 0.0):
        d['method']['grid']['min'] = rng.choice([0.25, 0.5, 0.125])
        if rng.random() < 0.7:
            d['method']['grid']['max'] = rng.choice([2.0, 4.0, 3.0])
    s = symbols(d)
    tsym = [('t',)]
    # how deep is the propagation chain (bit growth): quadratic-in-x terms only for shallow chains
    depth = (N * M if kind == 'ss' else M) * (1 if intg == 'euler' or next_ else 4)
    if kind == 'dc':
        depth = 1
    lin_atoms = s['u'] + s['p'] + s['pc'] + s['pcp'] + s['v'] + s['vc'] + s['vcp'] + (tsym if on('time', 0.8) else [])
    if next_:
        lin_atoms = lin_atoms + [('DT',), ('DTc',)]
    ode = []
    for i in range(nx):
        terms = []
        # affine in x with coefficients from the other symbols
        for _ in range(rng.randint(1, 2)):
            xi = rng.choice(s['x'])
            if lin_atoms and rng.random() < 0.6:
                terms.append(('*', ('*', E.C(coef(rng)), xi), rng.choice(lin_atoms)))
            else:
                terms.append(('*', E.C(coef(rng)), xi))
        if lin_atoms:
            terms.append(poly(rng, lin_atoms, (1, 2), 2))
        if depth <= 8 and rng.random() < 0.5:
            terms.append(('*', ('*', E.C(coef(rng)), rng.choice(s['x'])), rng.choice(s['x'])))
        e = terms[0]
        for t in terms[1:]:
            e = ('+', e, t)
        ode.append(e)
    # make sure every control / per-interval variable / global variable is used in the dynamics
    for a in s['u'] + s['vc'] + s['vcp'] + s['v']:
        if not any(_has(e, a) for e in ode):
            j = rng.randrange(nx)
            ode[j] = ('+', ode[j], ('*', E.C(coef(rng)), a))
    d['ode'] = ode
    all_sig = s['x'] + lin_atoms
    if on('qstate', 0.3):
        d['nq'] = 1
        d['quad'] = [poly(rng, all_sig, (1, 2), 2)]
    # algebraic variables (DC only)
    if kind == 'dc' and on('dae', 0.0):
        # one scalar algebraic variable by default; a profile may ask for several symbols / vector-valued ones
        d['algs'] = list(rng.choice(prof['alg_layouts'])) if 'alg_layouts' in prof else [1]
        s = symbols(d)
        # index-1: alg_r = c*z_r + poly(x,u,...) ; the ode gets a term in every z component
        d['alg'] = [('+', ('*', E.C(coef(rng)), z), poly(rng, all_sig, (1, 2), 2)) for z in s['z']]
        for z in s['z']:
            j = rng.randrange(nx)
            d['ode'][j] = ('+', d['ode'][j], ('*', E.C(coef(rng)), z))
    # horizon
    tk = rng.choice(prof.get('horizon', ['num']))
    if tk == 'num':
        d['t0'] = ('num', Fr(rng.randint(1, 5), 2))   # positive: no node time is 0, so `t*u == c` is never constant
        d['T'] = ('num', Fr(rng.randint(1, 8), 2))
    elif tk == 'freeT':
        d['t0'] = ('num', Fr(rng.randint(1, 5), 2))   # positive: no node time is 0, so `t*u == c` is never constant
        d['T'] = ('free', Fr(rng.randint(1, 8), 2))
    elif tk == 'freet0':
        d['t0'] = ('free', Fr(rng.randint(-2, 4), 2))
        d['T'] = ('num', Fr(rng.randint(1, 8), 2))
    elif tk == 'freeboth':
        d['t0'] = ('free', Fr(rng.randint(-2, 4), 2))
        d['T'] = ('free', Fr(rng.randint(1, 8), 2))
    elif tk == 'param':
        # append dedicated global parameters for t0 and T
        base = sum(d['params'][''])
        d['params'][''] = d['params'][''] + [1, 1]
        d['t0'] = ('p', base)
        d['T'] = ('p', base + 1)
    if gk == 'free' and d['T'][0] == 'num' and rng.random() < 0.5:
        pass
    if rng.random() < prof.get('scale_vars', 0.0):
        sc = lambda n: [rng.choice([0.5, 2, 4, 10, 0.25, 1]) for _ in range(n)]
        d['scale_x'] = sc(nx)
        d['scale_u'] = sc(nu) if nu else None
        if not next_:
            d['scale_der'] = sc(nx)
        if d['algs']:
            d['scale_z'] = sc(sum(d['algs']))
        d['scale_v'] = {gk: sc(sum(d['vars'][gk])) for gk in ('', 'control', 'control+') if d['vars'][gk]}
    gen_objective(rng, d, prof)
    gen_constraints(rng, d, prof)
    return d


def gen_objective(rng, d, prof):
    feat = prof.get('features', {})
    s = symbols(d)
    sig = s['x'] + s['u'] + s['pc'] + s['pcp'] + s['vc'] + s['vcp'] + [('t',)]
    if rng.random() < prof.get('horizon_in_signals', 0.3):
        sig = sig + [('T',), ('t0',)]
    if d['nq']:
        sig_q = sig + [('xq', 0)]
    else:
        sig_q = sig
    glob = s['p'] + s['v'] + ([('T',)] if rng.random() < 0.5 else []) + ([('t0',)] if rng.random() < 0.3 else [])
    kinds = prof.get('obj_kinds', ['at_tf', 'integral'])
    if d.get('next'):
        kinds = [k for k in kinds if k != 'integral'] or ['at_tf']
    n = rng.randint(*prof.get('obj_terms', (1, 2)))
    phs = []
    terms = []
    for _ in range(n):
        k = rng.choice(kinds)
        if k == 'integral':
            # horizon symbols inside an integrand end up in the ODE of the quadrature state: rejected by rockit (C20)
            e = poly(rng, [a for a in sig if a[0] not in ('T', 't0')], (1, 2), 2)
        elif k in ('at_tf', 'at_t0'):
            e = poly(rng, [a for a in sig_q if a[0] not in ('u',)] or sig_q, (1, 2), 2)
        else:
            e = poly(rng, sig, (1, 2), 2)
        phs.append((k, e))
        ph = ('ph', len(phs) - 1)
        t = ('*', E.C(coef(rng)), ph)
        if glob and rng.random() < 0.4:
            t = ('*', t, rng.choice(glob))
        if rng.random() < 0.25:
            t = ('*', t, ph)
        terms.append(t)
    if glob and rng.random() < 0.4:
        terms.append(poly(rng, glob, (1, 1), 2))
    e = terms[0]
    for t in terms[1:]:
        e = ('+', e, t)
    d['phs'] = phs
    d['obj'] = e


def gen_constraints(rng, d, prof):
    s = symbols(d)
    m = d['method']
    ncons = rng.randint(*prof.get('ncons', (0, 2)))
    grids = list(prof.get('con_grids', ['control', 'integrator', 'point']))
    if m['kind'] == 'dc' and prof.get('roots', True) and 'control' in grids:
        grids.append('roots')
    decis = s['x'] + s['u'] + s['vc'] + s['vcp'] + (s['z'] if prof.get('z_in_constraints') else [])
    sig = decis + s['pc'] + s['pcp'] + [('t',)] + s['p'] + s['v']
    if rng.random() < prof.get('horizon_in_signals', 0.3):
        sig = sig + [('T',), ('t0',)]
    cons = []
    for _ in range(ncons):
        g = rng.choice(grids)
        if g == 'point':
            # boundary constraint on placeholders
            k = rng.choice(['at_t0', 'at_tf'])
            e = poly(rng, s['x'], (1, 2), 2)
            d['phs'].append((k, e))
            ph = ('ph', len(d['phs']) - 1)
            lhs = ph
            if rng.random() < prof.get('both_ends_prob', 0.0):
                # a boundary constraint that couples BOTH ends of the horizon (periodicity, net change): at_t0(..) and at_tf(..) in one
                k2 = 'at_tf' if k == 'at_t0' else 'at_t0'
                d['phs'].append((k2, poly(rng, s['x'], (1, 2), 2)))
                lhs = ('+', ph, ('*', E.C(coef(rng)), ('ph', len(d['phs']) - 1)))
            if s['v'] and rng.random() < 0.4:
                lhs = ('+', ph, ('*', E.C(coef(rng)), rng.choice(s['v'])))
            rhs = E.C(coef(rng))
            if s['p'] and rng.random() < 0.4:
                rhs = ('*', rhs, rng.choice(s['p']))
            rel = rng.choice(['le', 'eq', 'ge'])
            con = {'rel': rel, 'a': [lhs], 'b': [rhs], 'grid': 'point'}
            if rng.random() < prof.get('scale_prob', 0.0):
                con['scale'] = [rng.choice([2, 4, 0.5, 8])]
            cons.append(con)
            continue
        nrows = rng.choice(prof.get('nrows', [1, 1, 1, 2]))
        rel = rng.choice(['le', 'le', 'ge', 'eq', 'two'])
        offs = []
        use_off = (g == 'control') and rng.random() < prof.get('offset_prob', 0.0)
        if g == 'roots':
            pool_dec = s['x'] + s['u'] + (s['z'] if prof.get('z_in_constraints') else [])      # eval_at_integrator_root has no xq / v_states
            pool = pool_dec + s['pc'] + s['pcp'] + [('t',)] + s['p'] + s['v'] + s['vc'] + s['vcp']
        else:
            pool_dec, pool = decis, sig
        A, Bv, Cv = [], [], []
        for r in range(nrows):
            body = poly(rng, pool, (1, 2), 2, must=pool_dec)
            if use_off:
                o = rng.choice(prof.get('offsets', [1, -1, 2, -2]))
                oe = poly(rng, s['x'] + s['u'] + s['pc'] + s['pcp'] + s['vc'] + s['vcp'] + [('t',)], (1, 2), 2, must=s['x'] + s['u'] + s['vc'] + s['vcp'])
                if prof.get('offset_force_pcp') and s['pcp']:
                    # an include_last per-interval parameter inside the shifted operand: the instance that lands on the final node
                    # must read the parameter's extra column
                    oe = ('+', oe, ('*', E.C(coef(rng)), ('*', rng.choice(s['pcp']), rng.choice(s['x']))))
                offs.append((oe, o))
                body = ('+', body, ('*', E.C(coef(rng)), ('off', len(offs) - 1)))
            bound = E.C(coef(rng))
            if s['p'] and rng.random() < 0.3:
                bound = ('*', bound, rng.choice(s['p']))
            if rel == 'two':
                lo, hi = E.C(-abs(coef(rng)) - 1), E.C(abs(coef(rng)) + 1)
                if nrows > 1 and rng.random() < prof.get('inf_bounds_prob', 0.0):
                    if rng.random() < 0.5:
                        lo = ('ninf',)
                    else:
                        hi = ('pinf',)
                A.append(lo)
                Bv.append(body)
                Cv.append(hi)
            else:
                A.append(body)
                Bv.append(bound)
        con = {'rel': rel, 'a': A, 'b': Bv, 'grid': g,
               'first': rng.random() < 0.7, 'last': rng.random() < 0.7, 'offs': offs}
        if rel == 'two':
            con['c'] = Cv
        if rng.random() < prof.get('scale_prob', 0.0):
            con['scale'] = [rng.choice([2, 4, 0.5, 8]) for _ in range(nrows)] if rng.random() < 0.5 else [rng.choice([2, 4, 0.5])]
        cons.append(con)
    d['cons'] = cons


def signature(d):
    """structural signature for counting distinct cases"""
    m = d['method']
    return (m['kind'], m['intg'], d.get('next'), m['N'], m['M'], m.get('degree') if m['kind'] == 'dc' else 0,
            m.get('scheme') if m['kind'] == 'dc' else '', tuple(sorted(m['grid'].items(), key=str)).__repr__(),
            tuple(d['states']), tuple(d['controls']), d['T'][0], d['t0'][0],
            tuple((c['grid'], c['rel'], c.get('first', True), c.get('last', True), len(c['a']), tuple(o for _, o in c.get('offs', []))) for c in d['cons']),
            tuple(k for k, _ in d['phs']), repr(d['ode'])[:200])
