"""Per-property checks (registry)."""
import copy
from fractions import Fraction as Fr

from .checks import NlpCheck, Check, register
from . import gen as G
from . import build as B
from . import model as Mo
from . import engine as En
from .walk import Walker, close, distance

SHOOT = [('ms', 'rk'), ('ms', 'euler'), ('ss', 'rk'), ('ss', 'euler'), ('ms', 'next'), ('ss', 'next')]
FIXED_GRIDS = ['uniform', 'geometric', 'geometric_local', 'data']
LOC_GRIDS = ['free', 'uniform_locT', 'uniform_locT0', 'geometric_locT', 'uniform_locboth', 'geometric_locT0', 'free_locT0']
HORIZ = ['num', 'freeT', 'freet0', 'freeboth', 'param']


def parse_states(lines):
    X, Q, xs = {}, {}, {}
    for l in lines:
        t = l.split()
        if t[0] == 'X':
            X[int(t[1])] = [Mo.frac(v) for v in t[2:]]
        elif t[0] == 'Q':
            Q[int(t[1])] = [Mo.frac(v) for v in t[2:]]
        elif t[0] == 'xs':
            body = l.split(' ', 3)[3]
            a, _, b_ = body.partition('|')
            xs[(int(t[1]), int(t[2]))] = ([Mo.frac(v) for v in a.split()], [Mo.frac(v) for v in b_.split()])
    return X, Q, xs


@register
class C01(NlpCheck):
    pid = "C01"
    uses_generated = True
    slices = ["shooting-dynamic-rows", "sampled-states", "discrete_system()", "template-instances"]
    tags = ("dyn",)
    profiles = [
        ("shooting-dynamic-rows",
         {'methods': SHOOT, 'grids': FIXED_GRIDS + LOC_GRIDS, 'horizon': HORIZ, 'obj_kinds': ['at_tf'], 'ncons': (0, 1),
          'features': {'qstate': 0.5, 'p': 0.6, 'pc': 0.6, 'pcp': 0.5, 'v': 0.4, 'vc': 0.5, 'vcp': 0.4},
          'Ns': [1, 2, 2, 3, 3, 4, 5, 6], 'Ms': [1, 1, 2, 2, 3, 4]}, 50, 600),
    ]

    def explanation(self):
        return ("theorems: gap residual = X(k+1) - M closed-form steps; SS recursion; stage times; DT/DT_control; "
                "RK4/Euler = textbook scheme; per-interval parameter plumbing. correspondence: dyn rows of the model are "
                "atoms of rockit's NLP; ocp.sample(x,'control'|'integrator') equals the model's states; ocp.discrete_system() "
                "called directly equals model.discreteSystem")

    def extra_compare(self, desc, res):
        """sampled states on the control and integrator grids against the model's recursion"""
        out = []
        dl = Mo.desc_lines(desc)
        m = desc['method']
        N, M = m['N'], m['M']
        for phys, mags in zip(res.phys, res.mags):
            self.driver.send(dl)
            self.driver.send(Mo.point_lines(desc, phys))
            X, Q, xs = parse_states(self.driver.run('states'))
            for k in range(N + 1):
                for a, b_, mg in zip(X[k], phys['X'][k], mags['X'][k]):
                    if not close(a, b_, mg):
                        out.append(("sampled state at node %d differs from the scheme's recursion: model %s impl %s" % (k, float(a), float(b_)),
                                    self.case_features(desc, 'states', k)))
                        return out
            for k in range(N):
                for i in range(M):
                    for a, b_, mg in zip(xs[(k, i)][0], phys['Xi'][k * M + i], mags['Xi'][k * M + i]):
                        if not close(a, b_, mg):
                            out.append(("sampled state at integrator point (%d,%d) differs: model %s impl %s" % (k, i, float(a), float(b_)),
                                        self.case_features(desc, 'states-intg', (k, i))))
                            return out
        self.count("states-compared", (N + 1) + N * M)
        return out

    def correspondence(self):
        NlpCheck.correspondence(self)
        self.discrete_system_slice()
        self.template_instance_slice()

    def template_instance_slice(self):
        """the scheme does not depend on HOW the stage came to be: a model declared on a template and instantiated with ocp.stage(template, ...)
        — a discrete-time rule using t, DT and DT_control, or an ODE using t — gives the NLP of the same model declared directly on a stage
        with that horizon (whose rows the main correspondence ties to the model)"""
        import casadi as ca
        from .props2 import nlp_compare_ocps
        rockit = B.import_rockit()
        name = "template-instances"
        n = 6 if self.tier == 'quick' else 60
        rng = self.rng
        for it in range(n):
            discrete = it % 3 != 2
            kind = ['ms', 'ss'][it % 2]
            N, M = rng.randint(2, 3), rng.randint(2, 3)
            geo = rng.random() < 0.5
            t0, T = rng.randint(-2, 4) / 2.0, rng.randint(2, 7) / 2.0
            c = [rng.randint(1, 6) / 4.0 for _ in range(5)]
            info = {"discrete": discrete, "method": kind, "N": N, "M": M, "grid": "geometric" if geo else "uniform", "t0": t0, "T": T, "coefficients": c}

            def mk():
                g = rockit.GeometricGrid(2) if geo else rockit.UniformGrid()
                kw = {'intg': 'rk'} if not discrete else {}
                return rockit.MultipleShooting(N=N, M=M, grid=g, **kw) if kind == 'ms' else rockit.SingleShooting(N=N, M=M, grid=g, **kw)

            def declare(st):
                x = st.state(); y = st.state(); u = st.control()
                if discrete:
                    st.set_next(x, x + c[0] * st.DT * y + c[1] * st.DT_control * u + c[2] * st.t * st.DT)
                    st.set_next(y, y - c[3] * st.DT_control * x * st.DT + c[4] * st.DT * u)
                else:
                    st.set_der(x, c[0] * y + c[1] * u + c[2] * st.t)
                    st.set_der(y, -c[3] * x * st.t + c[4] * u)
                st.add_objective(st.at_tf(x ** 2 + y ** 2) + st.sum(u ** 2, include_last=False))
                st.subject_to(-2 <= (u <= 2), include_last=False)
                st.subject_to(st.at_t0(x) == 1)
                st.subject_to(st.at_t0(y) == 0.5)
                st.method(mk())

            def build(templated):
                with B.quiet():
                    ocp = rockit.Ocp()
                    if templated:
                        tmpl = rockit.Stage(t0=0, T=1)
                        declare(tmpl)
                        ocp.stage(tmpl, t0=t0, T=T)
                    else:
                        declare(ocp.stage(t0=t0, T=T))
                    ocp.solver('ipopt', {'ipopt.print_level': 0, 'print_time': False, 'ipopt.max_iter': 0, 'ipopt.sb': 'yes'})
                return ocp
            try:
                msg = nlp_compare_ocps(build(True), build(False), rng, "instance of a template vs the same %s model declared directly (%s, N=%d, M=%d)"
                                       % ("discrete-time" if discrete else "continuous-time", kind, N, M))
            except Exception as ex:
                msg = "a template instance with a %s model raised %s: %s" % ("discrete-time" if discrete else "continuous-time", type(ex).__name__, str(ex)[:250].replace("\n", " "))
            self.evaluations += 1
            self.signatures.add("tmpl-instance-%d" % it)
            self.count("template-instance:" + ("discrete" if discrete else "ode") + ":" + kind)
            if msg:
                self.slice_ok[name] = False
                self.violation(msg, {"case": info}, {"kind": "template-instance", "discrete": discrete})
                return

    def discrete_system_slice(self):
        n = 12 if self.tier == 'quick' else 150
        prof = {'methods': SHOOT, 'grids': ['uniform', 'geometric'], 'horizon': ['num'], 'obj_kinds': ['at_tf'], 'ncons': (0, 0),
                'features': {'qstate': 0.6, 'p': 0.6, 'pc': 0.6, 'pcp': 0.5, 'v': 0.4, 'vc': 0.5, 'vcp': 0.4}, 'Ms': [1, 2, 3, 4]}
        for _ in range(n):
            desc = G.gen_case(self.rng, prof)
            try:
                b = B.build(desc)
                with B.quiet():
                    F = b.ocp.discrete_system()
                W = Walker(F)
            except Exception as e:
                self.slice_ok["discrete_system()"] = False
                self.violation("ocp.discrete_system() raised: %r" % e, {"desc": desc}, {"kind": "exception", "where": "discrete_system"})
                return
            nx = sum(desc['states']); nu = sum(desc['controls'])
            sizes = [sum(desc['params']['']), sum(desc['params']['control']), sum(desc['params']['control+']),
                     sum(desc['vars']['']), sum(desc['vars']['control']), sum(desc['vars']['control+'])]
            rv = lambda: Fr(self.rng.choice([-6, -5, -3, -2, -1, 1, 2, 3, 5, 7]), self.rng.choice([1, 2, 4]))
            x0 = [rv() for _ in range(nx)]; u = [rv() for _ in range(nu)]
            p = [rv() for _ in range(sum(sizes))]
            t0 = rv(); T = abs(rv())
            args = [x0, u, [T], [t0], p, []]
            try:
                outs = W(args)
            except ZeroDivisionError:
                continue
            xf = outs[0]; qf = outs[3]
            d1 = copy.deepcopy(desc)
            d1['method']['N'] = 1
            d1['method']['kind'] = 'ss'
            d1['method']['grid'] = {'kind': 'uniform'}
            d1['cons'] = []; d1['phs'] = []; d1['obj'] = None
            d1['T'] = ('num', T); d1['t0'] = ('num', t0)
            L = Mo.desc_lines(d1)
            off = 0
            parts = []
            for s in sizes:
                parts.append(p[off:off + s]); off += s
            L.append("X 0 " + Mo.rats(x0))
            if nu: L.append("U 0 " + Mo.rats(u))
            names = ['P', 'Pc 0', 'Pcp 0', 'V', 'Vc 0', 'Vcp 0']
            for nm, part in zip(names, parts):
                if part: L.append(nm + " " + Mo.rats(part))
            L.append("T " + Mo.R(T)); L.append("t0 " + Mo.R(t0))
            self.driver.send(L)
            X, Q, xs = parse_states(self.driver.run('states'))
            self.evaluations += 1
            self.count("discrete_system-direct")
            for a, (v, mg) in list(zip(X[1], xf)) + list(zip(Q[1], qf)):
                if not close(a, v, mg):
                    self.slice_ok["discrete_system()"] = False
                    self.violation("ocp.discrete_system() differs from M steps of the scheme: model %s impl %s" % (float(a), float(v)),
                                   {"desc": desc, "args": args}, {"kind": "discrete_system", "intg": 'next' if desc.get('next') else desc['method']['intg']})
                    return


ALLM = [('ms', 'rk'), ('ms', 'euler'), ('ss', 'rk'), ('dc', 'rk'), ('ms', 'next'), ('dc', 'rk')]


@register
class C04(NlpCheck):
    pid = "C04"
    uses_generated = True
    slices = ["constraint-rows-all-methods", "offsets", "unplaceable-rejected", "nothing-else-after-clear"]
    tags = ("user", "tpos")
    whole = True
    profiles = [
        ("constraint-rows-all-methods",
         {'methods': ALLM, 'grids': FIXED_GRIDS + ['free', 'uniform_locT'], 'horizon': ['num', 'freeT', 'param'],
          'obj_kinds': ['at_tf'], 'ncons': (1, 4), 'scale_prob': 0.4, 'offset_prob': 0.0, 'inf_bounds_prob': 0.6, 'nrows': [1, 1, 2, 2, 3], 'both_ends_prob': 0.5,
          'Ns': [1, 2, 2, 3, 3, 4], 'Ms': [1, 1, 2, 3], 'degrees': [1, 2, 3]}, 40, 500),
        ("offsets",
         {'methods': ALLM, 'grids': ['uniform', 'geometric'], 'horizon': ['num'],
          'obj_kinds': ['at_tf'], 'ncons': (1, 3), 'scale_prob': 0.2, 'offset_prob': 0.8, 'con_grids': ['control'], 'roots': False,
          'features': {'pc': 0.7, 'pcp': 0.7, 'vc': 0.6, 'vcp': 0.7},
          'Ns': [1, 2, 3, 3, 4, 5], 'Ms': [1, 2], 'degrees': [1, 2]}, 30, 400),
        ("constraint-rows-all-methods",      # index-1 DAE under DirectCollocation: algebraic values of the point inside the constraints
         {'methods': [('dc', 'rk')], 'grids': ['uniform', 'geometric', 'free'], 'horizon': ['num', 'freeT'],
          'obj_kinds': ['at_tf'], 'ncons': (1, 3), 'scale_prob': 0.2, 'offset_prob': 0.0, 'alg_layouts': [[1], [2], [1, 2], [2, 1]], 'features': {'dae': 1.0}, 'z_in_constraints': True,
          'Ns': [1, 2, 3], 'Ms': [1, 2, 3], 'degrees': [1, 2, 3]}, 15, 200),
    ]

    def explanation(self):
        return ("theorems: control-grid placement loop (with the IndexError drop rule) = nodes 0..N filtered by include flags and "
                "in-horizon offsets, each once; integrator/roots membership and counts; final-node and shifted environments; "
                "sense/bounds preserved under positive scaling; point constraints once; every NLP row classified. "
                "correspondence: EQUALITY of the whole atom multiset of rockit's g/lbg/ubg with the model's, all methods.")

    def case_features(self, desc, kind, detail):
        f = NlpCheck.case_features(self, desc, kind, detail)
        if kind == 'rows-missing':
            tags = sorted(set(t for t, _ in detail))
            f['final_node_offset'] = any(t.endswith('node -1') for t in tags) and any(c.get('offs') for c in desc['cons'])
        return f

    def correspondence(self):
        NlpCheck.correspondence(self)
        self.unplaceable_slice()
        self.cleared_slice()

    def cleared_slice(self):
        """no other constraint restricts the problem: after clear_constraints() on a transcribed OCP (followed by a query, a solve, or new
        constraints) the NLP holds exactly the rows of the constraints declared since — those of the same problem declared without the
        cleared ones"""
        n = 6 if self.tier == 'quick' else 60
        prof = {'methods': ALLM, 'grids': ['uniform', 'geometric'], 'horizon': ['num'], 'obj_kinds': ['at_tf', 'integral'], 'ncons': (1, 3),
                'Ns': [2, 3], 'Ms': [1, 2], 'degrees': [1, 2], 'nxs': [1, 2], 'nus': [1]}
        for it in range(n):
            desc = G.gen_case(self.rng, prof)
            after = ['nothing', 'set_value-free', 'new-constraint'][it % 3]
            hist = ['transcribe', 'clear_constraints', after]
            try:
                bA = B.build(desc, transcribe=False)
                ocp = bA.ocp
                cur = copy.deepcopy(desc)
                cur['cons'] = []
                with B.quiet():
                    ocp._transcribed
                    ocp.clear_constraints()
                    if after == 'new-constraint':
                        s_ = G.symbols(desc)
                        e = G.poly(self.rng, s_['x'], (1, 1), 2)
                        ocp.subject_to(Mo.E.to_casadi(e, bA.sym_base) <= 3.0, include_last=False)
                        cur['cons'].append({'rel': 'le', 'a': [e], 'b': [Mo.E.C(3)], 'grid': 'control', 'first': True, 'last': False, 'offs': []})
                    elif after == 'set_value-free':
                        ocp.set_initial(bA.states[0], 0.25)
                        cur['initial_list'] = list(cur.get('initial_list', [])) + [('x', 0, ('num', [0.25]))]
                    bB = B.build(cur, transcribe=False)
                    bB.ocp._transcribed
                    B.finish(bB)
                err = nlp_signature_compare(ocp, bB, self.rng, "after %s" % (hist,))
            except (ZeroDivisionError, OverflowError):
                continue
            except Exception as ex:
                err = "after %s: %s: %s" % (hist, type(ex).__name__, str(ex)[:300])
            self.evaluations += 1
            self.signatures.add("cleared-%d" % it)
            self.count("cleared-then:" + after)
            if err:
                self.slice_ok["nothing-else-after-clear"] = False
                self.violation(err, {"desc": desc, "history": hist}, {"kind": "cleared-constraints", "then": after})
                return

    def unplaceable_slice(self):
        """a constraint on a grid the method cannot place must be rejected, not ignored"""
        if not _c04_spline_unplaceable(self):
            return
        n = 4 if self.tier == 'quick' else 30
        for _ in range(n):
            prof = {'methods': [('ms', 'rk'), ('ss', 'rk'), ('ms', 'euler')], 'grids': ['uniform'], 'ncons': (0, 0), 'obj_kinds': ['at_tf']}
            desc = G.gen_case(self.rng, prof)
            d0 = copy.deepcopy(desc)
            desc['cons'] = [{'rel': 'le', 'a': [('x', 0)], 'b': [Mo.E.C(1)], 'grid': 'roots', 'first': True, 'last': True, 'offs': []}]
            self.evaluations += 1
            self.count("unplaceable:roots-under-shooting")
            try:
                b = B.build(desc)
            except Exception:
                continue   # rejected: fine
            b0 = B.build(d0)
            if b.opti.g.numel() == b0.opti.g.numel():
                self.slice_ok["unplaceable-rejected"] = False
                self.violation("subject_to(..., grid='integrator_roots') under %s is neither placed nor rejected (ng unchanged: %d)" % (desc['method']['kind'], b.opti.g.numel()),
                               {"desc": desc}, {"kind": "unplaceable-ignored", "grid": "integrator_roots", "method": desc['method']['kind']})
                return


def _c04_spline_unplaceable(self):
    """SplineMethod: every grid key subject_to accepts is either placed (rows appear) or rejected"""
    import casadi as ca
    rockit = B.import_rockit()
    for grid in ('integrator_roots', 'integrator', 'control'):
        ngs = []
        raised = False
        for with_con in (False, True):
            try:
                with B.quiet():
                    ocp = rockit.Ocp(T=2.0)
                    x = ocp.state()
                    u = ocp.control()
                    ocp.set_der(x, u)
                    ocp.add_objective(ocp.at_tf(x) ** 2 + ocp.sum(u ** 2))
                    ocp.subject_to(ocp.at_t0(x) == 1)
                    if with_con:
                        ocp.subject_to(x <= 0.5, grid=grid)
                    ocp.method(rockit.SplineMethod(N=self.rng.randint(2, 4)))
                    ocp.solver('ipopt', {'ipopt.print_level': 0, 'print_time': False, 'ipopt.sb': 'yes'})
                    ocp._transcribed
                    ngs.append(ocp._method.opti.ng)
            except Exception:
                raised = True
        self.evaluations += 1
        self.count("unplaceable:spline-%s" % grid)
        self.signatures.add("unplaceable-spline-%s" % grid)
        if not raised and len(ngs) == 2 and ngs[0] == ngs[1]:
            self.slice_ok["unplaceable-rejected"] = False
            self.violation("subject_to(..., grid='%s') under SplineMethod is neither placed nor rejected (ng unchanged: %d)" % (grid, ngs[0]),
                           {"grid": grid}, {"kind": "unplaceable-ignored", "grid": grid, "method": "spline"})
            return False
    return True


OBJK = ['at_tf', 'at_t0', 'integral', 'sum', 'sum_plus', 'int_control']


@register
class C05(NlpCheck):
    pid = "C05"
    uses_generated = True
    slices = ["objective-all-methods", "colloc-integrates-constants", "sol.value(objective)-vs-solver", "terms-added-after-transcription", "terms-of-all-stages"]
    tags = ()
    want_f = True
    profiles = [
        ("objective-all-methods",
         {'methods': ALLM + [('ss', 'euler')], 'grids': FIXED_GRIDS + ['free', 'uniform_locT', 'geometric_locT0'], 'horizon': HORIZ,
          'obj_kinds': OBJK, 'obj_terms': (1, 4), 'ncons': (0, 1), 'features': {'qstate': 0.4},
          'Ns': [1, 2, 2, 3, 3, 4, 5], 'Ms': [1, 1, 2, 3], 'degrees': [1, 2, 3, 4, 5]}, 70, 800),
    ]

    def explanation(self):
        return ("theorems: objective = declared expression of the placeholder values; at_t0/at_tf at first/final node; sum / sum+ / "
                "interval-length-weighted left sum; integral = accumulated quadrature of the stage's own rule (RK4 on the augmented "
                "system; Σ h_k B_j q(root) for collocation, weights summing to one). correspondence: opti.f vs model at random points; "
                "constant integrands integrate to c·T for every degree/scheme; sol.value(ocp.objective) equals the solver's objective")

    def case_features(self, desc, kind, detail):
        f = NlpCheck.case_features(self, desc, kind, detail)
        f['obj_kinds'] = sorted(set(k for k, _ in desc['phs']))
        return f

    def exception_features(self, desc, exc):
        f = NlpCheck.exception_features(self, desc, exc)
        f['has_int_control'] = any(k == 'int_control' for k, _ in desc['phs'])
        f['dimension_mismatch'] = 'Dimension mismatch' in str(exc)
        return f

    def correspondence(self):
        NlpCheck.correspondence(self)
        self.constants_slice()
        self.solver_slice()
        self.late_terms_slice()
        self.stages_slice()

    def stages_slice(self):
        """the NLP objective of a multi-stage problem is the sum of the terms of the OCP itself and of EVERY stage: at the starting point
        (non-trivial, time-dependent guesses) it equals the parent's own term plus the objective of each stage transcribed alone (single
        stages are what the main correspondence ties to the model); stage order, methods and where the terms sit vary"""
        import casadi as ca
        import numpy as np
        rockit = B.import_rockit()
        name = "terms-of-all-stages"
        n = 6 if self.tier == 'quick' else 60
        rng = self.rng
        for it in range(n):
            nst = 2 + (it % 2)
            parent_term = it % 3 != 2
            cfg = []
            for i in range(nst):
                cfg.append({"method": rng.choice(['ms', 'ss', 'dc']), "N": rng.randint(2, 3), "M": rng.randint(1, 2), "t0": 0.5 * i, "T": rng.choice([1.0, 1.5, 2.0]),
                            "c": [rng.randint(1, 8) / 4.0 for _ in range(4)], "kinds": rng.sample(['mayer', 'integral', 'sum', 'integral_control'], rng.randint(1, 3)),
                            "guess": [rng.randint(1, 6) / 4.0, rng.randint(-4, 4) / 4.0 or 0.5, rng.randint(1, 4) / 2.0]})
            if it % 3 == 1:
                cfg[-1]["kinds"] = []          # the LAST stage without any term
            vg, pc = rng.randint(1, 6) / 2.0, rng.randint(1, 5) / 2.0
            info = {"stages": cfg, "parent_term": parent_term, "v_guess": vg}

            def declare(st, c):
                x = st.state(); u = st.control()
                st.set_der(x, -c["c"][0] * x + u)
                e = c["c"][1] * x ** 2 + c["c"][2] * u ** 2 + c["c"][3] * x * st.t
                for k in c["kinds"]:
                    if k == 'mayer':
                        st.add_objective(st.at_tf(c["c"][1] * x ** 2 + x))
                    elif k == 'integral':
                        st.add_objective(st.integral(e))
                    elif k == 'sum':
                        st.add_objective(st.sum(e, include_last=False))
                    else:
                        st.add_objective(st.integral(e, grid='control'))
                st.subject_to(st.at_t0(x) == 1)
                st.set_initial(x, c["guess"][0] + c["guess"][1] * st.t)
                st.set_initial(u, c["guess"][2])
                st.method({'ms': rockit.MultipleShooting(N=c["N"], M=c["M"], intg='rk'), 'ss': rockit.SingleShooting(N=c["N"], M=c["M"], intg='rk'),
                           'dc': rockit.DirectCollocation(N=c["N"], M=c["M"], degree=2)}[c["method"]])

            def f_start(only=None):
                with B.quiet():
                    ocp = rockit.Ocp()
                    if only is None and parent_term:
                        v = ocp.variable()
                        ocp.add_objective(pc * v ** 2 + v)
                        ocp.set_initial(v, vg)
                    for i, c in enumerate(cfg):
                        if only is None or only == i:
                            declare(ocp.stage(t0=c["t0"], T=c["T"]), c)
                    ocp.solver('ipopt', {'ipopt.print_level': 0, 'print_time': False, 'ipopt.max_iter': 0, 'ipopt.sb': 'yes'})
                    ocp._transcribed
                    opti = ocp.opti if hasattr(ocp, 'opti') else ocp._method.opti
                    return float(opti.debug.value(opti.f, opti.initial()))
            try:
                total = f_start()
                parts = [f_start(i) for i in range(nst)]
            except Exception as ex:
                self.slice_ok[name] = False
                self.violation("a multi-stage problem with objective terms in several stages raised %s: %s" % (type(ex).__name__, str(ex)[:250].replace("\n", " ")), {"case": info},
                               {"kind": "exception", "what": "stages-objective"})
                return
            want = sum(parts) + ((pc * vg ** 2 + vg) if parent_term else 0.0)
            self.evaluations += 1
            self.signatures.add("stages-objective-%d" % it)
            self.count("stages-objective:%d-stages:%s" % (nst, "parent-term" if parent_term else "no-parent-term"))
            if abs(total - want) > 1e-9 * max(1.0, abs(want)):
                self.slice_ok[name] = False
                self.violation("objective of the multi-stage NLP at its starting point is %r; the parent's term plus the objectives of the stages transcribed alone %s give %r"
                               % (total, parts, want), {"case": info}, {"kind": "stages-objective", "stages": nst})
                return

    def late_terms_slice(self):
        """objective terms added AFTER the problem was transcribed (a query, or a solve): the NLP solved next carries the sum of ALL
        terms (the same problem declared in one go), and sol.value(ocp.objective) is what the solver minimised"""
        import numpy as np
        n = 8 if self.tier == 'quick' else 80
        prof = {'methods': [('ms', 'rk'), ('dc', 'rk'), ('ss', 'rk'), ('ms', 'euler')], 'grids': ['uniform', 'geometric'], 'horizon': ['num', 'freeT'],
                'obj_kinds': ['at_tf', 'integral'], 'ncons': (0, 1), 'Ns': [2, 3], 'Ms': [1, 2], 'degrees': [1, 2], 'nxs': [1, 2], 'nus': [1]}
        for it in range(n):
            desc = G.gen_case(self.rng, prof)
            s_ = G.symbols(desc)
            query = ['solve', 'value', 'sample'][it % 3]
            cur = copy.deepcopy(desc)
            hist = [query]
            try:
                bA = B.build(desc, transcribe=False)
                ocp = bA.ocp
                with B.quiet():
                    ocp.solver('ipopt', {'ipopt.print_level': 0, 'print_time': False, 'ipopt.max_iter': 2, 'ipopt.sb': 'yes'})
                    if query == 'solve':
                        try:
                            ocp.solve()
                        except RuntimeError:
                            pass
                    elif query == 'value':
                        ocp.value(ocp.T)
                    else:
                        ocp.sample(bA.states[0], grid='control')
                    for _t in range(self.rng.randint(1, 2)):
                        kind = self.rng.choice(['at_tf', 'at_t0', 'sum', 'integral'])
                        e = G.poly(self.rng, s_['x'] + (s_['u'] if kind in ('sum', 'integral') else []), (1, 2), 2)
                        ce = Mo.E.to_casadi(e, bA.sym_base)
                        if kind == 'at_tf':
                            ocp.add_objective(ocp.at_tf(ce))
                        elif kind == 'at_t0':
                            ocp.add_objective(ocp.at_t0(ce))
                        elif kind == 'sum':
                            ocp.add_objective(ocp.sum(ce))
                        else:
                            ocp.add_objective(ocp.integral(ce))
                        cur['phs'] = cur['phs'] + [(kind, e)]
                        cur['obj'] = ('+', cur['obj'], ('ph', len(cur['phs']) - 1))
                        hist.append('add_objective(%s)' % kind)
                    bB = B.build(cur, transcribe=False)
                    bB.ocp.solver('ipopt', {'ipopt.print_level': 0, 'print_time': False, 'ipopt.max_iter': 2, 'ipopt.sb': 'yes'})
                    bB.ocp._transcribed
                    B.finish(bB)
                err = nlp_signature_compare(ocp, bB, self.rng, "after %s" % (hist,))
                if err is None:
                    with B.quiet():
                        try:
                            sol = ocp.solve()
                        except RuntimeError:
                            sol = ocp.non_converged_solution
                        val = float(sol.value(ocp.objective))
                        objs = sol.stats.get('iterations', {}).get('obj') or []      # absent when ipopt stopped before its first iteration
                    if not objs:
                        self.count("late-terms-solver-did-not-iterate")
                    elif np.isfinite(val) and not (abs(val - objs[-1]) <= 1e-8 * max(1.0, abs(val))):
                        err = "after %s: sol.value(ocp.objective)=%r but the solver minimised %r" % (hist, val, objs[-1])
            except (ZeroDivisionError, OverflowError):
                continue
            except Exception as ex:
                err = "after %s: %s: %s" % (hist, type(ex).__name__, str(ex)[:300])
            self.evaluations += 1
            self.signatures.add("late-%d-%s" % (it, query))
            self.count("late-terms-after:" + query)
            if err:
                self.slice_ok["terms-added-after-transcription"] = False
                self.violation(err, {"desc": desc, "history": hist}, {"kind": "late-objective-term", "query": query})
                return

    def constants_slice(self):
        cases = [(d, s) for d in (1, 2, 3, 4, 5) for s in ('radau', 'legendre')]
        if self.tier == 'quick':
            cases = cases[:6] + [(4, 'radau')]
        for d, s in cases:
            desc = G.gen_case(self.rng, {'methods': [('dc', 'rk')], 'grids': ['uniform', 'geometric'], 'ncons': (0, 0), 'degrees': [d], 'schemes': [s], 'horizon': ['num']})
            cval = Fr(self.rng.randint(1, 9), 2)
            desc['phs'] = [('integral', Mo.E.C(cval))]
            desc['obj'] = ('ph', 0)
            b = B.build(desc)
            xv, pv, fv = En.rand_point(self.rng, b)
            f, g, lbg, ubg = B.eval_nlp(b, xv, pv)
            want = cval * desc['T'][1]
            self.evaluations += 1
            self.count("constants:%s-%d" % (s, d))
            if not close(want, f[0], max(f[1], 1.0)):
                self.slice_ok["colloc-integrates-constants"] = False
                self.violation("integral of the constant %s over T=%s with DirectCollocation(degree=%d, scheme=%s) is %s, not %s" % (cval, desc['T'][1], d, s, float(f[0]), float(want)),
                               {"desc": desc, "x": xv, "p": pv}, {"kind": "colloc-constant", "degree": d, "scheme": s})

    def solver_slice(self):
        n = 3 if self.tier == 'quick' else 20
        import numpy as np
        for _ in range(n):
            desc = G.gen_case(self.rng, {'methods': [('ms', 'rk'), ('dc', 'rk')], 'grids': ['uniform'], 'ncons': (0, 0), 'obj_kinds': ['at_tf', 'integral'],
                                         'horizon': ['num'], 'Ns': [2, 3], 'Ms': [1], 'degrees': [2], 'nxs': [1, 2]})
            try:
                b = B.build(desc)
                with B.quiet():
                    b.ocp.solver('ipopt', {'ipopt.print_level': 0, 'print_time': False, 'ipopt.max_iter': 3, 'ipopt.sb': 'yes'})
                    try:
                        sol = b.ocp.solve()
                    except Exception:
                        sol = b.ocp.non_converged_solution
                    val = float(sol.value(b.ocp.objective))
                    st = sol.stats
                    objs = st['iterations']['obj']
            except Exception as e:
                self.notes.append("solver slice skipped a case: %r" % (e,))
                continue
            self.evaluations += 1
            self.count("solver-objective")
            if not (abs(val - objs[-1]) <= 1e-8 * max(1.0, abs(val))) and np.isfinite(val):
                self.slice_ok["sol.value(objective)-vs-solver"] = False
                self.violation("sol.value(ocp.objective)=%r but the solver minimised %r" % (val, objs[-1]), {"desc": desc}, {"kind": "solver-objective"})


ALLGRIDS = FIXED_GRIDS + LOC_GRIDS


@register
class C06(NlpCheck):
    pid = "C06"
    uses_generated = True
    slices = ["grid-rows-and-times", "minmax-options", "density-grids"]
    tags = ("grid",)
    whole = True
    extra_phys = True
    profiles = [
        ("grid-rows-and-times",
         {'methods': ALLM + [('ss', 'euler')], 'grids': ALLGRIDS, 'horizon': HORIZ, 'obj_kinds': ['at_tf'], 'ncons': (0, 1),
          'Ns': [1, 2, 3, 4, 5, 6, 7, 8], 'Ms': [1, 2, 3, 4], 'degrees': [1, 2, 3], 'nxs': [1, 2]}, 50, 600),
        ("minmax-options",
         {'methods': ALLM + [('ss', 'rk')], 'grids': ALLGRIDS, 'horizon': ['num', 'freeT', 'freeboth', 'param'], 'obj_kinds': ['at_tf'], 'ncons': (0, 0),
          'minmax_prob': 1.0, 'Ns': [1, 2, 3, 4, 5], 'Ms': [1, 2], 'degrees': [1, 2], 'nxs': [1]}, 40, 400),
        ("density-grids",
         {'methods': [('ms', 'rk'), ('dc', 'rk'), ('ss', 'euler')], 'grids': ['density_poly', 'dense_edges', 'dense_edges'], 'horizon': ['num', 'freeT'],
          'obj_kinds': ['at_tf'], 'ncons': (0, 0), 'Ns': [2, 3, 3, 4, 5], 'Ms': [1, 2], 'degrees': [1, 2], 'nxs': [1]}, 12, 80),
    ]

    def explanation(self):
        return ("theorems: uniform/geometric node locations, endpoints, monotonicity, constant ratio, last/first = g^(N-1); integrator "
                "split into M equal steps, DT and DT_control at every point; localized formulations reproduce the partition wherever "
                "their coupling rows hold; FreeGrid sums to T; min/max rows bound their interval; coupling rows belong to the NLP of "
                "every method. correspondence: grid rows (equality incl. nothing extra), control/integrator time vectors, sampled "
                "t/DT/DT_control vs model")

    def correspondence(self):
        self.density_history()
        NlpCheck.correspondence(self)
        self.minmax_stratified()

    def density_history(self):
        """several density grids with the SAME N and different parameters in one process (first): every grid must get its own nodes"""
        R = self.R_quick if self.tier == 'quick' else self.R_thorough
        prof = {'methods': [('ms', 'rk')], 'grids': ['dense_edges'], 'horizon': ['num'], 'obj_kinds': ['at_tf'], 'ncons': (0, 0),
                'Ns': [4], 'Ms': [1], 'nxs': [1]}
        params = [(2, 0.1), (20, 0.3), (5, 0.2), (2, 0.1)]
        for mult, frac in params[:(3 if self.tier == 'quick' else 4)]:
            desc = G.gen_case(self.rng, prof)
            desc['method']['grid'] = {'kind': 'dense_edges', 'multiplier': mult, 'edge_frac': frac}
            self.count("density-history")
            if not self.handle(desc, R, "density-grids"):
                return

    def minmax_stratified(self):
        """every grid class x {min only, max only, both} x free horizon: the one-sided options are easy to lose"""
        R = self.R_quick if self.tier == 'quick' else self.R_thorough
        reps = 1 if self.tier == 'quick' else 6
        kinds = ['uniform', 'uniform_locT', 'geometric', 'geometric_locT', 'free']
        for rep in range(reps):
            for gk in kinds:
                for side in ('min', 'max', 'both'):
                    prof = {'methods': [self.rng.choice(ALLM)], 'grids': [gk], 'horizon': ['freeT'], 'obj_kinds': ['at_tf'], 'ncons': (0, 0),
                            'Ns': [2, 3, 4], 'Ms': [1, 2], 'degrees': [1, 2], 'nxs': [1]}
                    desc = G.gen_case(self.rng, prof)
                    g = desc['method']['grid']
                    g.pop('min', None)
                    g.pop('max', None)
                    if side in ('min', 'both'):
                        g['min'] = self.rng.choice([0.25, 0.5, 0.125])
                    if side in ('max', 'both'):
                        g['max'] = self.rng.choice([2.0, 4.0, 3.0])
                    self.count("minmax-side:%s" % side)
                    if not self.handle(desc, R, "minmax-options"):
                        return

    def case_features(self, desc, kind, detail):
        f = NlpCheck.case_features(self, desc, kind, detail)
        g = desc['method']['grid']
        f['minmax'] = ('min' in g) or ('max' in g)
        f['localized'] = bool(g.get('localize_T') or g.get('localize_t0') or g['kind'] == 'free')
        return f

    def density_check(self, desc):
        """numeric (float) check, not a theorem: nodes of Density/DenseEdges grids equidistribute the density"""
        g = desc['method']['grid']
        N = desc['method']['N']
        nz = g['nz_runtime']
        import scipy.integrate as si
        if g['kind'] == 'density_poly':
            a, b_, c = [float(v) for v in g['coef']]
            F = lambda t: a * t + b_ * t * t / 2 + c * t ** 3 / 3
        else:
            import casadi as ca
            interp = ca.interpolant('interp', 'bspline', [[0.0, g['edge_frac'], 1 - g['edge_frac'], 1.0]],
                                    [g['multiplier'], 1.0, 1.0, g['multiplier']], {"algorithm": "smooth_linear"})
            F = lambda t: si.quad(lambda s_: float(interp(s_)), 0, t, limit=200)[0]
        tot = F(1.0)
        self.count("density-grid-checked")
        if abs(nz[0]) > 1e-12 or abs(nz[-1] - 1) > 1e-12:
            return "endpoints %r %r" % (nz[0], nz[-1])
        for k in range(N + 1):
            if abs(F(nz[k]) / tot - k / N) > 1e-4:
                return "node %d at %r carries cumulative density %r, expected %r" % (k, nz[k], F(nz[k]) / tot, k / N)
        return None

    def extra_compare(self, desc, res):
        out = []
        if desc['method']['grid']['kind'] in ('density_poly', 'dense_edges'):
            msg = self.density_check(desc)
            if msg:
                return [("density grid is not equidistributed: " + msg, self.case_features(desc, 'density', msg))]
        dl = Mo.desc_lines(desc)
        m = desc['method']
        N, M = m['N'], m['M']
        for phys, mags in zip(res.phys, res.mags):
            self.driver.send(dl)
            self.driver.send(Mo.point_lines(desc, phys))
            lines = self.driver.run('grid')
            got = {}
            intg = {}
            for l in lines:
                t = l.split()
                if t[0] == 'intg':
                    intg[int(t[1])] = [Mo.frac(v) for v in t[2:]]
                else:
                    got[t[0]] = [Mo.frac(v) for v in t[1:]]
            flat_intg = []
            for k in range(N):
                flat_intg += intg[k][:-1]
            flat_intg.append(intg[N - 1][-1])

            def cmp(name, model_vals, key, col=True):
                vals = [v for c in phys[key] for v in c]
                mg = [v for c in mags[key] for v in c]
                if len(vals) != len(model_vals):
                    return "%s: length %d vs model %d" % (name, len(vals), len(model_vals))
                for i, (a, b_, g_) in enumerate(zip(model_vals, vals, mg)):
                    if not close(a, b_, max(g_, 1.0)):
                        return "%s[%d]: model %s impl %s" % (name, i, float(a), float(b_))
                return None
            # time vectors come back as one column (n x 1); sampled scalars as columns of a 1 x n row
            checks = [("control time vector", got['tau'], 'tgrid', False), ("integrator time vector", flat_intg, 'tintg', False),
                      ("sampled ocp.t on the integrator grid", flat_intg, 'tsamp', True),
                      ("DT on control grid", got['dtnode'], 'DTnode', True), ("DT_control on control grid", got['dtcnode'], 'DTcnode', True),
                      ("DT on integrator grid", got['dtstep'] + [got['dtnode'][-1]], 'DTstep', True),
                      ("DT_control on integrator grid", got['dtcstep'] + [got['dtcnode'][-1]], 'DTcstep', True)]
            if m['kind'] == 'dc' and 'troots' in phys:
                # collocation times: t_k + (h_k/M)(i + tau_j), the interval's OWN step
                checks.append(("integrator_roots time vector", got['roots'], 'troots', False))
            if 'tfine' in phys:
                fine = []
                for a, b_ in zip(flat_intg, flat_intg[1:]):
                    fine += [a + (b_ - a) * Fr(j, 3) for j in range(3)]
                fine.append(flat_intg[-1])
                checks.append(("refined integrator time vector (refine=3)", fine, 'tfine', False))
                checks.append(("sampled ocp.t on the refined integrator grid", fine, 'tfinesamp', True))
                self.count("refined-integrator-times-compared")
            for name, mv, key, col in checks:
                msg = cmp(name, mv, key, col)
                if msg:
                    out.append(("time grid differs from the declared partition: " + msg, self.case_features(desc, 'times', name)))
                    return out
        self.count("time-vectors-compared", 7)
        return out


@register
class C02(NlpCheck):
    pid = "C02"
    uses_generated = True
    slices = ["collocation-rows", "dae-rows", "root-times-and-samples", "rows-follow-the-current-grid"]
    tags = ("defect", "alg", "cont")
    profiles = [
        ("collocation-rows",
         {'methods': [('dc', 'rk')], 'grids': ALLGRIDS, 'horizon': HORIZ, 'obj_kinds': ['at_tf', 'integral'], 'ncons': (0, 1),
          'features': {'pc': 0.6, 'pcp': 0.5, 'vc': 0.5, 'vcp': 0.4, 'p': 0.5, 'v': 0.4},
          'Ns': [1, 2, 2, 3, 4], 'Ms': [1, 2, 2, 3, 4], 'degrees': [1, 2, 3, 4, 5]}, 45, 500),
        ("dae-rows",
         {'methods': [('dc', 'rk')], 'grids': FIXED_GRIDS + ['free'], 'horizon': ['num', 'freeT'], 'obj_kinds': ['at_tf'], 'ncons': (0, 1),
          'alg_layouts': [[1], [2], [1, 2], [2, 1]], 'features': {'dae': 1.0, 'pc': 0.5}, 'Ns': [1, 2, 3], 'Ms': [1, 2, 3], 'degrees': [1, 2, 3, 4]}, 25, 300),
    ]

    def explanation(self):
        return ("theorems: Lagrange basis delta property for any distinct nodes; the polynomial through start and helper states "
                "interpolates them; Xc·C[:,j]/dt = Π'(τ_j)/h with Π' the genuine derivative (HasDerivAt over ℝ); Xc·D = Π(1); defect / "
                "continuity rows are members of the NLP with the stated arguments; a scaled equality row is feasible iff both sides "
                "agree. correspondence: defect/alg/continuity atoms of the model are atoms of rockit's NLP at random points; root "
                "times; algebraic samples on control/integrator grids")

    def correspondence(self):
        NlpCheck.correspondence(self)
        self.retranscribed_slice()

    def retranscribed_slice(self):
        """the collocation rows use the times of the grid AS IT IS NOW: a collocation problem with explicitly time-dependent dynamics,
        transcribed, then given another horizon or start time (same method object), has the NLP of the problem declared with that horizon
        from the start (whose rows the main correspondence ties to the model)"""
        n = 6 if self.tier == 'quick' else 60
        prof = {'methods': [('dc', 'rk')], 'grids': ['uniform', 'geometric'], 'horizon': ['num'], 'obj_kinds': ['at_tf', 'integral'], 'ncons': (0, 1),
                'features': {'time': 1.0, 'dae': 0.3}, 'Ns': [2, 3], 'Ms': [1, 2], 'degrees': [1, 2, 3], 'nxs': [1, 2], 'nus': [1]}
        for it in range(n):
            desc = G.gen_case(self.rng, prof)
            s_ = G.symbols(desc)
            for i_ in range(len(desc['ode'])):      # every right-hand side depends on time explicitly
                desc['ode'][i_] = ('+', desc['ode'][i_], ('*', Mo.E.C(G.coef(self.rng)), ('*', ('t',), self.rng.choice(s_['x'] + [('t',)]))))
            which = ['T', 't0', 'both'][it % 3]
            query = ['value', 'solve'][it % 2]
            newT = desc['T'][1] + Fr(self.rng.randint(1, 4), 2)
            newt0 = desc['t0'][1] + Fr(self.rng.choice([-3, -1, 1, 3]), 2)
            hist = [query] + (['set_T'] if which in ('T', 'both') else []) + (['set_t0'] if which in ('t0', 'both') else [])
            try:
                bA = B.build(desc, transcribe=False)
                ocp = bA.ocp
                cur = copy.deepcopy(desc)
                with B.quiet():
                    if query == 'value':
                        ocp.value(ocp.T)
                    else:
                        try:
                            ocp.solve()
                        except RuntimeError:
                            pass
                    if which in ('T', 'both'):
                        ocp.set_T(float(newT)); cur['T'] = ('num', newT)
                    if which in ('t0', 'both'):
                        ocp.set_t0(float(newt0)); cur['t0'] = ('num', newt0)
                    bB = B.build(cur, transcribe=False)
                    bB.ocp._transcribed
                    B.finish(bB)
                err = nlp_signature_compare(ocp, bB, self.rng, "after %s" % (hist,))
            except (ZeroDivisionError, OverflowError):
                continue
            except Exception as ex:
                err = "after %s: %s: %s" % (hist, type(ex).__name__, str(ex)[:300])
            self.evaluations += 1
            self.signatures.add("retranscribed-%d" % it)
            self.count("retranscribed:" + which)
            if err:
                self.slice_ok["rows-follow-the-current-grid"] = False
                self.violation(err, {"desc": desc, "history": hist, "T": newT, "t0": newt0}, {"kind": "retranscribed", "which": which})
                return

    def extra_compare(self, desc, res):
        out = []
        dl = Mo.desc_lines(desc)
        m = desc['method']
        N, M, d = m['N'], m['M'], m['degree']
        for phys, mags in zip(res.phys, res.mags):
            self.driver.send(dl)
            self.driver.send(Mo.point_lines(desc, phys))
            roots = None
            for l in self.driver.run('grid'):
                t = l.split()
                if t[0] == 'roots':
                    roots = [Mo.frac(v) for v in t[1:]]
            vals = [v for c_ in phys['troots'] for v in c_]
            mg = [v for c_ in mags['troots'] for v in c_]
            if len(vals) != len(roots):
                return [("number of collocation times %d, expected %d" % (len(vals), len(roots)), self.case_features(desc, 'roots', None))]
            for i, (a, b_, g_) in enumerate(zip(roots, vals, mg)):
                if not close(a, b_, max(g_, 1.0)):
                    return [("collocation time %d is %s, expected t_(k,i)+tau_j*h = %s" % (i, float(b_), float(a)), self.case_features(desc, 'roots', i))]
            if 'Zn' in phys:
                Z = {}
                zs = {}
                for l in self.driver.run('states'):
                    t = l.split()
                    if t[0] == 'Z':
                        Z[int(t[1])] = [Mo.frac(v) for v in t[2:]]
                    elif t[0] == 'zs':
                        zs[(int(t[1]), int(t[2]))] = [Mo.frac(v) for v in t[3:]]
                for k in range(N + 1):
                    for a, b_, g_ in zip(Z[k], phys['Zn'][k], mags['Zn'][k]):
                        if not close(a, b_, max(g_, 1.0)):
                            return [("sampled algebraic value at node %d: model %s impl %s" % (k, float(a), float(b_)), self.case_features(desc, 'z-node', k))]
                for k in range(N):
                    for i in range(M):
                        for a, b_, g_ in zip(zs[(k, i)], phys['Zi'][k * M + i], mags['Zi'][k * M + i]):
                            if not close(a, b_, max(g_, 1.0)):
                                return [("sampled algebraic value at step (%d,%d): model %s impl %s" % (k, i, float(a), float(b_)), self.case_features(desc, 'z-step', (k, i)))]
                self.count("z-samples-compared")
        self.count("root-times-compared")
        return out


def subst_expr(e, mp):
    k = e[0]
    if (k,) + tuple(e[1:2]) in mp and k in ('p', 'pc', 'pcp', 'v', 'T', 't0'):
        return mp[(k,) + tuple(e[1:2])]
    if k in ('+', '-', '*', '/'):
        return (k, subst_expr(e[1], mp), subst_expr(e[2], mp))
    if k == 'neg':
        return ('neg', subst_expr(e[1], mp))
    if k == 'pow':
        return ('pow', subst_expr(e[1], mp), e[2])
    return e


def subst_desc(desc, mp):
    d = copy.deepcopy(desc)
    for key in ('ode', 'quad', 'alg'):
        d[key] = [subst_expr(e, mp) for e in d[key]]
    d['phs'] = [(k, subst_expr(e, mp)) for k, e in d['phs']]
    if d['obj'] is not None:
        d['obj'] = subst_expr(d['obj'], mp)
    for c in d['cons']:
        for key in ('a', 'b', 'c'):
            if key in c:
                c[key] = [subst_expr(e, mp) for e in c[key]]
        c['offs'] = [(subst_expr(e, mp), o) for e, o in c.get('offs', [])]
    return d


def current_p(b):
    """the parameter vector the solver would get now (exact doubles)"""
    import casadi as ca
    with B.quiet():
        v = b.opti.debug.value(b.opti.p, b.opti.initial()) if b.np_opti else []
    v = ca.DM(v).full().flatten().tolist() if b.np_opti else []
    return [Fr(x) for x in v]


def impl_vs_impl(chk, bA, bB, xv, pA, pB, what):
    fA, gA, lA, uA = B.eval_nlp(bA, xv, pA)
    fB, gB, lB, uB = B.eval_nlp(bB, xv, pB)
    if not close(fA[0], fB[0], max(fA[1], fB[1], 1.0)):
        return "%s: objective %s vs %s" % (what, float(fA[0]), float(fB[0]))
    aA = B.atoms_of_impl(gA, lA, uA)
    aB = B.atoms_of_impl(gB, lB, uB)
    um, ui, ex = Mo.match_atoms([("A", [v]) for v, _ in aA], [[(v, m)] for v, m in aB])
    um = [u for u in um if not (u[1][0] >= 0 and False)]
    if um or ui:
        return "%s: %d rows of the first and %d rows of the second problem have no counterpart (e.g. %s)" % (
            what, len(um), len(ui), [float(u[1][0]) for u in um[:3]] + [float(aB[j][0]) for j in ui[:3]])
    return None


@register
class C09(NlpCheck):
    pid = "C09"
    uses_generated = True
    slices = ["parametric-nlp", "shifted-operands-with-interval-parameters", "constants-written-in", "set_value-histories", "matrix-valued-parameters", "horizon-parameter-histories", "template-instances"]
    tags = None
    whole = True
    want_f = True
    profiles = [
        ("parametric-nlp",
         {'methods': ALLM + [('ss', 'euler')], 'grids': FIXED_GRIDS + ['free', 'uniform_locT'], 'horizon': ['num', 'param', 'param', 'freeT'],
          'obj_kinds': ['at_tf', 'integral', 'sum_plus'], 'ncons': (1, 3), 'offset_prob': 0.3,
          'features': {'p': 0.9, 'pc': 0.8, 'pcp': 0.7, 'v': 0.3}, 'Ns': [1, 2, 3, 4], 'Ms': [1, 2, 3], 'degrees': [1, 2, 3]}, 45, 500),
        ("shifted-operands-with-interval-parameters",
         {'methods': ALLM, 'grids': FIXED_GRIDS, 'horizon': ['num'], 'obj_kinds': ['at_tf'], 'ncons': (1, 2), 'con_grids': ['control'],
          'offset_prob': 1.0, 'offsets': [1, 1, 2, -1], 'offset_force_pcp': True,
          'features': {'p': 0.3, 'pc': 0.5, 'pcp': 1.0}, 'Ns': [2, 3, 4], 'Ms': [1, 2], 'degrees': [1, 2]}, 12, 120),
    ]

    def explanation(self):
        return ("theorems: substitution lemma eval(e[σ])=eval e in the updated environment (induction on Expr), constants written "
                "in for global parameters; every environment of the transcription sees pt.P and column k of per-interval "
                "parameters (column N / N-1 at the final node); horizon parameter only enters through its value; last-write-wins "
                "and frame property of the value store. correspondence: NLP with parameters of every kind vs model; the same "
                "OCP with constants hard-coded vs with parameters (real rockit both sides); set_value histories before/after "
                "transcription vs last assigned values")

    def correspondence(self):
        NlpCheck.correspondence(self)
        self.constants_slice()
        self.history_slice()
        self.matrix_parameter_slice()
        self.horizon_parameter_history_slice()
        self.template_instances_slice()

    def template_instances_slice(self):
        """two instances of ONE template with different values for the template's parameter: each instance keeps its own value, before the
        first transcription and when one of them is replaced afterwards (a later set_value replaces that parameter's value only)"""
        import casadi as ca
        from .props2 import gen_multi, build_multi, rnd
        n = 4 if self.tier == 'quick' else 30
        done = 0
        tries = 0
        while done < n and tries < 40 * n:
            tries += 1
            md = gen_multi(self.rng, {'features': {'p': 1.0, 'qstate': 0.0, 'dae': 0.0, 'time': 0.3}})
            clones = [i for i, sd in enumerate(md['stages']) if sd.get('clone_of') is not None]
            if len(clones) < 2:
                continue
            done += 1
            try:
                mb = build_multi(copy.deepcopy(md))
            except (ZeroDivisionError, OverflowError):
                continue
            except Exception as ex:
                self.slice_ok["template-instances"] = False
                self.violation("a stage tree with two instances of one template raised %s: %s" % (type(ex).__name__, str(ex)[:200]), {"md": md}, {"kind": "exception", "what": "template-instances"})
                return

            def values_in_effect():
                with B.quiet():
                    pcur = [Fr(v) for v in ca.DM(mb.opti.debug.value(mb.opti.p, mb.opti.initial())).full().flatten().tolist()]
                out = {}
                for i in clones:
                    b = mb.bs[i]
                    xv = [rnd(self.rng) for _ in range(mb.nx_opti)]
                    fv = None
                    if b.free:
                        fv = []
                        with B.quiet():
                            for s_ in b.free:
                                fv += [Fr(v) for v in ca.DM(mb.opti.debug.value(s_, mb.opti.initial())).full().flatten(order='F').tolist()]
                    out[i] = [float(v) for v in B.eval_phys(b, xv, pcur, fv)['P'][0]]
                return out
            try:
                got = values_in_effect()
                want = {i: list(mb.child_pvals[i]) for i in clones}
                err = None
                if got != want:
                    err = "values in effect %s, values given to the instances %s" % (got, want)
                else:
                    # replace the first parameter of the LAST instance only, after the transcription
                    i = clones[-1]
                    q = mb.bs[i].params[''][0]
                    with B.quiet():
                        mb.bs[i].ocp.set_value(q, ca.DM([9.5] * q.numel()))
                    for r in range(q.numel()):
                        want[i][r] = 9.5
                    got = values_in_effect()
                    if got != want:
                        err = "after set_value on instance %d only: values in effect %s, expected %s" % (i, got, want)
            except (ZeroDivisionError, OverflowError, KeyError):
                continue
            self.evaluations += 1
            self.signatures.add("tmpl-%d" % done)
            self.count("template-instances")
            if err:
                self.slice_ok["template-instances"] = False
                self.violation("instances of one template do not keep their own parameter values: " + err, {"md": md}, {"kind": "template-instances"})
                return

    def horizon_parameter_history_slice(self):
        """a horizon given by parameters, values replaced AFTER the first transcription: objective, rows AND the starting point (guesses
        written as expressions of time are evaluated on the time grid) are those of the problem declared with the new values from the
        start. Non-localized grids (localized grid variables keep their first initialisation: the recorded known finding of C10)"""
        import casadi as ca
        n = 6 if self.tier == 'quick' else 60
        prof = {'methods': ALLM, 'grids': ['uniform', 'geometric'], 'horizon': ['param'], 'obj_kinds': ['at_tf', 'integral'], 'ncons': (0, 1),
                'features': {'p': 0.5}, 'Ns': [2, 3], 'Ms': [1, 2], 'degrees': [1, 2], 'nxs': [1, 2], 'nus': [1]}
        for it in range(n + 2):
            localized = it >= n       # two cases on localized grids at the end: the starting values of the grid's own variables
            d = G.gen_case(self.rng, dict(prof, grids=['uniform_locT', 'geometric_locT']) if localized else prof)
            nst = len(d['states'])
            i = self.rng.randrange(nst)
            d['initial_list'] = [('x', i, ('expr', [('+', ('*', Mo.E.C(G.coef(self.rng)), ('t',)), Mo.E.C(G.coef(self.rng))) for _r in range(d['states'][i])]))]
            npg = sum(d['params'][''])
            offs = sym_offsets(d['params'][''])
            hz = {key: [j for j, sz in enumerate(d['params']['']) if offs[j] == d[key][1]][0] for key in ('t0', 'T')}

            def values(shift):
                out = {}
                for j, sz in enumerate(d['params']['']):
                    out[('', j)] = ca.DM([float(Fr(self.rng.randint(1, 8), 4)) for _ in range(sz)])
                return out
            v1, v2 = values(0), values(1)
            if float(v1[('', hz['T'])]) == float(v2[('', hz['T'])]):
                v2[('', hz['T'])] = v2[('', hz['T'])] + 0.75
            try:
                dA = copy.deepcopy(d); dA['param_values'] = v1
                bA = B.build(dA, transcribe=False)
                with B.quiet():
                    bA.ocp._transcribed
                    for (gk, j), val in v2.items():
                        bA.ocp.set_value(bA.params[''][j], val)
                dB = copy.deepcopy(d); dB['param_values'] = v2
                bB = B.build(dB, transcribe=False)
                with B.quiet():
                    bB.ocp._transcribed
                    B.finish(bB)
                err = nlp_signature_compare(bA.ocp, bB, self.rng, "horizon parameters replaced after the first transcription")
            except (ZeroDivisionError, OverflowError):
                continue
            except Exception as ex:
                err = "horizon parameters replaced after the first transcription: %s: %s" % (type(ex).__name__, str(ex)[:200])
            self.evaluations += 1
            self.signatures.add("hzpar-%d" % it)
            self.count("horizon-parameter-history")
            if err:
                self.slice_ok["horizon-parameter-histories"] = False
                self.violation(err, {"desc": d, "first": {str(k): v.full().tolist() for k, v in v1.items()}, "then": {str(k): v.full().tolist() for k, v in v2.items()}},
                               {"kind": "horizon-parameter-history", "method": d['method']['kind'], "localized_grid": localized,
                                "what": "starting point" if "starting point" in err else "other"})
                if not localized:
                    return

    def matrix_parameter_slice(self):
        """matrix-valued parameters keep their element layout: a matrix A (also per-interval), a vector b and a scalar c enter the dynamics,
        the objective and a constraint element by element; values are given one symbol per call or through ONE call on a concatenation
        (horzcat / veccat / vertcat of the symbols, which set_value documents), before the first transcription or after it; the NLP is
        the one of the same OCP with the numbers written in"""
        import casadi as ca
        import numpy as np
        rockit = B.import_rockit()
        name = "matrix-valued-parameters"
        n = 8 if self.tier == 'quick' else 80
        rng = self.rng
        for it in range(n):
            meth = ['ms', 'dc', 'ss'][it % 3]
            N, M = rng.randint(2, 3), rng.randint(1, 2)
            style = ['separate', 'horzcat', 'veccat', 'vertcat-bc'][it % 4]
            when = ['before', 'after'][(it // 4) % 2]
            ncolA = rng.choice([2, 3])
            val = lambda r, c_: [[rng.randint(-8, 8) / 4.0 for _ in range(c_)] for _ in range(r)]
            Av, bv, cv = val(2, ncolA), val(2, 1), rng.randint(1, 8) / 4.0
            A0, b0, c0 = val(2, ncolA), val(2, 1), rng.randint(1, 8) / 4.0       # first values (replaced when `when == 'after'`)
            info = {"method": meth, "N": N, "M": M, "style": style, "when": when, "A": Av, "b": bv, "c": cv}

            def make(parametric):
                with B.quiet():
                    ocp = rockit.Ocp(t0=0.5, T=2.0)
                    x = ocp.state(2)
                    u = ocp.control(ncolA)
                    if parametric:
                        A = ocp.parameter(2, ncolA)
                        b_ = ocp.parameter(2)
                        c_ = ocp.parameter()
                    else:
                        A, b_, c_ = ca.DM(Av), ca.DM(bv), cv
                    ocp.set_der(x, -x + ca.mtimes(A, u) + b_ * c_)
                    ocp.add_objective(ocp.integral(ca.sumsqr(x) + ca.sumsqr(u)) + ocp.at_tf(ca.dot(b_, x)) * c_)
                    ocp.subject_to(ocp.at_t0(x) == b_)
                    ocp.subject_to(ca.mtimes(A, u) <= 5 + c_)
                    ocp.method({'ms': rockit.MultipleShooting(N=N, M=M, intg='rk'), 'ss': rockit.SingleShooting(N=N, M=M, intg='rk'),
                                'dc': rockit.DirectCollocation(N=N, M=M, degree=2)}[meth])
                    ocp.solver('ipopt', {'ipopt.print_level': 0, 'print_time': False, 'ipopt.max_iter': 0, 'ipopt.sb': 'yes'})
                    if parametric:
                        def assign(Aw, bw, cw):
                            if style == 'separate':
                                ocp.set_value(A, ca.DM(Aw)); ocp.set_value(b_, ca.DM(bw)); ocp.set_value(c_, cw)
                            elif style == 'horzcat':
                                ocp.set_value(ca.horzcat(A, b_), ca.horzcat(ca.DM(Aw), ca.DM(bw))); ocp.set_value(c_, cw)
                            elif style == 'veccat':
                                ocp.set_value(ca.veccat(A, b_, c_), ca.veccat(ca.DM(Aw), ca.DM(bw), cw))
                            else:
                                ocp.set_value(A, ca.DM(Aw)); ocp.set_value(ca.vertcat(b_, c_), ca.vertcat(ca.DM(bw), cw))
                        if when == 'before':
                            assign(Av, bv, cv)
                            ocp._transcribed
                        else:
                            assign(A0, b0, c0)
                            ocp._transcribed
                            assign(Av, bv, cv)
                    else:
                        ocp._transcribed
                    opti = ocp._method.opti
                    F = ca.Function('F', [opti.x, opti.p], [opti.f, opti.g, opti.lbg, opti.ubg])
                    pv = np.array(opti.debug.value(opti.p, opti.initial())).flatten() if opti.p.numel() else []
                return F, pv, opti.x.numel()
            try:
                FP, pP, nP = make(True)
                FC, pC, nC = make(False)
            except Exception as ex:
                self.slice_ok[name] = False
                self.violation("matrix-valued parameters (%s, values %s transcription) raised %s: %s" % (style, when, type(ex).__name__, str(ex)[:200]),
                               {"case": info}, {"kind": "exception", "what": "matrix-parameter"})
                return
            self.evaluations += 1
            self.signatures.add(repr((meth, N, M, style, when, ncolA)))
            self.count("matrix-parameter:%s:%s" % (style, when))
            err = None
            if nP != nC:
                err = "%d decision variables with parameters, %d with constants" % (nP, nC)
            else:
                xv = [rng.choice([-1.5, -0.5, 0.5, 1.0, 2.0]) for _ in range(nP)]
                rP = [np.array(v).flatten() for v in FP(xv, pP)]
                rC = [np.array(v).flatten() for v in FC(xv, pC)]

                def atoms(r):
                    out = []
                    for g_, lo, hi in zip(r[1], r[2], r[3]):
                        if np.isfinite(lo):
                            out.append(g_ - lo)
                        if np.isfinite(hi):
                            out.append(hi - g_)
                    return sorted(out)
                if abs(rP[0][0] - rC[0][0]) > 1e-9 * max(1.0, abs(rC[0][0])):
                    err = "objective %r with parameters, %r with the values written in" % (rP[0][0], rC[0][0])
                else:
                    aP, aC = atoms(rP), atoms(rC)
                    if len(aP) != len(aC) or any(abs(a - b__) > 1e-9 * max(1.0, abs(a), abs(b__)) for a, b__ in zip(aP, aC)):
                        err = "constraint rows differ between the parametric problem and the one with the values written in"
            if err:
                self.slice_ok[name] = False
                self.violation("matrix-valued parameters assigned through %s %s the first transcription: %s" % (style, when, err), {"case": info},
                               {"kind": "matrix-parameter", "style": style, "when": when})
                return

    def constants_slice(self):
        n = 10 if self.tier == 'quick' else 120
        prof = {'methods': ALLM, 'grids': FIXED_GRIDS, 'horizon': ['num', 'param'], 'obj_kinds': ['at_tf', 'integral'], 'ncons': (1, 2),
                'features': {'p': 1.0, 'pc': 0.4, 'pcp': 0.3}, 'Ns': [1, 2, 3], 'Ms': [1, 2], 'degrees': [1, 2, 3]}
        import casadi as ca
        for _ in range(n):
            dA = G.gen_case(self.rng, prof)
            npg = sum(dA['params'][''])
            vals = [Fr(self.rng.randint(1, 12), 4) for _ in range(npg)]
            dA['param_values'] = {}
            off = 0
            for i, sz in enumerate(dA['params']['']):
                dA['param_values'][('', i)] = ca.DM([float(v) for v in vals[off:off + sz]])
                off += sz
            N = dA['method']['N']
            for i, sz in enumerate(dA['params']['control']):
                dA['param_values'][('control', i)] = ca.DM([[float(Fr(self.rng.randint(1, 12), 4)) for _ in range(N)] for _ in range(sz)])
            for i, sz in enumerate(dA['params']['control+']):
                dA['param_values'][('control+', i)] = ca.DM([[float(Fr(self.rng.randint(1, 12), 4)) for _ in range(N + 1)] for _ in range(sz)])
            mp = {('p', i): Mo.E.C(vals[i]) for i in range(npg)}
            dB = subst_desc(dA, mp)
            for key in ('t0', 'T'):
                if dA[key][0] == 'p':
                    dB[key] = ('num', vals[dA[key][1]])
            try:
                bA = B.build(dA)
                bB = B.build(dB)
            except Exception as e:
                self.slice_ok["constants-written-in"] = False
                self.violation("building parametric/constant twin raised %r" % (e,), {"desc": dA}, {"kind": "exception"})
                return
            if bA.nx_opti != bB.nx_opti:
                self.slice_ok["constants-written-in"] = False
                self.violation("parametric and constant problems have different numbers of decision variables", {"desc": dA}, {"kind": "constants", "what": "nx"})
                return
            self.record_case(dA, True, {"three_way": True, "values": [str(v) for v in vals], "method": dA['method']})
            self.count("constants-twin")
            try:
                xv, _, _ = En.rand_point(self.rng, bA)
                msg = impl_vs_impl(self, bA, bB, xv, current_p(bA), current_p(bB), "parameters vs constants")
            except ZeroDivisionError:
                continue
            if msg:
                self.slice_ok["constants-written-in"] = False
                self.violation(msg, {"desc": dA, "values": vals, "x": xv}, {"kind": "constants", "method": dA['method']['kind']})
                return

    def history_slice(self):
        n = 8 if self.tier == 'quick' else 100
        prof = {'methods': ALLM, 'grids': ['uniform', 'geometric'], 'horizon': ['num'], 'obj_kinds': ['at_tf'], 'ncons': (0, 1),
                'features': {'p': 1.0, 'pc': 1.0, 'pcp': 0.7}, 'Ns': [2, 3], 'Ms': [1, 2], 'degrees': [1, 2]}
        import casadi as ca
        import numpy as np
        for _ in range(n):
            d = G.gen_case(self.rng, prof)
            b = B.build(d, transcribe=False)
            ocp = b.ocp
            N = d['method']['N']
            plist = [('', i, p) for i, p in enumerate(b.params[''])] + [('control', i, p) for i, p in enumerate(b.params['control'])] + \
                    [('control+', i, p) for i, p in enumerate(b.params['control+'])]
            last = {}
            ops = []
            transcribed = False
            for step in range(self.rng.randint(3, 9)):
                if self.rng.random() < 0.3:
                    with B.quiet():
                        ocp.sample(b.states[0], grid='control')
                    transcribed = True
                    ops.append("sample")
                else:
                    gk, i, p = self.rng.choice(plist)
                    cols = {'': 1, 'control': N, 'control+': N + 1}[gk]
                    val = np.array([[self.rng.randint(-8, 8) / 4.0 for _ in range(cols)] for _ in range(p.numel())])
                    with B.quiet():
                        ocp.set_value(p, ca.DM(val) if gk else ca.DM(val[:, 0]))
                    last[(gk, i)] = val
                    ops.append("set_value %s%d" % (gk, i))
            self.evaluations += 1
            self.count("set_value-history")
            with B.quiet():
                for gk, i, p in plist:
                    if gk == '':
                        got = np.array(ocp.initial_value(ocp.value(ca.vec(p)))).reshape(-1, 1)
                    elif gk == 'control':
                        got = np.array(ocp.initial_value(ocp.sample(ca.vec(p), grid='control-')[1])).reshape(p.numel(), -1)
                    else:
                        got = np.array(ocp.initial_value(ocp.sample(ca.vec(p), grid='control')[1])).reshape(p.numel(), -1)
                    want = last.get((gk, i))
                    if want is None:
                        cols = {'': 1, 'control': N, 'control+': N + 1}[gk]
                        want = np.ones((p.numel(), cols))
                    if got.shape != want.shape or not np.allclose(got, want, rtol=0, atol=1e-12):
                        self.slice_ok["set_value-histories"] = False
                        self.violation("after %s the value of parameter %s%d is %s, last assigned %s" % (ops, gk, i, got.tolist(), want.tolist()),
                                       {"desc": d, "ops": ops}, {"kind": "set_value-history", "grid": gk})
                        return


def var_index_of(b, expr):
    """index in opti.x of the single decision variable a scalar expression is (a multiple of)"""
    import casadi as ca
    J = ca.jacobian(expr, b.opti.x)
    sp = J.sparsity()
    cols = sp.get_col()
    return cols[0] if len(cols) == 1 else None


@register
class C11(NlpCheck):
    pid = "C11"
    slices = ["free-time-nlp", "horizon-symbols-in-signals-localized", "restriction-to-fixed-time", "start-value-is-guess", "free-time-assigned-after-transcription"]
    tags = None
    whole = True
    want_f = True
    profiles = [
        ("free-time-nlp",
         {'methods': ALLM + [('ss', 'euler')], 'grids': ALLGRIDS, 'horizon': ['freeT', 'freet0', 'freeboth', 'freeT'],
          'obj_kinds': ['at_tf', 'integral', 'int_control'], 'ncons': (0, 2), 'horizon_in_signals': 0.7,
          'Ns': [1, 2, 3, 4], 'Ms': [1, 2, 3], 'degrees': [1, 2, 3]}, 40, 500),
        ("horizon-symbols-in-signals-localized",
         {'methods': ALLM, 'grids': ['uniform_locT0', 'geometric_locT0', 'uniform_locboth', 'uniform_locT', 'free'], 'horizon': ['freet0', 'freeboth', 'freeT'],
          'obj_kinds': ['at_tf', 'sum', 'sum_plus', 'int_control'], 'ncons': (1, 2), 'con_grids': ['control', 'integrator'], 'horizon_in_signals': 1.0,
          'Ns': [2, 3, 4], 'Ms': [1, 2], 'degrees': [1, 2]}, 25, 300),
    ]

    def explanation(self):
        return ("theorems: objective, dynamic rows, declared-constraint rows, grid and finalize rows of the model do not depend on whether "
                "T/t0 are declared free — only on their values at the point; exactly one extra row T>=0 for free T; ocp.T/ocp.t0 in every "
                "environment are the point's values. correspondence: free-time NLP vs model; real rockit twice: free-time problem at T=c "
                "vs fixed-time problem with the number c (rows equal up to T>=0 and min/max rows that are constants when T is fixed); "
                "starting value of T/t0 equals the FreeTime guess")

    def correspondence(self):
        NlpCheck.correspondence(self)
        self.twin_slice()
        self.late_free_slice()

    def late_free_slice(self):
        """assigning FreeTime through set_T / set_t0 AFTER the OCP was transcribed (a query or a solve) yields the free-time NLP of the same OCP
        declared free from the start: the horizon variable exists, starts at the guess, T >= 0 is there"""
        rockit = B.import_rockit()
        n = 6 if self.tier == 'quick' else 60
        prof = {'methods': ALLM, 'grids': ['uniform', 'geometric'], 'horizon': ['num'], 'obj_kinds': ['at_tf', 'integral'], 'ncons': (0, 1),
                'features': {'time': 1.0}, 'horizon_in_signals': 1.0, 'Ns': [2, 3], 'Ms': [1, 2], 'degrees': [1, 2], 'nxs': [1, 2], 'nus': [1]}
        for it in range(n):
            desc = G.gen_case(self.rng, prof)
            which = ['t0', 'T', 'both'][it % 3]
            query = ['value', 'solve'][it % 2]
            g0, gT = Fr(self.rng.randint(-3, 3), 2), Fr(self.rng.randint(1, 6), 2)
            hist = [query] + (['set_t0(FreeTime)'] if which in ('t0', 'both') else []) + (['set_T(FreeTime)'] if which in ('T', 'both') else [])
            try:
                bA = B.build(desc, transcribe=False)
                ocp = bA.ocp
                cur = copy.deepcopy(desc)
                with B.quiet():
                    if query == 'value':
                        ocp.value(ocp.T)
                    else:
                        try:
                            ocp.solve()
                        except RuntimeError:
                            pass
                    if which in ('t0', 'both'):
                        ocp.set_t0(rockit.FreeTime(float(g0)))
                        cur['t0'] = ('free', g0)
                    if which in ('T', 'both'):
                        ocp.set_T(rockit.FreeTime(float(gT)))
                        cur['T'] = ('free', gT)
                    bB = B.build(cur, transcribe=False)
                    bB.ocp._transcribed
                    B.finish(bB)
                err = nlp_signature_compare(ocp, bB, self.rng, "after %s" % (hist,))
            except (ZeroDivisionError, OverflowError):
                continue
            except Exception as ex:
                err = "after %s: %s: %s" % (hist, type(ex).__name__, str(ex)[:300])
            self.evaluations += 1
            self.signatures.add("late-free-%d" % it)
            self.count("late-free:" + which)
            if err:
                self.slice_ok["free-time-assigned-after-transcription"] = False
                self.violation(err, {"desc": desc, "history": hist, "t0_guess": g0, "T_guess": gT}, {"kind": "late-free", "which": which})
                return

    def twin_slice(self):
        import casadi as ca
        n = 12 if self.tier == 'quick' else 150
        prof = {'methods': ALLM, 'grids': FIXED_GRIDS + ['uniform_locT', 'free', 'uniform_locT0', 'geometric_locT', 'geometric_locT0'], 'horizon': ['freeT', 'freet0', 'freeboth'],
                'obj_kinds': ['at_tf', 'integral'], 'ncons': (0, 2), 'Ns': [1, 2, 3], 'Ms': [1, 2], 'degrees': [1, 2, 3]}
        for it_ in range(n):
            forced = it_ < (4 if self.tier == 'quick' else 40)
            dA = G.gen_case(self.rng, dict(prof, horizon=['freeboth']) if forced else prof)
            if forced and dA['t0'][1] == 0:
                dA['t0'] = ('free', Fr(3, 2))
            if forced and it_ % 4 in (0, 3):
                dA['t0'] = ('free', Fr(-self.rng.randint(1, 7), 2))     # a start time before zero is a guess like any other
                self.count("negative-t0-guess")
            # with both ends free, sometimes the user gives a guess for ONE of them: it must win for that one, and the other
            # still starts at its FreeTime guess
            user_guess = {}
            if dA['T'][0] == 'free' and dA['t0'][0] == 'free' and (forced or self.rng.random() < 0.6):
                which = ['T', 't0'][it_ % 2] if forced else self.rng.choice(['T', 't0'])
                user_guess[which] = Fr(self.rng.randint(1, 9), 2)
                dA['initial_list'] = [(which, 0, ('num', [float(user_guess[which])]))]
                self.count("one-sided-horizon-guess:" + which)
            try:
                bA = B.build(dA)
                xv, pv, fv = En.rand_point(self.rng, bA)
                with B.quiet():
                    iT = var_index_of(bA, bA.ocp.value(bA.ocp.T)) if dA['T'][0] == 'free' else None
                    it0 = var_index_of(bA, bA.ocp.value(bA.ocp.t0)) if dA['t0'][0] == 'free' else None
                if iT is not None:
                    xv[iT] = abs(xv[iT])
                phys = B.eval_phys(bA, xv, pv, fv)
                cT, ct0 = phys['T'][0][0], phys['t0'][0][0]
                # start values
                with B.quiet():
                    x0 = ca.DM(bA.opti.debug.value(bA.opti.x, bA.opti.initial())).full().flatten().tolist()
                phys0 = B.eval_phys(bA, [Fr(v) for v in x0], pv, fv)
                for key, val, idx in (('T', phys0['T'][0][0], iT), ('t0', phys0['t0'][0][0], it0)):
                    want = user_guess.get(key, dA[key][1])
                    if dA[key][0] == 'free' and idx is None:
                        continue      # the horizon variable occurs in neither f nor g: CasADi's Opti does not list it in opti.x
                    if dA[key][0] == 'free' and val != want:
                        self.slice_ok["start-value-is-guess"] = False
                        self.violation("starting value of %s is %s, the guess in effect is %s (%s)" % (key, float(val), float(want),
                                       "set_initial" if key in user_guess else "FreeTime guess; a user guess was given for the other end only" if user_guess else "FreeTime guess"),
                                       {"desc": dA}, {"kind": "free-start", "which": key})
                        return
                # the variables of a localized grid start ON the guessed horizon: interval lengths sum to the starting T, the last local
                # start time is the starting t0 + T
                T0s, t00s = phys0['T'][0][0], phys0['t0'][0][0]
                gkind = dA['method']['grid']
                if 'Tl' in phys0 and gkind['kind'] != 'free' and not gkind.get('localize_t0'):
                    tot = sum((v for v in phys0['Tl'][0]), Fr(0))
                    self.count("localized-grid-start-checked")
                    if abs(float(tot - T0s)) > 1e-9 * max(1.0, abs(float(T0s))):
                        self.slice_ok["start-value-is-guess"] = False
                        self.violation("the local interval lengths start at %s (sum %s) while T starts at %s and t0 at %s" % ([float(v) for v in phys0['Tl'][0]], float(tot), float(T0s), float(t00s)),
                                       {"desc": dA}, {"kind": "free-start", "which": "local-grid"})
                        return
                if 't0l' in phys0:
                    last = phys0['t0l'][0][-1]
                    self.count("localized-grid-start-checked")
                    if abs(float(last - (t00s + T0s))) > 1e-9 * max(1.0, abs(float(t00s + T0s))):
                        self.slice_ok["start-value-is-guess"] = False
                        self.violation("the local start times start at %s while t0 + T starts at %s" % ([float(v) for v in phys0['t0l'][0]], float(t00s + T0s)),
                                       {"desc": dA}, {"kind": "free-start", "which": "local-grid"})
                        return
                dB = copy.deepcopy(dA)
                dB.pop('initial_list', None)
                if dA['T'][0] == 'free':
                    dB['T'] = ('num', cT)
                if dA['t0'][0] == 'free':
                    dB['t0'] = ('num', ct0)
                bB = B.build(dB)
                drop = sorted(i for i in (iT, it0) if i is not None)
                xB = [v for i, v in enumerate(xv) if i not in drop]
                if len(xB) != bB.nx_opti:
                    # opti.x lists only variables that occur in f or g; whether a declared variable does can differ between the two
                    # problems (a row that is constant for a fixed horizon). The DECLARED variables must differ by the horizon ones only.
                    from .props2 import declared_nx
                    nfree = (1 if dA['T'][0] == 'free' else 0) + (1 if dA['t0'][0] == 'free' else 0)
                    if declared_nx(bA.opti) == declared_nx(bB.opti) + nfree:
                        self.count("twin-skipped(active-sets-differ)")
                        continue
                    self.slice_ok["restriction-to-fixed-time"] = False
                    self.violation("free-time problem declares %d decision variables, fixed-time one %d (+%d horizon variables expected)" % (declared_nx(bA.opti), declared_nx(bB.opti), nfree),
                                   {"desc": dA}, {"kind": "free-twin", "what": "nx"})
                    return
                fA, gA, lA, uA = B.eval_nlp(bA, xv, pv)
                fB, gB, lB, uB = B.eval_nlp(bB, xB, pv)
            except ZeroDivisionError:
                continue
            except Exception as e:
                self.slice_ok["restriction-to-fixed-time"] = False
                self.violation("free/fixed-time twin raised %r" % (e,), {"desc": dA}, {"kind": "exception"})
                return
            self.record_case(dA, True, {"twin": "free vs fixed", "T": str(cT), "t0": str(ct0), "method": dA['method']})
            self.count("free-fixed-twin")
            if not close(fA[0], fB[0], max(fA[1], fB[1], 1.0)):
                self.slice_ok["restriction-to-fixed-time"] = False
                self.violation("objective of the free-time problem at T=%s is %s, of the fixed-time problem %s" % (cT, float(fA[0]), float(fB[0])),
                               {"desc": dA, "x": xv, "p": pv}, {"kind": "free-twin", "what": "objective"})
                return
            aA = B.atoms_of_impl(gA, lA, uA)
            aB = B.atoms_of_impl(gB, lB, uB)
            umB, leftA, _ = Mo.match_atoms([("B", [v]) for v, _ in aB], [[(v, m)] for v, m in aA])
            # expected leftovers: T >= 0 and min/max rows on interval lengths (constants of the fixed-time problem)
            self.driver.send(Mo.desc_lines(dA)); self.driver.send(Mo.point_lines(dA, phys))
            _, rows = Mo.parse_nlp(self.driver.run('nlp'))
            expect = [("x", [a]) for t, at in rows if t == 'tpos' or t.startswith('grid minmax') for a in at]
            self.driver.send(Mo.desc_lines(dB)); self.driver.send(Mo.point_lines(dB, phys))
            _, rowsB = Mo.parse_nlp(self.driver.run('nlp'))
            expB = [a for t, at in rowsB if t.startswith('grid minmax') for a in at]
            for a in expB:      # rows that also exist in the fixed problem (variable interval lengths)
                for j, (t, v) in enumerate(expect):
                    if v[0] == a:
                        del expect[j]
                        break
            um2, left2, _ = Mo.match_atoms(expect, [[aA[j]] for j in leftA])
            if umB or um2 or left2:
                self.slice_ok["restriction-to-fixed-time"] = False
                self.violation("restricted to T=%s, t0=%s the free-time NLP is not the fixed-time NLP plus T>=0: %d fixed rows missing, %d expected extra rows missing, %d unexplained rows" %
                               (cT, ct0, len(umB), len(um2), len(left2)), {"desc": dA, "x": xv, "p": pv}, {"kind": "free-twin", "what": "rows", "method": dA['method']['kind']})
                return


def var_map(b):
    """for every opti.x entry: (phys name, column, row, factor) of the physical quantity it carries"""
    import casadi as ca
    mp = {}
    x = b.opti.x
    for name, e in b.phys_exprs.items():
        if name not in ('X', 'U', 'V', 'Vc', 'Vcp', 'T', 't0', 't0l', 'Tl', 'Xi', 'Xc', 'Zc'):
            continue
        J = ca.Function('J', [x, b.opti.p] + ([ca.vertcat(*[ca.vec(s) for s in b.free])] if b.free else []), [ca.jacobian(ca.vec(e), x)], {'allow_free': True})
        if J.has_free():
            continue
        args = [ca.DM.zeros(x.numel()), ca.DM.ones(b.opti.p.numel())] + ([ca.DM.zeros(sum(s.numel() for s in b.free))] if b.free else [])
        Jv = ca.DM(J(*args)).full()
        r, c = b.phys_shapes[name]
        for row in range(Jv.shape[0]):
            nzs = [j for j in range(Jv.shape[1]) if Jv[row, j] != 0]
            if len(nzs) == 1 and nzs[0] not in mp:
                mp[nzs[0]] = (name, row // r, row % r, Jv[row, nzs[0]])
    return mp


@register
class C14(NlpCheck):
    pid = "C14"
    uses_generated = True
    slices = ["scaled-nlp", "scaled-vs-unscaled", "layout-is-diag-scale", "polynomial-controls", "scales-of-template-instances"]
    tags = None
    whole = True
    want_f = True
    profiles = [
        ("scaled-nlp",
         {'methods': ALLM + [('ss', 'euler')], 'grids': FIXED_GRIDS + ['free', 'uniform_locT'], 'horizon': ['num', 'freeT', 'param'],
          'obj_kinds': ['at_tf', 'integral', 'sum'], 'ncons': (1, 3), 'scale_prob': 0.8, 'scale_vars': 1.0, 'offset_prob': 0.2,
          'inf_bounds_prob': 0.5, 'nrows': [1, 1, 2, 2, 3],
          'features': {'dae': 0.3, 'v': 0.5, 'vc': 0.5, 'vcp': 0.4}, 'Ns': [1, 2, 3, 4], 'Ms': [1, 2, 3], 'degrees': [1, 2, 3]}, 45, 500),
    ]

    def explanation(self):
        return ("theorems: solver variable = physical/scale (round trip); atoms of a scaled row = atoms of the unscaled row divided by the "
                "scale; feasibility of declared rows and of dynamic rows is the same for every positive scale; objective, states and "
                "declared rows of the model are functions of physical quantities only. correspondence: scaled NLP vs model; real rockit "
                "twice: scaled vs unscaled problem at the same physical point (objective equal, every row equal up to its positive "
                "scale, same sign); Jacobian of the sampled physical quantities w.r.t. solver variables is the declared scale")

    def correspondence(self):
        NlpCheck.correspondence(self)
        self.twin_slice()
        self.polynomial_controls_slice()
        self.template_scales_slice()

    def template_scales_slice(self):
        """scales are per stage: two instances of one template, the second re-declaring a derivative with another scale (multi-phase use),
        give the NLP of the same two stages declared directly, each with its own scales"""
        import casadi as ca
        from .props2 import nlp_compare_ocps
        rockit = B.import_rockit()
        name = "scales-of-template-instances"
        n = 3 if self.tier == 'quick' else 24
        rng = self.rng
        for it in range(n):
            kind = ['dc', 'ms', 'dc'][it % 3]
            sx, sd1, sd2 = rng.choice([2.0, 3.0, 0.5]), rng.choice([4.0, 2.0]), rng.choice([10.0, 0.25, 8.0])
            N, M = rng.randint(2, 3), rng.randint(1, 2)

            def mk():
                return rockit.DirectCollocation(N=N, M=M, degree=2) if kind == 'dc' else rockit.MultipleShooting(N=N, M=M, intg='rk')

            def declare(st, second):
                x = st.state(scale=sx); u = st.control()
                st.set_der(x, (-2 * x + u) if second else (-x + u), scale=sd2 if second else sd1)
                st.add_objective(st.integral(x ** 2 + u ** 2))
                st.subject_to(-2 <= (u <= 2))
                st.method(mk())
                return x

            def build(templated):
                with B.quiet():
                    ocp = rockit.Ocp()
                    if templated:
                        tmpl = rockit.Stage(t0=0, T=1)
                        x = declare(tmpl, False)
                        s1 = ocp.stage(tmpl, t0=0)
                        s2 = ocp.stage(tmpl, t0=1)
                        u2 = s2.controls[0]
                        s2.set_der(x, -2 * x + u2, scale=sd2)
                        x1 = x2 = x
                    else:
                        s1 = ocp.stage(t0=0, T=1); x1 = declare(s1, False)
                        s2 = ocp.stage(t0=1, T=1); x2 = declare(s2, True)
                    ocp.subject_to(s1.at_t0(x1) == 1)
                    ocp.subject_to(s1.at_tf(x1) == s2.at_t0(x2))
                    ocp.solver('ipopt', {'ipopt.print_level': 0, 'print_time': False, 'ipopt.max_iter': 0, 'ipopt.sb': 'yes'})
                return ocp
            try:
                msg = nlp_compare_ocps(build(True), build(False), rng, "two instances of a template (state scale %s, derivative scales %s and %s) vs the stages declared directly (%s)" % (sx, sd1, sd2, kind))
            except Exception as ex:
                msg = "template instances with their own derivative scales raised %s: %s" % (type(ex).__name__, str(ex)[:250].replace("\n", " "))
            self.evaluations += 1
            self.signatures.add("tmpl-scale-%d" % it)
            self.count("template-instance-scales:" + kind)
            if msg:
                self.slice_ok[name] = False
                self.violation(msg, {"kind": kind, "scale_x": sx, "scale_der": [sd1, sd2], "N": N, "M": M}, {"kind": "template-scales"})
                return

    def polynomial_controls_slice(self):
        """ocp.control(order=k>=1, scale=s): rockit builds it as a state driven by a lower-order helper control. The solver variables of the
        declared control (its node values) are the physical ones divided by s: the Jacobian of the sampled control w.r.t. the solver
        variables has entries s only, the starting point is guess/s, and objective and rows at the same physical point do not depend on s"""
        import casadi as ca
        import numpy as np
        rockit = B.import_rockit()
        name = "polynomial-controls"
        n = 6 if self.tier == 'quick' else 60
        rng = self.rng
        for it in range(n):
            order = rng.choice([1, 1, 2])
            nu = rng.choice([1, 2])
            sc = [rng.choice([0.5, 2.0, 4.0, 5.0]) for _ in range(nu)]
            meth = ['ms', 'dc', 'ss'][it % 3]
            N, M = rng.randint(2, 3), rng.randint(1, 2)
            guess = rng.randint(1, 8) / 2.0
            info = {"order": order, "nu": nu, "scale": sc, "method": meth, "N": N, "M": M, "guess": guess}

            def make(scale):
                with B.quiet():
                    ocp = rockit.Ocp(t0=0.5, T=2.0)
                    x = ocp.state()
                    u = ocp.control(nu, order=order, scale=(ca.DM(scale) if nu > 1 else scale[0]) if scale else 1)
                    ocp.set_der(x, -x + ca.sum1(u))
                    ocp.add_objective(ocp.integral(x ** 2 + ca.sumsqr(u)))
                    ocp.subject_to(ocp.at_t0(x) == 1)
                    ocp.subject_to(-10 <= (u <= 10))
                    ocp.set_initial(u, guess)
                    ocp.method({'ms': rockit.MultipleShooting(N=N, M=M, intg='rk'), 'ss': rockit.SingleShooting(N=N, M=M, intg='rk'),
                                'dc': rockit.DirectCollocation(N=N, M=M, degree=2)}[meth])
                    ocp.solver('ipopt', {'ipopt.print_level': 0, 'print_time': False, 'ipopt.max_iter': 0, 'ipopt.sb': 'yes'})
                    ocp._transcribed
                    opti = ocp._method.opti
                    us = ocp.sample(u, grid='control')[1]
                    J = ca.Function('J', [opti.x, opti.p], [ca.jacobian(ca.vec(us), opti.x), ca.vec(us), opti.f])
                    x0 = np.array(opti.debug.value(opti.x, opti.initial())).flatten()
                    pv = np.array(opti.debug.value(opti.p, opti.initial())).flatten() if opti.p.numel() else []
                    Jv, uv, fv = J(x0, pv)
                return np.array(Jv), np.array(uv).flatten(), float(fv), x0
            try:
                Js, us_, fs, x0s = make(sc)
                Ju, uu, fu, x0u = make(None)
            except Exception as ex:
                self.slice_ok[name] = False
                self.violation("control(order=%d, scale=%s) raised %s: %s" % (order, sc, type(ex).__name__, str(ex)[:200]), {"case": info}, {"kind": "exception", "what": "polynomial-control"})
                return
            self.evaluations += 1
            self.signatures.add(repr(info))
            self.count("polynomial-control-order:%d" % order)
            err = None
            # node values of the control: component r of node k is entry k*nu + r of vec(us)
            for row in range(Js.shape[0]):
                if meth == 'ss' and row // nu > 0:
                    continue     # single shooting: a polynomial control is a state; only its first node is a decision variable
                nz = [v for v in Js[row] if abs(v) > 1e-14]
                want = sc[row % nu]
                if len(nz) != 1 or abs(nz[0] - want) > 1e-12:
                    err = "d(sampled control component %d at node %d)/d(solver variables) has entries %s, the declared scale is %s" % (row % nu, row // nu, nz, want)
                    break
            if err is None and any(abs(v - guess) > 1e-12 for v in (us_[:nu] if meth == 'ss' else us_)):
                err = "the control starts at %s, the guess is %s" % (list(us_), guess)
            if err is None and abs(fs - fu) > 1e-9 * max(1.0, abs(fu)):
                err = "objective at the starting point is %r with scale=%s and %r without" % (fs, sc, fu)
            if err:
                self.slice_ok[name] = False
                self.violation("polynomial control: " + err, {"case": info}, {"kind": "polynomial-control", "order": order})
                return

    def twin_slice(self):
        import casadi as ca
        n = 12 if self.tier == 'quick' else 150
        prof = {'methods': ALLM, 'grids': FIXED_GRIDS + ['uniform_locT'], 'horizon': ['num', 'freeT'], 'obj_kinds': ['at_tf', 'integral'],
                'ncons': (1, 3), 'scale_prob': 0.8, 'scale_vars': 1.0, 'features': {'dae': 0.3, 'v': 0.5, 'vc': 0.5},
                'inf_bounds_prob': 0.5, 'nrows': [1, 1, 2, 2, 3],
                'Ns': [1, 2, 3], 'Ms': [1, 2], 'degrees': [1, 2, 3]}
        for it_ in range(n):
            if it_ < 3:
                # dedicated: DAE under direct collocation with several integration steps per interval (algebraic variables at the
                # roots of the steps after the first are separate decision variables)
                dA = G.gen_case(self.rng, dict(prof, methods=[('dc', 'rk')], Ms=[2, 3], features={'dae': 1.0, 'v': 0.3, 'vc': 0.3}, scale_prob=1.0))
            else:
                dA = G.gen_case(self.rng, prof)
            dB = copy.deepcopy(dA)
            for key in ('scale_x', 'scale_u', 'scale_der', 'scale_z', 'scale_v'):
                dB[key] = None
            for c in dB['cons']:
                c.pop('scale', None)
            try:
                bA = B.build(dA)
                bB = B.build(dB)
                mapB = var_map(bB)
                mapA = var_map(bA)
                if len(mapB) != bB.nx_opti or bA.nx_opti != bB.nx_opti:
                    self.notes.append("twin skipped: layout map incomplete (%d of %d)" % (len(mapB), bB.nx_opti))
                    continue
                xA, pv, fv = En.rand_point(self.rng, bA)
                physA = B.eval_phys(bA, xA, pv, fv)
                xB = [physA[mapB[i][0]][mapB[i][1]][mapB[i][2]] / Fr(mapB[i][3]) for i in range(bB.nx_opti)]
                fA, gA, lA, uA = B.eval_nlp(bA, xA, pv)
                fB, gB, lB, uB = B.eval_nlp(bB, xB, pv)
            except (ZeroDivisionError, OverflowError):
                continue
            except Exception as e:
                self.slice_ok["scaled-vs-unscaled"] = False
                self.violation("scaled/unscaled twin raised %r" % (e,), {"desc": dA}, {"kind": "exception"})
                return
            self.record_case(dA, True, {"twin": "scaled vs unscaled", "scale_x": dA['scale_x'], "method": dA['method']})
            self.count("scaled-unscaled-twin")
            # layout: d phys / d solver variable = declared scale for states and controls
            sx = dA['scale_x']
            for i, (name, col, row, fac) in mapA.items():
                if name == 'X' and dA['method']['kind'] == 'ss' and col != 0:
                    continue      # single shooting: only X[0] is a decision variable, later nodes are functions of it
                if name == 'X' and abs(fac - sx[row]) > 1e-12:
                    self.slice_ok["layout-is-diag-scale"] = False
                    self.violation("d(sampled state %d)/d(solver variable) = %r, declared scale %r" % (row, fac, sx[row]), {"desc": dA}, {"kind": "layout"})
                    return
                if name == 'Zc' and dA.get('scale_z') and abs(fac - dA['scale_z'][row]) > 1e-12:
                    self.slice_ok["layout-is-diag-scale"] = False
                    self.violation("d(algebraic variable %d at collocation root %d)/d(solver variable) = %r, declared scale %r" % (row, col, fac, dA['scale_z'][row]), {"desc": dA},
                                   {"kind": "layout", "what": "algebraic"})
                    return
                if name == 'U' and dA.get('scale_u') and abs(fac - dA['scale_u'][row]) > 1e-12:
                    self.slice_ok["layout-is-diag-scale"] = False
                    self.violation("d(sampled control %d)/d(solver variable) = %r, declared scale %r" % (row, fac, dA['scale_u'][row]), {"desc": dA}, {"kind": "layout"})
                    return
            if not close(fA[0], fB[0], max(fA[1], fB[1], 1.0)):
                self.slice_ok["scaled-vs-unscaled"] = False
                self.violation("objective changes with scaling: %s vs %s" % (float(fA[0]), float(fB[0])), {"desc": dA, "x": xA, "p": pv}, {"kind": "scaled-twin", "what": "objective"})
                return
            aA = B.atoms_of_impl(gA, lA, uA)
            aB = B.atoms_of_impl(gB, lB, uB)
            # every scaled atom must be an unscaled atom divided by one of the declared positive scales
            scales = set([Fr(1)])
            for key in ('scale_x', 'scale_der', 'scale_z'):
                for v in (dA.get(key) or []):
                    scales.add(Fr(float(v)))
            for c in dA['cons']:
                for v in (c.get('scale') or []):
                    scales.add(Fr(float(v)))
            usedB = [False] * len(aB)
            bad = None
            for va, ma in aA:
                ok = False
                for j, (vb, mb) in enumerate(aB):
                    if usedB[j]:
                        continue
                    for s_ in scales:
                        if close(va * s_, vb, max(ma * float(s_), mb)):
                            usedB[j] = True
                            ok = True
                            break
                    if ok:
                        break
                if not ok:
                    bad = va
                    break
            if bad is not None or not all(usedB):
                self.slice_ok["scaled-vs-unscaled"] = False
                self.violation("a row of the scaled problem (atom %s) is not a row of the unscaled problem divided by a declared positive scale (or rows are left over: %d)" %
                               (None if bad is None else float(bad), usedB.count(False)), {"desc": dA, "x": xA, "p": pv}, {"kind": "scaled-twin", "what": "rows", "method": dA['method']['kind']})
                return


def parse_samples(lines):
    ts, vs = [], []
    for l in lines:
        t = l.split()
        if t[0] == 's':
            ts.append(Mo.frac(t[1]))
            vs.append(Mo.frac(t[2]))
    return ts, vs


def sample_atoms(desc, grid, for_refine=False, for_sampler=False):
    s = G.symbols(desc)
    if for_sampler:
        return s['x'] + s['u'] + s['z'] + [('t',)]
    at = s['x'] + s['u'] + [('t',)] + s['p'] + s['pc'] + s['pcp'] + s['v'] + s['vc'] + s['vcp'] + [('T',), ('t0',)]
    if desc['method']['kind'] == 'dc':
        at = at + s['z']
    if grid != 'roots' and not for_refine and desc['nq']:
        at = at + [('xq', 0)]
    if not for_refine:
        at = at + [('DT',), ('DTc',)]
    return at


class SampleCheck(NlpCheck):
    """shared machinery: compare ocp.sample(...) (walked exactly) with the model's sample lists"""

    def sample_compare(self, desc, b, exprs_by_grid, npoints=2):
        """exprs_by_grid: list of (gridname, kwargs, model_cmd, expr) ; returns error message or None"""
        import casadi as ca
        outs = []
        with B.quiet():
            for gname, kw, cmd, e in exprs_by_grid:
                ce = Mo.E.to_casadi(e, b.sym_base)
                ts, vs = b.ocp.sample(ce, grid=gname, **kw)
                outs += [ca.vec(ca.MX(ts)), ca.vec(ca.MX(vs))]
        try:
            F = ca.Function('samp', [b.opti.x, b.opti.p], outs)
        except RuntimeError as ex:
            if 'are free' in str(ex):
                return None        # inactive decision variable (not in f or g): not part of opti.x (CasADi)
            raise
        W = Walker(F)
        dl = Mo.desc_lines(desc)
        for _ in range(npoints):
            xv, pv, fv = En.rand_point(self.rng, b)
            try:
                res = W([xv, pv])
                phys = B.eval_phys(b, xv, pv, fv)
            except (ZeroDivisionError, OverflowError):
                continue
            self.driver.send(dl)
            self.driver.send(Mo.point_lines(desc, phys))
            for idx, (gname, kw, cmd, e) in enumerate(exprs_by_grid):
                mts, mvs = parse_samples(self.driver.run(cmd + " " + Mo.E.to_tokens(e)))
                its, ivs = res[2 * idx], res[2 * idx + 1]
                label = "sample(e, grid=%r%s)" % (gname, "".join(", %s=%r" % kv for kv in kw.items()))
                if len(its) != len(mts):
                    return "%s returns %d time points, the grid has %d" % (label, len(its), len(mts))
                if len(ivs) != len(mvs):
                    return "%s returns %d values for %d time points" % (label, len(ivs), len(mvs))
                for i, (a, (v, mg)) in enumerate(zip(mts, its)):
                    if not close(a, v, max(mg, 1.0)):
                        return "%s: time[%d] = %s, expected %s" % (label, i, float(v), float(a))
                for i, (a, (v, mg)) in enumerate(zip(mvs, ivs)):
                    if not close(a, v, max(mg, 1.0)):
                        return "%s: value[%d] = %s but e at the sampled ingredients of that point is %s (e = %s)" % (label, i, float(v), float(a), Mo.E.to_tokens(e))
                self.count("sampled:" + gname + ("+refine" if kw else ""))
        return None


@register
class C07(SampleCheck):
    pid = "C07"
    slices = ["symbolic-sampling", "value-of-non-signals", "numeric-readback-and-shapes", "DM2numpy-exhaustive"]

    def explanation(self):
        return ("theorems: sample on the control/integrator/roots grids is the list of e evaluated in the environment of each grid "
                "point, times are the points' times; sampling commutes with +,-,*,/ and primitive symbols sample to the environment's "
                "components; value() evaluates in the global environment; DM2numpy index arithmetic. correspondence: ocp.sample "
                "(walked exactly) vs model for generated expressions on control, control-, -control, integrator, integrator_roots; "
                "ocp.value vs model; sol.sample/sol.value on a solve_limited solution vs the symbolic map at the solver's vector, "
                "with matrix/row/column shapes; DM2numpy vs the index formula for all shapes up to 4x4, n<=6")

    def correspondence(self):
        self.symbolic_slice()
        self.value_slice()
        self.readback_slice()
        self.dm2numpy_slice()
        self.toplevel_slice()

    def toplevel_slice(self):
        """an Ocp without dynamics (default DirectMethod, as the parent of a stage tree is): value(e) of expressions of its own
        variables and parameters is e at the solver's values of the variables and the user's values of the parameters"""
        import casadi as ca
        import numpy as np
        rockit = B.import_rockit()
        n = 4 if self.tier == 'quick' else 40
        for it in range(n):
            rng = self.rng
            nv, npar = rng.randint(1, 2), rng.randint(1, 2)
            qv = [rng.randint(1, 9) / 2.0 for _ in range(npar)]
            tv = [rng.randint(1, 6) / 2.0 for _ in range(nv)]      # positive targets, weight 2 on the parameter: no symmetry between v and q
            with B.quiet():
                ocp = rockit.Ocp()
                vs = [ocp.variable() for _ in range(nv)]
                qs = [ocp.parameter() for _ in range(npar)]
                for q, val in zip(qs, qv):
                    ocp.set_value(q, val)
                # unique optimum: v_i = target_i + 2 q_0
                ocp.add_objective(sum((v - t_ - 2 * qs[0]) ** 2 for v, t_ in zip(vs, tv)))
                ocp.solver('ipopt', {'ipopt.print_level': 0, 'print_time': False, 'ipopt.sb': 'yes', 'ipopt.tol': 1e-12})
                sol = ocp.solve()
                e = vs[0] * qs[-1] + 2 * qs[0] - vs[-1]
                got_q = [float(sol.value(q)) for q in qs]
                got_v = [float(sol.value(v)) for v in vs]
                got_e = float(sol.value(e))
            self.evaluations += 1
            self.count("toplevel-values")
            self.signatures.add("toplevel-%d-%d-%d" % (nv, npar, it))
            want_v = [t_ + 2 * qv[0] for t_ in tv]
            want_e = want_v[0] * qv[-1] + 2 * qv[0] - want_v[-1]
            bad = None
            if any(abs(a - b_) > 1e-9 for a, b_ in zip(got_q, qv)):
                bad = "sol.value(q) of the parameters set to %s returns %s" % (qv, got_q)
            elif any(abs(a - b_) > 1e-6 for a, b_ in zip(got_v, want_v)):
                bad = "sol.value(v) returns %s, the minimiser is %s" % (got_v, want_v)
            elif abs(got_e - want_e) > 1e-6 * max(1.0, abs(want_e)):
                bad = "sol.value(v0*q+2*q0-v) = %r, at the values of its ingredients it is %r" % (got_e, want_e)
            if bad:
                self.slice_ok["value-of-non-signals"] = False
                self.violation("top-level Ocp with its own variables and parameters: " + bad, {"targets": tv, "param_values": qv}, {"kind": "toplevel-value"})
                return

    def gen(self, extra=None):
        prof = {'methods': ALLM + [('ss', 'euler')], 'grids': FIXED_GRIDS + ['free', 'uniform_locT'], 'horizon': HORIZ,
                'obj_kinds': ['at_tf', 'integral'], 'ncons': (0, 1), 'features': {'qstate': 0.5, 'dae': 0.4, 'pc': 0.6, 'pcp': 0.6, 'vc': 0.5, 'vcp': 0.5},
                'Ns': [1, 2, 3, 4], 'Ms': [1, 2, 3], 'degrees': [1, 2, 3]}
        if extra:
            prof.update(extra)
        return G.gen_case(self.rng, prof)

    def symbolic_slice(self):
        n = 30 if self.tier == 'quick' else 400
        for it_ in range(n):
            # stratified head: an index-1 DAE under DirectCollocation with M > 1, the algebraic variable inside the sampled
            # expression on every grid (interior integrator points have their own algebraic value)
            dae_case = it_ < (4 if self.tier == 'quick' else 40)
            desc = self.gen({'methods': [('dc', 'rk')], 'Ms': [2, 3], 'alg_layouts': [[1], [2], [1, 2], [2, 1]], 'features': {'qstate': 0.3, 'dae': 1.0, 'pc': 0.4, 'pcp': 0.3, 'vc': 0.3, 'vcp': 0.3}}) if dae_case else self.gen()
            try:
                b = B.build(desc)
            except Exception as e:
                self.slice_ok["symbolic-sampling"] = False
                self.violation("rockit raised on a generated case: %r" % (e,), {"desc": desc}, {"kind": "exception"})
                return
            jobs = []
            for gname, kw, cmd in (('control', {}, 'sample control 1 1'), ('control-', {}, 'sample control 1 0'), ('-control', {}, 'sample control 1 0'),
                                   ('integrator', {}, 'sample integrator')) + ((('integrator_roots', {}, 'sample roots'),) if desc['method']['kind'] == 'dc' else ()):
                at = sample_atoms(desc, 'roots' if gname == 'integrator_roots' else gname)
                zs = G.symbols(desc)['z']
                for _k in range(2):
                    jobs.append((gname, kw, cmd, G.poly(self.rng, at, (1, 3), 2, must=zs if (dae_case and zs and _k == 0) else None)))
            if not desc.get('next'):
                r_ = self.rng.randint(1, 4)
                jobs.append(('integrator', {'refine': r_}, 'sample fine %d' % r_, G.poly(self.rng, sample_atoms(desc, 'integrator', for_refine=True), (1, 3), 2)))
            try:
                msg = self.sample_compare(desc, b, jobs)
            except Exception as e:
                msg = "sampling raised %s: %s" % (type(e).__name__, str(e)[:300])
            self.record_case(desc, True, {"method": desc['method'], "sampled": [(j[0], Mo.E.to_tokens(j[3])) for j in jobs[:3]]})
            if msg:
                self.slice_ok["symbolic-sampling"] = False
                feats = {"kind": "sample", "minus_grid": ("'control-'" in msg or "'-control'" in msg) and "time points" in msg}
                self.violation(msg, {"desc": desc}, feats)
                if not feats["minus_grid"]:
                    return

    def value_slice(self):
        n = 10 if self.tier == 'quick' else 100
        import casadi as ca
        for _ in range(n):
            desc = self.gen({'features': {'p': 0.9, 'v': 0.9}, 'obj_kinds': ['at_tf', 'at_t0', 'integral', 'sum']})
            b = B.build(desc)
            s = G.symbols(desc)
            at = s['p'] + s['v'] + [('T',), ('t0',)] + [('ph', i) for i in range(len(desc['phs']))]
            e = G.poly(self.rng, at, (1, 3), 2)
            with B.quiet():
                ve = b.ocp.value(Mo.E.to_casadi(e, b.sym_ph))
            try:
                W = Walker(ca.Function('v', [b.opti.x, b.opti.p], [ve]))
            except RuntimeError as ex:
                if 'are free' in str(ex):
                    continue       # a declared variable that is in neither f nor g is not part of opti.x (CasADi)
                raise
            xv, pv, fv = En.rand_point(self.rng, b)
            try:
                got = W([xv, pv])[0][0]
                phys = B.eval_phys(b, xv, pv, fv)
            except (ZeroDivisionError, OverflowError):
                continue
            d2 = copy.deepcopy(desc)
            d2['obj'] = e
            self.driver.send(Mo.desc_lines(d2)); self.driver.send(Mo.point_lines(d2, phys))
            mf, _ = Mo.parse_nlp(self.driver.run('obj'))
            self.evaluations += 1
            self.count("value()")
            if not close(mf, got[0], max(got[1], 1.0)):
                self.slice_ok["value-of-non-signals"] = False
                self.violation("ocp.value(e) = %s, e at the values of its ingredients = %s (e = %s)" % (float(got[0]), float(mf), Mo.E.to_tokens(e)),
                               {"desc": desc, "expr": e}, {"kind": "value"})
                return

    def readback_slice(self):
        import casadi as ca
        import numpy as np
        n = 6 if self.tier == 'quick' else 60
        for _ in range(n):
            desc = self.gen({'methods': [('ms', 'rk'), ('dc', 'rk'), ('ss', 'rk')], 'horizon': ['num', 'freeT'], 'features': {'dae': 0.0, 'qstate': 0.0},
                             'grids': ['uniform', 'geometric'], 'nxs': [2, 3], 'nus': [1, 2], 'Ns': [2, 3], 'Ms': [1, 2]})
            b = B.build(desc)
            s = G.symbols(desc)
            at = s['x'] + s['u'] + [('t',)]
            r_, c_ = self.rng.choice([(1, 1), (2, 1), (1, 3), (2, 2), (3, 2)])
            entries = [[G.poly(self.rng, at, (1, 2), 2) for _b in range(c_)] for _a in range(r_)]
            with B.quiet():
                for st in b.states:
                    b.ocp.set_initial(st, ca.DM([self.rng.randint(1, 9) / 4.0 for _ in range(st.numel())]))
                for u in b.controls:
                    b.ocp.set_initial(u, ca.DM([self.rng.randint(1, 9) / 4.0 for _ in range(u.numel())]))
                E_ = ca.vertcat(*[ca.horzcat(*[Mo.E.to_casadi(e, b.sym_base) for e in row]) for row in entries])
                try:
                    sol = b.ocp.solve_limited()
                except Exception:
                    sol = b.ocp.non_converged_solution
                gist = np.array(sol.gist).flatten()
            for gname in ['control', 'integrator'] + (['integrator_roots'] if desc['method']['kind'] == 'dc' else []):
                try:
                    with B.quiet():
                        tn, vn = sol.sample(E_, grid=gname)
                        ts, vs = b.ocp.sample(E_, grid=gname)
                        F = ca.Function('f', [b.ocp.gist], [ts, vs])
                        tv, vv = F(gist)
                except RuntimeError as ex:
                    if 'symbol_active' in str(ex) or 'are free' in str(ex):
                        self.count("skipped-inactive-variable")
                        break     # a declared variable that occurs in neither f nor g is not part of opti.x (CasADi): nothing to read back
                    raise
                tv = np.array(tv).flatten(); vv = np.array(vv)
                npts = tv.shape[0]
                self.evaluations += 1
                self.count("readback:" + gname)
                want_shape = (npts,) + tuple(d for d in (r_, c_) if d != 1)
                if tuple(vn.shape) != want_shape:
                    self.slice_ok["numeric-readback-and-shapes"] = False
                    self.violation("sol.sample of a %dx%d expression on %s has shape %s, expected %s" % (r_, c_, gname, vn.shape, want_shape),
                                   {"desc": desc}, {"kind": "shape"})
                    return
                full = np.array(vn).reshape(npts, r_, c_)
                for i in range(npts):
                    for a in range(r_):
                        for bb in range(c_):
                            w = vv[a, i * c_ + bb]
                            if not (abs(full[i, a, bb] - w) <= 1e-9 * max(1.0, abs(w))):
                                self.slice_ok["numeric-readback-and-shapes"] = False
                                self.violation("sol.sample(...)[%d,%d,%d] = %r but element (%d,%d) of the expression at time %d is %r" % (i, a, bb, full[i, a, bb], a, bb, i, w),
                                               {"desc": desc}, {"kind": "readback"})
                                return
                if not np.allclose(np.array(tn).flatten(), tv, rtol=1e-12, atol=1e-12):
                    self.slice_ok["numeric-readback-and-shapes"] = False
                    self.violation("sol.sample time vector differs from the symbolic one", {"desc": desc}, {"kind": "readback-time"})
                    return

    def dm2numpy_slice(self):
        import casadi as ca
        import numpy as np
        import rockit.casadi_helpers as H
        count = 0
        for r_ in range(1, 5):
            for c_ in range(1, 5):
                for n in range(1, 7):
                    blocks = [ca.DM([[1000 * i + 10 * a + bb for bb in range(c_)] for a in range(r_)]) for i in range(n)]
                    dm = ca.hcat(blocks)
                    out = H.DM2numpy(dm, (r_, c_), n)
                    want_shape = (n,) + tuple(d for d in (r_, c_) if d != 1)
                    flat = np.array(out).flatten()
                    ok = tuple(out.shape) == want_shape
                    for i in range(n):
                        for a in range(r_):
                            for bb in range(c_):
                                # Rockit.dm2numpyFlat r c i a b
                                if ok and flat[(i * r_ + a) * c_ + bb] != 1000 * i + 10 * a + bb:
                                    ok = False
                    count += 1
                    if not ok:
                        self.slice_ok["DM2numpy-exhaustive"] = False
                        self.violation("DM2numpy of %dx%d expression, %d time points: wrong layout/shape %s" % (r_, c_, n, out.shape), {"r": r_, "c": c_, "n": n}, {"kind": "dm2numpy"})
                        return
        self.evaluations += count
        self.count("dm2numpy-shapes", count)
        self.signatures.add("dm2numpy")


@register
class C08(SampleCheck):
    pid = "C08"
    uses_generated = True
    slices = ["refined-sampling", "nesting-on-the-implementation", "sampler", "low-degree-exactness"]

    def explanation(self):
        return ("theorems: RK4/Euler dense output starts at the step start state, ends at the step end state, has the ODE right-hand "
                "side as initial slope; quadrature polynomial ends at xq+qf; exact for state-independent affine-in-time (rk) / constant "
                "(euler) right-hand sides at every local time; collocation coefficients p_i/h^i are the power basis of s -> p(s/h); low() "
                "index properties; sampler = the same step polynomial at t - t_m with the enclosing interval's control. correspondence: "
                "ocp.sample(e,'integrator',refine=r) r=1..7 vs model for MS/SS rk/euler and DC; nesting checked on rockit's own outputs; "
                "ocp.sampler Function vs model at grid and interior times; exactness on generated low-degree problems")

    def gen(self, extra=None):
        prof = {'methods': [('ms', 'rk'), ('ms', 'euler'), ('ss', 'rk'), ('ss', 'euler'), ('dc', 'rk'), ('dc', 'rk')],
                'grids': ['uniform', 'geometric', 'geometric_local', 'data', 'free'], 'horizon': ['num', 'freeT', 'param'],
                'obj_kinds': ['at_tf', 'integral'], 'ncons': (0, 0), 'features': {'qstate': 0.4, 'dae': 0.4, 'pc': 0.6, 'pcp': 0.5, 'vc': 0.4},
                'Ns': [1, 2, 3, 4], 'Ms': [1, 2, 3], 'degrees': [1, 2, 3, 4, 5]}
        if extra:
            prof.update(extra)
        return G.gen_case(self.rng, prof)

    def correspondence(self):
        self.refine_slice()
        self.sampler_slice()
        self.exactness_slice()

    def refine_slice(self):
        import casadi as ca
        n = 30 if self.tier == 'quick' else 400
        for it_ in range(n):
            # the first cases are DAEs under DirectCollocation with several integrator steps per interval
            # (no declared-but-unused variables there: CasADi drops those from opti.x and the nesting check would have to skip the case)
            desc = self.gen({'methods': [('dc', 'rk')], 'Ms': [2, 3], 'features': {'qstate': 0.0, 'dae': 1.0, 'pc': 0.0, 'pcp': 0.0, 'vc': 0.0, 'p': 0.0, 'v': 0.0},
                             'horizon': ['num'], 'grids': ['uniform', 'geometric'],
                             'alg_layouts': [[1], [2], [1, 1]], 'schemes': [['legendre', 'radau'][it_ % 2]], 'degrees': [2, 3, 4]}) if it_ < (4 if self.tier == 'quick' else 40) else self.gen()
            try:
                b = B.build(desc)
            except Exception as e:
                self.slice_ok["refined-sampling"] = False
                self.violation("rockit raised on a generated case: %r" % (e,), {"desc": desc}, {"kind": "exception"})
                return
            r_ = self.rng.randint(1, 7)
            at = sample_atoms(desc, 'integrator', for_refine=True)
            if desc['method']['kind'] != 'dc' and desc['nq']:
                at = at + [('xq', 0)]
            jobs = [('integrator', {'refine': r_}, 'sample fine %d' % r_, G.poly(self.rng, at, (1, 3), 2)) for _k in range(2)]
            try:
                msg = self.sample_compare(desc, b, jobs)
            except Exception as e:
                msg = "refined sampling raised %s: %s" % (type(e).__name__, str(e)[:300])
            self.record_case(desc, True, {"method": desc['method'], "refine": r_, "expr": Mo.E.to_tokens(jobs[0][3])})
            self.count("refine:%d" % r_)
            if msg:
                self.slice_ok["refined-sampling"] = False
                self.violation(msg, {"desc": desc, "refine": r_}, {"kind": "refine", "method": desc['method']['kind']})
                return
            # nesting, on rockit's own outputs: every r-th refined entry is the integrator-grid entry,
            # every M-th integrator entry is the control-grid entry (times and state values)
            with B.quiet():
                X = b.Xsym
                if b.algs:
                    # algebraic variables ride along: their refined / integrator / control samples nest in the same way
                    X = ca.vertcat(X, *[ca.vec(z_) for z_ in b.algs])
                    self.count("nesting-with-algebraics")
                tc, xc = b.ocp.sample(X, grid='control')
                ti, xi = b.ocp.sample(X, grid='integrator')
                tf_, xf_ = b.ocp.sample(X, grid='integrator', refine=r_)
            outs_ = [ca.vec(ca.MX(tc)), xc, ca.vec(ca.MX(ti)), xi, ca.vec(ca.MX(tf_)), xf_]
            nfree = 0
            try:
                W = Walker(ca.Function('n', [b.opti.x, b.opti.p], outs_))
            except RuntimeError as ex:
                if 'are free' not in str(ex):
                    raise
                # a declared symbol that occurs in neither f nor g is not part of opti.x / opti.p (CasADi): give it an input of its own
                Ff = ca.Function('n', [b.opti.x, b.opti.p], outs_, {'allow_free': True})
                free_ = Ff.free_mx()
                nfree = sum(s_.numel() for s_ in free_)
                W = Walker(ca.Function('n', [b.opti.x, b.opti.p, ca.vertcat(*[ca.vec(s_) for s_ in free_])], outs_))
                self.count("nesting-with-inactive-symbols")
            xv, pv, fv = En.rand_point(self.rng, b)
            try:
                o = W([xv, pv] + ([[rnd_free for rnd_free in [Fr(self.rng.randint(-4, 4), 2) for _ in range(nfree)]]] if nfree else []))
            except (ZeroDivisionError, OverflowError):
                continue
            nx = sum(desc['states']) + (sum(desc['algs']) if b.algs else 0)
            N, M = desc['method']['N'], desc['method']['M']
            bad = None
            for m in range(N * M):         # the last refined point is the end of the last polynomial (feasible points only)
                if not close(o[4][m * r_][0], o[2][m][0], max(o[2][m][1], 1.0)):
                    bad = "refined time[%d] != integrator time[%d]" % (m * r_, m)
                for c_ in range(nx):
                    if not close(o[5][(m * r_) * nx + c_][0], o[3][m * nx + c_][0], max(o[3][m * nx + c_][1], o[5][(m * r_) * nx + c_][1], 1.0)):
                        bad = "refined state sample %d differs from integrator-grid sample %d" % (m * r_, m)
            for k in range(N + 1):
                if not close(o[2][k * M][0], o[0][k][0], max(o[0][k][1], 1.0)):
                    bad = "integrator time[%d] != control time[%d]" % (k * M, k)
                for c_ in range(nx):
                    if not close(o[3][(k * M) * nx + c_][0], o[1][k * nx + c_][0], max(o[1][k * nx + c_][1], 1.0)):
                        bad = "integrator-grid state sample %d differs from control-grid sample %d" % (k * M, k)
            self.count("nesting-checked")
            if bad:
                self.slice_ok["nesting-on-the-implementation"] = False
                self.violation("refined / integrator / control samples are not nested: " + bad, {"desc": desc, "refine": r_, "x": xv, "p": pv}, {"kind": "nesting"})
                return

    def sampler_slice(self):
        import casadi as ca
        import numpy as np
        n = 12 if self.tier == 'quick' else 150
        for it_ in range(n):
            forced = it_ < 3      # dedicated: an algebraic variable under direct collocation with several integration steps, queried in later steps
            desc = self.gen({'features': {'qstate': 0.0, 'dae': 1.0 if forced else 0.3, 'p': 0.0, 'pc': 0.0, 'pcp': 0.0, 'v': 0.0, 'vc': 0.0, 'vcp': 0.0},
                             'horizon': ['num'], 'grids': ['uniform', 'geometric', 'data'], **({'methods': [('dc', 'rk')], 'Ms': [2, 3], 'Ns': [2, 3], 'schemes': [['legendre', 'radau'][it_ % 2]], 'degrees': [2, 3, 4]} if forced else {})})
            try:
                b = B.build(desc)
                e = G.poly(self.rng, sample_atoms(desc, 'integrator', for_sampler=True), (1, 3), 2)
                if forced:
                    e = ('+', e, ('*', Mo.E.C(G.coef(self.rng)), G.symbols(desc)['z'][0]))
                    self.count("sampler-algebraic-later-steps")
                with B.quiet():
                    f = b.ocp.sampler('smp', [Mo.E.to_casadi(e, b.sym_base)])
            except Exception as ex:
                if 'are free' in str(ex) or 'symbol_active' in str(ex):
                    self.count("skipped-inactive-variable")
                    continue      # a declared variable that occurs in neither f nor g is not part of opti.x (CasADi): nothing to sample
                self.slice_ok["sampler"] = False
                self.violation("ocp.sampler raised %s: %s" % (type(ex).__name__, str(ex)[:300]), {"desc": desc}, {"kind": "sampler-exception"})
                return
            xv, pv, fv = En.rand_point(self.rng, b)
            try:
                phys = B.eval_phys(b, xv, pv, fv)
            except (ZeroDivisionError, OverflowError):
                continue
            gist = [float(v) for v in xv] + [float(v) for v in pv]
            t0 = desc['t0'][1]; T = desc['T'][1]
            tg = [v for c_ in phys['tintg'] for v in c_]
            times = [t0, t0 + T, t0 + T * Fr(self.rng.randint(1, 15), 16), t0 + T * Fr(self.rng.randint(1, 31), 32)]
            # interior grid times: exactly only where the trajectory is continuous at every point (SingleShooting);
            # otherwise just after the grid time (in floats `low` may fall on either side of a discontinuity)
            for _k in range(2):
                tm = self.rng.choice(tg[:-1])
                times.append(tm + T * Fr(1, 2 ** 20) if tm != t0 else tm)     # never exactly ON an interior grid time: controls jump there
            if forced:
                times += [tg[j] + (tg[j + 1] - tg[j]) * Fr(self.rng.randint(1, 7), 8) for j in range(1, len(tg) - 1)]     # inside every step after the first
            times = [t for t in times if t <= t0 + T]
            # a random interior time can coincide with an integrator grid time (T*k/16 with N*M in {2,4,8,16}): at an arbitrary
            # (dynamically infeasible) point the trajectory jumps there and `low` on doubles may fall on either side: step off it
            if True:
                interior = [Fr(g) for g in tg[1:-1]]
                times = [t + T * Fr(1, 2 ** 20) if (t != t0 and t != t0 + T and any(abs(t - g) <= T * Fr(1, 2 ** 30) for g in interior)) else t for t in times]
            self.driver.send(Mo.desc_lines(desc)); self.driver.send(Mo.point_lines(desc, phys))
            self.record_case(desc, True, {"method": desc['method'], "sampler_expr": Mo.E.to_tokens(e), "times": [str(t) for t in times[:3]]})
            for t in times:
                _, mv = parse_samples(self.driver.run("sampler %s %s" % (Mo.R(t), Mo.E.to_tokens(e))))
                got = float(f(gist, float(t)))
                try:
                    want = float(mv[0])
                except OverflowError:
                    continue        # a value beyond the float range at an arbitrary point: nothing to compare
                self.count("sampler-times")
                if not (abs(got - want) <= 1e-7 * max(1.0, abs(want))):
                    self.slice_ok["sampler"] = False
                    self.violation("sampler(e)(gist, t=%s) = %r, the step polynomial of the enclosing interval gives %r" % (t, got, want),
                                   {"desc": desc, "t": t, "x": xv, "p": pv, "expr": e}, {"kind": "sampler", "method": desc['method']['kind']})
                    return

    def exactness_slice(self):
        """refined samples are exact when the true solution is a polynomial of low degree"""
        import casadi as ca
        cases = []
        # state-independent right-hand sides: x' = a + b t (rk: degree-2 solution), x' = a (euler), degree d for collocation
        for meth, intg, deg in [('ms', 'rk', 2), ('ss', 'rk', 2), ('ms', 'euler', 1), ('dc', 'rk', None)]:
            cases.append((meth, intg, deg, False))
        cases.append(('ms', 'rk', 2, True))      # state-dependent rhs with a quadratic solution (literal reading of the clause)
        for meth, intg, deg, statedep in cases:
            d = B.default_desc()
            d['states'] = [1]
            dd = self.rng.choice([2, 3, 4]) if meth == 'dc' else 2
            d['method'] = {'kind': meth, 'N': 2, 'M': self.rng.choice([1, 2]), 'intg': intg, 'degree': dd, 'scheme': self.rng.choice(['radau', 'legendre']),
                           'grid': {'kind': self.rng.choice(['uniform', 'geometric']), 'growth': 2, 'local': True}}
            if d['method']['grid']['kind'] == 'uniform':
                d['method']['grid'] = {'kind': 'uniform'}
            degsol = deg if deg is not None else dd
            # solution x(t) = sum c_i t^i ; rhs = x'(t) (+ (x - x(t)) if state dependent)
            cs = [Fr(self.rng.randint(-4, 4), 2) for _ in range(degsol + 1)]
            if cs[-1] == 0:
                cs[-1] = Fr(1)
            tp = lambda i: ('pow', ('t',), i) if i > 1 else (('t',) if i == 1 else Mo.E.C(1))
            rhs = Mo.E.C(0)
            for i in range(1, degsol + 1):
                rhs = ('+', rhs, ('*', Mo.E.C(cs[i] * i), tp(i - 1)))
            sol = Mo.E.C(cs[0])
            for i in range(1, degsol + 1):
                sol = ('+', sol, ('*', Mo.E.C(cs[i]), tp(i)))
            if statedep:
                rhs = ('+', rhs, ('-', ('x', 0), sol))
            d['ode'] = [rhs]
            d['t0'] = ('num', Fr(1, 2)); d['T'] = ('num', Fr(2))
            d['phs'] = [('at_tf', ('x', 0)), ('at_t0', ('x', 0))]; d['obj'] = ('ph', 0)
            x_init = cs[0] + sum(cs[i] * Fr(1, 2) ** i for i in range(1, degsol + 1))
            d['cons'] = [{'rel': 'eq', 'a': [('ph', 1)], 'b': [Mo.E.C(x_init)], 'grid': 'point'}]
            b = B.build(d, transcribe=False)
            with B.quiet():
                r_ = self.rng.randint(2, 5)
                b.ocp.solver('ipopt', {'ipopt.print_level': 0, 'print_time': False, 'ipopt.sb': 'yes', 'ipopt.tol': 1e-12})
                try:
                    s_ = b.ocp.solve()
                    ts, xs = s_.sample(b.states[0], grid='integrator', refine=r_)
                except Exception as ex:
                    self.notes.append("exactness case skipped: %r" % (ex,))
                    continue
            self.evaluations += 1
            self.count("exactness:%s-%s%s" % (meth, intg, "-state-dependent" if statedep else ""))
            exact = [float(sum(cs[i] * Fr(float(t)) ** i for i in range(degsol + 1))) for t in ts]
            err = max(abs(a - b_) for a, b_ in zip(xs, exact))
            if err > 1e-7:
                self.slice_ok["low-degree-exactness"] = False
                self.violation("refined samples are not exact although the true solution is a polynomial of degree %d: max error %.3g (%s, %s, state-dependent rhs: %s)" %
                               (degsol, err, meth, intg, statedep), {"desc": d, "coeffs": cs}, {"kind": "exactness", "scheme": intg if meth != 'dc' else 'collocation', "state_dependent_rhs": statedep})


def nlp_signature_compare(bA_ocp, bB, rng, what):
    """compare the NLP the evolved object A would solve next with the freshly built B"""
    import casadi as ca
    with B.quiet():
        bA_ocp._transcribed
    optiA = bA_ocp._method.opti
    optiB = bB.opti
    if optiA.x.numel() != optiB.x.numel():
        return "%s: %d decision variables vs %d in the fresh problem" % (what, optiA.x.numel(), optiB.x.numel())
    if optiA.p.numel() != optiB.p.numel():
        return "%s: %d parameters vs %d in the fresh problem" % (what, optiA.p.numel(), optiB.p.numel())
    FA = ca.Function('nlpA', [optiA.x, optiA.p], [optiA.f, optiA.g, optiA.lbg, optiA.ubg])
    FB = bB.Fnlp
    with B.quiet():
        pA = ca.DM(optiA.debug.value(optiA.p, optiA.initial())).full().flatten().tolist() if optiA.p.numel() else []
        pB = ca.DM(optiB.debug.value(optiB.p, optiB.initial())).full().flatten().tolist() if optiB.p.numel() else []
        xA0 = ca.DM(optiA.debug.value(optiA.x, optiA.initial())).full().flatten().tolist()
        xB0 = ca.DM(optiB.debug.value(optiB.x, optiB.initial())).full().flatten().tolist()
    if any(abs(a - b_) > 1e-12 * max(1, abs(b_)) for a, b_ in zip(pA, pB)):
        return "%s: parameter vector %s vs fresh %s" % (what, pA, pB)
    if any(abs(a - b_) > 1e-12 * max(1, abs(b_)) for a, b_ in zip(xA0, xB0)):
        return "%s: starting point %s vs fresh %s" % (what, xA0, xB0)
    import numpy as np
    import math
    # two transcriptions of the same specification build the same graph: floating-point evaluation suffices here
    for _ in range(2):
        xv = [rng.choice([-2, -1.5, -1, -0.5, 0.5, 1, 1.5, 2]) for _ in range(optiB.x.numel())]
        rA = [np.array(v).flatten() for v in FA(xv, pB)]
        rB = [np.array(v).flatten() for v in FB(xv, pB)]
        if not np.all(np.isfinite(rA[0])) or not np.all(np.isfinite(rB[0])):
            continue
        if abs(rA[0][0] - rB[0][0]) > 1e-8 * max(1.0, abs(rB[0][0])):
            return "%s: objective %r vs fresh %r" % (what, rA[0][0], rB[0][0])

        def atoms(r):
            out = []
            for g_, lo, hi in zip(r[1], r[2], r[3]):
                if math.isfinite(lo):
                    out.append(g_ - lo)
                if math.isfinite(hi):
                    out.append(hi - g_)
            return sorted(v for v in out if math.isfinite(v))
        aA, aB = atoms(rA), atoms(rB)
        if len(aA) != len(aB):
            return "%s: %d constraint atoms vs %d in the fresh problem" % (what, len(aA), len(aB))
        for a, b_ in zip(aA, aB):
            if abs(a - b_) > 1e-7 * max(1.0, abs(a), abs(b_)):
                return "%s: constraint rows differ from the fresh problem (sorted atom %r vs %r)" % (what, a, b_)
    return None


@register
class C13(Check):
    pid = "C13"
    slices = ["operation-histories", "declared-lists-untouched", "stage-tree-histories", "dae-shooting-histories", "solver-options-in-effect"]
    uses_generated = True
    OPS = ['set_value', 'set_initial', 'subject_to', 'clear_constraints', 'add_objective', 'method', 'solver', 'set_T', 'set_t0', 'sample', 'value', 'solve']

    def explanation(self):
        return ("theorems over the invalidation table regenerated from rockit/stage.py and rockit/ocp.py on every run: every public operation "
                "that writes the specification either clears the transcribed flag or forwards the same update to the live NLP and stores "
                "it; hence by induction over operation lists the NLP and solver settings used by the next solve are those of the final "
                "specification; queries are idempotent; transcription leaves the declared lists untouched. correspondence: random "
                "operation sequences on a real Ocp vs a freshly built Ocp with the final specification (NLP rows, objective, x0, p, "
                "solver name/options), declared lists before/after")

    def generated_obligations(self):
        return 0, 0, []

    def correspondence(self):
        self.single_stage_histories()
        from .props2 import tree_history_slice, dae_shooting_history_slice
        tree_history_slice(self, "stage-tree-histories")
        dae_shooting_history_slice(self, "dae-shooting-histories")
        self.solver_options_slice()

    def solver_options_slice(self):
        """the solver options in effect are the ones declared LAST — also when the caller re-declares the solver with the SAME options
        object, edited in place (the NLP does not change, so the options are observed through the solver: with max_iter=0 ipopt
        takes no step)"""
        n = 4 if self.tier == 'quick' else 30
        done = 0
        tries = 0
        prof = {'methods': [('ms', 'rk'), ('dc', 'rk')], 'grids': ['uniform'], 'horizon': ['num'], 'obj_kinds': ['integral'], 'ncons': (0, 1),
                'features': {'p': 0.0, 'qstate': 0.0}, 'Ns': [2, 3], 'Ms': [1], 'degrees': [2], 'nxs': [1, 2], 'nus': [1]}
        while done < n and tries < 10 * n:
            tries += 1
            desc = G.gen_case(self.rng, prof)
            same_object = done % 2 == 0
            try:
                b = B.build(desc, transcribe=False)
                ocp = b.ocp
                opts = {'ipopt.print_level': 0, 'print_time': False, 'ipopt.max_iter': 4, 'ipopt.sb': 'yes'}
                with B.quiet():
                    ocp.solver('ipopt', opts)
                    try:
                        ocp.solve()
                    except RuntimeError:
                        pass
                    it1 = ocp._method.opti.stats().get('iter_count', 0)
                    if same_object:
                        opts['ipopt.max_iter'] = 0
                        ocp.solver('ipopt', opts)
                    else:
                        ocp.solver('ipopt', dict(opts, **{'ipopt.max_iter': 0}))
                    try:
                        ocp.solve()
                    except RuntimeError:
                        pass
                    it2 = ocp._method.opti.stats().get('iter_count', 0)
            except (ZeroDivisionError, OverflowError):
                continue
            except Exception as ex:
                self.slice_ok["solver-options-in-effect"] = False
                self.violation("re-declaring the solver after a solve raised %s: %s" % (type(ex).__name__, str(ex)[:200]), {"desc": desc}, {"kind": "exception", "what": "solver-options"})
                return
            if it1 == 0:
                continue          # converged at the starting point: the options cannot be told apart on this problem
            done += 1
            self.evaluations += 1
            self.signatures.add("solver-options-%d" % done)
            self.count("solver-options:" + ("same-object-edited-in-place" if same_object else "new-object"))
            if it2 != 0:
                self.slice_ok["solver-options-in-effect"] = False
                self.violation("after solve; solver('ipopt', {max_iter: 0}) (%s); solve — ipopt took %d iterations: the options of the first declaration are still in effect"
                               % ("the same options object edited in place" if same_object else "a new options object", it2), {"desc": desc, "same_object": same_object},
                               {"kind": "solver-options", "same_object": same_object})
                return

    def single_stage_histories(self):
        import casadi as ca
        n = 150 if self.tier == 'quick' else 1500
        maxops = 9 if self.tier == 'quick' else 25
        prof = {'methods': [('ms', 'rk'), ('dc', 'rk'), ('ss', 'rk'), ('ms', 'euler')], 'grids': ['uniform', 'geometric'], 'horizon': ['num', 'freeT', 'param'],
                'obj_kinds': ['at_tf', 'integral'], 'ncons': (0, 2), 'features': {'p': 1.0, 'pc': 0.6, 'pcp': 0.6, 'qstate': 0.0},
                'Ns': [2, 3], 'Ms': [1, 2], 'degrees': [1, 2], 'nxs': [1, 2], 'nus': [1]}
        # dedicated histories first (each a known-delicate order), then random ones
        PLANNED = [
            ['set_initial:expr', 'value', 'set_T'],            # a guess written in ocp.t, a query, then a new horizon guess (free T)
            ['set_initial:expr', 'solve', 'set_T', 'sample'],
            ['sample', 'add_objective', 'solve'],              # a term added after a transcription
            ['value', 'subject_to', 'value'],
            ['solve', 'set_value', 'solve'],
            ['value', 'method', 'set_initial:expr', 'set_T'],
            ['set_initial:expr', 'value', 'set_value:horizon'],   # a horizon given by a parameter, replaced after a transcription
            ['set_initial:expr', 'solve', 'set_value:horizon', 'solve'],
        ]
        nplanned = len(PLANNED) * (2 if self.tier == 'quick' else 8)
        for case_i in range(n + nplanned):
            planned = list(PLANNED[case_i % len(PLANNED)]) if case_i < nplanned else []
            # a new horizon guess shows in the starting point through guesses written in ocp.t: not under single shooting (only X[0] is a
            # decision variable there)
            desc = G.gen_case(self.rng, dict(prof, horizon=['freeT'], methods=[('ms', 'rk'), ('dc', 'rk'), ('ms', 'euler')]) if planned and 'set_T' in planned else
                              dict(prof, horizon=['param'], methods=[('ms', 'rk'), ('dc', 'rk'), ('ms', 'euler')]) if planned and 'set_value:horizon' in planned else prof)
            desc['param_values'] = {}
            try:
                bA = B.build(desc, transcribe=False)
            except Exception as e:
                self.violation("building raised %r" % (e,), {"desc": desc}, {"kind": "exception"})
                return
            ocp = bA.ocp
            cur = copy.deepcopy(desc)
            cur['initial_list'] = []
            decl_before = None
            cur['solver'] = ('ipopt', {'ipopt.print_level': 0, 'print_time': False, 'ipopt.max_iter': 0, 'ipopt.sb': 'yes'})
            ops = []
            nops = self.rng.randint(2, maxops) if not planned else len(planned) + self.rng.randint(0, 2)
            err = None
            s = G.symbols(desc)
            nstates_before = len(ocp.states); ncons_decl = None
            for step in range(nops):
                op = planned[step] if step < len(planned) else self.rng.choice(self.OPS)
                force_expr = op == 'set_initial:expr'
                force_hz = op == 'set_value:horizon'
                if force_hz:
                    op = 'set_value'
                if force_expr:
                    op = 'set_initial'
                if op == 'set_value' and not (bA.params[''] or bA.params['control']):
                    op = 'value'
                try:
                    with B.quiet():
                        if op == 'set_value':
                            gk = self.rng.choice([g for g in ('', 'control', 'control+') if bA.params[g]])
                            i = self.rng.randrange(len(bA.params[gk]))
                            if force_hz and cur['T'][0] == 'p':
                                gk = ''
                                offs_ = sym_offsets(cur['params'][''])
                                i = [j for j in range(len(offs_)) if offs_[j] == cur['T'][1]][0]
                            p = bA.params[gk][i]
                            cols = 1 if gk == '' else cur['method']['N'] + (1 if gk == 'control+' else 0)
                            if gk != '' and p.numel() == 1 and self.rng.random() < 0.4:
                                cols = 1          # one number for every interval / node (rockit broadcasts a scalar, not a column)
                            val = ca.DM([[self.rng.randint(1, 12) / 4.0 for _c in range(cols)] for _r in range(p.numel())])
                            if force_hz and (gk, i) in cur['param_values'] and float(cur['param_values'][(gk, i)]) == float(val):
                                val = val + 0.75
                            ocp.set_value(p, val)
                            cur['param_values'][(gk, i)] = val
                            ops.append(('set_value', gk, i))
                        elif op == 'set_initial':
                            i = self.rng.randrange(len(bA.states))
                            n_ = bA.states[i].numel()
                            if self.rng.random() < 0.5 and not force_expr:
                                g = ('x', i, ('num', [self.rng.randint(-8, 8) / 4.0 for _r in range(n_)]))
                            else:
                                g = ('x', i, ('expr', [('+', ('*', Mo.E.C(G.coef(self.rng)), ('t',)), Mo.E.C(G.coef(self.rng))) for _r in range(n_)]))
                            B.apply_guess(bA, g)
                            cur['initial_list'].append(g)
                            ops.append(('set_initial', 'x', i, g[2][0]))
                        elif op == 'subject_to':
                            e = G.poly(self.rng, s['x'] + s['u'], (1, 2), 2, must=s['x'] + s['u'])
                            con = {'rel': 'le', 'a': [e], 'b': [Mo.E.C(G.coef(self.rng))], 'grid': 'control', 'first': True, 'last': self.rng.random() < 0.5, 'offs': []}
                            ocp.subject_to(Mo.E.to_casadi(e, bA.sym_base) <= float(con['b'][0][1]), include_last=con['last'])
                            cur['cons'].append(con)
                            ops.append(('subject_to',))
                        elif op == 'clear_constraints':
                            ocp.clear_constraints()
                            cur['cons'] = []
                            ops.append(('clear_constraints',))
                        elif op == 'add_objective':
                            e = G.poly(self.rng, s['x'], (1, 1), 2)
                            ocp.add_objective(ocp.at_tf(Mo.E.to_casadi(e, bA.sym_base)))
                            cur['phs'] = cur['phs'] + [('at_tf', e)]
                            cur['obj'] = ('+', cur['obj'], ('ph', len(cur['phs']) - 1))
                            ops.append(('add_objective',))
                        elif op == 'method':
                            m = copy.deepcopy(cur['method'])
                            m['N'] = self.rng.choice([2, 3, 4]); m['M'] = self.rng.choice([1, 2])
                            if bA.params['control'] or bA.params['control+']:
                                m['N'] = cur['method']['N']      # per-interval values were given for this N
                            ocp.method(B.make_method(None, m))
                            cur['method'] = m
                            ops.append(('method', m['N'], m['M']))
                        elif op == 'solver':
                            opts = {'ipopt.print_level': 0, 'print_time': False, 'ipopt.max_iter': self.rng.choice([0, 1, 2]), 'ipopt.sb': 'yes'}
                            ocp.solver('ipopt', opts)
                            cur['solver'] = ('ipopt', opts)
                            ops.append(('solver', opts['ipopt.max_iter']))
                        elif op == 'set_T':
                            v = Fr(self.rng.randint(1, 8), 2)
                            if cur['T'][0] == 'free' and v == cur['T'][1]:
                                v = v + Fr(3, 2)        # a guess that differs from the one in effect
                            if cur['T'][0] == 'free':
                                # the horizon is a decision variable: what can change is its guess
                                g = ('T', 0, ('num', [float(v)]))
                                B.apply_guess(bA, g)
                                cur['initial_list'].append(g)
                                ops.append(('set_initial', 'T', str(v)))
                            else:
                                ocp.set_T(float(v)); cur['T'] = ('num', v)
                                ops.append(('set_T', str(v)))
                        elif op == 'set_t0':
                            v = Fr(self.rng.randint(1, 5), 2)
                            ocp.set_t0(float(v)); cur['t0'] = ('num', v)
                            ops.append(('set_t0', str(v)))
                        elif op == 'sample':
                            ocp.sample(bA.states[0], grid='control')
                            ops.append(('sample',))
                        elif op == 'value':
                            ocp.value(ocp.T)
                            ops.append(('value',))
                        elif op == 'solve':
                            try:
                                ocp.solve()
                            except RuntimeError as ex:
                                if 'Maximum_Iterations' not in str(ex) and 'return_status' not in str(ex) and 'Infeasible' not in str(ex) and 'Restoration' not in str(ex):
                                    raise
                            ops.append(('solve',))
                except Exception as ex:
                    err = "operation %d %s raised %s: %s (history %s)" % (step, op, type(ex).__name__, str(ex)[:200], ops)
                    ops.append((op, 'RAISED'))
                    break
            self.evaluations += 1
            self.signatures.add(repr([o[0] for o in ops]) + desc['method']['kind'])
            for o in ops:
                self.count("op:" + o[0])
            if len(self.samples) < 3:
                self.samples.append({"method": desc['method']['kind'], "history": ops})
            feats = {"kind": "history"}
            if err is None:
                try:
                    decl = (len(ocp.states), len(ocp.controls), sum(len(v) for v in ocp.variables.values()), sum(len(v) for v in ocp._constraints.values()), repr(ocp._T), repr(ocp._t0))
                    with B.quiet():
                        ocp._transcribed
                    decl2 = (len(ocp.states), len(ocp.controls), sum(len(v) for v in ocp.variables.values()), sum(len(v) for v in ocp._constraints.values()), repr(ocp._T), repr(ocp._t0))
                    if decl != decl2:
                        self.slice_ok["declared-lists-untouched"] = False
                        self.violation("transcribing changed what the user declared: (states, controls, variables, constraints, T, t0) %s -> %s" % (decl, decl2), {"desc": desc, "ops": ops}, {"kind": "declared-lists"})
                        return
                    bB = B.build(self.fresh_desc(cur), transcribe=False)
                    with B.quiet():
                        bB.ocp.solver(*cur['solver'])
                        bB.ocp._transcribed
                        B.finish(bB)
                    err = nlp_signature_compare(ocp, bB, self.rng, "after %s" % (ops,))
                    if err is None:
                        sA = (ocp._method._solver, ocp._method._solver_options)
                        if sA != cur['solver']:
                            err = "after %s the solver in effect is %r, last declared %r" % (ops, sA, cur['solver'])
                except Exception as ex:
                    err = "after %s the next transcription raised %s: %s" % (ops, type(ex).__name__, str(ex)[:300])
            if err:
                names = [o[0] for o in ops]
                solved_before = [i for i, o in enumerate(names) if o in ('sample', 'value', 'solve')]
                feats['ops_after_first_query'] = sorted(set(names[solved_before[0] + 1:])) if solved_before else []
                self.slice_ok["operation-histories"] = False
                self.violation(err, {"desc": desc, "ops": ops}, feats)
                if len(self.violations) >= 6:
                    return

    def fresh_desc(self, cur):
        d = copy.deepcopy(cur)
        return d


@register
class C20(Check):
    pid = "C20"
    slices = ["fault-matrix", "well-posed-twins-accepted"]
    uses_generated = True
    FAULTS = ['missing_derivative', 'missing_update_rule', 'missing_parameter_value', 'no_method', 'no_solver', 'signal_objective',
              'nonscalar_objective', 'set_value_nonparameter', 'set_value_nonparameter_live', 'set_initial_parameter', 'set_initial_unknown',
              'unknown_constraint_grid', 'unknown_sample_grid', 'foreign_symbol', 'constant_false_literal', 'constant_false_horizon',
              'alg_with_explicit_scheme', 'horizon_in_ode', 'roots_under_shooting', 'spline_nonlinear', 'spline_time_varying',
              'inf_unsupported_operation']

    def explanation(self):
        return ("theorems over the guard table regenerated from the source: every catalogue guard is present in its anchor function; any "
                "non-empty set of catalogue faults is rejected at declaration or transcription and the solver is never called; a "
                "fault-free specification reaches the solver. correspondence: the fault x method x position matrix on generated well-posed "
                "OCPs: the declaring call or solve must raise and casadi.Opti.solve must not be entered; the well-posed twin must not raise")

    def inject(self, fault, desc, b):
        """apply one fault to a declared-but-untranscribed Ocp; returns 'declared' if the declaring call itself raised"""
        import casadi as ca
        ocp = b.ocp
        rng = self.rng
        x = rng.choice(b.states)
        if fault == 'missing_derivative' or fault == 'missing_update_rule':
            ocp.state()
        elif fault == 'missing_parameter_value':
            ocp.parameter()
        elif fault == 'signal_objective':
            ocp.add_objective(x[0])
        elif fault == 'nonscalar_objective':
            ocp.add_objective(ocp.at_tf(ca.vertcat(x[0], x[0])))
        elif fault == 'set_value_nonparameter':
            # any non-parameter: a state, a control, a decision variable of any grid
            kind = rng.choice(['state', 'variable', 'variable_control', 'variable_control+', 'control'])
            if kind == 'state' or (kind == 'control' and not b.controls):
                ocp.set_value(x, 1)
            elif kind == 'control':
                ocp.set_value(rng.choice(b.controls), 1)
            elif kind == 'variable':
                ocp.set_value(ocp.variable(), 1)
            elif kind == 'variable_control':
                ocp.set_value(ocp.variable(grid='control'), 1)
            else:
                ocp.set_value(ocp.variable(grid='control', include_last=True), 1)
        elif fault == 'set_value_nonparameter_live':
            ocp.sample(x, grid='control')
            ocp.set_value(rng.choice([x, ocp.variables[''][0]]) if ocp.variables[''] else x, 1)
        elif fault == 'set_initial_parameter':
            p = ocp.parameter(); ocp.set_value(p, 1)
            ocp.set_initial(p, 1)
        elif fault == 'set_initial_unknown':
            ocp.set_initial(ca.MX.sym('foreign'), 1)
        elif fault == 'unknown_constraint_grid':
            # on a path constraint or on a boundary / point constraint (which has no grid of its own: the name is still checked)
            lhs = rng.choice([x[0], x[0], ocp.at_tf(x[0]), ocp.at_t0(x[0]), ocp.integral(x[0] ** 2)])
            ocp.subject_to(lhs <= 1, grid=rng.choice(['foo', 'Control', 'integrators', 'root', 'contrl']))
        elif fault == 'unknown_sample_grid':
            ocp.sample(x, grid=rng.choice(['foo', 'Control', 'nodes']))
        elif fault == 'foreign_symbol':
            q = ca.MX.sym('q')
            if rng.random() < 0.5:
                ocp.subject_to(x[0] <= q)
            else:
                ocp.add_objective(ocp.at_tf(x[0] * q))
        elif fault == 'constant_false_literal':
            ocp.subject_to(ca.MX(1) <= 0)
        elif fault == 'constant_false_horizon':
            ocp.subject_to(ocp.T <= float(desc['T'][1]) / 2)
        elif fault == 'alg_with_explicit_scheme':
            z = ocp.algebraic()
            ocp.add_alg(z - x[0])
        elif fault == 'horizon_in_ode':
            s = ocp.state()
            ocp.set_der(s, s * rng.choice([ocp.T, ocp.t0]))
        elif fault == 'roots_under_shooting':
            ocp.subject_to(x[0] <= 1, grid='integrator_roots')
        elif fault == 'inf_unsupported_operation':
            # no sufficient condition can be produced for a non-polynomial expression (C15): must be rejected
            if rng.random() < 0.5:
                ocp.subject_to(x[0] / (1 + x[0] * x[0]) <= 1, grid='inf')
            else:
                ocp.subject_to(x[0] * x[0] == 1, grid='inf')

    def applicable(self, fault, desc):
        m = desc['method']
        if fault == 'missing_update_rule':
            return bool(desc.get('next'))
        if fault == 'missing_derivative':
            return not desc.get('next')
        if fault == 'alg_with_explicit_scheme':
            return m['kind'] in ('ms', 'ss') and not desc.get('next')
        if fault == 'roots_under_shooting':
            return m['kind'] in ('ms', 'ss')
        if fault == 'horizon_in_ode':
            return not desc.get('next')
        if fault == 'constant_false_horizon':
            return desc['T'][0] == 'num'
        if fault.startswith('spline'):
            return False
        if fault == 'inf_unsupported_operation':
            return not desc.get('next') and (m['kind'] in ('ms', 'ss') and m['intg'] == 'rk')
        return True

    def correspondence(self):
        import casadi as ca
        calls = {'n': 0}
        orig_solve, orig_sl = ca.Opti.solve, ca.Opti.solve_limited

        def counting_solve(self_, *a, **k):
            calls['n'] += 1
            return orig_solve(self_, *a, **k)

        def counting_sl(self_, *a, **k):
            calls['n'] += 1
            return orig_sl(self_, *a, **k)
        ca.Opti.solve = counting_solve
        ca.Opti.solve_limited = counting_sl
        try:
            self.matrix()
            self.spline_faults()
        finally:
            ca.Opti.solve, ca.Opti.solve_limited = orig_solve, orig_sl
        self.calls = calls

    def matrix(self):
        import casadi as ca
        reps = 1 if self.tier == 'quick' else 6
        prof = {'methods': [('ms', 'rk'), ('ss', 'rk'), ('dc', 'rk'), ('ms', 'euler'), ('ms', 'next')], 'grids': ['uniform', 'geometric'], 'horizon': ['num', 'num', 'freeT'],
                'obj_kinds': ['at_tf', 'integral'], 'ncons': (0, 2), 'Ns': [2, 3], 'Ms': [1, 2], 'degrees': [1, 2], 'nxs': [1, 2]}
        kinds = [('ms', 'rk'), ('ss', 'rk'), ('dc', 'rk'), ('ms', 'next'), ('ms', 'euler'), ('ss', 'euler')]
        for rep in range(reps):
            for mk in kinds:
                for fault in self.FAULTS:
                    p2 = dict(prof); p2['methods'] = [mk]
                    desc = G.gen_case(self.rng, p2)
                    if not self.applicable(fault, desc):
                        continue
                    # the well-posed twin must be accepted
                    import rockit.direct_method as DM_
                    nt0 = self.count_solver_calls()
                    try:
                        bt = B.build(desc, transcribe=False)
                        with B.quiet():
                            bt.ocp.solve_limited()
                    except Exception as ex:
                        if self.count_solver_calls() > nt0:
                            # rockit accepted the specification and handed the NLP to the solver; what the solver then reports
                            # (too few degrees of freedom, infeasible start, …) is not a rejection by rockit
                            self.count("twin-solver-status-not-success")
                        else:
                            self.slice_ok["well-posed-twins-accepted"] = False
                            self.violation("well-posed twin raised %s: %s" % (type(ex).__name__, str(ex)[:200]), {"desc": desc}, {"kind": "twin-raised"})
                            return
                    before = None
                    raised = None
                    where = None
                    try:
                        no_method = fault == 'no_method'
                        no_solver = fault == 'no_solver'
                        b = self.build_without(desc, no_method, no_solver)
                        import casadi as ca2
                        n0 = self.count_solver_calls()
                        with B.quiet():
                            try:
                                self.inject(fault, desc, b)
                            except Exception as ex:
                                raised, where = ex, 'declaration'
                            if raised is None:
                                try:
                                    b.ocp.solve()
                                except Exception as ex:
                                    raised, where = ex, 'solve'
                        n1 = self.count_solver_calls()
                    except Exception as ex:
                        self.violation("harness error while injecting %s: %r" % (fault, ex), {"desc": desc}, {"kind": "harness"})
                        return
                    self.evaluations += 1
                    self.signatures.add((fault, mk))
                    self.count("fault:" + fault)
                    self.count("rejected-at:" + str(where))
                    if len(self.samples) < 3:
                        self.samples.append({"fault": fault, "method": mk, "raised": type(raised).__name__ if raised else None, "where": where})
                    if raised is None or n1 != n0:
                        self.slice_ok["fault-matrix"] = False
                        self.violation("fault '%s' under %s was %s (solver entered: %s)" % (fault, mk, "not rejected" if raised is None else "rejected only after the solver was called", n1 != n0),
                                       {"desc": desc, "fault": fault}, {"kind": "fault-accepted", "fault": fault, "method": mk[0]})

    def count_solver_calls(self):
        import casadi as ca
        # the counters live in the closure of the patched functions
        f = ca.Opti.solve
        return f.__closure__[0].cell_contents['n'] if f.__closure__ else 0

    def build_without(self, desc, no_method, no_solver):
        b = B.build(desc, transcribe=False, solver=not no_solver)
        if no_method:
            import rockit
            from rockit.direct_method import DirectMethod
            with B.quiet():
                # a stage with dynamics but only the default (non-sampling) method
                sol = (b.ocp._method._solver, b.ocp._method._solver_options)
                b.ocp._method = DirectMethod()
                if sol[0] is not None:
                    b.ocp.solver(*sol)
        return b

    def spline_faults(self):
        try:
            import networkx  # noqa
            from rockit import SplineMethod, Ocp
        except Exception:
            self.notes.append("SplineMethod faults skipped (networkx not importable)")
            return
        import casadi as ca
        for fault in ('spline_nonlinear', 'spline_time_varying'):
            # every way the right-hand side can be nonlinear / depend on time: as a factor, as an added term, in the first link of the chain
            forms = ['factor', 'added-term', 'first-link']
            for rep in range(len(forms) if self.tier == 'quick' else 3 * len(forms)):
                form = forms[rep % len(forms)]
                ocp = Ocp(T=2.0, t0=self.rng.choice([0.0, 0.5]))
                x = ocp.state(); v = ocp.state(); u = ocp.control()
                bad = (x if fault == 'spline_nonlinear' else ocp.t)
                if form == 'factor':
                    ocp.set_der(x, v)
                    ocp.set_der(v, u * bad)
                elif form == 'added-term':
                    ocp.set_der(x, v)
                    ocp.set_der(v, u + (x ** 2 if fault == 'spline_nonlinear' else 3 * ca.sin(2 * ocp.t)))
                else:
                    ocp.set_der(x, v + (ca.sin(v) if fault == 'spline_nonlinear' else ocp.t ** 2))
                    ocp.set_der(v, u)
                ocp.add_objective(ocp.at_tf(x))
                ocp.subject_to(ocp.at_t0(x) == 0)
                ocp.solver('ipopt', {'ipopt.print_level': 0, 'print_time': False, 'ipopt.sb': 'yes'})
                ocp.method(SplineMethod(N=self.rng.choice([3, 5])))
                n0 = self.count_solver_calls()
                raised = None
                with B.quiet():
                    try:
                        ocp.solve()
                    except Exception as ex:
                        raised = ex
                self.evaluations += 1
                self.signatures.add((fault, 'spline', form))
                self.count("fault:" + fault)
                self.count("spline-fault-form:" + form)
                if raised is None or self.count_solver_calls() != n0:
                    self.slice_ok["fault-matrix"] = False
                    self.violation("SplineMethod accepted %s dynamics (%s)" % ("nonlinear" if fault == 'spline_nonlinear' else "time-varying", form), {"fault": fault, "form": form}, {"kind": "fault-accepted", "fault": fault, "method": "spline", "form": form})
        # a value missing for a parameter of ONE instance of a template (the siblings have theirs): rejected for that instance
        from rockit import Stage, MultipleShooting, DirectCollocation
        for where in ('first-instance-only', 'second-instance-only', 'template-after-instantiation'):
            for gridk in ('', 'control'):
                ocp = Ocp()
                tmpl = Stage(t0=0, T=1)
                x = tmpl.state(); u = tmpl.control()
                q = tmpl.parameter() if gridk == '' else tmpl.parameter(grid='control')
                tmpl.set_der(x, -x + u + q)
                tmpl.add_objective(tmpl.integral(x ** 2 + u ** 2))
                tmpl.method(MultipleShooting(N=2, intg='rk') if self.rng.random() < 0.5 else DirectCollocation(N=2, degree=2))
                s1 = ocp.stage(tmpl, t0=0); s2 = ocp.stage(tmpl, t0=1)
                ocp.subject_to(s1.at_t0(x) == 1); ocp.subject_to(s1.at_tf(x) == s2.at_t0(x))
                {'first-instance-only': s1, 'second-instance-only': s2, 'template-after-instantiation': tmpl}[where].set_value(q, 0.5)
                ocp.solver('ipopt', {'ipopt.print_level': 0, 'print_time': False, 'ipopt.sb': 'yes', 'ipopt.max_iter': 1})
                n0 = self.count_solver_calls()
                raised = None
                with B.quiet():
                    try:
                        ocp.solve()
                    except Exception as ex:
                        raised = ex
                rejected = raised is not None and self.count_solver_calls() == n0
                self.evaluations += 1
                self.signatures.add(('missing_value_one_instance', where, gridk))
                self.count("fault:missing_parameter_value_on_one_instance")
                if not rejected:
                    self.slice_ok["fault-matrix"] = False
                    self.violation("a template instance without a value for its parameter (value given: %s) was accepted and handed to the solver" % where,
                                   {"fault": "missing_parameter_value_on_one_instance", "where": where, "grid": gridk}, {"kind": "fault-accepted", "fault": "missing_parameter_value_on_one_instance"})
                    return


def sym_offsets(sizes):
    off, out = 0, []
    for n in sizes:
        out.append(off)
        off += n
    return out


@register
class C10(Check):
    pid = "C10"
    uses_generated = True
    slices = ["starting-point", "nlp-unchanged-by-guesses", "spline-coefficients", "guesses-survive-retranscription"]

    def explanation(self):
        return ("theorems: last call wins / frame property of the guess store; the interval loop (final node first, then every interval) "
                "leaves each control interval with its own value; guesses are not an argument of the NLP function; times used are the "
                "guessed grid's node / interval-start / integrator / root times. correspondence: opti.debug.value(opti.x, opti.initial()) "
                "read back in physical units through the sampling API vs the model's start values for constants, vectors, n×N and n×(N+1) "
                "arrays (DM and numpy), expressions of time, for states, controls, variables of each grid kind, algebraics, free T/t0, "
                "helper states of DirectCollocation, localized grid variables; guesses before or after transcription; NLP rows and "
                "objective unchanged by guesses")

    def gen_guess(self, kind, n, N, allow_expr=True, allow_cols=True):
        rng = self.rng
        forms = ['scalar', 'vector'] + (['colsN', 'colsN1'] if allow_cols else []) + (['expr'] if allow_expr else [])
        if kind in ('vcp',):
            forms = [f for f in forms if f != 'colsN']
        if kind in ('u', 'vc'):
            pass
        f = rng.choice(forms)
        val = lambda: rng.randint(-12, 12) / 4.0
        if f == 'scalar':
            c = val()
            # one number for the whole symbol — also when the symbol is a vector ("constants everywhere")
            return ('num', [c]) if rng.random() < 0.5 else ('num', [c] * n), [('const', Fr(c))] * n
        if f == 'vector':
            cs = [val() for _ in range(n)]
            return ('num', cs), [('const', Fr(c)) for c in cs]
        if f in ('colsN', 'colsN1'):
            m = N if f == 'colsN' else N + 1
            arr = [[val() for _ in range(m)] for _ in range(n)]
            return (rng.choice(['np', 'dm']), arr), [('cols', [Fr(v) for v in row]) for row in arr]
        es = [('+', ('*', Mo.E.C(G.coef(rng)), ('t',)), ('*', Mo.E.C(G.coef(rng)), ('*', ('t',), ('t',)))) if rng.random() < 0.5 else
              ('+', ('*', Mo.E.C(G.coef(rng)), ('t',)), Mo.E.C(G.coef(rng))) for _ in range(n)]
        return ('expr', es), [('expr', e) for e in es]

    def correspondence(self):
        self.sampling_methods_slice()
        if not self.violations:
            self.spline_slice()
        if not self.violations:
            self.spline_vector_slice()
        if not self.violations:
            # guesses for algebraic variables under a shooting method with a DAE integrator, across a solve, a live set_initial and a
            # re-transcription: the same starting data as without the intermediate solve
            from .props2 import dae_shooting_history_slice
            dae_shooting_history_slice(self, "guesses-survive-retranscription")

    def spline_slice(self):
        """SplineMethod: the decision variables are the B-spline coefficients of the head of each integrator chain; the time a
        coefficient belongs to is its Greville point. A guess for the head (constant, or an expression of time; before or after the
        first transcription; the last call wins; free T through its guess) gives coefficient j the value at Greville time j; a head
        without guess starts at zero"""
        import casadi as ca
        import numpy as np
        try:
            import networkx  # noqa
        except ImportError:
            self.notes.append("SplineMethod slice skipped (networkx not importable)")
            return
        rockit = B.import_rockit()
        from .props2 import bs_knots
        name = "spline-coefficients"
        n = 12 if self.tier == 'quick' else 150
        rng = self.rng
        for it in range(n):
            L = rng.randint(1, 3)
            N = rng.randint(1, 4)
            Tg = rng.randint(1, 8) / 2.0
            t0 = rng.randint(-2, 4) / 2.0
            freeT = rng.random() < 0.4
            geo = rng.random() < 0.5
            before = it % 2 == 0
            ncalls = rng.choice([0, 1, 1, 2])
            calls = []
            for _c in range(ncalls):
                if rng.random() < 0.4:
                    calls.append(('const', [rng.randint(-12, 12) / 4.0]))
                else:
                    calls.append(('poly', [rng.randint(-8, 8) / 4.0 for _d in range(rng.randint(2, 4))]))
            hist = {"L": L, "N": N, "T": Tg, "t0": t0, "freeT": freeT, "grid": "geometric" if geo else "uniform", "calls": calls, "order": "before" if before else "after"}
            try:
                with B.quiet():
                    ocp = rockit.Ocp(t0=t0, T=rockit.FreeTime(Tg) if freeT else Tg)
                    xs = [ocp.state() for _ in range(L)]
                    u = ocp.control()
                    for a, b_ in zip(xs, xs[1:] + [u]):
                        ocp.set_der(a, b_)
                    ocp.add_objective(ocp.sum(u ** 2, include_last=False) + ocp.at_tf(xs[0] ** 2) + ocp.T)
                    ocp.subject_to(ocp.at_t0(xs[0]) == 1)
                    ocp.method(rockit.SplineMethod(N=N, grid=rockit.GeometricGrid(2) if geo else rockit.UniformGrid()))
                    ocp.solver('ipopt', {'ipopt.print_level': 0, 'print_time': False, 'ipopt.max_iter': 0, 'ipopt.sb': 'yes'})
                    if not before:
                        ocp._transcribed
                        opti0 = ocp._method.opti
                        F0 = ca.Function('F', [opti0.x, opti0.p], [opti0.f, opti0.g])
                    for kind, cs in calls:
                        ocp.set_initial(xs[0], cs[0] if kind == 'const' else sum(c * ocp.t ** d for d, c in enumerate(cs)))
                    ocp._transcribed
                    opti = ocp._method.opti
                    val = lambda e: np.array(opti.debug.value(e, opti.initial())).flatten()
                    tc = val(ocp.sample(xs[0], grid='control')[0])
                    tg, cg = ocp.sample(xs[0], grid='gist')
                    tg, cg = val(tg), val(cg)
                    Tstart = float(val(ocp.value(ocp.T))[0])
            except Exception as ex:
                self.slice_ok[name] = False
                self.violation("SplineMethod with guesses raised %s: %s (%s)" % (type(ex).__name__, str(ex)[:200], hist), {"case": hist}, {"kind": "exception", "method": "spline"})
                return
            self.evaluations += 1
            self.signatures.add(repr(hist))
            self.count("spline-guesses-" + hist["order"])
            self.count("spline-guess-calls:%d" % ncalls)
            err = None
            if abs(Tstart - Tg) > 1e-12:
                err = "T starts at %r, the guess is %r" % (Tstart, Tg)
            knots = bs_knots([Fr(float(v)) for v in tc], L)
            grev = [float(sum(knots[i + 1:i + L + 1], Fr(0)) / L) for i in range(N + L)]
            if err is None and (len(tg) != len(grev) or any(abs(a - b_) > 1e-9 * (1 + abs(a)) for a, b_ in zip(grev, tg))):
                err = "coefficient times %s are not the Greville points %s of the guessed grid" % (list(tg), grev)
            if err is None:
                if calls:
                    kind, cs = calls[-1]
                    want = [cs[0] if kind == 'const' else sum(c * t_ ** d for d, c in enumerate(cs)) for t_ in grev]
                else:
                    want = [0.0] * len(grev)
                if len(cg) != len(want) or any(abs(a - b_) > 1e-9 * (1 + abs(b_)) for a, b_ in zip(cg, want)):
                    err = "coefficients of the chain head start at %s, the guess in effect gives %s at their Greville times" % (list(cg), want)
            if err is None and not before:
                xv = [rng.choice([-1.5, -0.5, 0.5, 1.0, 2.0]) for _ in range(opti.x.numel())]
                F1 = ca.Function('F', [opti.x, opti.p], [opti.f, opti.g])
                pv = val(opti.p) if opti.p.numel() else []
                a, b_ = F0(xv, pv), F1(xv, pv)
                if abs(float(a[0]) - float(b_[0])) > 1e-9 * (1 + abs(float(a[0]))) or np.abs(np.array(a[1]) - np.array(b_[1])).max() > 1e-9:
                    self.slice_ok["nlp-unchanged-by-guesses"] = False
                    err = "a guess changed the NLP of a SplineMethod problem"
            if err:
                self.slice_ok[name] = False
                self.violation("SplineMethod: %s (%s)" % (err, hist), {"case": hist}, {"kind": "spline-start", "order": hist["order"]})
                return

    def spline_vector_slice(self):
        """SplineMethod with a vector-valued state whose components head integrator chains of different length (splines of different
        degree): a guess per component, constant or affine in time (reproduced exactly by a spline of degree >= 1 from its values at
        the Greville points: C17.linear_precision), shows up component by component at the control grid"""
        import casadi as ca
        import numpy as np
        try:
            import networkx  # noqa
        except ImportError:
            return
        rockit = B.import_rockit()
        name = "spline-coefficients"
        n = 8 if self.tier == 'quick' else 80
        rng = self.rng
        for it in range(n):
            Ls = [(2, 1), (1, 2), (3, 1), (1, 3), (2, 3), (2, 2), (3, 2), (1, 1)][it % 8]   # chain length behind each component (number of integrations to its control)
            N = rng.randint(2, 4)
            t0 = rng.randint(-2, 4) / 2.0
            Tg = rng.randint(1, 8) / 2.0
            before = (it // 8 + it) % 2 == 0
            kind = ['affine', 'const'][(it // 2) % 2]
            cs = [[rng.randint(-8, 8) / 4.0, rng.randint(-8, 8) / 4.0 or 0.5] for _ in range(2)]
            if kind == 'const':
                cs = [[c[0] or 1.25, 0.0] for c in cs]
                if cs[0][0] == cs[1][0]:
                    cs[1][0] += 0.75
            guess_others = rng.random() < 0.5
            hist = {"chains": Ls, "N": N, "t0": t0, "T": Tg, "kind": kind, "coefficients": cs, "order": "before" if before else "after", "guess_for_other_head": guess_others}
            try:
                with B.quiet():
                    ocp = rockit.Ocp(t0=t0, T=Tg)
                    x = ocp.state(2)
                    rhs = []
                    for c in range(2):
                        inner = [ocp.state() for _ in range(Ls[c] - 1)]
                        u = ocp.control()
                        for a, b_ in zip(inner, inner[1:] + [u]):
                            ocp.set_der(a, b_)
                        rhs.append((inner + [u])[0])
                        ocp.add_objective(ocp.sum(u ** 2, include_last=False))
                    ocp.set_der(x, ca.vertcat(*rhs))
                    y = ocp.state()          # another chain head, declared after x, of the degree of component 0 or 1
                    uy = ocp.control()
                    ocp.set_der(y, uy)
                    ocp.add_objective(ocp.sum(uy ** 2, include_last=False) + ocp.at_tf(y ** 2))
                    ocp.subject_to(ocp.at_t0(x) == 0)
                    ocp.method(rockit.SplineMethod(N=N))
                    ocp.solver('ipopt', {'ipopt.print_level': 0, 'print_time': False, 'ipopt.max_iter': 0, 'ipopt.sb': 'yes'})
                    if not before:
                        ocp._transcribed
                    g = ca.vertcat(*[c[0] + c[1] * ocp.t for c in cs]) if kind == 'affine' else ca.DM([c[0] for c in cs])
                    ocp.set_initial(x, g)
                    if guess_others:
                        ocp.set_initial(y, -2.5)
                    ocp._transcribed
                    opti = ocp._method.opti
                    val = lambda e: np.array(opti.debug.value(e, opti.initial()))
                    ts, xs = ocp.sample(x, grid='control')
                    ts, xs = val(ts).flatten(), np.atleast_2d(val(xs))
                    ys = val(ocp.sample(y, grid='control')[1]).flatten()
            except Exception as ex:
                self.slice_ok[name] = False
                self.violation("SplineMethod with a vector-valued chain head raised %s: %s (%s)" % (type(ex).__name__, str(ex)[:200], hist), {"case": hist},
                               {"kind": "exception", "method": "spline"})
                return
            self.evaluations += 1
            self.signatures.add(repr(hist))
            self.count("spline-vector-head:%s:%s" % (kind, hist["order"]))
            err = None
            for c in range(2):
                want = [cs[c][0] + cs[c][1] * t_ for t_ in ts]
                if xs.shape[0] != 2 or any(abs(a - b_) > 1e-9 * (1 + abs(b_)) for a, b_ in zip(xs[c], want)):
                    err = "component %d of the vector state starts at %s on the control grid, its guess gives %s" % (c, list(xs[c]) if xs.shape[0] == 2 else xs.tolist(), want)
                    break
            wy = -2.5 if guess_others else 0.0
            if err is None and any(abs(v - wy) > 1e-9 for v in ys):
                err = "the scalar chain head declared next starts at %s, its guess in effect is %s" % (list(ys), wy)
            if err:
                self.slice_ok[name] = False
                self.violation("SplineMethod: %s (%s)" % (err, hist), {"case": hist}, {"kind": "spline-vector-start", "order": hist["order"]})
                return

    def sampling_methods_slice(self):
        import casadi as ca
        import numpy as np
        n = 110 if self.tier == 'quick' else 1200
        prof = {'methods': ALLM + [('ss', 'euler')], 'grids': FIXED_GRIDS + ['free', 'uniform_locT', 'uniform_locT0', 'geometric_locT'],
                'horizon': ['num', 'freeT', 'freet0', 'freeboth', 'param'], 'obj_kinds': ['at_tf', 'integral'], 'ncons': (0, 1),
                'features': {'dae': 0.3, 'v': 0.5, 'vc': 0.5, 'vcp': 0.5, 'p': 0.5}, 'Ns': [1, 2, 3, 4], 'Ms': [1, 2, 3], 'degrees': [1, 2, 3],
                'alg_layouts': [[1], [2, 1], [1, 2], [2], [1, 1], [2, 1]]}
        forced = 20 if self.tier == 'quick' else 200
        for it in range(n + forced):
            force = it >= n     # dedicated cases: expression of time first, horizon guess last, after transcription
            p2 = dict(prof)
            if force:
                p2['horizon'] = ['freeT', 'freet0', 'freeboth']
                p2['grids'] = FIXED_GRIDS
            desc = G.gen_case(self.rng, p2)
            m = desc['method']
            N = m['N']
            calls = []      # (kind, symbol index, python guess, per-component model guesses)
            targets = [('x', i, sz) for i, sz in enumerate(desc['states'])] + [('u', i, sz) for i, sz in enumerate(desc['controls'])] + \
                      [('v', i, sz) for i, sz in enumerate(desc['vars'][''])] + [('vc', i, sz) for i, sz in enumerate(desc['vars']['control'])] + \
                      [('vcp', i, sz) for i, sz in enumerate(desc['vars']['control+'])]
            if m['kind'] == 'dc':
                targets += [('z', i, sz) for i, sz in enumerate(desc['algs'])]
            for _k in range(self.rng.randint(1, 5)):
                kind, i, sz = self.rng.choice(targets)
                py, comps = self.gen_guess(kind, sz, N, allow_expr=(kind != 'v'), allow_cols=(kind not in ('v', 'z')))
                if force and _k == 0:
                    kind, i, sz = self.rng.choice([t_ for t_ in targets if t_[0] in ('x', 'u')])
                    es = [('+', ('*', Mo.E.C(G.coef(self.rng)), ('t',)), Mo.E.C(G.coef(self.rng))) for _r in range(sz)]
                    py, comps = ('expr', es), [('expr', e) for e in es]
                calls.append((kind, i, py, comps))
            hat = {}
            for key in ('T', 't0'):
                if desc[key][0] == 'free':
                    hat[key] = desc[key][1]
                    if force or self.rng.random() < 0.5:
                        v = Fr(self.rng.randint(1, 9), 2)
                        # often last: a horizon guess given after expressions of time is the interesting order
                        pos = len(calls) if (force or self.rng.random() < 0.5) else self.rng.randint(0, len(calls))
                        calls.insert(pos, (key, 0, ('num', [float(v)]), None))
                        hat[key] = v
            before = (self.rng.random() < 0.5) and not force
            try:
                b = B.build(desc, transcribe=False)
                with B.quiet():
                    if not before:
                        b.ocp._transcribed
                    for kind, i, py, comps in calls:
                        form, val = py
                        g = (kind, i, ('num', val)) if form == 'num' else ((kind, i, ('np', val)) if form == 'np' else ((kind, i, ('num', val)) if form == 'dm' else (kind, i, ('expr', val))))
                        B.apply_guess(b, g)
                    b.ocp._transcribed
                    B.finish(b)
                    x0 = ca.DM(b.opti.debug.value(b.opti.x, b.opti.initial())).full().flatten().tolist()
                pv = current_p(b)
                fv = None
                if b.free:
                    # a declared variable that is in neither f nor g has no slot in opti.x (CasADi); its starting value is still
                    # stored by Opti and is read symbol by symbol
                    self.count("inactive-variable-read-directly")
                    fv = []
                    with B.quiet():
                        for s_ in b.free:
                            fv += [Fr(v) for v in ca.DM(b.opti.debug.value(s_, b.opti.initial())).full().flatten(order='F').tolist()]
                phys = B.eval_phys(b, [Fr(v) for v in x0], pv, fv)
            except (ZeroDivisionError, OverflowError):
                continue
            except Exception as ex:
                feats = {"kind": "exception", "exc": type(ex).__name__, "method": m['kind'],
                         "state_array_under_dc": m['kind'] == 'dc' and any(k == 'x' and py[0] in ('np', 'dm') for k, i, py, c_ in calls)}
                self.slice_ok["starting-point"] = False
                self.violation("set_initial / transcription raised %s: %s (guesses %s, %s transcription)" % (type(ex).__name__, str(ex)[:200], [(k, i, py[0]) for k, i, py, c_ in calls], "before" if before else "after"),
                               {"desc": desc, "calls": [(k, i, py) for k, i, py, c_ in calls]}, feats)
                if len(self.violations) > 4:
                    return
                continue
            # model
            for key in ('T', 't0'):
                if key not in hat:
                    hat[key] = phys[key][0][0]
            L = Mo.desc_lines(desc)
            L += ["T " + Mo.R(hat['T']), "t0 " + Mo.R(hat['t0'])]
            if 'P' in phys:
                L.append("P " + Mo.rats(phys['P'][0]))
            offs = {'x': sym_offsets(desc['states']), 'u': sym_offsets(desc['controls']), 'z': sym_offsets(desc['algs']), 'v': sym_offsets(desc['vars']['']),
                    'vc': sym_offsets(desc['vars']['control']), 'vcp': sym_offsets(desc['vars']['control+'])}
            for kind, i, py, comps in calls:
                if comps is None:
                    continue
                for r_, (form, val) in enumerate(comps):
                    slot = offs[kind][i] + r_
                    if form == 'const':
                        L.append("g %s %d const %s" % (kind, slot, Mo.R(val)))
                    elif form == 'cols':
                        L.append("g %s %d cols %s" % (kind, slot, Mo.rats(val)))
                    else:
                        L.append("g %s %d expr %s" % (kind, slot, Mo.E.to_tokens(val)))
            self.driver.send(L)
            out = self.driver.run("start %d %d %d %d" % (sum(desc['controls']), sum(desc['vars']['']), sum(desc['vars']['control']), sum(desc['vars']['control+'])))
            model = {}
            for l in out:
                t = l.split()
                if t[0] in ('X', 'U', 'Vc', 'Vcp', 'Xi'):
                    model[(t[0], int(t[1]))] = [Mo.frac(v) for v in t[2:]]
                elif t[0] in ('Xc', 'Zc'):
                    model[(t[0], int(t[1]), int(t[2]))] = [Mo.frac(v) for v in t[3:]]
                else:
                    model[(t[0],)] = [Mo.frac(v) for v in t[1:]]
            self.evaluations += 1
            self.signatures.add(repr((G.signature(desc)[:6], [(k, i, py[0]) for k, i, py, c_ in calls], before)))
            self.count("guesses-before" if before else "guesses-after")
            for k, i, py, c_ in calls:
                self.count("guess:%s:%s" % (k, py[0]))
            if len(self.samples) < 3:
                self.samples.append({"method": m, "guesses": [(k, i, py[0]) for k, i, py, c_ in calls], "order": "before" if before else "after"})
            bad = None

            def cmp(name, mv, iv):
                for a, b_ in zip(mv, iv):
                    if abs(float(a) - float(b_)) > 1e-9 * max(1.0, abs(float(a))):
                        return "%s starts at %s, the guess gives %s" % (name, [float(v) for v in iv], [float(v) for v in mv])
                return None
            d_ = m.get('degree', 0)
            # horizon and localized grid variables first: everything time-dependent is evaluated on them
            bad = bad or cmp("T", [hat['T']], phys['T'][0]) or cmp("t0", [hat['t0']], phys['t0'][0])
            if 't0l' in phys:
                bad = bad or cmp("local start times", model[('t0l',)][1:], phys['t0l'][0][1:])
            if 'Tl' in phys:
                st = 0 if m['grid']['kind'] == 'free' else 1
                bad = bad or cmp("local interval lengths", model[('Tl',)][st:], phys['Tl'][0][st:])
            for k in range(N + 1):
                if m['kind'] != 'ss' or k == 0:
                    bad = bad or cmp("state at node %d" % k, model[('X', k)], phys['X'][k])
                if 'Vcp' in phys:
                    bad = bad or cmp("control+ variable at node %d" % k, model[('Vcp', k)], phys['Vcp'][k])
            for k in range(N):
                if 'U' in phys:
                    bad = bad or cmp("control on interval %d" % k, model[('U', k)], phys['U'][k])
                if 'Vc' in phys:
                    bad = bad or cmp("control variable on interval %d" % k, model[('Vc', k)], phys['Vc'][k])
            if 'V' in phys:
                bad = bad or cmp("global variable", model[('V',)], phys['V'][0])
            if m['kind'] == 'dc':
                for idx in range(N * m['M']):
                    bad = bad or cmp("helper start state of step %d" % idx, model[('Xi', idx)], phys['Xi'][idx])
                    for j in range(d_):
                        bad = bad or cmp("helper state (%d,%d)" % (idx, j), model[('Xc', idx, j)], phys['Xc'][idx * d_ + j])
                        if 'Zc' in phys:
                            bad = bad or cmp("algebraic value (%d,%d)" % (idx, j), model[('Zc', idx, j)], phys['Zc'][idx * d_ + j])
            if bad:
                self.slice_ok["starting-point"] = False
                feats = {"kind": "start", "what": bad.split(' starts')[0].rstrip('0123456789 ,()'), "order": "before" if before else "after",
                         "horizon_guess_given": any(k in ('T', 't0') for k, i, py, c_ in calls)}
                self.violation(bad + " (guesses %s, given %s transcription)" % ([(k, i, py[0]) for k, i, py, c_ in calls], "before" if before else "after"),
                               {"desc": desc, "calls": [(k, i, py) for k, i, py, c_ in calls], "order": "before" if before else "after"}, feats)
                if len(self.violations) > 4:
                    return
                continue
            # guesses never change the objective or constraints
            try:
                b0 = B.build(desc)
                xv, pv2, _ = En.rand_point(self.rng, b0)
                msg = impl_vs_impl(self, b, b0, xv, pv2, pv2, "with vs without guesses")
            except (ZeroDivisionError, OverflowError):
                msg = None
            if msg:
                self.slice_ok["nlp-unchanged-by-guesses"] = False
                self.violation(msg, {"desc": desc}, {"kind": "guess-changes-nlp"})
                return
