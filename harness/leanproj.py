"""Build the Lean library, audit axioms and forbidden tokens."""
import fcntl
import os
import re
import subprocess
import time

ROOT = os.path.dirname(os.path.dirname(os.path.abspath(__file__)))
LEAN = os.path.join(ROOT, "lean")
ALLOWED_AXIOMS = {"propext", "Classical.choice", "Quot.sound"}
FORBIDDEN = re.compile(r"\bsorry\b|\badmit\b|^\s*axiom\s|native_decide|bv_decide|implemented_by|\bunsafe\s|maxHeartbeats\s+0\b")


class BuildFailure(Exception):
    def __init__(self, msg, log=""):
        super().__init__(msg)
        self.log = log


def _locked(fn):
    os.makedirs(os.path.join(LEAN, ".lake"), exist_ok=True)
    with open(os.path.join(LEAN, ".lake", "verif.lock"), "w") as lk:
        fcntl.flock(lk, fcntl.LOCK_EX)
        try:
            return fn()
        finally:
            fcntl.flock(lk, fcntl.LOCK_UN)


def build(targets=None, timeout=1500):
    """lake build under an exclusive lock (checks may run in parallel)"""
    def go():
        cmd = ["lake", "build"] + (targets or [])
        t0 = time.time()
        p = subprocess.run(cmd, cwd=LEAN, capture_output=True, text=True, timeout=timeout)
        return p.returncode, p.stdout + p.stderr, time.time() - t0
    return _locked(go)


def strip_comments(src):
    # remove block comments (nested not handled beyond one level) and line comments
    out = []
    i = 0
    depth = 0
    n = len(src)
    while i < n:
        if src.startswith("/-", i):
            depth += 1
            i += 2
        elif src.startswith("-/", i) and depth > 0:
            depth -= 1
            i += 2
        elif depth > 0:
            if src[i] == "\n":
                out.append("\n")
            i += 1
        elif src.startswith("--", i):
            while i < n and src[i] != "\n":
                i += 1
        else:
            out.append(src[i])
            i += 1
    return "".join(out)


def forbidden_tokens():
    """grep every source of the library for forbidden constructs (comments discarded)"""
    hits = []
    for dirpath, _, files in os.walk(LEAN):
        if ".lake" in dirpath:
            continue
        for f in files:
            if f.endswith(".lean"):
                p = os.path.join(dirpath, f)
                src = strip_comments(open(p).read())
                for ln, line in enumerate(src.split("\n"), 1):
                    if FORBIDDEN.search(line):
                        hits.append("%s:%d: %s" % (os.path.relpath(p, LEAN), ln, line.strip()))
    return hits


def theorems_of(pid):
    """names of the property theorems declared in Props/<pid>.lean"""
    p = os.path.join(LEAN, "RockitModel", "Props", pid + ".lean")
    src = strip_comments(open(p).read())
    ns = "Rockit." + pid
    names = re.findall(r"^\s*theorem\s+([A-Za-z_][A-Za-z0-9_'.]*)", src, re.M)
    return [ns + "." + n for n in names]


def audit(pid, extra_imports=()):
    """`#print axioms` for every property theorem; returns (ok, {thm: [axioms]}, log)"""
    names = theorems_of(pid)
    src = "import RockitModel.Props.%s\n" % pid + "".join("import %s\n" % m for m in extra_imports)
    src += "".join("#print axioms %s\n" % n for n in names)
    p = subprocess.run(["lake", "env", "lean", "--stdin"], cwd=LEAN, input=src, capture_output=True, text=True, timeout=900)
    out = p.stdout + p.stderr
    res = {}
    # outputs look like: 'Rockit.C01.foo' depends on axioms: [propext, ...]   or   does not depend on any axioms
    for m in re.finditer(r"'([^']+)' depends on axioms: \[([^\]]*)\]", out, re.S):
        res[m.group(1)] = [a.strip() for a in m.group(2).replace("\n", " ").split(",") if a.strip()]
    for m in re.finditer(r"'([^']+)' does not depend on any axioms", out):
        res[m.group(1)] = []
    ok = p.returncode == 0 and all(n in res for n in names) and all(set(v) <= ALLOWED_AXIOMS for v in res.values())
    return ok, res, out, names


def leanchecker(modules, timeout=1800):
    p = subprocess.run(["lake", "env", "leanchecker"] + modules, cwd=LEAN, capture_output=True, text=True, timeout=timeout)
    return p.returncode == 0, p.stdout + p.stderr
