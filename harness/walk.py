"""Evaluate a CasADi Function exactly by walking its expanded SX instruction list.

Every value is carried as a pair (exact Fraction, magnitude float) where the magnitude bounds the
size of the terms that were added/subtracted to produce it; it scales the comparison tolerance so
that cancellation of baked-in rounded constants (np.linspace fractions, collocation coefficients)
never produces a false alarm.
"""
from fractions import Fraction
import math
import casadi as ca

_OPS = {}
for _n in dir(ca):
    if _n.startswith("OP_"):
        _OPS[getattr(ca, _n)] = _n


def fl(v):
    try:
        return float(v)
    except OverflowError:
        return float('inf') if v > 0 else float('-inf')


class Unsupported(Exception):
    pass


class Walker:
    def __init__(self, F):
        """F: casadi Function (MX or SX). Expanded once."""
        self.F = F if isinstance(F, ca.Function) and F.is_a("SXFunction") else F.expand()
        f = self.F
        self.n_in = f.n_in()
        self.n_out = f.n_out()
        self.prog = []
        for k in range(f.n_instructions()):
            op = f.instruction_id(k)
            name = _OPS.get(op, str(op))
            o = f.instruction_output(k)
            i = f.instruction_input(k)
            cst = None
            if op == ca.OP_CONST:
                cst = f.instruction_constant(k)
            self.prog.append((op, name, tuple(i), tuple(o), cst))
        self.sz_w = f.sz_w()

    def __call__(self, args):
        """args: list (per input) of flat lists of Fractions (column-major dense).
        Returns list (per output) of flat lists of (Fraction, magnitude)."""
        f = self.F
        w = [None] * self.sz_w
        outs = [[(Fraction(0), 0.0)] * f.nnz_out(i) for i in range(self.n_out)]
        for op, name, i, o, cst in self.prog:
            if op == ca.OP_CONST:
                if math.isinf(cst) or math.isnan(cst):
                    w[o[0]] = (cst, abs(cst))
                else:
                    fr = Fraction(cst)
                    w[o[0]] = (fr, abs(cst))
            elif op == ca.OP_INPUT:
                v = args[i[0]][i[1]]
                w[o[0]] = (v, abs(fl(v)))
            elif op == ca.OP_OUTPUT:
                outs[o[0]][o[1]] = w[i[0]]
            else:
                a = w[i[0]]
                if op == ca.OP_ADD:
                    b = w[i[1]]
                    w[o[0]] = (a[0] + b[0], a[1] + b[1])
                elif op == ca.OP_SUB:
                    b = w[i[1]]
                    w[o[0]] = (a[0] - b[0], a[1] + b[1])
                elif op == ca.OP_MUL:
                    b = w[i[1]]
                    r = a[0] * b[0]
                    if isinstance(r, Fraction) and r.numerator.bit_length() > 400000:
                        raise OverflowError("exact evaluation exceeds 400k bits (deep propagation chain)")
                    w[o[0]] = (r, a[1] * b[1])
                elif op == ca.OP_DIV:
                    b = w[i[1]]
                    if b[0] == 0:
                        raise ZeroDivisionError("division by zero in NLP graph")
                    w[o[0]] = (a[0] / b[0], a[1] / abs(fl(b[0])) if b[0] != 0 else float('inf'))
                elif op == ca.OP_NEG:
                    w[o[0]] = (-a[0], a[1])
                elif op == ca.OP_SQ:
                    w[o[0]] = (a[0] * a[0], a[1] * a[1])
                elif op == ca.OP_TWICE:
                    w[o[0]] = (2 * a[0], 2 * a[1])
                elif op == ca.OP_INV:
                    w[o[0]] = (1 / a[0], 1 / abs(fl(a[0])))
                elif op in (ca.OP_CONSTPOW, ca.OP_POW):
                    b = w[i[1]]
                    e = b[0]
                    if isinstance(e, Fraction) and e.denominator == 1:
                        n = int(e)
                        if n >= 0:
                            w[o[0]] = (a[0] ** n, a[1] ** n)
                        else:
                            w[o[0]] = (Fraction(1) / a[0] ** (-n), 1.0 / abs(fl(a[0])) ** (-n))
                    else:
                        raise Unsupported("non-integer power")
                elif op == ca.OP_FABS:
                    w[o[0]] = (abs(a[0]), a[1])
                else:
                    raise Unsupported(name)
        return outs


def distance(a, b, mag):
    """normalised distance: <= 1 means equal.  Two numbers are equal when they differ by at most
    1e-9 relative to their own size plus 1e-13 of the magnitude that could have cancelled (the
    only error source on the exact walk is the rounding of constants baked into the graph)."""
    if isinstance(a, float) and (math.isinf(a) or math.isnan(a)):
        return 0.0 if (isinstance(b, float) and a == b) else float('inf')
    if isinstance(b, float) and (math.isinf(b) or math.isnan(b)):
        return float('inf')
    if a == b:
        return 0.0
    d = abs(fl(a - b))
    tol = 1e-9 * max(abs(fl(a)), abs(fl(b))) + 1e-13 * mag + 1e-300
    if math.isinf(tol) or math.isnan(tol):
        return 0.5
    return d / tol


def close(a, b, mag, rtol=None):
    return distance(a, b, mag) <= 1.0
