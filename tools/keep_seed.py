#!/usr/bin/env python3
"""keep a confirmed seeded change: tools/keep_seed.py C04_1 "what it needs to manifest" "which check catches it / status" """
import sys, os, shutil, json, subprocess
sid, needs, caught = sys.argv[1], sys.argv[2], sys.argv[3]
pid = sid.split('_')[0]
src = "/tmp/seed_" + sid
dst = os.path.join(os.path.dirname(os.path.dirname(os.path.abspath(__file__))), "seeded", sid)
os.makedirs(dst, exist_ok=True)
for f in ("patch.diff", "demo.py", "notes.md", "patch_on_fixed_tree.diff"):
    if os.path.exists(os.path.join(src, f)):
        shutil.copy(os.path.join(src, f), os.path.join(dst, f))
confirm = open(os.path.join(src, "confirm.txt")).read() if os.path.exists(os.path.join(src, "confirm.txt")) else ""
meta = {"id": sid, "breaks_property": pid, "needs_to_manifest": needs, "detected_by": caught,
        "confirmed": {"how": "tools/confirm_seed.sh: demo.py exits 0 on the unchanged tree (PYTHONPATH=/repo) and 1 with the change applied in a scratch worktree; the 41 baseline tests (BASELINE.json stable_pass) re-run with the change applied",
                      "result": confirm.strip().split("\n")},
        "made_by": "independent sub-agent given only the property text and a scratch worktree",
        "applies_to": "/repo HEAD %s (git -C /repo apply seeded/%s/patch.diff; undo with git -C /repo checkout -- .)" % (subprocess.run(["git", "-C", "/repo", "rev-parse", "--short", "HEAD"], capture_output=True, text=True).stdout.strip(), sid)}
json.dump(meta, open(os.path.join(dst, "meta.json"), "w"), indent=1)
subprocess.run(["git", "-C", "/repo", "worktree", "remove", "--force", "/tmp/wt_" + sid])
print("kept", dst)
