#!/usr/bin/env python3
"""Regenerate /verif/MANIFEST.json from tools/claims.json (hand-written per-property claims)."""
import json, os
ROOT = os.path.dirname(os.path.dirname(os.path.abspath(__file__)))
props = [json.loads(l) for l in open(os.path.join(ROOT, "properties.jsonl"))]
claims = json.load(open(os.path.join(ROOT, "tools", "claims.json")))
base = json.load(open("/root/.vp/BASELINE.json")) if os.path.exists("/root/.vp/BASELINE.json") else None
checks = []
na = []
for p in props:
    pid = p["id"]
    c = claims.get(pid)
    if c is None or c.get("not_applicable"):
        na.append({"property_id": pid, "reason": (c or {}).get("reason", "check not built yet (work in progress); planned, see DESIGN.md section 6")})
        continue
    checks.append({
        "property_id": pid,
        "quick_cmd": "./check %s --tier quick" % pid,
        "thorough_cmd": "./check %s --tier thorough" % pid,
        "evidence_file": "/verif/evidence/%s.json" % pid,
        "replay_cmd_template": "./check %s --replay {path}" % pid,
        "engine": "check",
        "level_claimed": {"category": c.get("category", "proof"), "text": c["text"], "design_ref": c.get("design_ref", "DESIGN.md section 6 (%s)" % pid)},
        "level_note": c["note"],
        "technique": c.get("technique", "Lean 4 theorems over a generic-field model + correspondence check against rockit at the NLP boundary"),
    })
m = {
    "version": 1,
    "setup_cmd": "bash tools/setup.sh",
    "hooks": {"guard": "ROCKIT_VERIF", "enable": "no source hooks are needed: checks import /repo/rockit in-process (sys.path, VERIF_REPO=/repo) and observe the NLP through the public API and ocp._method.opti",
              "baseline_off_cmd": "cd /repo && /venv/bin/python -m pytest -ra -q -p no:cacheprovider --timeout=900 --continue-on-collection-errors",
              "source_commits": [], "add_only": True},
    "engines": [{"name": "check", "path": "/verif/check", "serves_properties": [c["property_id"] for c in checks],
                 "kind_free_text": "Python driver: regenerates Lean tables from /repo, lake build + #print axioms audit of the property theorems, correspondence (Lean model run over Rat vs real rockit NLP on generated cases), failing-input search, evidence"}],
    "checks": checks,
    "notes": "Machine-checked proof in Lean 4 (model generic over a field; theorems in lean/RockitModel/Props) tied to /repo by a correspondence check and a translator; see DESIGN.md. exit 2 = infrastructure failure.",
    "not_applicable": na,
}
json.dump(m, open(os.path.join(ROOT, "MANIFEST.json"), "w"), indent=1)
print("checks:", [c["property_id"] for c in checks], "not claimed:", [n["property_id"] for n in na])
