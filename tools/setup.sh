#!/bin/bash
# offline setup: networkx for SplineMethod (from the local wheelhouse, into /verif/.deps) and the Lean build
set -e
cd "$(dirname "$0")/.."
mkdir -p .deps
if [ ! -d .deps/networkx ]; then
  /venv/bin/pip install -q --no-index --find-links /opt/veriftools/wheels --target .deps networkx >/dev/null 2>&1 || echo "networkx not installed (SplineMethod slices will be skipped)"
fi
python3 tools/extract.py > /dev/null   # regenerate lean/RockitModel/Generated/*.lean from /repo
cd lean && lake build 2>&1 | tail -3
