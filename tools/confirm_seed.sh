#!/bin/bash
# usage: confirm_seed.sh <PID_n>   e.g. C01_1  — confirms a seeded change in its scratch worktree
id=$1
wt=/tmp/wt_$id; out=/tmp/seed_$id
log=$out/confirm.txt
: > $log
cd $wt || exit 2
git diff > $out/patch.check.diff
if ! diff -q $out/patch.check.diff $out/patch.diff >/dev/null; then echo "NOTE: worktree diff differs from patch.diff" >> $log; fi
# demo on the unchanged repo
( cd /var/tmp && PYTHONPATH=/repo timeout 900 /venv/bin/python $out/demo.py > $out/demo_clean.out 2>&1; echo "demo_clean_exit=$?" >> $log )
( cd /var/tmp && PYTHONPATH=$wt timeout 900 /venv/bin/python $out/demo.py > $out/demo_changed.out 2>&1; echo "demo_changed_exit=$?" >> $log )
# baseline tests with the change
cd $wt && timeout 1800 /venv/bin/python -m pytest -q -p no:cacheprovider --timeout=900 -rA tests/test_misc.py tests/test_ocpx_solution.py tests/test_scaling.py tests/test_stage.py > $out/tests_confirm.out 2>&1
python3 - "$out" >> $log <<'PY'
import json,sys,re
out=sys.argv[1]
base=set(json.load(open('/root/.vp/BASELINE.json'))['stable_pass'])
passed=set()
for l in open(out+'/tests_confirm.out'):
    m=re.match(r'PASSED (\S+)',l)
    if m:
        t=m.group(1)  # tests/test_misc.py::MiscTests::test_x
        f,c,n=t.split('::'); passed.add(f.replace('/','.').replace('.py','')+'.'+c+'::'+n)
missing=sorted(base-passed)
print('baseline_passed=%d/%d missing=%s'%(len(base&passed),len(base),missing))
PY
rm -f $wt/foo.rockit $wt/solver.0* 2>/dev/null
echo done >> $log
