#!/usr/bin/env python3
"""usage: baseline_ok.py <pytest -rA output>: are all 41 baseline tests PASSED?"""
import json, re, sys
base = set(json.load(open('/root/.vp/BASELINE.json'))['stable_pass'])
passed = set()
for l in open(sys.argv[1]):
    m = re.match(r'PASSED (\S+)', l)
    if m:
        f, c, n = m.group(1).split('::')
        passed.add(f.replace('/', '.').replace('.py', '') + '.' + c + '::' + n)
missing = sorted(base - passed)
print('baseline_passed=%d/%d missing=%s' % (len(base & passed), len(base), missing))
sys.exit(0 if not missing else 1)
