#!/usr/bin/env python3
"""print the markdown table of seeded changes (seeded/*/meta.json) for DESIGN.md"""
import json, glob, os, sys
root = os.path.dirname(os.path.dirname(os.path.abspath(__file__)))
suffix = sys.argv[1] if len(sys.argv) > 1 else ""
print("| seed | what it needs to manifest | caught by |")
print("|---|---|---|")
for f in sorted(glob.glob(os.path.join(root, "seeded", "*" + suffix, "meta.json"))):
    m = json.load(open(f))
    print("| %s | %s | %s |" % (m["id"], m["needs_to_manifest"].replace("|", "/"), m["detected_by"].replace("|", "/")))
