#!/bin/bash
# usage: tools/with_seed.sh <patch.diff> <PID> [tier]   — run one check against a seeded change WITHOUT touching /repo:
# the change is applied in a scratch worktree of /repo's HEAD and the check reads rockit from there (VERIF_REPO).
# Evidence of such runs goes to a scratch directory so that committed evidence always comes from the clean tree.
patch=$(readlink -f "$1"); pid=$2; tier=${3:-quick}
cd "$(dirname "$0")/.."
wt=/tmp/wt_seedtest_$$
git -C /repo worktree add -q --detach $wt HEAD || exit 3
git -C $wt apply "$patch" || { echo "patch does not apply"; git -C /repo worktree remove --force $wt; exit 3; }
VERIF_REPO=$wt VERIF_EVIDENCE_DIR=/var/tmp/verif-seed-evidence-$$ ./check $pid --tier $tier 2>&1 | grep -v "WARNING\|^$" | tail -4
rc=${PIPESTATUS[0]}
git -C /repo worktree remove --force $wt
rm -rf /var/tmp/verif-seed-evidence-$$
python3 tools/extract.py > /dev/null   # regenerate the tables from /repo again
exit $rc
