#!/bin/bash
# usage: tools/with_seed.sh <patch.diff> <PID> [tier]   — apply a seeded change to /repo, run one check, undo.
# Evidence of such runs goes to a scratch directory so that committed evidence always comes from the clean tree.
patch=$1; pid=$2; tier=${3:-quick}
cd "$(dirname "$0")/.."
git -C /repo apply "$patch" || { echo "patch does not apply"; exit 3; }
VERIF_EVIDENCE_DIR=/var/tmp/verif-seed-evidence ./check $pid --tier $tier | tail -4
rc=${PIPESTATUS[0]}
git -C /repo checkout -- .
rm -rf /var/tmp/verif-seed-evidence
git -C /repo status --short | grep -v '^??'
exit $rc
