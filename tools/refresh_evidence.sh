#!/bin/bash
# run every claimed check (quick) on the clean tree, in parallel, and report; commit evidence afterwards
cd "$(dirname "$0")/.."
if [ -n "$(git -C /repo status --short | grep -v '^??')" ]; then echo "/repo is dirty"; exit 3; fi
ids=$(python3 -c "import json;print(' '.join(c['property_id'] for c in json.load(open('MANIFEST.json'))['checks']))")
mkdir -p /var/tmp/verif-refresh
for p in $ids; do ( VERIF_SEED=${VERIF_SEED:-0} ./check $p --tier quick > /var/tmp/verif-refresh/$p.out 2>&1; echo "$p exit=$?" >> /var/tmp/verif-refresh/summary.$$ ) & done
wait
sort /var/tmp/verif-refresh/summary.$$; rm -f /var/tmp/verif-refresh/summary.$$
grep -h "VIOLATION\|KNOWN-FINDING\|INFRA" /var/tmp/verif-refresh/*.out
