#!/bin/bash
# usage: tools/sweep.sh <tier> <seed>...   — every claimed check at that tier for each seed (4 checks at a time), summary at the end.
# Meant for `vp run`: works from a snapshot (builds the Lean library there first); evidence goes to a scratch directory.
tier=$1; shift
cd "$(dirname "$0")/.."
bash tools/setup.sh > /dev/null 2>&1
ids=$(python3 -c "import json;print(' '.join(c['property_id'] for c in json.load(open('MANIFEST.json'))['checks']))")
out=sweep-out; mkdir -p $out
export VERIF_EVIDENCE_DIR=$PWD/$out/evidence
for seed in "$@"; do
  for p in $ids; do
    echo "$p $seed"
  done
done | xargs -P 5 -L 1 bash -c 'VERIF_SEED=$1 ./check $0 --tier '"$tier"' > '"$out"'/$0-$1.out 2>&1; echo "$0 seed=$1 exit=$?"' | tee $out/summary.txt
echo "=== non-zero exits ==="; grep -v "exit=0" $out/summary.txt
echo "=== violation / infrastructure lines ==="; grep -h "VIOLATION\|INFRASTRUCTURE" $out/*.out | cut -c1-300
