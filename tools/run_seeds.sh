#!/bin/bash
# re-run every kept seeded change against its property's quick check (serially: the generated tables are shared)
# usage: tools/run_seeds.sh [id ...]   (default: all of seeded/)
cd "$(dirname "$0")/.."
ids="$@"; [ -z "$ids" ] && ids=$(ls seeded)
for id in $ids; do d=seeded/$id; pid=${id%_*}
  patch=$PWD/$d/patch.diff
  git -C /repo apply --check $patch 2>/dev/null || patch=$PWD/$d/patch_on_fixed_tree.diff   # the same change rebased on the fix commits
  if [ -f $patch ] && git -C /repo apply --check $patch 2>/dev/null; then
    r=$(bash tools/with_seed.sh $patch $pid quick 2>&1 | grep -c "^VIOLATION")
    echo "$id $pid violations=$r"
  else echo "$id patch-does-not-apply"; fi
done
