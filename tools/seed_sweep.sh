#!/bin/bash
# usage: tools/seed_sweep.sh <VERIF_SEED>...  — every kept seeded change against its property's quick check, once per PRNG seed
# (meant for `vp run`: builds the Lean library in the snapshot first). A seeded change that is caught with one PRNG seed and
# missed with another is caught by luck: the dimension it needs must be stratified.
cd "$(dirname "$0")/.."
bash tools/setup.sh > /dev/null 2>&1
for s in "$@"; do
  echo "=== VERIF_SEED=$s"
  VERIF_SEED=$s bash tools/run_seeds.sh | tee seed-sweep-$s.txt
  echo "missed with VERIF_SEED=$s: $(grep -c 'violations=0' seed-sweep-$s.txt)"
done
