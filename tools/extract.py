#!/usr/bin/env python3
"""Translator: regenerate lean/RockitModel/Generated/*.lean from /repo/rockit/*.py (Python ast).

Invalidation.lean — for every public method of Stage and Ocp:
   clears  : its body (closed over calls to other methods of the class hierarchy through `self.`) calls
             `self._set_transcribed(False)` or `self._untranscribe()`
   live    : it tests `self.master.is_transcribed` and forwards to the live method object
   stores  : the specification attributes it assigns in EVERY branch (for `live` methods: also in the live branch)
   query   : decorated with @transcribed
   writes  : specification attributes it assigns (self._X = …, self._X[…] = …, self._X.append(…), self._method.solver(…))
Unrecognised shapes are emitted as such; theorems over the table demand specific shapes, so an
unrecognised shape breaks the proof obligation instead of being guessed at.
"""
import ast
import os
import sys

REPO = os.environ.get("VERIF_REPO", "/repo")
ROOT = os.path.dirname(os.path.dirname(os.path.abspath(__file__)))
OUT = os.path.join(ROOT, "lean", "RockitModel", "Generated")

SPEC_ATTRS = ["_T", "_t0", "_constraints", "_objective", "_method", "_state_der", "_state_next", "_alg", "_initial",
              "_param_vals", "_stages", "states", "qstates", "controls", "algebraics", "parameters", "variables", "_scale", "_scale_der"]


def self_attr(node):
    """self.<attr> (possibly subscripted / nested) -> attr name"""
    while isinstance(node, ast.Subscript):
        node = node.value
    if isinstance(node, ast.Attribute) and isinstance(node.value, ast.Name) and node.value.id == "self":
        return node.attr
    return None


class MethodInfo:
    def __init__(self, cls, fn):
        self.cls = cls
        self.name = fn.name
        self.line = fn.lineno
        self.query = any((isinstance(d, ast.Name) and d.id == "transcribed") for d in fn.decorator_list)
        self.is_property = any((isinstance(d, ast.Name) and d.id == "property") for d in fn.decorator_list)
        self.calls = set()
        self.clears_direct = False
        self.live = False
        self.writes = set()
        self.live_stores = set()
        self.stores_always = set()
        self._scan_always(fn)
        for node in ast.walk(fn):
            if isinstance(node, ast.Call):
                f = node.func
                if isinstance(f, ast.Attribute):
                    if isinstance(f.value, ast.Name) and f.value.id == "self":
                        if f.attr == "_set_transcribed" and node.args and isinstance(node.args[0], ast.Constant) and node.args[0].value is False:
                            self.clears_direct = True
                        elif f.attr == "_untranscribe":
                            self.clears_direct = True
                        else:
                            self.calls.add(f.attr)
                    a = self_attr(f.value)
                    if a in SPEC_ATTRS and f.attr in ("append", "extend", "move_to_end", "clear"):
                        self.writes.add(a)
                    if a == "_method" and f.attr in ("solver", "callback"):
                        self.writes.add("_method." + f.attr)
            elif isinstance(node, (ast.Assign, ast.AugAssign)):
                targets = node.targets if isinstance(node, ast.Assign) else [node.target]
                for t in targets:
                    a = self_attr(t)
                    if a in SPEC_ATTRS:
                        self.writes.add(a)
            elif isinstance(node, ast.If):
                src = ast.unparse(node.test)
                if "is_transcribed" in src and "master" in src:
                    self.live = True
                    # attributes stored inside the live branch (the `if` body)
                    for sub in node.body:
                        for n2 in ast.walk(sub):
                            if isinstance(n2, (ast.Assign, ast.AugAssign)):
                                ts = n2.targets if isinstance(n2, ast.Assign) else [n2.target]
                                for t in ts:
                                    a = self_attr(t)
                                    if a in SPEC_ATTRS:
                                        self.live_stores.add(a)


def _assigned(nodes):
    out = set()
    for sub in nodes:
        for n2 in ast.walk(sub):
            if isinstance(n2, (ast.Assign, ast.AugAssign)):
                ts = n2.targets if isinstance(n2, ast.Assign) else [n2.target]
                for t in ts:
                    a = self_attr(t)
                    if a in SPEC_ATTRS:
                        out.add(a)
    return out


def _scan_always(self, fn):
    """attributes assigned whatever the transcribed flag says: outside every `if …is_transcribed`, or in both of its branches"""
    always = set()
    for stmt in fn.body:
        if isinstance(stmt, ast.If) and "is_transcribed" in ast.unparse(stmt.test):
            always |= (_assigned(stmt.body) & _assigned(stmt.orelse))
        else:
            always |= _assigned([stmt])
    self.stores_always = always


MethodInfo._scan_always = _scan_always


def collect():
    infos = {}
    order = []
    for fname, clsname in (("stage.py", "Stage"), ("ocp.py", "Ocp")):
        tree = ast.parse(open(os.path.join(REPO, "rockit", fname)).read())
        for node in tree.body:
            if isinstance(node, ast.ClassDef) and node.name == clsname:
                for fn in node.body:
                    if isinstance(fn, ast.FunctionDef):
                        mi = MethodInfo(clsname, fn)
                        infos[(clsname, fn.name)] = mi
                        order.append((clsname, fn.name))
    # Ocp inherits Stage: resolve self.<m> in the class, then in Stage
    def resolve(cls, name):
        if (cls, name) in infos:
            return infos[(cls, name)]
        if cls == "Ocp" and ("Stage", name) in infos:
            return infos[("Stage", name)]
        return None

    def closure(mi, seen=None):
        seen = seen or set()
        if (mi.cls, mi.name) in seen:
            return False, set()
        seen.add((mi.cls, mi.name))
        clears, writes = mi.clears_direct, set(mi.writes)
        for c in mi.calls:
            t = resolve(mi.cls, c)
            if t is not None:
                c2, w2 = closure(t, seen)
                clears = clears or c2
                writes |= w2
        return clears, writes
    rows = []
    for key in order:
        mi = infos[key]
        if mi.name.startswith("_") or mi.is_property:
            continue
        clears, writes = closure(mi)
        rows.append((mi, clears, sorted(writes)))
    return rows


def lean_str_list(xs):
    return "[" + ", ".join('"%s"' % x for x in xs) + "]"


def main():
    os.makedirs(OUT, exist_ok=True)
    rows = collect()
    L = ["/-! GENERATED by tools/extract.py from rockit/stage.py and rockit/ocp.py — do not edit. -/",
         "namespace Rockit.Generated", "",
         "structure OpInfo where", "  cls : String", "  name : String", "  clears : Bool", "  live : Bool",
         "  query : Bool", "  writes : List String", "  storesAlways : List String", "deriving Repr, DecidableEq", "",
         "def invalidation : List OpInfo := ["]
    items = []
    for mi, clears, writes in rows:
        items.append('  { cls := "%s", name := "%s", clears := %s, live := %s, query := %s, writes := %s, storesAlways := %s }  -- %s:%d' % (
            mi.cls, mi.name, str(clears).lower(), str(mi.live).lower(), str(mi.query).lower(), lean_str_list(writes),
            lean_str_list(sorted(mi.stores_always)), "stage.py" if mi.cls == "Stage" else "ocp.py", mi.line))
    # commas: Lean list literal with trailing comments
    for i, it in enumerate(items):
        code, _, comment = it.partition("  -- ")
        L.append(code + ("," if i < len(items) - 1 else "") + "  -- " + comment)
    L += ["]", "", "end Rockit.Generated", ""]
    path = os.path.join(OUT, "Invalidation.lean")
    new = "\n".join(L)
    if not os.path.exists(path) or open(path).read() != new:
        open(path, "w").write(new)
    return rows


if __name__ == "__main__":
    for mi, clears, writes in main():
        print("%-6s %-22s clears=%-5s live=%-5s query=%-5s writes=%s storesAlways=%s" % (mi.cls, mi.name, clears, mi.live, mi.query, writes, sorted(mi.stores_always)))
