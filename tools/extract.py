#!/usr/bin/env python3
"""Translator: regenerate lean/RockitModel/Generated/*.lean from /repo/rockit/*.py (Python ast).

Invalidation.lean — for every public method of Stage and Ocp:
   clears  : its body (closed over calls to other methods of the class hierarchy through `self.`) calls
             `self._set_transcribed(False)` or `self._untranscribe()`
   live    : it tests `self.master.is_transcribed` and forwards to the live method object
   stores  : the specification attributes it assigns in EVERY branch (for `live` methods: also in the live branch)
   query   : decorated with @transcribed
   writes  : specification attributes it assigns (self._X = …, self._X[…] = …, self._X.append(…), self._method.solver(…))
Unrecognised shapes are emitted as such; theorems over the table demand specific shapes, so an
unrecognised shape breaks the proof obligation instead of being guessed at.
"""
import ast
import os
import sys

REPO = os.environ.get("VERIF_REPO", "/repo")
ROOT = os.path.dirname(os.path.dirname(os.path.abspath(__file__)))
OUT = os.path.join(ROOT, "lean", "RockitModel", "Generated")

SPEC_ATTRS = ["_T", "_t0", "_constraints", "_objective", "_method", "_state_der", "_state_next", "_alg", "_initial",
              "_param_vals", "_stages", "states", "qstates", "controls", "algebraics", "parameters", "variables", "_scale", "_scale_der"]


def self_attr(node):
    """self.<attr> (possibly subscripted / nested) -> attr name"""
    while isinstance(node, ast.Subscript):
        node = node.value
    if isinstance(node, ast.Attribute) and isinstance(node.value, ast.Name) and node.value.id == "self":
        return node.attr
    return None


class MethodInfo:
    def __init__(self, cls, fn):
        self.cls = cls
        self.name = fn.name
        self.line = fn.lineno
        self.query = any((isinstance(d, ast.Name) and d.id == "transcribed") for d in fn.decorator_list)
        self.is_property = any((isinstance(d, ast.Name) and d.id == "property") for d in fn.decorator_list)
        self.calls = set()
        self.clears_direct = False
        self.live = False
        self.writes = set()
        self.live_stores = set()
        self.stores_always = set()
        self._scan_always(fn)
        for node in ast.walk(fn):
            if isinstance(node, ast.Call):
                f = node.func
                if isinstance(f, ast.Attribute):
                    if isinstance(f.value, ast.Name) and f.value.id == "self":
                        if f.attr == "_set_transcribed" and node.args and isinstance(node.args[0], ast.Constant) and node.args[0].value is False:
                            self.clears_direct = True
                        elif f.attr == "_untranscribe":
                            self.clears_direct = True
                        else:
                            self.calls.add(f.attr)
                    a = self_attr(f.value)
                    if a in SPEC_ATTRS and f.attr in ("append", "extend", "move_to_end", "clear"):
                        self.writes.add(a)
                    if a == "_method" and f.attr in ("solver", "callback"):
                        self.writes.add("_method." + f.attr)
            elif isinstance(node, (ast.Assign, ast.AugAssign)):
                targets = node.targets if isinstance(node, ast.Assign) else [node.target]
                for t in targets:
                    a = self_attr(t)
                    if a in SPEC_ATTRS:
                        self.writes.add(a)
            elif isinstance(node, ast.If):
                src = ast.unparse(node.test)
                if "is_transcribed" in src and "master" in src:
                    self.live = True
                    # attributes stored inside the live branch (the `if` body)
                    for sub in node.body:
                        for n2 in ast.walk(sub):
                            if isinstance(n2, (ast.Assign, ast.AugAssign)):
                                ts = n2.targets if isinstance(n2, ast.Assign) else [n2.target]
                                for t in ts:
                                    a = self_attr(t)
                                    if a in SPEC_ATTRS:
                                        self.live_stores.add(a)


def _assigned(nodes):
    out = set()
    for sub in nodes:
        for n2 in ast.walk(sub):
            if isinstance(n2, (ast.Assign, ast.AugAssign)):
                ts = n2.targets if isinstance(n2, ast.Assign) else [n2.target]
                for t in ts:
                    a = self_attr(t)
                    if a in SPEC_ATTRS:
                        out.add(a)
    return out


def _scan_always(self, fn):
    """attributes assigned whatever the transcribed flag says: outside every `if …is_transcribed`, or in both of its branches"""
    always = set()
    for stmt in fn.body:
        if isinstance(stmt, ast.If) and "is_transcribed" in ast.unparse(stmt.test):
            always |= (_assigned(stmt.body) & _assigned(stmt.orelse))
        else:
            always |= _assigned([stmt])
    self.stores_always = always


MethodInfo._scan_always = _scan_always


def collect():
    infos = {}
    order = []
    for fname, clsname in (("stage.py", "Stage"), ("ocp.py", "Ocp")):
        tree = ast.parse(open(os.path.join(REPO, "rockit", fname)).read())
        for node in tree.body:
            if isinstance(node, ast.ClassDef) and node.name == clsname:
                for fn in node.body:
                    if isinstance(fn, ast.FunctionDef):
                        mi = MethodInfo(clsname, fn)
                        infos[(clsname, fn.name)] = mi
                        order.append((clsname, fn.name))
    # Ocp inherits Stage: resolve self.<m> in the class, then in Stage
    def resolve(cls, name):
        if (cls, name) in infos:
            return infos[(cls, name)]
        if cls == "Ocp" and ("Stage", name) in infos:
            return infos[("Stage", name)]
        return None

    def closure(mi, seen=None):
        seen = seen or set()
        if (mi.cls, mi.name) in seen:
            return False, set()
        seen.add((mi.cls, mi.name))
        clears, writes = mi.clears_direct, set(mi.writes)
        for c in mi.calls:
            t = resolve(mi.cls, c)
            if t is not None:
                c2, w2 = closure(t, seen)
                clears = clears or c2
                writes |= w2
        return clears, writes
    rows = []
    for key in order:
        mi = infos[key]
        if mi.name.startswith("_") or mi.is_property:
            continue
        clears, writes = closure(mi)
        rows.append((mi, clears, sorted(writes)))
    return rows


def lean_str_list(xs):
    return "[" + ", ".join('"%s"' % x for x in xs) + "]"


def main():
    os.makedirs(OUT, exist_ok=True)
    rows = collect()
    L = ["/-! GENERATED by tools/extract.py from rockit/stage.py and rockit/ocp.py — do not edit. -/",
         "namespace Rockit.Generated", "",
         "structure OpInfo where", "  cls : String", "  name : String", "  clears : Bool", "  live : Bool",
         "  query : Bool", "  writes : List String", "  storesAlways : List String", "deriving Repr, DecidableEq", "",
         "def invalidation : List OpInfo := ["]
    items = []
    for mi, clears, writes in rows:
        items.append('  { cls := "%s", name := "%s", clears := %s, live := %s, query := %s, writes := %s, storesAlways := %s }  -- %s:%d' % (
            mi.cls, mi.name, str(clears).lower(), str(mi.live).lower(), str(mi.query).lower(), lean_str_list(writes),
            lean_str_list(sorted(mi.stores_always)), "stage.py" if mi.cls == "Stage" else "ocp.py", mi.line))
    # commas: Lean list literal with trailing comments
    for i, it in enumerate(items):
        code, _, comment = it.partition("  -- ")
        L.append(code + ("," if i < len(items) - 1 else "") + "  -- " + comment)
    L += ["]", "", "end Rockit.Generated", ""]
    path = os.path.join(OUT, "Invalidation.lean")
    new = "\n".join(L)
    if not os.path.exists(path) or open(path).read() != new:
        open(path, "w").write(new)
    return rows




# ------------------------------------------------------------------------------------------------
# Guards.lean — for every fault of the C20 catalogue: is the guarding raise/assert present in the
# function the property anchors (matched by enclosing function + the identifiers its condition tests)
GUARDS = [
    # (fault, file, class or None, function, kind, identifiers that must occur in the guard's condition / handler)
    ("missing_derivative", "stage.py", "Stage", "_ode", "raise_in_except", ["_state_der"]),
    ("missing_update_rule", "stage.py", "Stage", "_diffeq", "raise_in_except", ["_state_next"]),
    ("missing_parameter_value", "stage.py", "Stage", "_param_value", "raise_if", ["_param_vals"]),
    ("no_method", "direct_method.py", "DirectMethod", "transcribe", "raise_if", ["nx", "nu"]),
    ("no_solver", "direct_method.py", "DirectMethod", "main_transcribe", "raise_if", ["_solver", "None"]),
    ("signal_objective", "stage.py", "Stage", "add_objective", "assert", ["is_signal"]),
    ("nonscalar_objective", "stage.py", "Stage", "add_objective", "raise_if", ["is_scalar"]),
    ("set_value_nonparameter_declared", "stage.py", "Stage", "set_value", "raise_if", ["parameters"]),
    ("set_value_nonparameter_live", "sampling_method.py", "SamplingMethod", "set_value", "assert", ["found"]),
    ("set_initial_parameter", "stage.py", "Stage", "set_initial", "raise_if", ["parameters"]),
    ("set_initial_unknown_symbol", "stage.py", "Stage", "set_initial", "raise_if", ["_meta", "_placeholders"]),
    ("unknown_constraint_grid", "stage.py", "Stage", "subject_to", "raise_if", ["grid", "point", "control", "inf", "integrator"]),
    ("unknown_sample_grid", "stage.py", "Stage", "_sample", "raise_else", ["grid"]),
    ("constant_false_constraint", "direct_method.py", "OptiWrapper", "subject_to", "raise_if", ["is_constant"]),
    ("alg_with_rk", "sampling_method.py", "SamplingMethod", "intg_rk", "assert", ["Z", "is_empty"]),
    ("alg_with_expl_euler", "sampling_method.py", "SamplingMethod", "intg_expl_euler", "assert", ["Z", "is_empty"]),
    ("free_symbols_in_dynamics", "stage.py", "Stage", "_ode", "assert", ["has_free"]),
    ("free_symbols_in_integrator", "sampling_method.py", "SamplingMethod", "discrete_system", "raise_if", ["has_free"]),
    ("roots_constraint_under_multiple_shooting", "multiple_shooting.py", "MultipleShooting", "add_constraints", "raise_if", ["integrator_roots"]),
    ("roots_constraint_under_single_shooting", "single_shooting.py", "SingleShooting", "add_constraints", "raise_if", ["integrator_roots"]),
    ("spline_time_varying_or_nonlinear", "spline_method.py", "SplineMethod", None, "raise_any", ["linear"]),
    # the right-hand side itself (not only its Jacobians) must be free of time: an added term w(t) would be dropped silently
    ("spline_time_dependence", "spline_method.py", "SplineMethod", "transcribe_start", "assert", ["sparsity_in", "nnz"]),
    ("inf_unsupported_operation", "casadi_helpers.py", None, "reinterpret_expr", "raise_any", ["not supported"]),
]


def _find_function(tree, cls, fn):
    if cls is None:
        for node in tree.body:
            if isinstance(node, ast.FunctionDef) and node.name == fn:
                return node
        return None
    for node in tree.body:
        if isinstance(node, ast.ClassDef) and node.name == cls:
            if fn is None:
                return node
            for f in node.body:
                if isinstance(f, ast.FunctionDef) and f.name == fn:
                    return f
    return None


def _guard_present(fn, kind, idents):
    if fn is None:
        return False

    def has_all(src):
        return all(i in src for i in idents)
    for node in ast.walk(fn):
        if kind == "assert" and isinstance(node, ast.Assert) and has_all(ast.unparse(node.test)):
            return True
        if kind == "raise_if" and isinstance(node, ast.If) and has_all(ast.unparse(node.test)):
            if any(isinstance(n, ast.Raise) for sub in node.body for n in ast.walk(sub)):
                return True
        if kind == "raise_else" and isinstance(node, ast.If) and has_all(ast.unparse(node.test)):
            # an if/elif chain whose final else raises
            cur = node
            while cur.orelse and len(cur.orelse) == 1 and isinstance(cur.orelse[0], ast.If):
                cur = cur.orelse[0]
            if any(isinstance(n, ast.Raise) for sub in cur.orelse for n in ast.walk(sub)):
                return True
        if kind == "raise_in_except" and isinstance(node, ast.Try):
            body_src = " ".join(ast.unparse(s) for s in node.body)
            if has_all(body_src) and any(isinstance(n, ast.Raise) for h in node.handlers for sub in h.body for n in ast.walk(sub)):
                return True
        if kind == "raise_any" and isinstance(node, ast.Raise):
            src = ast.unparse(node)
            if any(i in src.lower() for i in idents):
                return True
    return False


def guards():
    rows = []
    cache = {}
    for fault, fname, cls, fn, kind, idents in GUARDS:
        path = os.path.join(REPO, "rockit", fname)
        if path not in cache:
            cache[path] = ast.parse(open(path).read())
        f = _find_function(cache[path], cls, fn)
        rows.append((fault, fname, cls, fn, _guard_present(f, kind, idents), getattr(f, "lineno", 0)))
    L = ["/-! GENERATED by tools/extract.py from /repo/rockit — do not edit. -/", "namespace Rockit.Generated", "",
         "/-- (fault of the C20 catalogue, guarding raise/assert present in its anchor function) -/",
         "def guards : List (String × Bool) := ["]
    for i, (fault, fname, cls, fn, ok, line) in enumerate(rows):
        L.append('  ("%s", %s)%s  -- %s:%s.%s line %d' % (fault, str(ok).lower(), "," if i < len(rows) - 1 else "", fname, cls, fn, line))
    L += ["]", "", "end Rockit.Generated", ""]
    path = os.path.join(OUT, "Guards.lean")
    new = "\n".join(L)
    if not os.path.exists(path) or open(path).read() != new:
        open(path, "w").write(new)
    return rows



# ---------------------------------------------------------------------------------------------
# C15: the time scale, the derivative scale and the power->Bernstein matrix of add_inf_constraints
def _norm(src):
    return src.replace(" ", "")


PER_STEP = "(self.control_grid[k+1]-self.control_grid[k])/self.M"
UNIFORM_STEP = "self.T/self.N/self.M"


def _classify_scale(node):
    if node is None:
        return "other"
    src = _norm(ast.unparse(node))
    if src == PER_STEP:
        return "perStep"
    if src == UNIFORM_STEP:
        return "uniformStep"
    return "other"


def infcert():
    path = os.path.join(REPO, "rockit", "sampling_method.py")
    tree = ast.parse(open(path).read())
    fn = _find_function(tree, "SamplingMethod", "add_inf_constraints")
    assigns = {}
    matrix = None
    uses = {"tpower_uses_tscale": False, "coeff_scaled_by_tpower": False, "der_divided_by_dt": False,
            "matrix_applied_to_coeff": False, "placed_at_control_k": False}
    if fn is not None:
        for node in ast.walk(fn):
            if isinstance(node, ast.Assign) and len(node.targets) == 1 and isinstance(node.targets[0], ast.Name):
                name = node.targets[0].id
                assigns.setdefault(name, []).append(node.value)
                src = _norm(ast.unparse(node.value))
                if name == "tpower" and src == "vcat([tscale**iforiinrange(degree+1)])":
                    uses["tpower_uses_tscale"] = True
                if name == "coeff" and src == "coeff*repmat(tpower.T,stage.nx,1)":
                    uses["coeff_scaled_by_tpower"] = True
                if name == "state_coeff" and src == "mtimes(Poly_to_Bernstein_matrix_4,coeff.T)":
                    uses["matrix_applied_to_coeff"] = True
                if name == "Poly_to_Bernstein_matrix_4":
                    try:
                        call = node.value
                        lit = call.args[0]
                        matrix = [[_const_fraction(e) for e in row.elts] for row in lit.elts]
                    except Exception:
                        matrix = None
            if isinstance(node, ast.AugAssign) and isinstance(node.target, ast.Name) and node.target.id == "subst_to":
                if _norm(ast.unparse(node.value)) == "[lookup[e].derivative()*(1/dt)foreinstage._inf_der.values()]":
                    uses["der_divided_by_dt"] = True
            if isinstance(node, ast.Call) and _norm(ast.unparse(node)) == "opti.subject_to(self.eval_at_control(stage,c_spline,k),meta=meta)":
                uses["placed_at_control_k"] = True
    tscale = _classify_scale(assigns.get("tscale", [None])[-1]) if len(assigns.get("tscale", [])) == 1 else "other"
    dt = _classify_scale(assigns.get("dt", [None])[-1]) if len(assigns.get("dt", [])) == 1 else "other"
    L = ["/-! GENERATED by tools/extract.py from /repo/rockit/sampling_method.py (SamplingMethod.add_inf_constraints, line %d) — do not edit. -/" % (getattr(fn, "lineno", 0)),
         "namespace Rockit.Generated", "",
         "inductive ScaleKind where", "  /-- `(control_grid[k+1]-control_grid[k])/M`: the length of the integrator step -/", "  | perStep",
         "  /-- `T/N/M`: the average step (equal to the step only on uniform grids) -/", "  | uniformStep", "  | other",
         "deriving DecidableEq, Repr", "",
         "/-- the `tscale` the state polynomial's argument is multiplied by -/", "def infTscale : ScaleKind := .%s" % tscale, "",
         "/-- the `dt` an `inf_der` operand's derivative is divided by -/", "def infDerDt : ScaleKind := .%s" % dt, "",
         "/-- the steps of `add_inf_constraints` that use them, each in the expected shape -/"]
    for k, v in uses.items():
        L.append("def %s : Bool := %s" % (_camel(k), str(v).lower()))
    L += ["", "/-- the literal `Poly_to_Bernstein_matrix_4` as `(numerator, denominator)` pairs (exact rational value of each literal expression) -/",
          "def polyToBernstein4 : List (List (Int × Nat)) := ["]
    if matrix is None:
        L.append("]")
    else:
        for i, row in enumerate(matrix):
            L.append("  [" + ", ".join("(%d, %d)" % (f.numerator, f.denominator) for f in row) + "]" + ("," if i < len(matrix) - 1 else ""))
        L.append("]")
    L += ["", "end Rockit.Generated", ""]
    path = os.path.join(OUT, "InfCert.lean")
    new_src = "\n".join(L)
    if not os.path.exists(path) or open(path).read() != new_src:
        open(path, "w").write(new_src)
    return tscale, dt, uses, matrix


def _camel(s):
    parts = s.split("_")
    return "inf" + "".join(p.capitalize() for p in parts)


def _const_fraction(node):
    """exact rational value of a numeric literal expression such as `1.0/4` (decimal literals read exactly;
    the rounding of the quotient to a double is floating point, which the model does not describe)"""
    from fractions import Fraction
    if isinstance(node, ast.Constant) and isinstance(node.value, (int, float)):
        return Fraction(repr(node.value))
    if isinstance(node, ast.UnaryOp) and isinstance(node.op, ast.USub):
        return -_const_fraction(node.operand)
    if isinstance(node, ast.BinOp):
        a, b = _const_fraction(node.left), _const_fraction(node.right)
        if isinstance(node.op, ast.Div):
            return a / b
        if isinstance(node.op, ast.Mult):
            return a * b
        if isinstance(node.op, ast.Add):
            return a + b
        if isinstance(node.op, ast.Sub):
            return a - b
    raise ValueError("not a numeric literal expression")



# ---------------------------------------------------------------------------------------------
# C12: what Stage.clone does with every container of a stage
CLONE_CONTAINERS = ["states", "qstates", "controls", "algebraics", "parameters", "variables", "_state_der", "_state_next", "_alg",
                    "_constraints", "_objective", "_initial", "_placeholders", "_param_vals", "_scale_der", "_offsets", "_method", "_T", "_t0"]
# containers whose values are expressions that may mention the template's time placeholders (t, T, t0, …)
CLONE_MUST_SUBSTITUTE = ["_state_der", "_state_next", "_alg", "_constraints", "_objective", "_initial", "_placeholders", "_initial.values"]
# containers of containers: a shallow copy would share the inner lists between template and clones
CLONE_MUST_DEEPCOPY = ["parameters", "variables", "_method"]
# tables an instance writes to through its own set_value / set_der(scale=) / set_initial: sharing them by reference would make the
# instances of one template (and the template) overwrite each other
CLONE_MUST_NOT_SHARE = ["_param_vals", "_scale_der", "_initial", "_state_der", "_state_next", "_alg", "_constraints", "_offsets",
                        "states", "qstates", "controls", "algebraics"]


def clonetable():
    """container -> (how ret.<container> is produced, do its expressions go through substitute(…, subst_from, subst_to))"""
    path = os.path.join(REPO, "rockit", "stage.py")
    tree = ast.parse(open(path).read())
    fn = _find_function(tree, "Stage", "clone")
    kinds = {c: "missing" for c in CLONE_CONTAINERS}
    subst = {c: False for c in CLONE_CONTAINERS}
    if fn is None:
        return {c: (kinds[c], subst[c]) for c in CLONE_CONTAINERS}
    # local helper functions that call substitute(… subst_from, subst_to)
    helpers = set()
    for node in ast.walk(fn):
        if isinstance(node, ast.FunctionDef) and node is not fn:
            if any(isinstance(n, ast.Call) and isinstance(n.func, ast.Name) and n.func.id == "substitute" for n in ast.walk(node)):
                helpers.add(node.name)
    # names of local lists that are passed to substitute / a helper
    fed = set()
    for node in ast.walk(fn):
        if isinstance(node, ast.Call) and isinstance(node.func, ast.Name) and (node.func.id == "substitute" or node.func.id in helpers):
            for a in node.args[:1]:
                for n in ast.walk(a):
                    if isinstance(n, ast.Name):
                        fed.add(n.id)
                    at = self_attr(n) if isinstance(n, (ast.Attribute, ast.Subscript)) else None
                    if at in subst:
                        subst[at] = True
    # containers that feed those local lists (orig = [...]; orig.extend(...); orig.append(...); for … in self._X …: orig…)
    for node in ast.walk(fn):
        tgt = None
        val = None
        if isinstance(node, ast.Assign) and len(node.targets) == 1 and isinstance(node.targets[0], ast.Name):
            tgt, val = node.targets[0].id, node.value
        elif isinstance(node, ast.Expr) and isinstance(node.value, ast.Call) and isinstance(node.value.func, ast.Attribute) \
                and isinstance(node.value.func.value, ast.Name) and node.value.func.attr in ("extend", "append"):
            tgt, val = node.value.func.value.id, node.value
        if tgt in fed and val is not None:
            for n in ast.walk(val):
                at = self_attr(n) if isinstance(n, (ast.Attribute, ast.Subscript)) else None
                if at in subst:
                    subst[at] = True
    # placeholders: renewed in the loop over self._placeholders; substituted if a helper/substitute is applied to their expression
    for node in ast.walk(fn):
        if isinstance(node, ast.For) and "_placeholders" in ast.unparse(node.iter) or (isinstance(node, ast.For) and "subst_from" in ast.unparse(node.iter)):
            body_src = " ".join(ast.unparse(b) for b in node.body)
            if "ret._placeholders[" in body_src:
                kinds["_placeholders"] = "renewed"
                if any(isinstance(n, ast.Call) and isinstance(n.func, ast.Name) and (n.func.id == "substitute" or n.func.id in helpers)
                       for b in node.body for n in ast.walk(b)):
                    subst["_placeholders"] = True
    for node in ast.walk(fn):
        if isinstance(node, ast.Assign) and len(node.targets) == 1:
            t = node.targets[0]
            if isinstance(t, ast.Attribute) and isinstance(t.value, ast.Name) and t.value.id == "ret" and t.attr in kinds:
                v = node.value
                src = _norm(ast.unparse(v))
                if src == "copy(self.%s)" % t.attr:
                    kind = "copy"
                elif src == "deepcopy(self.%s)" % t.attr:
                    kind = "deepcopy"
                elif src == "self.%s" % t.attr:
                    kind = "shared"
                else:
                    kind = "built"
                    # built from self.<attr> through a substituting helper?
                    for n in ast.walk(v):
                        if isinstance(n, ast.Call) and isinstance(n.func, ast.Name) and (n.func.id == "substitute" or n.func.id in helpers):
                            subst[t.attr] = True
                if kinds[t.attr] in ("missing",) or t.attr not in ("_T", "_t0", "_method"):
                    kinds[t.attr] = kind
                elif t.attr == "_method" and kinds[t.attr] == "missing":
                    kinds[t.attr] = kind
    tab = {c: (kinds[c], subst[c]) for c in CLONE_CONTAINERS}
    # the VALUES of the guess map (a guess may be an expression of the template's time): raw `self._initial.values()` handed to the clone's
    # map, or passed through the substitution first?
    raw = False
    renewed = False
    for node in ast.walk(fn):
        if isinstance(node, ast.Assign) and len(node.targets) == 1:
            src = _norm(ast.unparse(node.value))
            t = node.targets[0]
            is_ret_initial = isinstance(t, ast.Attribute) and isinstance(t.value, ast.Name) and t.value.id == "ret" and t.attr == "_initial"
            if "self._initial.values()" in src:
                uses_helper = any(isinstance(n, ast.Call) and isinstance(n.func, ast.Name) and (n.func.id == "substitute" or n.func.id in helpers)
                                  for n in ast.walk(node.value))
                if is_ret_initial and not uses_helper:
                    raw = True
                if uses_helper:
                    renewed = True
    tab["_initial.values"] = ("built" if kinds.get("_initial") != "missing" else "missing", renewed and not raw)
    L = ["/-! GENERATED by tools/extract.py from /repo/rockit/stage.py (Stage.clone, line %d) — do not edit. -/" % getattr(fn, "lineno", 0),
         "namespace Rockit.Generated", "",
         "inductive CloneKind where", "  | copy | deepcopy | shared | built | renewed | missing", "deriving DecidableEq, Repr", "",
         "/-- (container of a stage, how `Stage.clone` produces the clone's, whether its expressions go through the placeholder substitution) -/",
         "def cloneTable : List (String × CloneKind × Bool) := ["]
    items = list(tab.items())
    for i, (c, (k, sb)) in enumerate(items):
        L.append('  ("%s", .%s, %s)%s' % (c, k, str(sb).lower(), "," if i < len(items) - 1 else ""))
    L += ["]", "", "/-- containers whose expressions may mention the template's time placeholders -/",
          "def cloneMustSubstitute : List String := " + lean_str_list(CLONE_MUST_SUBSTITUTE), "",
          "/-- containers of containers (a shallow copy shares the inner lists with the template) -/",
          "def cloneMustDeepcopy : List String := " + lean_str_list(CLONE_MUST_DEEPCOPY), "",
          "/-- tables and lists an instance writes to (set_value, set_der(scale=), set_initial, subject_to, state(), …): never shared by reference -/",
          "def cloneMustNotShare : List String := " + lean_str_list(CLONE_MUST_NOT_SHARE), "",
          "/-- the chain in `Stage.clone` that maps the template's time placeholders onto the instance's: (`self.X` tested, `ret.Y` appended) -/",
          "def cloneTimeSymbols : List (String × String) := [" + ", ".join('("%s", "%s")' % pr for pr in _clone_time_symbols()) + "]", "",
          "end Rockit.Generated", ""]
    path = os.path.join(OUT, "Clone.lean")
    new_src = "\n".join(L)
    if not os.path.exists(path) or open(path).read() != new_src:
        open(path, "w").write(new_src)
    return tab


def _clone_time_symbols():
    """[(X, Y)] for every branch `if/elif is_equal(k, self.X): subst_to.append(ret.Y)` of Stage.clone"""
    tree = ast.parse(open(os.path.join(REPO, "rockit", "stage.py")).read())
    fn = _find_function(tree, "Stage", "clone")
    out = []
    if fn is None:
        return out
    for n in ast.walk(fn):
        if not isinstance(n, ast.If):
            continue
        t = n.test
        if not (isinstance(t, ast.Call) and isinstance(t.func, ast.Name) and t.func.id == "is_equal" and len(t.args) == 2):
            continue
        a = t.args[1]
        if not (isinstance(a, ast.Attribute) and isinstance(a.value, ast.Name) and a.value.id == "self"):
            continue
        for st in n.body:
            c = st.value if isinstance(st, ast.Expr) else None
            if (isinstance(c, ast.Call) and isinstance(c.func, ast.Attribute) and c.func.attr == "append" and _norm(ast.unparse(c.func.value)) == "subst_to"
                    and len(c.args) == 1):
                out.append((a.attr, _norm(ast.unparse(c.args[0])).replace("ret.", "") if _norm(ast.unparse(c.args[0])).startswith("ret.") else _norm(ast.unparse(c.args[0]))))
    return out


def clone_requirement_ok(name, kind, sub):
    if kind == "missing":
        return False
    if name in CLONE_MUST_NOT_SHARE and kind == "shared":
        return False
    if name in CLONE_MUST_SUBSTITUTE and not sub:
        return False
    if name in CLONE_MUST_DEEPCOPY and kind != "deepcopy":
        return False
    return True



# ---------------------------------------------------------------------------------------------
# C04 / C06: per method class, which constraint-grid keys its add_constraints reads or rejects, and whether it adds the
# time-grid coupling rows; C13: where the transcribed flag is written and where it is read
METHOD_FILES = [("MultipleShooting", "multiple_shooting.py"), ("SingleShooting", "single_shooting.py"),
                ("DirectCollocation", "direct_collocation.py"), ("SplineMethod", "spline_method.py")]
GRID_KEYS = ["control", "integrator", "integrator_roots", "inf"]


def readstable():
    rows = []
    for cls, fname in METHOD_FILES:
        tree = ast.parse(open(os.path.join(REPO, "rockit", fname)).read())
        node = _find_function(tree, cls, None)
        reads, rejects = set(), set()
        coupling = False
        if node is not None:
            for n in ast.walk(node):
                # stage._constraints["key"] anywhere in the class
                if isinstance(n, ast.Subscript) and isinstance(n.value, ast.Attribute) and n.value.attr == "_constraints" \
                        and isinstance(n.slice, ast.Constant) and isinstance(n.slice.value, str):
                    reads.add(n.slice.value)
                if isinstance(n, ast.Call) and isinstance(n.func, ast.Attribute) and n.func.attr == "add_coupling_constraints":
                    coupling = True
                # `if stage._constraints["key"]: raise …`  and  `assert "key" not in stage._constraints`
                if isinstance(n, ast.If) and any(isinstance(m, ast.Raise) for b_ in n.body for m in ast.walk(b_)):
                    for m in ast.walk(n.test):
                        if isinstance(m, ast.Subscript) and isinstance(m.value, ast.Attribute) and m.value.attr == "_constraints" \
                                and isinstance(m.slice, ast.Constant):
                            rejects.add(m.slice.value)
                if isinstance(n, ast.Assert):
                    src = _norm(ast.unparse(n.test))
                    for key in GRID_KEYS:
                        if src in ("'%s'notinstage._constraints" % key, '"%s"notinstage._constraints' % key):
                            rejects.add(key)
        placed = {k for k in reads if k not in rejects}
        rows.append((cls, fname, sorted(placed), sorted(rejects), coupling))
    # the transcribed flag
    tree = ast.parse(open(os.path.join(REPO, "rockit", "stage.py")).read())
    wfn = _find_function(tree, "Stage", "_set_transcribed")
    rfn = _find_function(tree, "Stage", "_is_transcribed")
    written = sorted({_norm(ast.unparse(t)) for n in ast.walk(wfn) if isinstance(n, ast.Assign) for t in n.targets}) if wfn else []
    read = sorted({_norm(ast.unparse(n.value)) for n in ast.walk(rfn) if isinstance(n, ast.Return) and "_var_is_transcribed" in ast.unparse(n.value)}) if rfn else []
    L = ["/-! GENERATED by tools/extract.py from /repo/rockit/{multiple_shooting,single_shooting,direct_collocation,spline_method,stage}.py — do not edit. -/",
         "namespace Rockit.Generated", "",
         "structure MethodReads where", "  cls : String", "  placed : List String", "  rejected : List String", "  coupling : Bool",
         "deriving Repr, DecidableEq", "",
         "/-- per transcription method: the constraint-grid keys its `add_constraints` places, the ones it rejects (raise/assert), and whether it",
         "adds the time-grid coupling rows (`add_coupling_constraints`) -/",
         "def methodReads : List MethodReads := ["]
    for i, (cls, fname, placed, rejects, coupling) in enumerate(rows):
        L.append('  { cls := "%s", placed := %s, rejected := %s, coupling := %s }%s  -- %s' % (
            cls, lean_str_list(placed), lean_str_list(rejects), str(coupling).lower(), "," if i < len(rows) - 1 else "", fname))
    L += ["]", "", "/-- the grid keys `Stage.subject_to` accepts for path constraints -/",
          "def pathGridKeys : List String := " + lean_str_list(GRID_KEYS), "",
          "/-- where `Stage._set_transcribed` writes the flag and what `Stage._is_transcribed` returns for an original stage -/",
          "def flagWrittenTo : List String := " + lean_str_list(written),
          "def flagReadFrom : List String := " + lean_str_list(read), "", "end Rockit.Generated", ""]
    path = os.path.join(OUT, "Reads.lean")
    new_src = "\n".join(L)
    if not os.path.exists(path) or open(path).read() != new_src:
        open(path, "w").write(new_src)
    return rows, written, read



# ---------------------------------------------------------------------------------------------
# C01 / C03 / C05 / C08: the explicit one-step schemes as written in intg_rk / intg_expl_euler, as linear forms
# in {X, t0, k_i.ode, k_i.quad} whose coefficients are monomials  (num/den) * DT^a * DT_control^b
class _Form:
    """linear form: {atom: {(a, b): Fraction}} ; the atom '1' carries pure scalars"""
    def __init__(self, d=None):
        self.d = d or {}

    @staticmethod
    def atom(name):
        from fractions import Fraction
        return _Form({name: {(0, 0): Fraction(1)}})

    @staticmethod
    def scalar(c, a=0, b=0):
        from fractions import Fraction
        return _Form({'1': {(a, b): Fraction(c)}})

    def is_scalar(self):
        return set(self.d.keys()) <= {'1'}

    def monomial(self):
        """(coefficient, a, b) if the form is a single scalar monomial"""
        if not self.is_scalar() or len(self.d.get('1', {})) != 1:
            raise ValueError("not a scalar monomial")
        (ab, c), = self.d['1'].items()
        return c, ab[0], ab[1]

    def add(self, o, sign=1):
        out = {k: dict(v) for k, v in self.d.items()}
        for k, v in o.d.items():
            t = out.setdefault(k, {})
            for ab, c in v.items():
                t[ab] = t.get(ab, 0) + sign * c
                if t[ab] == 0:
                    del t[ab]
            if not t:
                del out[k]
        return _Form(out)

    def scale(self, c, a, b):
        return _Form({k: {(ab[0] + a, ab[1] + b): cc * c for ab, cc in v.items()} for k, v in self.d.items()})

    def mul(self, o):
        if self.is_scalar():
            s_, v_ = self, o
        elif o.is_scalar():
            s_, v_ = o, self
        else:
            raise ValueError("product of two vector forms")
        out = _Form()
        for ab, c in s_.d.get('1', {}).items():
            out = out.add(v_.scale(c, ab[0], ab[1]))
        return out

    def div(self, o):
        c, a, b = o.monomial()
        return self.scale(1 / c, -a, -b)

    def terms(self):
        out = []
        for k in sorted(self.d.keys()):
            for ab in sorted(self.d[k].keys()):
                c = self.d[k][ab]
                out.append((k, c.numerator, c.denominator, ab[0], ab[1]))
        return out


def _eval_form(node, env):
    from fractions import Fraction
    if isinstance(node, ast.Constant) and isinstance(node.value, (int, float)):
        return _Form.scalar(Fraction(repr(node.value)))
    if isinstance(node, ast.Name):
        if node.id == 'DT':
            return _Form.scalar(1, 1, 0)
        if node.id == 'DT_control':
            return _Form.scalar(1, 0, 1)
        if node.id in env:
            return env[node.id]
        return _Form.atom(node.id)
    if isinstance(node, ast.Subscript) and isinstance(node.value, ast.Name) and isinstance(node.slice, ast.Constant):
        return _Form.atom("%s.%s" % (node.value.id, node.slice.value))
    if isinstance(node, ast.UnaryOp) and isinstance(node.op, ast.USub):
        return _eval_form(node.operand, env).scale(-1, 0, 0)
    if isinstance(node, ast.BinOp):
        a, b = _eval_form(node.left, env), None
        if isinstance(node.op, ast.Pow):
            c, pa, pb = a.monomial()
            n = node.right.value
            return _Form.scalar(c ** n, pa * n, pb * n)
        b = _eval_form(node.right, env)
        if isinstance(node.op, ast.Add):
            return a.add(b)
        if isinstance(node.op, ast.Sub):
            return a.add(b, -1)
        if isinstance(node.op, ast.Mult):
            return a.mul(b)
        if isinstance(node.op, ast.Div):
            return a.div(b)
    raise ValueError("unsupported expression: " + ast.unparse(node))


def _scheme(fn):
    """walk the assignments of an intg_* function: stages (x and t argument of every call f(...)), dense coefficients, xf, qf"""
    env = {}
    stages = []
    coeff = coeffq = xf = qf = None
    for stmt in fn.body:
        if isinstance(stmt, ast.Assign) and len(stmt.targets) == 1 and isinstance(stmt.targets[0], ast.Name):
            name, v = stmt.targets[0].id, stmt.value
            if isinstance(v, ast.Call) and isinstance(v.func, ast.Name) and v.func.id == 'f':
                kw = {k.arg: k.value for k in v.keywords}
                stages.append((name, _eval_form(kw['x'], env).terms(), _eval_form(kw['t'], env).terms()))
            elif isinstance(v, ast.Call) and isinstance(v.func, ast.Name) and v.func.id == 'hcat':
                forms = [_eval_form(e, env).terms() for e in v.args[0].elts]
                if name == 'poly_coeff':
                    coeff = forms
                elif name == 'poly_coeff_q':
                    coeffq = forms
            elif isinstance(v, ast.Call) and isinstance(v.func, ast.Attribute) and v.func.attr == 'sym':
                continue
            else:
                try:
                    env[name] = _eval_form(v, env)
                    if name == 'poly_coeff_q':
                        coeffq = [env[name].terms()]
                except ValueError:
                    pass
        elif isinstance(stmt, ast.Return):
            outs = stmt.value.args[2].elts
            xf = _eval_form(outs[0], env).terms()
            qf = _eval_form(outs[2], env).terms()
    return stages, coeff, coeffq, xf, qf


def rktable():
    path = os.path.join(REPO, "rockit", "sampling_method.py")
    tree = ast.parse(open(path).read())

    def lean_terms(ts):
        return "[" + ", ".join('⟨"%s", %d, %d, %d, %d⟩' % t for t in ts) + "]"

    def lean_list(lst):
        return "[" + ", ".join(lean_terms(t) for t in lst) + "]"
    L = ["/-! GENERATED by tools/extract.py from /repo/rockit/sampling_method.py (intg_rk, intg_expl_euler) — do not edit. -/",
         "namespace Rockit.Generated", "",
         "/-- one term of a linear form: `(num/den) · DT^dt · DT_control^dtc · sym` -/",
         "structure Term where", "  sym : String", "  num : Int", "  den : Nat", "  dt : Int", "  dtc : Int", "deriving DecidableEq, Repr", ""]
    res = {}
    for fname, pre in (("intg_rk", "rk4"), ("intg_expl_euler", "euler")):
        fn = _find_function(tree, "SamplingMethod", fname)
        try:
            stages, coeff, coeffq, xf, qf = _scheme(fn)
            ok = True
        except Exception as ex:
            stages, coeff, coeffq, xf, qf, ok = [], None, None, None, None, False
        res[pre] = (stages, coeff, coeffq, xf, qf, ok)
        L.append("/-- %s (line %d): could every assignment be read as a linear form? -/" % (fname, getattr(fn, "lineno", 0)))
        L.append("def %sParsed : Bool := %s" % (pre, str(ok and xf is not None and qf is not None).lower()))
        L.append("/-- state argument of every call of the right-hand side, in order -/")
        L.append("def %sStageX : List (List Term) := %s" % (pre, lean_list([s_[1] for s_ in stages])))
        L.append("/-- time argument of every call -/")
        L.append("def %sStageT : List (List Term) := %s" % (pre, lean_list([s_[2] for s_ in stages])))
        L.append("def %sXf : List Term := %s" % (pre, lean_terms(xf or [])))
        L.append("def %sQf : List Term := %s" % (pre, lean_terms(qf or [])))
        L.append("/-- dense-output columns (`poly_coeff`, `poly_coeff_q`) -/")
        L.append("def %sCoeff : List (List Term) := %s" % (pre, lean_list(coeff or [])))
        L.append("def %sCoeffQ : List (List Term) := %s" % (pre, lean_list(coeffq or [])))
        L.append("")
    L += ["end Rockit.Generated", ""]
    path = os.path.join(OUT, "RK.lean")
    new_src = "\n".join(L)
    if not os.path.exists(path) or open(path).read() != new_src:
        open(path, "w").write(new_src)
    return res


_main_inval = main


# ---------------------------------------------------------------------------------------------
# C09 / C10 / C19: the glue that distributes a flattened value vector over the symbols of a concatenation
# (casadi_helpers.for_all_primitives) and that gives every algebraic symbol its rows of the stacked vector (get_ranges_dict):
# which size (a method call on the loop variable) is used for the slice / range and for the running offset
def _size_call(node, var):
    """`var.meth()` -> 'meth' ; anything else -> the unparsed source"""
    if isinstance(node, ast.Call) and isinstance(node.func, ast.Attribute) and isinstance(node.func.value, ast.Name) \
            and node.func.value.id == var and not node.args:
        return node.func.attr
    return _norm(ast.unparse(node))


def _offset_plus(node, offset_name, var):
    """`offset + var.meth()` -> 'meth'"""
    if isinstance(node, ast.BinOp) and isinstance(node.op, ast.Add) and isinstance(node.left, ast.Name) and node.left.id == offset_name:
        return _size_call(node.right, var)
    return None


def gluetable():
    tree = ast.parse(open(os.path.join(REPO, "rockit", "casadi_helpers.py")).read())
    rows = []
    # for_all_primitives:  for p in prim:  callback(p, rhs_type(p.sparsity(), rhs[offset:offset+p.nnz()]));  offset += p.nnz()
    fn = _find_function(tree, None, "for_all_primitives")
    found = 0
    if fn is not None:
        for loop in [n for n in ast.walk(fn) if isinstance(n, ast.For) and isinstance(n.target, ast.Name)]:
            var = loop.target.id
            for n in ast.walk(loop):
                if isinstance(n, ast.Subscript) and isinstance(n.slice, ast.Slice) and isinstance(n.slice.lower, ast.Name) and n.slice.upper is not None:
                    size = _offset_plus(n.slice.upper, n.slice.lower.id, var)
                    if size is not None:
                        rows.append(("for_all_primitives", "slice", size)); found += 1
                if isinstance(n, ast.AugAssign) and isinstance(n.op, ast.Add) and isinstance(n.target, ast.Name) and n.target.id == "offset":
                    rows.append(("for_all_primitives", "stride", _size_call(n.value, var))); found += 1
    # get_ranges_dict:  next_offset = offset+e.nnz();  ret[e] = list(range(offset, next_offset));  offset = next_offset
    fn = _find_function(tree, None, "get_ranges_dict")
    if fn is not None:
        for loop in [n for n in ast.walk(fn) if isinstance(n, ast.For) and isinstance(n.target, ast.Name)]:
            var = loop.target.id
            defs = {}
            for st in loop.body:
                if isinstance(st, ast.Assign) and len(st.targets) == 1 and isinstance(st.targets[0], ast.Name):
                    defs[st.targets[0].id] = st.value
            for n in ast.walk(loop):
                if isinstance(n, ast.Call) and isinstance(n.func, ast.Name) and n.func.id == "range" and len(n.args) == 2 \
                        and isinstance(n.args[0], ast.Name) and n.args[0].id == "offset":
                    upper = n.args[1]
                    if isinstance(upper, ast.Name) and upper.id in defs:
                        upper = defs[upper.id]
                    size = _offset_plus(upper, "offset", var)
                    rows.append(("get_ranges_dict", "range", size if size is not None else _norm(ast.unparse(n.args[1])))); found += 1
            for st in loop.body:
                if isinstance(st, ast.Assign) and len(st.targets) == 1 and isinstance(st.targets[0], ast.Name) and st.targets[0].id == "offset":
                    val = st.value
                    if isinstance(val, ast.Name) and val.id in defs:
                        val = defs[val.id]
                    size = _offset_plus(val, "offset", var)
                    rows.append(("get_ranges_dict", "stride", size if size is not None else _norm(ast.unparse(st.value)))); found += 1
                if isinstance(st, ast.AugAssign) and isinstance(st.target, ast.Name) and st.target.id == "offset":
                    rows.append(("get_ranges_dict", "stride", _size_call(st.value, var))); found += 1
    L = ["/-! GENERATED by tools/extract.py from /repo/rockit/casadi_helpers.py — do not edit. -/",
         "namespace Rockit.Generated", "",
         "/-- (function, what, size used): which size of the loop variable gives the length of the slice / range handed to a symbol and",
         "the advance of the running offset, in `for_all_primitives` (set_value / set_initial / set_der on a concatenation) and in",
         "`get_ranges_dict` (rows of every algebraic symbol) -/",
         "def glueSizes : List (String × String × String) := ["]
    for i, (a, b_, c) in enumerate(rows):
        L.append('  ("%s", "%s", "%s")%s' % (a, b_, c, "," if i < len(rows) - 1 else ""))
    L += ["]", "", "end Rockit.Generated", ""]
    path = os.path.join(OUT, "Glue.lean")
    new_src = "\n".join(L)
    if not os.path.exists(path) or open(path).read() != new_src:
        open(path, "w").write(new_src)
    return rows


# ---------------------------------------------------------------------------------------------
# C02 / C03 / C06: where DirectCollocation places the collocation times — the step length used and the formula, as written in the loop
# that fills self.tr (three independent seeded changes hit this block)
def roottimes():
    tree = ast.parse(open(os.path.join(REPO, "rockit", "direct_collocation.py")).read())
    fn = _find_function(tree, "DirectCollocation", "add_constraints")
    dt_src, formula, dt_in_loop, n_tr_loops = "", "", False, 0
    if fn is not None:
        for loop in [n for n in fn.body if isinstance(n, ast.For)]:
            appends = [n for n in ast.walk(loop) if isinstance(n, ast.Call) and isinstance(n.func, ast.Attribute) and n.func.attr == "append"
                       and _norm(ast.unparse(n.func.value)) == "self.tr"]
            if not appends:
                continue
            n_tr_loops += 1
            for st in loop.body:
                if isinstance(st, ast.Assign) and len(st.targets) == 1 and isinstance(st.targets[0], ast.Name) and st.targets[0].id == "dt":
                    dt_src = _norm(ast.unparse(st.value))
                    dt_in_loop = True
            for n in ast.walk(loop):
                if isinstance(n, ast.ListComp) and "self.tau" in ast.unparse(n.elt):
                    formula = _norm(ast.unparse(n.elt))
            if isinstance(loop.target, ast.Name) and _norm(ast.unparse(loop.iter)) == "range(self.N)":
                formula = formula + "|for:" + loop.target.id
    L = ["/-! GENERATED by tools/extract.py from /repo/rockit/direct_collocation.py (DirectCollocation.add_constraints) — do not edit. -/",
         "namespace Rockit.Generated", "",
         "/-- the loop that fills `self.tr` (collocation times): the step length it uses, whether that is computed inside the loop over the",
         "control intervals, the formula of one collocation time, and how many such loops there are -/",
         'def rootTimeDt : String := "%s"' % dt_src,
         "def rootTimeDtPerInterval : Bool := %s" % str(dt_in_loop).lower(),
         'def rootTimeFormula : String := "%s"' % formula,
         "def rootTimeLoops : Nat := %d" % n_tr_loops, "", "end Rockit.Generated", ""]
    path = os.path.join(OUT, "RootTimes.lean")
    new_src = "\n".join(L)
    if not os.path.exists(path) or open(path).read() != new_src:
        open(path, "w").write(new_src)
    return dt_src, dt_in_loop, formula, n_tr_loops


SCALE_SITE_FILES = ["direct_collocation.py", "multiple_shooting.py", "single_shooting.py", "direct_method.py", "sampling_method.py"]
# what the first argument of opti.variable(...) is built from -> (kind, the scale expression the site must hand to Opti)
SCALE_SITE_KINDS = [("stage.nx", "x", "scale_x"), ("stage.nz", "z", "scale_z"), ("stage.nu", "u", "scale_u"),
                    ("s.numel()", "symbol", "stage._scale[s]"), ("v.shape[0]", "variable", "stage._scale[v]")]


def scalesites():
    """every `opti.variable(...)` call of the transcription methods that creates decision variables for DECLARED symbols (states,
    algebraic variables, controls, variables): which kind it is and whether it carries the scale of that kind"""
    rows = []
    for f in SCALE_SITE_FILES:
        tree = ast.parse(open(os.path.join(REPO, "rockit", f)).read())
        for cls in [n for n in tree.body if isinstance(n, ast.ClassDef)]:
            for fn in [n for n in cls.body if isinstance(n, ast.FunctionDef)]:
                for n in ast.walk(fn):
                    if not (isinstance(n, ast.Call) and isinstance(n.func, ast.Attribute) and n.func.attr == "variable"
                            and isinstance(n.func.value, ast.Name) and n.func.value.id == "opti"):
                        continue
                    first = _norm(ast.unparse(n.args[0])) if n.args else ""
                    kind, want = "other", ""
                    for token, k, w in SCALE_SITE_KINDS:
                        if token in first:
                            kind, want = k, w
                            break
                    sc = [kw for kw in n.keywords if kw.arg == "scale"]
                    sc_src = _norm(ast.unparse(sc[0].value)) if sc else ""
                    ok = bool(want) and want in sc_src
                    rows.append((f[:-3], cls.name + "." + fn.name, n.lineno, kind, first, sc_src, ok))
    L = ["/-! GENERATED by tools/extract.py from /repo/rockit/{%s} — do not edit. -/" % ",".join(SCALE_SITE_FILES),
         "namespace Rockit.Generated", "",
         "/-- one `opti.variable(...)` call of a transcription method: (module, function, kind of declared symbol it creates decision",
         "variables for (`other`: time and helper variables), first argument, the `scale=` argument as written, whether that is the",
         "scale of the kind) -/",
         "structure VariableSite where",
         "  file : String", "  fn : String", "  kind : String", "  shape : String", "  scale : String", "  scaled : Bool",
         "  deriving Repr, DecidableEq", "",
         "def variableSites : List VariableSite := ["]
    L.append(",\n".join('  { file := "%s", fn := "%s", kind := "%s", shape := "%s", scale := "%s", scaled := %s }' %
                         (f, fn, k, first.replace('"', "'"), sc.replace('"', "'"), str(ok).lower()) for f, fn, _ln, k, first, sc, ok in rows))
    L += ["]", ""]
    # the local names the collocation sites use: what they are bound to in DirectCollocation.add_variables
    tree = ast.parse(open(os.path.join(REPO, "rockit", "direct_collocation.py")).read())
    fn = _find_function(tree, "DirectCollocation", "add_variables")
    binds = []
    if fn is not None:
        for st in ast.walk(fn):
            if isinstance(st, ast.Assign) and len(st.targets) == 1 and isinstance(st.targets[0], ast.Name) and st.targets[0].id.startswith("scale_"):
                binds.append((st.targets[0].id, _norm(ast.unparse(st.value))))
    L += ["/-- what the local names `scale_x`, `scale_z`, `scale_u` of `DirectCollocation.add_variables` are bound to (every assignment) -/",
          "def scaleLocals : List (String × String) := [" + ", ".join('("%s", "%s")' % b for b in binds) + "]", "",
          "end Rockit.Generated", ""]
    path = os.path.join(OUT, "Scales.lean")
    new_src = "\n".join(L)
    if not os.path.exists(path) or open(path).read() != new_src:
        open(path, "w").write(new_src)
    return rows


def objectiveflow():
    """how terms reach the objective of the Opti shared by an OCP and all its stages: the body of OptiWrapper.add_objective, every call
    of clear_objective, and every `<opti>.add_objective(...)` call of the method classes with its argument"""
    files = ["direct_method.py", "sampling_method.py", "spline_method.py", "multiple_shooting.py", "single_shooting.py", "direct_collocation.py", "stage.py", "ocp.py"]
    body, clears, calls = "", [], []
    for f in files:
        path = os.path.join(REPO, "rockit", f)
        if not os.path.exists(path):
            continue
        tree = ast.parse(open(path).read())
        for cls in [n for n in tree.body if isinstance(n, ast.ClassDef)]:
            for fn in [n for n in cls.body if isinstance(n, ast.FunctionDef)]:
                if cls.name == "OptiWrapper" and fn.name == "add_objective":
                    body = ";".join(_norm(ast.unparse(st)) for st in fn.body)
                for n in ast.walk(fn):
                    if isinstance(n, ast.Call) and isinstance(n.func, ast.Attribute):
                        recv = _norm(ast.unparse(n.func.value))
                        if n.func.attr == "clear_objective":
                            clears.append(cls.name + "." + fn.name)
                        if n.func.attr == "add_objective" and recv.endswith("opti"):
                            calls.append((cls.name + "." + fn.name, _norm(ast.unparse(n.args[0])) if n.args else ""))
    L = ["/-! GENERATED by tools/extract.py from /repo/rockit — do not edit. -/", "namespace Rockit.Generated", "",
         "/-- body of `OptiWrapper.add_objective` -/", 'def optiAddObjective : String := "%s"' % body.replace('"', "'"), "",
         "/-- functions that call `clear_objective` -/", "def clearObjectiveCalls : List String := " + lean_str_list(clears), "",
         "/-- (function, argument) of every `<…>opti.add_objective(…)` call of the method classes -/",
         "def objectiveCalls : List (String × String) := [" + ", ".join('("%s", "%s")' % (a, b.replace('"', "'")) for a, b in calls) + "]", "",
         "end Rockit.Generated", ""]
    path = os.path.join(OUT, "Objective.lean")
    new_src = "\n".join(L)
    if not os.path.exists(path) or open(path).read() != new_src:
        open(path, "w").write(new_src)
    return body, clears, calls


def main():
    rows = _main_inval()
    roottimes()
    scalesites()
    objectiveflow()
    guards()
    infcert()
    clonetable()
    readstable()
    rktable()
    gluetable()
    return rows


if __name__ == "__main__":
    if len(sys.argv) > 1 and sys.argv[1] == "guards":
        for r in guards():
            print(r)
    else:
        for mi, clears, writes in main():
            print("%-6s %-22s clears=%-5s live=%-5s query=%-5s writes=%s storesAlways=%s" % (mi.cls, mi.name, clears, mi.live, mi.query, writes, sorted(mi.stores_always)))
